"""Shared by C03/C04/C05: JSON histories from harness/store -> Coq terms of Store.Model / Run.Store."""
import json, os, collections
import vlib

ERRS = {"EMissingNode", "EMissingService", "ENoSession", "EInvalidSession", "EMissingSessionID", "EBadSessionCheck",
        "ESimilarName", "ECheckNodeMismatch", "EStale", "ENotFound", "EGuard"}


def cs(s):
    """Coq string literal (std++ string scope); non-ASCII and quotes via explicit bytes."""
    b = s.encode("utf-8")
    if all(32 <= c < 127 and c != 34 for c in b):
        return '"%s"' % s
    out = "EmptyString"
    for c in reversed(b):
        out = "(String (Ascii.ascii_of_N %d) %s)" % (c, out)
    return out


def cb(b):
    return "true" if b else "false"


def cn(n):
    return "%d" % int(n)


def cbytes(hexs):
    b = bytes.fromhex(hexs)
    return "[" + ";".join(str(x) for x in b) + "]"


def clist(items):
    return "[" + "; ".join(items) + "]"


def kvent(r):
    return "(KV %s %s %s %s %s %s)" % (cbytes(r["v"]), cn(r["f"]), cs(r["s"]), cn(r["l"]), cn(r["c"]), cn(r["m"]))


def kvreq(q):
    return "(KVReq %s %s %s %s %s %s)" % (cs(q["key"]), cbytes(q["value"]), cn(q["flags"]), cs(q["session"]), cn(q["index"]), cn(q["lock"]))


KVVERB = {"set": "VSet", "delete": "VDelete", "delete-cas": "VDeleteCAS", "delete-tree": "VDeleteTree", "cas": "VCAS",
          "lock": "VLock", "unlock": "VUnlock", "get": "VGet", "get-or-empty": "VGetOrEmpty", "get-tree": "VGetTree",
          "check-session": "VCheckSession", "check-index": "VCheckIndex", "check-not-exists": "VCheckNotExists"}
CATVERB = {"get": "CGet", "set": "CSet", "cas": "CCAS", "delete": "CDelete", "delete-cas": "CDeleteCAS"}


def checkreq(c):
    return "(CheckReq %s %s %s %s %s %s %s %s)" % (cs(c["node"]), cs(c["id"]), cn(c["status"]), cs(c["service"]),
                                                   cb(c["sess_type"]), cs(c["sess_name"]), cn(c["output"]), cn(c["index"]))


def txnop(o):
    k = o["kind"]
    if k == "kv":
        return "TKV %s %s" % (KVVERB[o["verb"]], kvreq(o["kv"]))
    if k == "node":
        return "TNode %s %s %s %s %s" % (CATVERB[o["verb"]], cs(o.get("node", "")), cs(o.get("id", "")), cn(o.get("addr", 0)), cn(o.get("index", 0)))
    if k == "service":
        return "TService %s %s %s %s %s %s" % (CATVERB[o["verb"]], cs(o.get("node", "")), cs(o.get("svc", "")), cs(o.get("name", "")),
                                               cn(o.get("port", 0)), cn(o.get("index", 0)))
    if k == "check":
        return "TCheck %s %s" % (CATVERB[o["verb"]], checkreq(o["check"]))
    if k == "session":
        return "TSessionDelete %s" % cs(o.get("sid", ""))
    raise ValueError(k)


def cmd(c):
    k = c["kind"]
    if k == "kvs":
        t = "KVS %s %s" % (KVVERB[c["verb"]], kvreq(c["kv"]))
    elif k == "session_create":
        t = "SessionCreate %s (Sess %s %s %s %s %s 0)" % (cs(c.get("sid", "")), cs(c.get("node", "")), cs(c.get("name", "")),
                                                         cb(c.get("delete", False)), clist([cs(x) for x in c.get("checks") or []]),
                                                         cb(c.get("delay", False)))
    elif k == "session_destroy":
        t = "SessionDestroy %s" % cs(c.get("sid", ""))
    elif k == "register":
        svc = "None"
        if c.get("has_svc"):
            svc = "(Some (%s, %s, %s))" % (cs(c.get("svc", "")), cs(c.get("svc_name", "")), cn(c.get("port", 0)))
        t = "Register %s %s %s %s %s %s" % (cs(c.get("node", "")), cs(c.get("id", "")), cn(c.get("addr", 0)), cb(c.get("skip", False)),
                                            svc, clist([checkreq(x) for x in c.get("reg_checks") or []]))
    elif k == "deregister":
        t = "Deregister %s %s %s" % (cs(c.get("node", "")), cs(c.get("svc", "")), cs(c.get("check_id", "")))
    elif k == "txn":
        t = "Txn %s" % clist([txnop(o) for o in c.get("ops") or []])
    elif k == "reap":
        t = "Reap %s" % cn(c.get("upto", 0))
    elif k == "query_set":
        t = "QuerySet %s %s" % (cs(c.get("qid", "")), cs(c.get("sid", "")))
    elif k == "query_delete":
        t = "QueryDelete %s" % cs(c.get("qid", ""))
    else:
        raise ValueError(k)
    return "(%s, %s)" % (cn(c["idx"]), t)


def node_t(r):
    return "(Node %s %s %s %s)" % (cs(r["id"]), cn(r["addr"]), cn(r["c"]), cn(r["m"]))


def svc_t(r):
    return "(Svc %s %s %s %s)" % (cs(r["name"]), cn(r["port"]), cn(r["c"]), cn(r["m"]))


def check_t(r):
    if r["okind"] == "user":
        out = "(OUser %s)" % cn(r["on"])
    elif r["okind"] == "inforce":
        out = "(OInForce %s)" % cs(r["osid"])
    elif r["okind"] == "invalid":
        out = "(OInvalid %s)" % cs(r["osid"])
    else:
        raise ValueError("unexpected check output " + r["okind"])
    return "(Chk %s %s %s %s %s %s %s %s)" % (cn(r["status"]), cs(r["svc"]), cs(r["svcname"]), cb(r["stype"]), cs(r["sname"]), out,
                                              cn(r["c"]), cn(r["m"]))


def err_t(e):
    if e not in ERRS:
        raise ValueError("unmapped implementation error: " + e)
    return e


def tres(r):
    k = r["kind"]
    if k == "kv":
        return "RKV %s %s true" % (cs(r["kv"]["k"]), kvent(r["kv"]))
    if k == "node":
        return "RNode %s %s" % (cs(r["node"]["name"]), node_t(r["node"]))
    if k == "service":
        return 'RService "" %s %s' % (cs(r["svc"]["id"]), svc_t(r["svc"]))
    if k == "check":
        return "RCheck %s %s %s" % (cs(r["check"]["node"]), cs(r["check"]["id"]), check_t(r["check"]))
    raise ValueError(k)


def res(r):
    k = r["kind"]
    if k == "nil":
        return "CNil"
    if k == "bool":
        return "CBool %s" % cb(r.get("bool", False))
    if k == "str":
        return "CStr %s" % cs(r.get("str", ""))
    if k == "err":
        return "CErr %s" % err_t(r["err"])
    if k == "txn":
        return "CTxn %s %s" % (clist([tres(x) for x in r.get("results") or []]),
                               clist(["(%d%%nat, %s)" % (e[0], err_t(e[1])) for e in r.get("errors") or []]))
    raise ValueError(k)


def dump(d):
    return ("(Dump %s %s %s %s %s %s %s %s %s %s)" % (
        clist(["(%s, %s)" % (cs(r["k"]), kvent(r)) for r in d["kvs"]]),
        clist(["(%s, %s)" % (cs(t[0]), cn(t[1])) for t in d["tombs"]]),
        clist(["(%s, Sess %s %s %s %s %s %s)" % (cs(r["id"]), cs(r["node"]), cs(r["name"]), cb(r["del"]),
                                               clist([cs(x) for x in r["checks"]]), cb(r["delay"]), cn(r["c"])) for r in d["sessions"]]),
        clist(["(%s, %s, %s)" % (cs(m[0]), cs(m[1]), cs(m[2])) for m in d["schecks"]]),
        clist(["(%s, %s)" % (cs(q[0]), cs(q[1])) for q in d["queries"]]),
        clist(["(%s, %s)" % (cs(r["name"]), node_t(r)) for r in d["nodes"]]),
        clist(["(%s, %s, %s)" % (cs(r["node"]), cs(r["id"]), svc_t(r)) for r in d["services"]]),
        clist(["(%s, %s, %s)" % (cs(r["node"]), cs(r["id"]), check_t(r)) for r in d["checks"]]),
        clist(["(%s, %s)" % (cs(i[0]), cn(i[1])) for i in d["index"]]),
        clist([cs(k) for k in d["lockdelay"]])))


def case(h):
    return "Case %s %s %s" % (clist([cmd(c) for c in h["cmds"]]), clist(["(%s)" % res(r) for r in h["results"]]), dump(h["final"]))


def shard_text(hs):
    body = ";\n  ".join(case(h) for h in hs)
    return ("From stdpp Require Import gmap strings.\nFrom Coq Require Import NArith.\n"
            "From Verif Require Import Store.Model Run.Store.\nLocal Open Scope N_scope.\n"
            "Definition cases : list case := [\n  %s\n].\n"
            "Definition M := Eval vm_compute in mismatches cases.\nPrint M.\n" % body)


def shrink(binp, workdir, cmds, kind, own_prefix, budget=250):
    """Greedy one-at-a-time removal of commands (and of transaction operations) re-running the
    implementation: keep a removal when the same oracle kind still fails."""
    def fails(cs):
        f = os.path.join(workdir, "shrink.json")
        json.dump({"cmds": cs}, open(f, "w"))
        rc, out = vlib.sh([binp, "-replay", f], timeout=120)
        if rc != 0:
            return False
        try:
            h = json.loads(out.strip().split("\n")[-1])
        except Exception:
            return False
        return any(o.split(": ", 1)[1].startswith(own_prefix + ":" + kind) for o in h["oracle"])
    cur = list(cmds)
    if not fails(cur):
        return cmds
    n = 0
    i = len(cur) - 1
    while i >= 0 and n < budget:
        cand = cur[:i] + cur[i + 1:]
        n += 1
        if cand and fails(cand):
            cur = cand
        i -= 1
    # shrink transactions
    for i, c in enumerate(cur):
        if c["kind"] == "txn" and len(c.get("ops") or []) > 1:
            j = len(c["ops"]) - 1
            while j >= 0 and n < budget:
                c2 = dict(c); c2["ops"] = c["ops"][:j] + c["ops"][j + 1:]
                cand = cur[:i] + [c2] + cur[i + 1:]
                n += 1
                if c2["ops"] and fails(cand):
                    cur, c = cand, c2
                j -= 1
    return cur


def run_store_check(ctx, prop, prop_file, n_quick, n_thorough, own_prefix, extra_trusted, rule):
    """Common driver: proof stage, harness run, Coq comparison, oracle verdicts for `own_prefix`."""
    info, ok = vlib.proof_stage(ctx, prop_file, ["Run/Store.v"])
    cov = dict(info)
    cov["trusted_base"] = vlib.STD_TRUSTED + [
        "modelled rather than verified: go-memdb, msgpack decoding, the FSM dispatch; catalog index rows, derived catalog tables, coordinates and peer rows are outside the core model (Store/Model.v header)",
        "node names are compared exactly (EqualFold not modelled; generators use lower-case names)"] + extra_trusted
    assumptions = ["go-memdb transaction semantics (atomic commit/abort)", "generators stay inside the modelled command universe"]
    if not ok:
        cov.update({"evaluations": 0, "distinct_nontrivial": 0, "rule": "proof stage failed", "samples": []})
        return ctx.finish(cov, assumptions)
    binp = vlib.go_build("store")
    out = os.path.join(ctx.workdir, "hist.jsonl")
    n = n_quick if ctx.tier == "quick" else n_thorough
    rc, o = vlib.sh([binp, "-seed", str(ctx.seed), "-tier", ctx.tier, "-n", str(n), "-out", out], timeout=3000)
    if rc != 0:
        raise vlib.BuildError("harness run failed: " + o[-2000:])
    hs = [json.loads(l) for l in open(out)]
    kinds, errs, txn = collections.Counter(), collections.Counter(), collections.Counter()
    lens = collections.Counter()
    seen = set()
    for h in hs:
        lens[len(h["cmds"]) // 5 * 5] += 1
        seen.add(json.dumps(h["cmds"], sort_keys=True))
        for c, r in zip(h["cmds"], h["results"]):
            kinds[c["kind"] + (":" + c["verb"] if c["kind"] == "kvs" else "")] += 1
            if r["kind"] == "err":
                errs[r["err"]] += 1
            if r["kind"] == "txn":
                txn["ok" if not r.get("errors") else "failed"] += 1
                for e in r.get("errors") or []:
                    errs["txn:" + e[1]] += 1
    # ---- model vs implementation
    per = 150
    shards = [hs[i:i + per] for i in range(0, len(hs), per)]
    try:
        texts = [shard_text(s) for s in shards]
    except ValueError as e:
        ctx.violation({"kind": "correspondence", "theorem": "Run.Store.check", "what": "implementation produced an observation outside the model's vocabulary: %s" % e}, found_input=False)
        texts, shards = [], []
    results = vlib.coq_run_shards(prop, texts)
    mism = []
    for s, (okk, idx, raw) in zip(shards, results):
        if not okk:
            ctx.violation({"kind": "case-file-failed", "log": raw}, found_input=False)
            continue
        mism += [s[i] for i in idx]
    # ---- oracles
    own, other = [], collections.Counter()
    for h in hs:
        for o in h["oracle"]:
            tag = o.split(": ", 1)[1]
            if tag.startswith(own_prefix + ":"):
                own.append((h, o))
            else:
                other[tag.split(":")[0]] += 1
    unknown = []
    for h, o in own:
        tag = o.split(": ", 1)[1]
        sig = {"kind": tag.split(":")[1]}
        f = vlib.match_known(prop, sig)
        if f:
            ctx.known(f, f["what"])
        else:
            unknown.append((h, o, sig))
    seen_kinds = set()
    for h, o, sig in unknown:
        if sig["kind"] in seen_kinds or len(seen_kinds) >= 3:
            continue
        seen_kinds.add(sig["kind"])
        step = int(o.split(":")[0].split()[1])
        small = shrink(binp, ctx.workdir, h["cmds"][:step + 1], sig["kind"], own_prefix)
        ctx.violation({"kind": "oracle", "reason": o, "signature": sig, "cmds": small,
                       "original_length": step + 1, "replay_cmd": "build/bin/store -replay <this file>"})
    if mism and not unknown:
        # correspondence broken but the oracle was silent on the generated histories: search harder
        # (8x more histories from another seed, oracle only) for a concrete failing history
        out2 = os.path.join(ctx.workdir, "hist_search.jsonl")
        vlib.sh([binp, "-seed", str(ctx.seed + 7919), "-tier", ctx.tier, "-n", str(8 * n), "-out", out2], timeout=3000)
        found = []
        for l in open(out2):
            h2 = json.loads(l)
            for o in h2["oracle"]:
                tag = o.split(": ", 1)[1]
                if tag.startswith(own_prefix + ":") and not vlib.match_known(prop, {"kind": tag.split(":")[1]}):
                    found.append((h2, o, {"kind": tag.split(":")[1]}))
        cov_search = {"extra_histories": 8 * n, "found": len(found)}
        ctx.notes.append(cov_search)
        for h2, o, sig in found[:1]:
            step = int(o.split(":")[0].split()[1])
            small = shrink(binp, ctx.workdir, h2["cmds"][:step + 1], sig["kind"], own_prefix)
            ctx.violation({"kind": "oracle", "reason": o, "signature": sig, "cmds": small, "original_length": step + 1,
                           "found_by": "extended search after a correspondence mismatch",
                           "replay_cmd": "build/bin/store -replay <this file>"})
        unknown = found
    if mism and not unknown:
        h = mism[0]
        ctx.violation({"kind": "correspondence", "theorem": "Run.Store.check (model run = implementation results and final store)",
                       "mismatching_histories": len(mism), "cmds": h["cmds"], "results": h["results"], "final": h["final"]},
                      found_input=False)
    ostats = collections.Counter()
    for h in hs:
        ostats.update(h.get("stats") or {})
    cov.update({
        "oracle_clause_counts": dict(ostats),
        "evaluations": len(hs),
        "distinct_nontrivial": len(seen),
        "rule": rule,
        "traces_validated_against_impl": len(hs) - len(mism),
        "commands_executed": sum(kinds.values()),
        "model_mismatches": len(mism),
        "oracle_failures_own": len(own), "oracle_failures_unknown": len(unknown),
        "oracle_failures_other_properties": dict(other),
        "command_mix": dict(kinds), "error_kinds": dict(errs), "transactions": dict(txn),
        "history_length_histogram": {str(k): v for k, v in sorted(lens.items())},
        "samples": [{"cmds": h["cmds"][:4], "results": h["results"][:4]} for h in hs[:2]],
        "exhaustive": False,
    })
    return ctx.finish(cov, assumptions)
