"""C20 — snapshot archives: exact round trip, corruption always detected."""
import json, os, collections
import vlib
from vlib import coq_bytes, coq_bool, coq_list, coq_N, coq_str

PROP = "C20"
PROP_FILE = "Properties/C20.v"
SENTINEL = "[999]%N"   # a digest that is the hash of no byte string the case contains


def case_to_coq(c):
    ms = coq_list(["Member %s %s %s" % (coq_str(bytes.fromhex(bytes(m["name"], "utf-8").hex())), coq_bytes(m["data"]), coq_bool(m["intact"]))
                   for m in c["members"]])
    dec = coq_list(["(%s, %s, %s)" % (coq_N(d["cur"]), coq_bytes(d["data"]),
                                     ("Some %s" % coq_N(d["new"])) if d["ok"] else "None") for d in c["dec"]])
    lines = coq_list([("Some (%s, %s)" % (coq_bytes(l["pre"]) if l["known"] else SENTINEL,
                                          coq_str(bytes.fromhex(l["file"])))) if l["ok"] else "None"
                      for l in c["lines"]])
    e = c["expect"]
    exp = ("Ok (%s, %s)" % (coq_N(e["meta"]), coq_bytes(e["state"]))) if e["ok"] else "Err (%s)" % ERR[e["err"]]
    return "Case %s %s %s %s %s %s %s (%s)" % (coq_bool(c["hdr"]), ms, coq_bool(c["term"]), coq_bool(c["trailer"]),
                                               dec, coq_bytes(c["sums"]), lines, exp)


ERR = {1: "EGzipHeader", 2: "EFraming", 3: "EReadMeta", 4: "EDecodeMeta", 5: "EReadState", 6: "EReadSums",
       7: "EUnexpected", 8: "ESumsParse", 9: "EListMissing", 10: "EHashMismatch", 11: "EFileMissing",
       12: "EGzipTrailer", 13: "ENotInArchive"}


def shard_text(cases):
    body = ";\n  ".join(case_to_coq(c) for c in cases)
    return ("From Verif Require Import Base.Prelude Archive.Model Run.C20.\n"
            "Definition cases : list case := [\n  %s\n].\n"
            "Definition M := Eval vm_compute in mismatches cases.\nPrint M.\n" % body)


def signature(c):
    """structured signature of an oracle failure (for known_findings matching)"""
    o = c["oracle"]
    sig = {"kind": o.split(":")[0]}
    if o.startswith("accepted-with-unexpected-member"):
        sig["members"] = sorted(set(m["name"] for m in (c.get("members") or [])))[:6]
    if o.startswith("accepted-without-member:"):
        sig["member"] = o.split(":", 1)[1]
        sig["orig_state_empty"] = (c["orig_state_len"] == 0)
    return sig


def run(ctx):
    info, ok = vlib.proof_stage(ctx, PROP_FILE, ["Run/C20.v"])
    cov = dict(info)
    cov["trusted_base"] = vlib.STD_TRUSTED + [
        "Section hypotheses of Properties/C20.v: SHA-256 treated as injective (collision freedom); encoding/json round trip of raft.SnapshotMeta and failure on empty input; bufio.Scanner+fmt.Sscanf line codec round trip",
        "archive/tar and compress/gzip (stdlib) map damaged bytes to the member-level view the model reads; digests in SHA256SUMS lines are named by their preimage among the byte strings of the case (sound under collision freedom)",
        "modelled, not verified: tar/gzip framing, temp-file handling, raft.Restore itself"]
    assumptions = ["hash collision freedom", "stdlib tar/gzip/json/Sscanf as oracles for the external Section variables"]
    if not ok:
        cov.update({"evaluations": 0, "distinct_nontrivial": 0, "rule": "proof stage failed", "samples": []})
        return ctx.finish(cov, assumptions)

    binp = vlib.go_build("archive")
    out = os.path.join(ctx.workdir, "cases.jsonl")
    rc, o = vlib.sh([binp, "-seed", str(ctx.seed), "-tier", ctx.tier, "-out", out], timeout=3000)
    if rc != 0:
        raise vlib.BuildError("harness run failed: " + o[-2000:])

    total = 0
    kinds = collections.Counter()
    verdicts = collections.Counter()
    coq_cases, oracle_fail = [], []
    accepted_damaged = 0
    for line in open(out):
        c = json.loads(line)
        total += 1
        kinds[c["kind"].split("@")[0].split(":")[0].split("#")[0] + ("/gz" if c["gz"] else "")] += 1
        verdicts["ok" if c["expect"]["ok"] else ERR[c["expect"]["err"]]] += 1
        if c["expect"]["ok"] and c["kind"] != "identity":
            accepted_damaged += 1
        if c["to_coq"]:
            coq_cases.append(c)
        if c["oracle"]:
            oracle_fail.append(c)

    # ---- model vs implementation, inside Coq ----
    per = 400
    shards = [coq_cases[i:i + per] for i in range(0, len(coq_cases), per)]
    res = vlib.coq_run_shards(PROP, [shard_text(s) for s in shards])
    mism = []
    for s, (okk, idx, raw) in zip(shards, res):
        if not okk:
            ctx.violation({"kind": "case-file-failed", "log": raw}, found_input=False)
            continue
        mism += [s[i] for i in idx]

    # ---- direct oracle on the implementation ----
    new_fail = []
    for c in oracle_fail:
        sig = signature(c)
        f = vlib.match_known(PROP, sig)
        if f:
            ctx.known(f, f["what"])
        else:
            new_fail.append(c)
    for c in new_fail[:5]:
        ctx.violation({"kind": "oracle", "reason": c["oracle"], "mutation": c["kind"], "gz": c["gz"],
                       "archive": c.get("archive", ""), "expect": c["expect"], "signature": signature(c),
                       "replay_cmd": "build/bin/archive -replay <this file>"})
    if mism and not new_fail:
        # correspondence broken, no failing input found by the oracle on any generated archive
        c = mism[0]
        ctx.violation({"kind": "correspondence", "theorem": "Run.C20.check (model read_gz = implementation)",
                       "mismatching_cases": len(mism), "first": {k: c[k] for k in ("kind", "gz", "archive", "members", "term", "trailer", "hdr", "lines", "expect")}},
                      found_input=False)

    cov.update({
        "evaluations": total,
        "distinct_nontrivial": len(coq_cases),
        "rule": "damaged archives generated from consul-written base archives (byte flips 0x01/0x80/0xFF at every/strided position, every truncation length, member removal/duplication/reordering/injection/renaming/replacement, plain and gzip); distinct_nontrivial = archives with a distinct member-level view AND evaluated in Coq against the model (small payloads); all archives get the direct oracle",
        "traces_validated_against_impl": len(coq_cases),
        "model_mismatches": len(mism),
        "oracle_failures": len(oracle_fail),
        "oracle_failures_unknown": len(new_fail),
        "accepted_damaged_archives": accepted_damaged,
        "mutation_kinds": dict(kinds),
        "verdict_histogram": dict(verdicts),
        "samples": [{"kind": c["kind"], "gz": c["gz"], "members": [(m["name"], len(m["data"]) // 2, m["intact"]) for m in c["members"]],
                     "term": c["term"], "expect": c["expect"]} for c in coq_cases[:3] + coq_cases[-3:]],
        "exhaustive": False,
    })
    return ctx.finish(cov, assumptions)
