"""C20 — snapshot archives: exact round trip, corruption always detected."""
import json, os, collections, time, gzip, base64
import vlib
from vlib import coq_bool, coq_list, coq_N, coq_str

PROP = "C20"
PROP_FILE = "Properties/C20.v"
SENTINEL = "[999]%N"   # a digest that is the hash of no byte string the case contains

ERR = {1: "EGzipHeader", 2: "EFraming", 3: "EReadMeta", 4: "EDecodeMeta", 5: "EReadState", 6: "EReadSums",
       7: "EUnexpected", 8: "ESumsParse", 9: "EListMissing", 10: "EHashMismatch", 11: "EFileMissing",
       12: "EGzipTrailer", 13: "ENotInArchive", 14: "ESumsScan"}
# 99 = an error text the harness does not recognise: it has no counterpart in the model, the oracle reports it
VERDICT_BITS = {1: "model-result-differs", 2: "glue-table-miss", 4: "outside-corrupt-relation",
                8: "writer-view-differs-from-model-write", 16: "dec_enc-fails-on-this-metadata"}


def coq_bytes_lit(b):
    """bytes -> Coq list N; runs of >= 64 equal bytes are written with Run.C20.rep"""
    if len(b) < 256:
        return "[" + ";".join(str(x) for x in b) + "]%N" if len(b) else "[]"
    parts, lit, i = [], [], 0
    while i < len(b):
        j = i
        while j < len(b) and b[j] == b[i]:
            j += 1
        if j - i >= 64:
            if lit:
                parts.append("[" + ";".join(str(x) for x in lit) + "]%N")
                lit = []
            parts.append("rep %d%%N %d%%N" % (j - i, b[i]))
        else:
            lit += list(b[i:j])
        i = j
    if lit:
        parts.append("[" + ";".join(str(x) for x in lit) + "]%N")
    return "(" + " ++ ".join(parts) + ")"


class Interner:
    """Byte strings of a case file are written once (Definition dK) and referred to by name: a
    damaged archive repeats most byte strings of the intact one, several times per case.  A string
    that differs from a named one in one byte, or is a prefix of one, is written as such
    (Run.C20.setb / Run.C20.pre): the case files are dominated by the cost of number literals."""

    def __init__(self):
        self.names, self.defs, self.bylen, self.strs = {}, [], {}, {}

    def __call__(self, b):
        if isinstance(b, str):
            b = bytes.fromhex(b)
        if len(b) < 8:
            return coq_bytes_lit(b)
        n = self.names.get(b)
        if n is not None:
            return n
        n = "d%d" % len(self.names)
        self.names[b] = n
        body = None
        for other in self.bylen.get(len(b), [])[:12]:
            diff = [i for i in range(len(b)) if b[i] != other[i]]
            if len(diff) == 1:
                body = "setb %s %d%%N %d%%N" % (self.names[other], diff[0], b[diff[0]])
                break
        if body is None:
            for other in self.anchors():
                if len(other) > len(b) and other.startswith(b):
                    body = "pre %s %d%%N" % (self.names[other], len(b))
                    break
        if body is None:
            body = coq_bytes_lit(b)
            self.bylen.setdefault(len(b), []).append(b)     # only literal strings serve as references
        self.defs.append("Definition %s : bytes := %s." % (n, body))
        return n

    def anchors(self):
        return [x for l in self.bylen.values() for x in l[:4]]

    def name(self, s):
        """member / file names"""
        if isinstance(s, str):
            s = s.encode("utf-8")
        n = self.strs.get(s)
        if n is None:
            n = "s%d" % len(self.strs)
            self.strs[s] = n
            self.defs.append("Definition %s : string := bs %s." % (n, coq_bytes_lit(s)))
        return n


coq_bytes = Interner()     # replaced per shard


def members_to_coq(ms):
    return coq_list(["Member %s %s %s" % (coq_bytes.name(m["name"]), coq_bytes(m["data"]), coq_bool(m["intact"]))
                     for m in ms])


def case_to_coq(c):
    ms = members_to_coq(c["members"])
    dec = coq_list(["(%s, %s, %s)" % (coq_N(d["cur"]), coq_bytes(d["data"]),
                                     ("Some %s" % coq_N(d["new"])) if d["ok"] else "None") for d in c["dec"]])
    lines = coq_list([("Some (%s, %s)" % (coq_bytes(l["pre"]) if l["known"] else SENTINEL,
                                          coq_bytes.name(bytes.fromhex(l["file"])))) if l["ok"] else "None"
                      for l in c["lines"]])
    e = c["expect"]
    exp = ("Ok (%s, %s)" % (coq_N(e["meta"]), coq_bytes(e["state"]))) if e["ok"] else "Err (%s)" % ERR[e["err"]]
    w = c.get("write")
    wr = "None" if not w else "(Some (W %s %s %s %s %s))" % (coq_bool(w["ord"]), coq_N(w["meta"]), coq_bytes(w["enc"]),
                                                           coq_bytes(w["state"]), coq_bytes(w["sums"]))
    return "Case %s %s %s %s %s %s %s %s %s base%d %s (%s)" % (
        coq_bool(c["gz"]), coq_bool(c["hdr"]), ms, coq_bool(c["term"]), coq_bool(c["trailer"]),
        dec, coq_bytes(c["sums"]), lines, coq_bool(c["scan"]), c["base"], wr, exp)


def shard_text(cases, bases):
    global coq_bytes
    coq_bytes = Interner()
    used = sorted(set(c["base"] for c in cases))
    defs = "\n".join(["Definition base%d : list member := %s." % (b, members_to_coq(bases[b])) for b in used])
    body = ";\n  ".join([case_to_coq(c) for c in cases])
    return ("From Verif Require Import Base.Prelude Archive.Model Run.C20.\n%s\n%s\n"
            "Definition cases : list case := [\n  %s\n].\n"
            "Definition M := Eval vm_compute in mismatches cases.\nPrint M.\n" % ("\n".join(coq_bytes.defs), defs, body))


def signature(c):
    """structured signature of an oracle failure (for known_findings matching)"""
    if c.get("sig"):
        return c["sig"]
    o = c["oracle"]
    sig = {"kind": o.split(":")[0]}
    if o.startswith("accepted-with-unexpected-member"):
        sig["members"] = sorted(set(m["name"] for m in (c.get("members") or [])))[:6]
    if o.startswith("accepted-without-member:"):
        sig["member"] = o.split(":", 1)[1]
        sig["orig_state_empty"] = (c["orig_state_len"] == 0)
    return sig


def kind_class(c):
    k = c["kind"]
    gz = "/gz" if c["gz"] else ""
    if k.endswith("+gz"):
        k = k[:-3]
    return k.split("@")[0].split(":")[0].split("#")[0] + gz


def run(ctx):
    stage, t0 = {}, time.time()
    info, ok = vlib.proof_stage(ctx, PROP_FILE, ["Run/C20.v"])
    stage["proof_s"] = round(time.time() - t0, 1)
    cov = dict(info)
    cov["trusted_base"] = vlib.STD_TRUSTED + [
        "Section hypotheses of Properties/C20.v, each passed only to the theorems that need it: SHA-256 treated as injective (collision freedom, H_inj); encoding/json on raft.SnapshotMeta: round trip (dec_enc), failure on empty input (dec_empty), non-empty encoding (enc_nonempty), an encoding does not split into two decodable pieces (dec_pieces); bufio.Scanner+fmt.Sscanf: round trip and no scanner error ON THE TWO LINES THE WRITER WRITES (parse_print, scan_print), no line from empty input (parse_empty). All but H_inj are tested directly against the Go standard library on every run (coverage.hypothesis_tests); dec_enc is FALSE for metadata holding a string that is not valid UTF-8 (open finding)",
        "archive/tar and compress/gzip (stdlib) map damaged bytes to the neutral member-level view the model reads and the decidable corruption test classifies; digests in SHA256SUMS lines are named by their preimage among the byte strings of the case (sound under collision freedom)",
        "modelled, not verified: tar/gzip framing, temp-file handling (snapshot.Read leaves its temp file behind on every refused archive: counted, not part of the property), raft.Restore itself; the writer's precondition metadata.Size = len(state) (raft's snapshot stores set it; with Size < len the writer silently archives only the first Size bytes -- counted under size_classes, the model's payload is that prefix)"]
    assumptions = ["hash collision freedom", "stdlib tar/gzip/json/Scanner/Sscanf as oracles for the external Section variables",
                   "writer precondition: metadata.Size = length of the state payload"]
    if not ok:
        cov.update({"evaluations": 0, "distinct_nontrivial": 0, "rule": "proof stage failed", "samples": []})
        return ctx.finish(cov, assumptions)

    t0 = time.time()
    binp = vlib.go_build("archive")
    out = os.path.join(ctx.workdir, "cases.jsonl")
    rc, o = vlib.sh([binp, "-seed", str(ctx.seed), "-tier", ctx.tier, "-out", out], timeout=6000)
    if rc != 0:
        raise vlib.BuildError("harness run failed: " + o[-2000:])

    stage["harness_build_and_run_s"] = round(time.time() - t0, 1)
    t0 = time.time()
    total = 0
    kinds = collections.Counter()
    verdicts = collections.Counter()
    accepted_class = collections.Counter()
    coq_cases, oracle_fail, bases = [], [], {}
    accepted_damaged = 0
    intact = collections.Counter()
    summary = {}
    for line in open(out):
        c = json.loads(line)
        if c["type"] == "base":
            bases[c["id"]] = c["members"]
            continue
        if c["type"] == "summary":
            summary = c
            continue
        # only the archives Coq evaluates and the oracle failures are written out one by one; the
        # harness counts all of them (summary.stats)
        if c.get("write"):
            intact["%s/ord=%s" % ("rewritten-by-harness" if c["write"].get("forced") else "written-by-consul",
                                  "meta-first" if c["write"]["ord"] else "state-first")] += 1
        if c["to_coq"]:
            coq_cases.append(c)
        if c["oracle"]:
            oracle_fail.append(c)
    if not summary:
        raise vlib.BuildError("harness wrote no summary line")
    for k, v in summary.get("stats", {}).items():
        if k == "total":
            total = v
        elif k == "accepted_damaged":
            accepted_damaged = v
        elif k.startswith("kind:"):
            kinds[k[5:]] = v
        elif k.startswith("class:"):
            accepted_class[k[6:]] = v
        elif k.startswith("verdict:"):
            e = k[8:]
            verdicts["ok" if e == "ok" else ERR.get(int(e), "unrecognised")] = v

    # ---- model vs implementation, corruption relation, writer: inside Coq ----
    per = 1000
    shards = [coq_cases[i:i + per] for i in range(0, len(coq_cases), per)]
    res = vlib.coq_run_shards(PROP, [shard_text(s, bases) for s in shards],
                              jobs=int(os.environ.get("VERIF_JOBS", "12")))
    stage["coq_case_files"] = len(shards)
    stage["coq_cases_s"] = round(time.time() - t0, 1)
    bad = []          # (case, verdict bits)
    for s, (okk, idx, raw) in zip(shards, res):
        if not okk:
            ctx.violation({"kind": "case-file-failed", "log": raw}, found_input=False)
            continue
        bad += [(s[v // 32], v % 32) for v in idx]

    # ---- direct oracle on the implementation ----
    new_fail, known_ids = [], set()
    known_hits = collections.Counter()
    for c in oracle_fail:
        sig = signature(c)
        f = vlib.match_known(PROP, sig)
        if f:
            ctx.known(f, f["what"])
            known_ids.add(c["id"])
            known_hits[json.dumps(sig, sort_keys=True)] += 1
        else:
            new_fail.append(c)
    for c in new_fail[:5]:
        ctx.violation({"kind": "oracle", "reason": c["oracle"], "mutation": c["kind"], "gz": c["gz"],
                       "archive": c.get("archive", ""), "expect": c["expect"], "signature": signature(c),
                       "replay": c.get("replay"),
                       "replay_cmd": "build/bin/archive -replay <this file>"})
    # the restore path and the hypothesis tests are oracles of their own
    rst = summary.get("restore", {})
    for f in (rst.get("failures") or [])[:3]:
        ctx.violation({"kind": "oracle", "reason": "restore-path", "detail": f,
                       "replay_cmd": "the archive (hex) is in detail: build/bin/archive -replay on {\"archive\":..., \"gz\":true}"})
    if rst.get("skipped"):
        ctx.violation({"kind": "restore-phase-skipped", "detail": rst["skipped"]}, found_input=False)
    hyp = (summary.get("hypotheses") or {}).get("counts", {})
    hyp_fail = {k: v for k, v in hyp.items() if "FAIL" in k}
    for k, v in hyp_fail.items():
        if k == "dec_enc/FAIL-invalid-utf8-replaced":
            # a fact about encoding/json, whatever consul does with it: dec_enc holds exactly for metadata
            # whose strings are valid UTF-8 (C20_roundtrip_partial / C20_roundtrip_refuted say what follows);
            # what consul makes of such metadata is judged by the round-trip oracle above
            continue
        ctx.violation({"kind": "hypothesis-refuted-by-stdlib", "hypothesis": k, "count": v,
                       "theorem": "Section hypothesis of Properties/C20.v"}, found_input=False)

    # a Coq verdict is explained when the same case is an oracle failure already reported, or when it
    # is exactly "dec_enc fails" on a case matching the open invalid-UTF-8 finding
    unexplained = [(c, v) for (c, v) in bad if not (v == 16 and c["id"] in known_ids)]
    bits = collections.Counter()
    for c, v in bad:
        for b, name in VERDICT_BITS.items():
            if v & b:
                bits[name] += 1
    if unexplained and not new_fail:
        c, v = unexplained[0]
        ctx.violation({"kind": "correspondence",
                       "theorem": "Run.C20.verdict (1 model read_gz = implementation; 2 glue tables complete; 4 view within corruptb/faultb of the intact view; 8 intact view = model write; 16 dec_enc)",
                       "verdict_bits": [name for b, name in VERDICT_BITS.items() if v & b],
                       "unexplained_cases": len(unexplained),
                       "archive": c.get("archive") or (gzip.decompress(base64.b64decode(c["archive_gz"])).hex() if c.get("archive_gz") else ""),
                       "gz": c["gz"],
                       "first": {k: c.get(k) for k in ("kind", "gz", "members", "term", "trailer", "hdr", "lines", "scan", "write", "expect", "base")},
                       "base_view": bases.get(c["base"])},
                      found_input=False)

    cov.update({
        "evaluations": total,
        "distinct_nontrivial": len(coq_cases),
        "rule": "damaged archives generated from consul-written base archives (every single-bit flip at every byte of the small bases -- thorough: all 255 XOR masks on the four smallest, all of them through the reader and the oracle, Coq evaluating all 255 on the two smallest plain archives and the single-bit masks and FF elsewhere --, masks 01/20/80/FF strided on the large ones (thorough: 9 masks, every byte), every truncation length, member removal/duplication/reordering/injection/renaming/replacement, SHA256SUMS rewrites incl. lines over 64 KiB, PAX/GNU long names, gzip multistream; plain and gzip), plus one intact archive per generated metadata value; distinct_nontrivial = archives with a distinct neutral member view AND evaluated in Coq (model result, glue completeness, corruptb/faultb against the intact view, model write for intact ones); all archives get the direct oracle",
        "traces_validated_against_impl": len(coq_cases),
        "model_mismatches": bits.get("model-result-differs", 0),
        "coq_verdict_bits": dict(bits),
        "coq_verdicts_unexplained": len(unexplained),
        "views_within_corrupt_relation": len(coq_cases) - bits.get("outside-corrupt-relation", 0),
        "intact_archives_equal_model_write": {"by_order": dict(intact),
                                              "failing": bits.get("writer-view-differs-from-model-write", 0)},
        "sums_line_order_of_go_writer": summary.get("orders", {}),
        "oracle_failures": len(oracle_fail),
        "oracle_failures_unknown": len(new_fail),
        "oracle_failures_known": dict(known_hits),
        "accepted_damaged_archives": accepted_damaged,
        "accepted_damaged_by_class": dict(accepted_class),
        "metadata_fuzz": {k: v for k, v in (summary.get("hypotheses") or {}).items() if k != "counts"},
        "hypothesis_tests": hyp,
        "restore_path": {k: v for k, v in rst.items() if k != "failures"},
        "restore_path_failures": len(rst.get("failures") or []),
        "temp_files_left_by_snapshot_Read": summary.get("temp_files_left_by_snapshot_Read"),
        "mutation_kinds": dict(kinds),
        "verdict_histogram": dict(verdicts),
        "samples": [{"kind": c["kind"], "gz": c["gz"], "members": [(m["name"], len(m["data"]) // 2, m["intact"]) for m in c["members"]],
                     "term": c["term"], "expect": c["expect"]} for c in coq_cases[:3] + coq_cases[-3:]],
        "exhaustive": False,
        "stage_seconds": stage,
    })
    return ctx.finish(cov, assumptions)
