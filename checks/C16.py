"""C16 — anti-entropy makes the catalog converge to the agent's local state."""
import json, os, collections
import vlib
from vlib import coq_bool, coq_list, coq_N

PROP = "C16"
PROP_FILE = "Properties/C16.v"
CONSUL = 9  # model id of the "consul" service and of the "serfHealth" check (harness/ae/main.go)
OUTCOME = ["OOk", "OFail", "ODenied", "ONotFound"]


def nl(xs):
    return "[" + ";".join("%d" % x for x in xs) + "]%N" if xs else "[]"


def pairs(xs):
    return "[" + ";".join("(%d,%d)" % (a, b) for a, b in xs) + "]%N" if xs else "[]"


def svc(m):
    return "(Svc %d %d %s %d %s %s %s)" % (m["name"], m["tags"], coq_bool(m["eto"]), m["rest"], coq_bool(m["tanil"]),
                                          pairs(m["tau"]), pairs(m["tar"]))


def chk(m):
    return "(Chk %d %d %d %d %d %d %d)" % (m["sid"], m["status"], m["out"], m["rest"], m["sname"], m["stags"], m.get("aux", 0))


def chks(cs):
    return coq_list(["(%d%%N, %s)" % (c["id"], chk(c["def"])) for c in (cs or [])])


def step(s, wf=False):
    op = s["op"]
    i = s.get("id", 0)
    if op == "addsvc":
        return "SAddSvc %d %s %d %s %s" % (i, svc(s["svc"]), s.get("tok", 0), coq_bool(s.get("loc", False)), chks(s.get("chks")))
    if op == "rmsvc":
        return "SRemoveSvc %d" % i
    if op == "rmsvcraw":
        return "SRemoveSvcRaw %d %s" % (i, nl(s.get("cids") or []))
    if op == "addchk":  # agent-style histories go through the agent's guard (service must be live)
        return "%s %d %s %d %s" % ("SAddChkAgent" if wf else "SAddChk", i, chk(s["chk"]), s.get("tok", 0), coq_bool(s.get("loc", False)))
    if op == "rmchk":
        return "SRemoveChk %d" % i
    if op == "updchk":
        return "SUpdChk %d %d %d" % (i, s.get("status", 0), s.get("out", 0))
    if op == "timer":
        return "STimer %d" % i
    if op == "uss":
        return "SUpdateSyncState"
    if op == "syncchanges":
        return "SSyncChanges %s %s" % (nl(s["os"]), nl(s["oc"]))
    if op == "syncfull":
        return "SSyncFull %s %s" % (nl(s["os"]), nl(s["oc"]))
    if op == "dreg":
        sv = "(Some (%d%%N, %s))" % (i, svc(s["svc"])) if s.get("svc") else "None"
        return "DReg %d %s %s %s" % (s.get("ni", 0), coq_bool(s.get("skip", False)), sv, chks(s.get("chks")))
    if op == "ddelsvc":
        return "DDelSvc %d" % i
    if op == "ddelchk":
        return "DDelChk %d" % i
    if op == "ddelnode":
        return "DDelNode"
    raise ValueError(op)


def case_to_coq(c):
    h = c["hist"]
    cfg = "(Cfg %d %d %d 1 %d %d %s)" % (h["user"], h["agent"], h["cfg"], CONSUL, CONSUL, coq_bool(h.get("defer", False)))
    steps = coq_list([step(s, h["wf"]) for s in h["steps"]])
    faults = coq_list([OUTCOME[f] for f in c["faults"]])
    exp = coq_list([coq_list([nl(r) for r in st]) for st in c["obs"]])
    return "Case %s\n   %s\n   %s\n   %s" % (cfg, steps, faults, exp)


def shard_text(cases):
    body = ";\n  ".join(case_to_coq(c) for c in cases)
    return ("From Verif Require Import Base.Prelude AE.Model Run.C16.\n"
            "Local Open Scope N_scope.\n"
            "Definition cases : list case := [\n  %s\n].\n"
            "Definition M := Eval vm_compute in mismatches cases.\nPrint M.\n" % body)


def failures(c):
    """all oracle failures of a run: list of (verdict, signature)"""
    return [(f["what"], f["sig"]) for f in (c.get("fails") or [])]


def run(ctx):
    info, ok = vlib.proof_stage(ctx, PROP_FILE, ["Run/C16.v"])
    cov = dict(info)
    # obligations: every proved statement of the property file and of the AE development it rests on
    dev = ["Properties/C16.v"] + ["AE/%s.v" % f for f in ("Basics", "Steps", "Inv", "Proofs", "Any", "Conv", "Hist", "More", "Witness")]
    n_stmts = sum(len(vlib.STMT.findall(open(os.path.join(vlib.COQ, f), encoding="utf-8").read())) for f in dev)
    cov["obligations"] = n_stmts
    cov["discharged"] = n_stmts if ok else 0
    cov["obligation_files"] = dev
    cov["trusted_base"] = vlib.STD_TRUSTED + [
        "the RPC fault oracle is an explicit outcome list (a universally quantified argument of every theorem); Go's map iteration order is an explicit argument as well (universally quantified)",
        "the fake Delegate of harness/ae (fault injection, caller identification by stack inspection, msgpack round trip of the request, the endpoint's Check->Checks flattening) and the projection of structs.NodeService/HealthCheck onto the modelled fields; the catalog side is consul's real agent/consul/state.Store (EnsureRegistration, DeleteService, DeleteCheck, NodeServiceList, NodeChecks)",
        "the deferred-output timer (CheckUpdateInterval > 0) is made to fire by the hook VerifFireDefer, which reschedules the REAL time.Timer to zero and waits for the real callback; when it fires by itself is not modelled; modelled, not verified: ae.StateSyncer timers and retry pacing (only 'a later full sync happens' is assumed); ACL evaluation inside the servers (a refusal is an outcome of the fault oracle); the legacy Catalog.NodeServices fallback; enterprise namespaces/partitions; node locality",
    ]
    assumptions = ["no concurrent catalog change between the read and the push of one full sync (C16_converges, C16_no_false_insync_full)",
                   "hypotheses of each theorem as printed in coq/Properties/C16.v"]
    if not ok:
        cov.update({"evaluations": 0, "distinct_nontrivial": 0, "rule": "proof stage failed", "samples": []})
        return ctx.finish(cov, assumptions)

    import time
    t0 = time.time()
    vlib.log("C16: proof stage done")
    binp = vlib.go_build("ae")
    vlib.log("C16: harness built in %.0fs" % (time.time() - t0)); t0 = time.time()
    out = os.path.join(ctx.workdir, "cases.jsonl")
    rc, o = vlib.sh([binp, "-seed", str(ctx.seed), "-tier", ctx.tier, "-out", out], timeout=3000)
    if rc != 0:
        raise vlib.BuildError("harness run failed: " + o[-2000:])

    vlib.log("C16: harness ran in %.0fs" % (time.time() - t0)); t0 = time.time()
    total = 0
    kinds = collections.Counter()
    cfgs = collections.Counter()
    ops = collections.Counter()
    rpcs = collections.Counter()
    outcomes = collections.Counter()
    steps_hist = collections.Counter()
    coq_cases, oracle_fail = [], []
    distinct = set()
    for line in open(out):
        c = json.loads(line)
        total += 1
        kinds[c["kind"]] += 1
        cfgs["CheckUpdateInterval>0" if c["hist"].get("defer") else "CheckUpdateInterval=0"] += 1
        steps_hist[len(c["hist"]["steps"])] += 1
        for s in c["hist"]["steps"]:
            ops[s["op"]] += 1
        for st in c["obs"]:
            for r in st:
                if r[0] == 1:
                    rpcs[r[1]] += 1
                    outcomes[r[6]] += 1
        if c["to_coq"]:
            coq_cases.append(c)
            distinct.add(json.dumps(c["obs"]))
        if c.get("fails"):
            oracle_fail.append(c)

    # ---- model vs implementation, inside Coq ----
    per = 200 if ctx.tier == "quick" else 400
    shards = [coq_cases[i:i + per] for i in range(0, len(coq_cases), per)]
    res = vlib.coq_run_shards(PROP, [shard_text(s) for s in shards], jobs=8)
    vlib.log("C16: %d cases evaluated in Coq in %.0fs" % (len(coq_cases), time.time() - t0))
    mism = []
    for s, (okk, idx, raw) in zip(shards, res):
        if not okk:
            ctx.violation({"kind": "case-file-failed", "log": raw}, found_input=False)
            continue
        mism += [s[i] for i in idx]

    # ---- direct oracle on the implementation ----
    new_fail = []
    known_hits = collections.Counter()
    for c in oracle_fail:
        for what, sig in failures(c):
            f = vlib.match_known(PROP, sig)
            if f:
                ctx.known(f, f["what"])
                known_hits[sig.get("cause") or sig["kind"]] += 1
            else:
                new_fail.append((c, what, sig))
    seen = set()
    for c, what, sig in new_fail:
        key = json.dumps({k: v for k, v in sig.items() if k not in ("shrunk", "msg")}, sort_keys=True)
        if key in seen:
            continue
        seen.add(key)
        sh = sig.get("shrunk") or {"hist": c["hist"], "faults": c["faults"]}
        ctx.violation({"kind": "oracle", "reason": what, "signature": {k: v for k, v in sig.items() if k != "shrunk"},
                       "hist": sh["hist"], "faults": sh["faults"], "case_kind": c["kind"],
                       "replay_cmd": "build/bin/ae -replay <this file>"})
    if mism:  # reported whether or not the oracle objects as well
        c = mism[0]
        ctx.violation({"kind": "correspondence", "theorem": "Run.C16.check (model run = implementation, per step: result, RPC sequence, flags, catalog)",
                       "mismatching_cases": len(mism), "case_kind": c["kind"], "hist": c["hist"], "faults": c["faults"],
                       "implementation_obs": c["obs"], "replay_cmd": "build/bin/ae -replay <this file>"},
                      found_input=False)

    names = {1: "NodeServiceList", 2: "NodeChecks", 3: "Register(node info)", 4: "Register(service)", 5: "Register(check)",
             6: "Deregister(service)", 7: "Deregister(check)"}
    onames = {0: "ok", 1: "error", 2: "permission denied", 3: "ACL not found", 4: "unknown id"}
    cov.update({
        "evaluations": total,
        "distinct_nontrivial": len(distinct),
        "rule": "runs of generated histories (agent-style: add/update/remove services with checks, check updates, catalog drift, partial and full syncs, the diff alone; plus a malformed stream of State-API calls the agent layer would not issue) on the real local.State against a real state.Store, fault-free and with a single injected outcome (error / permission denied / ACL not found) at EVERY call position of the fault-free run (pairs in the thorough tier); evaluations = runs through the direct oracle; distinct_nontrivial = runs with pairwise distinct observation traces that were also evaluated in Coq against the model",
        "traces_validated_against_impl": len(coq_cases),
        "model_mismatches": len(mism),
        "oracle_failures": sum(len(failures(c)) for c in oracle_fail),
        "oracle_failures_unknown": len(new_fail),
        "known_finding_hits": dict(known_hits),
        "run_kinds": dict(kinds),
        "config_mix": dict(cfgs),
        "op_mix": dict(ops),
        "rpc_mix": {names[k]: v for k, v in sorted(rpcs.items())},
        "rpc_outcomes": {onames[k]: v for k, v in sorted(outcomes.items())},
        "history_length_histogram": {str(k): v for k, v in sorted(steps_hist.items())},
        "projected_away": ["RaftIndex of catalog rows", "NodeService.Weights / Meta / Kind / Proxy / Connect, HealthCheck.Notes / Definition (constant in the generated cases)", "node Address (not compared by updateSyncState)"],
        "oracle_holds": "reflect.DeepEqual per field on copies with RaftIndex and the server-owned fields cleared (independent of IsSame); HealthCheck.Type/Interval/Timeout/ExposedPort are varied and compared",
        "samples": [{"kind": c["kind"], "faults": c["faults"], "steps": [s["op"] for s in c["hist"]["steps"]]} for c in coq_cases[:3] + coq_cases[-3:]],
        "exhaustive": False,
    })
    return ctx.finish(cov, assumptions)
