"""C09 — ACL enforcement: nothing unreadable returned, expired tokens never honoured."""
import collections, json, os, re
import vlib
from vlib import coq_bool


def coq_str(s):
    """ASCII names as string literals (parsed much faster than byte lists); anything else via bs."""
    if all(32 <= ord(ch) < 127 for ch in s):
        return '"%s"%%string' % s.replace('"', '""')
    return vlib.coq_str(s)

PROP = "C09"
PROP_FILE = "Properties/C09.v"
HARNESS = "aclfilter"


# ---------------------------------------------------------------- terms (harness JSON -> Coq)
def term(t):
    if t is None:
        return "None"
    if isinstance(t, bool):
        return coq_bool(t)
    if isinstance(t, int):
        return "%d%%N" % t
    if isinstance(t, str):
        return coq_str(t)
    if isinstance(t, list):
        return "[" + "; ".join(term(x) for x in t) + "]"
    if "c" in t:
        if not t["a"]:
            return t["c"]
        return "(" + t["c"] + " " + " ".join(term(x) for x in t["a"]) + ")"
    if "some" in t:
        return "(Some " + term(t["some"]) + ")"
    if "pair" in t:
        return "(" + term(t["pair"][0]) + ", " + term(t["pair"][1]) + ")"
    raise ValueError("bad term %r" % (t,))


def aztab(az):
    t3 = lambda l: "[" + "; ".join("(%s, %s, %s)" % (coq_str(p), coq_str(n), coq_bool(b)) for p, n, b in l) + "]"
    t2 = lambda l: "[" + "; ".join("(%s, %s)" % (coq_str(n), coq_bool(b)) for n, b in l) + "]"
    return "(AzTab %s %s %s %s %s %s %s %s)" % (t3(az["node"]), t3(az["service"]), t2(az["session"]),
                                              t2(az["intention"]), t2(az["query"]), t2(az["key"]),
                                              coq_bool(az["acl_read"]), coq_bool(az["acl_write"]))


DOWN = {"allow": "DownAllow", "deny": "DownDeny", "extend-cache": "DownExtend", "async-cache": "DownAsync"}
CLS = {"root": "SecRoot", "local": "SecLocal", "plain": "SecPlain"}


def shard_text(cases):
    tabs, names, lines = [], {}, []
    for c in cases:
        if c["kind"] == "filter":
            key = c.get("policy", "") + "\0" + c["default"]
            if key not in names:
                names[key] = "az%d" % len(names)
                tabs.append("Definition %s := %s." % (names[key], aztab(c["az"])))
            lines.append("CFilter %s %s %s" % (names[key], term(c["in"]), term(c["out"])))
        elif c["kind"] == "isexpired":
            e = c["exp"]
            lines.append("CExpired %s %d%%N %s" % (term(e["exp"]), e["as_of"], coq_bool(e["got"])))
        elif c["kind"] == "endpoint":
            e = c["ep"]
            if e.get("mask"):
                m = e["mask"]
                lines.append("CMask %s %s %s %s %s" % tuple(coq_bool(m[k]) for k in ("blank", "resolve", "anonymous", "removed", "flag")))
            else:
                lines.append("CBlocking %s (Ident 1%%N (Some %d%%N) false) %d%%N [%s] %s" % (
                    coq_bool(e["style"] == "held"), e["exp"], e["resolve"],
                    "; ".join("%d%%N" % t for t in e["runs"]), coq_bool(e["last_auth"] == "token")))
        else:
            r = c["res"]
            lines.append("CResolve %s %s %s %s %s %s %s" % (
                coq_bool(r["acls"]), CLS[r["class"]], term(r["attempts_term"]), DOWN[r["down"]],
                term(r["cache_in"]), term(r["out"]), term(r["cache_out"])))
    return ("From Verif Require Import Base.Prelude Filter.Model Filter.ResolveModel Run.C09.\n"
            + "\n".join(tabs) + "\nDefinition cases : list case := [\n  " + ";\n  ".join(lines) + "\n].\n"
            "Definition M := Eval vm_compute in mismatches cases.\nPrint M.\n")


# ---------------------------------------------------------------- the type switch in the source
def switch_types():
    """case types of Filter.Filter in the current source tree."""
    src = open(os.path.join(vlib.REPO, "agent/structs/aclfilter/filter.go"), encoding="utf-8").read()
    m = re.search(r"func \(\w+ \*Filter\) Filter\(\w+ (?:any|interface\{\})\) \{\n(.*?)\n\}\n", src, re.S)
    if not m:
        return None
    out = []
    for line in m.group(1).split("\n"):
        mm = re.match(r"^\tcase\s+(.+):\s*(//.*)?$", line)
        if mm:
            out += [t.strip() for t in mm.group(1).split(",")]
    return out


def strip(c):
    """a replay: the case without the bulky authorizer table"""
    r = {k: v for k, v in c.items() if k not in ("az",)}
    r["replay_cmd"] = "build/bin/aclfilter -replay <this file>"
    return r


def run(ctx):
    import glob
    for f in glob.glob(os.path.join(vlib.VERIF, "replays", "%s-%d-*.json" % (PROP, ctx.seed))):
        os.remove(f)      # replays of an earlier run with the same seed
    info, ok = vlib.proof_stage(ctx, PROP_FILE, ["Run/C09.v"])
    cov = dict(info)
    cov["trusted_base"] = vlib.STD_TRUSTED + [
        "the authorizer is an arbitrary record of functions in every theorem (Section variable); in the correspondence runs it is the real acl.Authorizer of a generated policy, tabulated over the harness's name universe (node/service x peer, session, intention, query, key, acl read/write)",
        "community-edition build: acl.AuthorizerContext carries only the peer name (enterprise-meta FillAuthzContext stubs)",
        "modelled, not verified: go-memdb result objects being shared (aliasing of the slices the in-place loops mutate), hclog calls, the 2Q LRU eviction of ACLCaches (harness cache large enough), real-time cache age (driven through ACLTokenTTL = 1h / negative), singleflight scheduling (the harness waits for the background refresh through a verif hook)",
        "real endpoints (Internal.NodeDump/ServiceDump, Catalog.ListNodes/ListServices, KVS.List) run on a reduced Server built by a verif hook: real FSM/state store, in-memory raft, real blockingquery.Query / SetQueryMeta / filterACL and a real ACLResolver with ACLs enabled; no RPC forwarding, no networking",
        "not covered: Server.ResolveIdentityFromToken (C09_expired holds for every backend answer, which subsumes it), the agent-local read filters (agent/acl.go, agent_endpoint.go, event_endpoint.go), the txn endpoint's own flag, and whether every endpoint calls the filter",
        "resolver clock: tokens are placed at least 1 ms before or 10 s after the call, plus tokens that expire 60 ms after being cached and are resolved again 75 ms later; expiry exactly at 'now' is covered for ACLToken.IsExpired only",
    ]
    assumptions = ["authorizer decisions are a function of (method, name, peer) — checked per run by tabulating the real authorizer",
                   "endpoint scenarios keep 100 ms timing margins; a scenario that stalls twice is counted inconclusive, never as a verdict",
                   "CheckServiceNode.Node/Service, ServiceInfo.GatewayService, IndexedServiceTopology.ServiceTopology are non-nil (as every endpoint produces them)"]
    if not ok:
        cov.update({"evaluations": 0, "distinct_nontrivial": 0, "rule": "proof stage failed", "samples": []})
        return ctx.finish(cov, assumptions)

    binp = vlib.go_build(HARNESS)

    # ---- the table of handled types must cover the switch in the current source ----
    rc, o = vlib.sh([binp, "-types"], timeout=120)
    table = [l.strip() for l in o.split("\n") if l.strip()]
    src_types = switch_types()
    unlisted = None
    if src_types is None:
        ctx.violation({"kind": "switch-not-found", "what": "Filter.Filter type switch not found in agent/structs/aclfilter/filter.go"},
                      found_input=False)
    else:
        unlisted = sorted(set(src_types) - set(table))
        gone = sorted(set(table) - set(src_types))
        if unlisted or gone:
            ctx.violation({"kind": "type-switch-changed", "unlisted_case_types": unlisted, "case_types_removed": gone,
                           "what": "the Filter.Filter type switch has case types the model/harness table does not list (or lost some): "
                                   "the correspondence for C09_sound/complete/flag does not cover them"}, found_input=False)

    out = os.path.join(ctx.workdir, "cases-s%d-p%d.jsonl" % (ctx.seed, os.getpid()))
    if ctx.replay:
        rc, o = vlib.sh([binp, "-replay", ctx.replay], timeout=600)
        print(o[-3000:])
        cov.update({"evaluations": 1, "distinct_nontrivial": 0, "rule": "replay", "samples": []})
        if rc != 0:
            ctx.violation(json.load(open(ctx.replay)))
        return ctx.finish(cov, assumptions)
    rc, o = vlib.sh([binp, "-seed", str(ctx.seed), "-tier", ctx.tier, "-out", out], timeout=3000)
    if rc != 0:
        raise vlib.BuildError("harness run failed: " + o[-2000:])

    cases, oracle_fail = [], []
    per_type = collections.Counter()
    modes = collections.Counter()
    sizes = collections.Counter()
    flags = collections.Counter()
    outcomes = collections.Counter()
    cache_states = collections.Counter()
    kinds = collections.Counter()
    nontrivial = 0
    skipped_ambiguous = 0
    arrangements = collections.defaultdict(set)
    endpoint_runs = collections.Counter()
    oracle_only = 0
    variants = collections.Counter()
    for line in open(out):
        c = json.loads(line)
        kinds[c["kind"]] += 1
        if c["oracle"]:
            oracle_fail.append(c)
        if c["kind"] == "filter":
            per_type[c["type"]] += 1
            modes[c["mode"]] += 1
            o_ = c.get("opt") or {}
            variants["flag-on-entry" if o_.get("flag0") else "flag-clear-or-random"] += 1
            if o_.get("peers"):
                variants["peers-in-arrangement"] += 1
            if o_.get("twice"):
                variants["same-object-filtered-twice"] += 1
            sizes[c.get("n", 0)] += 1
            if c.get("panic"):
                continue
            if c["mode"] == "exh" and not (c.get("opt") or {}).get("twice"):
                arrangements[c["type"]].add((c.get("n", 0), c.get("mask", 0)))
            a_in, a_out = c["in"]["a"], c["out"]["a"]
            if a_in != a_out:
                nontrivial += 1
            if a_out and isinstance(a_out[-1], bool):
                flags[a_out[-1]] += 1
        elif c["kind"] == "resolve":
            r = c["res"]
            if c.get("mode") == "ambiguous-window":
                skipped_ambiguous += 1
                continue
            o_ = r["out"]["c"] + ("/" + r["out"]["a"][0]["c"] if r["out"]["c"] == "OErr" else "")
            outcomes[o_] += 1
            cache_states[("cached-" + ("fresh" if r["fresh"] else "stale")) if r["cache_in"] else "uncached"] += 1
            if r["out"]["c"] != "OManageAll":
                nontrivial += 1
        elif c["kind"] == "endpoint":
            e = c["ep"]
            endpoint_runs["%s/%s%s" % (e["endpoint"], e["scenario"], "/inconclusive" if c.get("mode") == "inconclusive" else "")] += 1
            if c.get("mode") == "inconclusive":
                continue
            nontrivial += 1
            if not (e.get("mask") or e.get("last_auth")):
                oracle_only += 1
                continue          # judged by the oracle only; no model counterpart
        else:
            nontrivial += 1
        cases.append(c)

    try:
        os.replace(out, os.path.join(ctx.workdir, "cases.jsonl"))   # keep the last run's cases for inspection
    except OSError:
        pass

    # ---- model vs implementation, inside Coq ----
    per = 400
    shards = [cases[i:i + per] for i in range(0, len(cases), per)]
    # case files and the harness output are private to this run: several ./check C09 processes
    # (different seeds) may run at the same time and must not overwrite each other's files
    tag = "%s_s%d_p%d" % (PROP, ctx.seed, os.getpid())
    try:
        res = vlib.coq_run_shards(tag, [shard_text(s) for s in shards], jobs=4)
    finally:
        import glob
        for f in glob.glob(os.path.join(vlib.GEN, "cases_%s_*" % tag)) + glob.glob(os.path.join(vlib.GEN, ".cases_%s_*" % tag)):
            try:
                os.remove(f)
            except OSError:
                pass
    mism = []
    for s, (okk, idx, raw) in zip(shards, res):
        if not okk:
            ctx.violation({"kind": "case-file-failed", "log": raw}, found_input=False)
            continue
        mism += [s[i] for i in idx]

    # ---- direct oracle on the implementation ----
    new_fail = collections.OrderedDict()
    known_hits = collections.Counter()
    for c in oracle_fail:
        sig = dict(c.get("sig") or {"kind": c["oracle"].split(":")[0]})
        sig.setdefault("type", c.get("type", c["kind"]))
        sig = {k: v for k, v in sig.items() if not k.startswith("peers_")}   # detail, not part of the class
        f = vlib.match_known(PROP, sig)
        if f:
            ctx.known(f, f["what"])
            known_hits[json.dumps(f["signature"], sort_keys=True)] += 1
        else:
            key = json.dumps(sig, sort_keys=True)
            best = new_fail.get(key)
            size = lambda x: (x.get("n", 0) + len((x.get("res") or {}).get("history", [])), len(x.get("policy", "")))
            if best is None or size(c) < size(best):
                new_fail[key] = c          # shrunk: the smallest failing response of each class
    for key, c in list(new_fail.items())[:8]:
        r = strip(c)
        r["signature"] = json.loads(key)
        ctx.violation(r)
    # model mismatches are ALWAYS reported, whatever the oracle said about the same or other cases
    if mism:
        c = ([x for x in mism if not x["oracle"]] or mism)[0]
        what = {"filter": "Run.C09.check: filter_response (model of Filter.Filter) = implementation, type %s" % c.get("type"),
                "resolve": "Run.C09.check: resolve_token (model of ACLResolver.ResolveToken) = implementation",
                "isexpired": "Run.C09.check: is_expired = ACLToken.IsExpired",
                "endpoint": "Run.C09.check: blocking_held / blocking_reresolve / mask_flag = the real endpoint"}[c["kind"]]
        ctx.violation({"kind": "correspondence", "theorem": what, "mismatching_cases": len(mism),
                       "of_which_with_oracle_failure": sum(1 for x in mism if x["oracle"]),
                       "by_type": dict(collections.Counter(x.get("type", x["kind"]) for x in mism)),
                       "first": strip(c)}, found_input=bool(c["oracle"]))

    missing = [(t, n, m) for t in per_type for n in range(6) for m in range(1 << n)
               if t not in NO_ARRANGEMENT and (n, m) not in arrangements[t]]
    exhaustive_ok = not missing
    if missing:
        ctx.violation({"kind": "generator-coverage", "what": "not every readable/unreadable arrangement of 0..5 elements was run for every type",
                       "missing_first": missing[:10], "missing": len(missing)}, found_input=False)
    inconclusive = sum(v for k, v in endpoint_runs.items() if k.endswith("/inconclusive"))
    if inconclusive:
        ctx.notes.append("%d endpoint scenario(s) inconclusive (the machine stalled past the timing margins twice)" % inconclusive)
    samples = []
    for c in cases[:2] + [x for x in cases if x["kind"] == "filter" and x["mode"] == "rand"][:2] + [x for x in cases if x["kind"] == "resolve"][:2] + [x for x in cases if x["kind"] == "endpoint"][:2]:
        samples.append(strip(c) if c["kind"] != "filter" else {"type": c["type"], "mode": c["mode"], "in": term(c["in"])[:400], "out": term(c["out"])[:400]})
    cov.update({
        "evaluations": len(cases),
        "distinct_nontrivial": nontrivial,
        "rule": "evaluations = cases run on the implementation AND evaluated by the model in Coq; distinct_nontrivial = filter cases whose response was changed by the filter (something removed, redacted or flagged) + resolver calls with ACLs enabled + IsExpired tabulation rows",
        "traces_validated_against_impl": len(cases),
        "model_mismatches": len(mism),
        "oracle_failures": len(oracle_fail),
        "oracle_failures_unknown": sum(1 for _ in new_fail),
        "known_finding_hits": dict(known_hits),
        "case_kinds": dict(kinds),
        "switch_case_types_in_source": len(src_types or []),
        "switch_case_types_in_table": len(table),
        "switch_unlisted": unlisted,
        "per_type": dict(per_type),
        "modes": dict(modes),
        "sizes": {str(k): v for k, v in sorted(sizes.items())},
        "flag_histogram": {str(k): v for k, v in flags.items()},
        "all_arrangements_n_le_5_per_type": exhaustive_ok,
        "resolve_outcomes": dict(outcomes),
        "resolve_cache_states": dict(cache_states),
        "resolve_skipped_ambiguous_window": skipped_ambiguous,
        "endpoint_scenarios": dict(endpoint_runs),
        "endpoint_cases_oracle_only": oracle_only,
        "case_variants": dict(variants),
        "input_distribution": "per type: every readable/unreadable arrangement of 0..5 elements under two fixed policies (default deny + prefix read + 'bad*' denied; default allow + 'bad*' denied), each also with the flag set on entry, with peer-imported elements mixed in, and on an object that was already filtered once (refilled, query meta kept); map-iterating branches repeated 3-4x; nested arrangements for node dumps (2n bits, arranged node sometimes unreadable / in ImportedDump); ManageAll every 10th random policy; real endpoints re-running after a blocked wait and with a token expiring while blocked; random policies (0-3 exact/prefix rules per resource, read/write/deny, acl read/write/deny, default allow 1/3) with 0..6 elements over a 20-name universe, peers 20 %, initial flag set 20 %; malformed stream (nil list entries, nil NodeServices / Node, empty names). Resolver: 3-8 calls per resolver, 4 down policies, TTL fresh/stale, backend done/not done, RPC token/other-dc/nil/not-found/failure, policy-resolution outcomes, expirations none/zero/+1h/+10s/-1h/-1s/-1ms, tokens expiring while cached",
        "samples": samples,
        "exhaustive": False,
    })
    return ctx.finish(cov, assumptions)


NO_ARRANGEMENT = {"**structs.PreparedQuery", "*structs.ACLTokens", "**structs.ACLToken", "*[]*structs.ACLTokenListStub",
                  "**structs.ACLTokenListStub", "*structs.ACLPolicies", "**structs.ACLPolicy", "*structs.ACLRoles",
                  "**structs.ACLRole", "*structs.ACLBindingRules", "**structs.ACLBindingRule", "*structs.ACLAuthMethods",
                  "**structs.ACLAuthMethod"}
