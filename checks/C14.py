"""C14 — the proxy authorization policy enforces exactly the intention decision."""
import collections
import json
import os

import vlib
from vlib import coq_bool, coq_list, coq_N, coq_str

PROP = "C14"
PROP_FILE = "Properties/C14.v"
PER_SHARD = 220


# ------------------------------------------------------------------ Coq case writer

def c_sm(m):
    k, s, ic = m["k"], coq_str(m["s"]), coq_bool(m["ic"])
    if k == "regex":
        if m["ic"]:
            raise ValueError("regex with ignore_case")
        return "(SMRegex %s)" % s
    return "(%s %s %s)" % ({"exact": "SMExact", "prefix": "SMPrefix", "suffix": "SMSuffix", "contains": "SMContains"}[k], s, ic)


def c_perm(q):
    k = q["k"]
    if k == "any":
        return "PermAny"
    if k == "path":
        return "(PermPath %s)" % c_sm(q["m"])
    if k == "header":
        m = "(Some %s)" % c_sm(q["m"]) if q.get("m") else "None"
        return "(PermHeader %s %s %s)" % (coq_str(q.get("name", "")), m, coq_bool(q.get("invert", False)))
    if k in ("and", "or"):
        return "(%s %s)" % ("PermAnd" if k == "and" else "PermOr", coq_list([c_perm(x) for x in q.get("l") or []]))
    if k == "not":
        return "(PermNot %s)" % c_perm(q["l"][0])
    raise ValueError(k)


def c_princ(p):
    k = p["k"]
    if k == "auth":
        return "(XAuth %s)" % coq_str(p.get("s", ""))
    if k == "xfcc":
        return "(XXfcc %s)" % coq_str(p.get("s", ""))
    if k in ("and", "or"):
        return "(%s %s)" % ("XAnd" if k == "and" else "XOr", coq_list([c_princ(x) for x in p.get("l") or []]))
    if k == "not":
        return "(XNot %s)" % c_princ(p["l"][0])
    raise ValueError(k)


def c_rbac(r):
    pols = []
    for p in r["policies"]:
        key = "KL4" if p["key"] == "l4" else "(KL7 %s)" % coq_N(int(p["key"][3:]))
        pols.append("(XPolicy %s %s %s)" % (key, coq_list([c_princ(x) for x in p["principals"]]),
                                           coq_list([c_perm(x) for x in p["permissions"]])))
    return "(XRbac %s %s)" % (coq_bool(r["allow"]), coq_list(pols))


def c_hdr(h):
    return "(HdrPerm %s %s %s %s %s %s %s %s %s)" % (
        coq_str(h["name"]), coq_bool(h["present"]), coq_str(h["exact"]), coq_str(h["prefix"]), coq_str(h["suffix"]),
        coq_str(h["contains"]), coq_str(h["regex"]), coq_bool(h["invert"]), coq_bool(h["ignore_case"]))


def c_ixn_perm(p):
    if p["http"] is None:
        h = "None"
    else:
        hh = p["http"]
        h = "(Some (HttpPerm %s %s %s %s %s))" % (
            coq_str(hh["path_exact"]), coq_str(hh["path_prefix"]), coq_str(hh["path_regex"]),
            coq_list([c_hdr(x) for x in hh["header"] or []]), coq_list([coq_str(m) for m in hh["methods"] or []]))
    return "(IxnPerm %s %s)" % (coq_bool(p["action"] == "allow"), h)


def c_ixn(x):
    return "(Ixn %s %s %s %s %s %s %s %s %s %s)" % (
        coq_str(x["src_peer"]), coq_str(x["src_ap"]), coq_str(x["src_ns"]), coq_str(x["src_name"]),
        coq_str(x["dst_ap"]), coq_str(x["dst_ns"]), coq_str(x["dst_name"]),
        coq_bool(x["action"] == "allow"), coq_list([c_ixn_perm(p) for p in x["perms"] or []]), coq_N(x["prec"]))


def c_uri(u):
    return "(Uri %s %s)" % (coq_str(u["host"]), coq_list([coq_str(s) for s in u["segs"]]))


def c_sample(s):
    xf = "(Some %s)" % c_uri(s["xfcc"]) if s["xfcc"] else "None"
    hdrs = coq_list(["(%s, %s)" % (coq_str(k), coq_str(v)) for k, v in s["headers"]])
    re = coq_list(["(%s, %s, %s)" % (coq_str(p), coq_str(sj), coq_bool(v == "1")) for p, sj, v in s["re"]])
    return "(Sample (Conn %s %s) (Req %s %s) %s %s %s)" % (c_uri(s["tls"]), xf, coq_str(s["path"]), hdrs,
                                                          coq_bool(s["rbac"]), coq_bool(s["want"]), re)


def case_to_coq(c):
    i = c["input"]
    cfg = "(Config %s %s %s)" % (coq_str(i["td"]), coq_str(i["ap"]),
                                coq_list(["(Bundle %s %s %s)" % (coq_str(b["peer"]), coq_str(b["td"]), coq_str(b["exp_ap"]))
                                          for b in i["bundles"]]))
    exp = "None"
    if c["impl"] is not None and not c["impl_err"]:
        try:
            exp = "(Some %s)" % c_rbac(c["impl"])
        except ValueError:
            exp = "None"
    return "Case %s %s %s %s %s %s" % (cfg, coq_list([c_ixn(x) for x in i["ixns"]]), coq_bool(i["default_allow"]),
                                      coq_bool(i["http"]), exp, coq_list([c_sample(s) for s in c.get("samples") or []]))


def shard_text(cases, tab, fcases=()):
    body = ";\n  ".join(case_to_coq(c) for c in cases)
    rows = ";\n  ".join("TabRow %s %s %s %s %s %s" % (coq_str(r["t_name"]), coq_str(r["t_peer"]), coq_str(r["a_name"]),
                                                     coq_str(r["a_peer"]), coq_bool(r["match"]), coq_N(r["t_wild"]))
                        for r in tab)
    fbody = ";\n  ".join("FCase %s (%s)" % (coq_bool(shadow), case_to_coq(c)) for shadow, c in fcases)
    mm = "mismatches"
    return ("From Verif Require Import Base.Prelude RBAC.Model Run.C14.\n"
            "Definition cases : list case := [\n  %s\n].\n"
            "Definition tab : list tabrow := [\n  %s\n].\n"
            "Definition fcases : list fcase := [\n  %s\n].\n"
            "Definition M := Eval vm_compute in (%s cases ++ tab_mismatches tab ++ finding_mismatches fcases)%%list.\nPrint M.\n"
            % (body, rows, fbody, mm))


_KNOWN = None


def match_known(signature):
    """vlib.match_known semantics (every key of an open entry's signature equals the observed one), but the
    shared known_findings.json is read ONCE, with retries: other checks rewrite that file concurrently."""
    global _KNOWN
    if _KNOWN is None:
        import time
        for attempt in range(20):
            try:
                _KNOWN = [f for f in vlib.load_known() if f.get("property") == PROP and f.get("status") != "fixed"]
                break
            except (ValueError, OSError):
                time.sleep(0.5)
        else:
            raise
    for f in _KNOWN:
        sig = f.get("signature", {})
        if all(signature.get(k) == v for k, v in sig.items()):
            return f
    return None


def ixn_brief(x):
    return "%s%s->%s:%s" % ((x["src_peer"] + "/") if x["src_peer"] else "", x["src_name"], x["dst_name"],
                            x["action"] or ("L7x%d" % len(x["perms"])))


# ------------------------------------------------------------------ the check

def run(ctx):
    import time
    t0 = time.time()
    phases = {}
    info, ok = vlib.proof_stage(ctx, PROP_FILE, ["Run/C14.v"])
    phases["proof_stage"] = round(time.time() - t0, 1)
    cov = dict(info)
    cov["trusted_base"] = vlib.STD_TRUSTED + [
        "Section hypothesis of Properties/C14.v about the regex engine (Envoy safe_regex = RE2): an alternation of valid HTTP method names fully matches exactly its members; user-supplied path/header regexes are an uninterpreted function shared by evaluator and specification",
        "the SPIFFE patterns the code builds are modelled segment-wise (host, path segments; regex text is read by raw_match: backslash escapes, '.' matches any character, every other character itself; [^/]+ = a non-empty segment; names go through the model's quote_meta as through regexp.QuoteMeta); the emitted regex STRING is compared with the implementation's on every case, and its meaning is tied to RE2 by the Go oracle (Go regexp, fully anchored) and by sampled evaluation points replayed in Coq",
        "connection model: URI SAN of the client certificate and URI of the first x-forwarded-client-cert element; trust domains are authenticated by TLS (hosts_ok hypothesis); on HTTP listeners that expect peered traffic a peer identity is only established by the local mesh gateway (mirrors makeRBACRules' expectXFCC)",
        "reference semantics of the Go oracle: consul's own IntentionPrecedenceSorter and connect.IntentionMatch, cross-checked on every case against state.Store.IntentionDecision; first matching permission decides, no match falls to the default policy (service-intentions documentation)",
        "sort.Sort(IntentionPrecedenceSorter) is modelled as a stable insertion sort (Go's pdqsort IS an insertion sort up to 12 elements; lists a store hands over have no comparator ties, so any sort gives the same order)",
        "modelled, not verified: JWT requirements (providerMap = nil); sameness groups (expanded before); enterprise namespaces/partitions are in the model but the community-edition build only exercises 'default'; wildcard partition/peer panics; Envoy itself (the evaluators follow the RBAC filter's and HeaderMatcher's DOCUMENTED semantics, incl. 'a value matcher on an absent header is ignored, will not match, even with invert_match' - route_components.proto); raw XFCC text variants (DNS= after URI=, quoted commas, sanitised header) and the listeners.go delivery step (which list, default and bundles reach makeRBACRules) are assumptions",
        "a disagreement of the oracle is excused only if (1) a counterfactual run of the REAL translator attributes it to the cause of an open finding (inverted value matcher matching an absent header / trust domain or partition read as the regex it is spliced in as; the counterfactual 'input without shadowed intentions' is kept as a diagnostic and names a regression of 214d73a, which is a VIOLATION), (2) its replay, shrunk under 'same point, same cause', matches that finding's narrow signature, and (3) the Coq model reproduces the two verdicts "]
    assumptions = ["regex engine on method alternations", "segment-wise reading of built SPIFFE patterns", "TLS authenticates trust domains",
                   "partitions (still spliced unquoted) contain no regex metacharacter", "Envoy HeaderMatcher semantics as documented"]
    if not ok:
        cov.update({"evaluations": 0, "distinct_nontrivial": 0, "rule": "proof stage failed", "samples": []})
        return ctx.finish(cov, assumptions)

    t1 = time.time()
    binp = vlib.go_build("rbac")
    phases["go_build"] = round(time.time() - t1, 1)
    t1 = time.time()
    out = os.path.join(ctx.workdir, "cases.jsonl")
    rc, o = vlib.sh([binp, "-seed", str(ctx.seed), "-tier", ctx.tier, "-out", out, "-jobs", "4"], timeout=3000)
    if rc != 0:
        raise vlib.BuildError("harness run failed: " + o[-2000:])
    phases["implementation_and_oracle"] = round(time.time() - t1, 1)
    t1 = time.time()

    tab = []
    kinds = collections.Counter()
    sizes = collections.Counter()
    shape = collections.Counter()
    coq_cases, with_findings, problems, impl_errs = [], [], [], []
    total = evals = oracle_cases = disagreements = n_samples = 0
    by_cause = collections.Counter()
    distinct = set()
    for line in open(out):
        c = json.loads(line)
        if "tab" in c:
            tab = c["tab"]
            continue
        total += 1
        kinds[c["kind"]] += 1
        i = c["input"]
        sizes[len(i["ixns"])] += 1
        shape["http" if i["http"] else "tcp"] += 1
        shape["default-allow" if i["default_allow"] else "default-deny"] += 1
        if any(x["src_peer"] for x in i["ixns"]):
            shape["peered-source"] += 1
        if any(x["perms"] for x in i["ixns"]):
            shape["l7-permissions"] += 1
        if len({x["dst_name"] for x in i["ixns"]}) > 1:
            shape["mixed-destinations"] += 1
        evals += c["evals"]
        disagreements += c["disagreements"]
        for k, v in (c.get("disagreements_by_cause") or {}).items():
            by_cause[k or "unexplained-by-counterfactuals"] += v
        if c["oracle"] != "skipped":
            oracle_cases += 1
        if c["to_coq"]:
            coq_cases.append(c)
            n_samples += len(c.get("samples") or [])
            if c["impl"] and c["impl"]["policies"]:
                distinct.add(json.dumps(c["impl"], sort_keys=True))
        if c["findings"]:
            with_findings.append(c)
        if c["problems"]:
            problems.append(c)
        if c["impl_err"]:
            impl_errs.append(c)

    # ---- direct oracle: match shrunk findings against the open known findings ----
    new_fail = []
    known_hits = collections.Counter()
    masked = []           # (finding, known entry) excused by an open known finding: must be reproduced by the model
    for c in with_findings:
        for f in c["findings"]:
            kf = match_known(f["signature"])
            if kf:
                known_hits[kf["signature"]["kind"]] += 1
                ctx.known(kf, kf["what"])
                masked.append((f, kf))
            else:
                new_fail.append((c, f))
    # distinct shrunk replays of masked findings, as cases for the Coq model
    fcases, seen_f, unreplayable = [], set(), 0
    for f, kf in masked:
        if not f.get("coq"):
            unreplayable += 1
            continue
        key = json.dumps([f["coq"]["input"], f["coq"]["samples"][0]["tls"], f["coq"]["samples"][0]["xfcc"],
                          f["coq"]["samples"][0]["path"], f["coq"]["samples"][0]["headers"]], sort_keys=True)
        if key in seen_f:
            continue
        seen_f.add(key)
        fc = {"input": f["coq"]["input"], "impl": f["coq"]["impl"], "impl_err": "", "samples": f["coq"]["samples"]}
        fcases.append((False, fc, f))
    # stratified by finding kind so that a frequent class cannot crowd out the others
    fcap = 120 if ctx.tier == "thorough" else 30
    per_kind = collections.Counter()
    kept_f = []
    for fc in fcases:
        k = fc[2]["signature"]["kind"]
        if per_kind[k] < fcap:
            per_kind[k] += 1
            kept_f.append(fc)
    fcases = kept_f

    # ---- model vs implementation, inside Coq ----
    per = PER_SHARD if ctx.tier == "thorough" else max(1, -(-len(coq_cases) // 4))   # quick: one round of 4 shards
    shards = [coq_cases[k:k + per] for k in range(0, len(coq_cases), per)]
    nsh = max(1, len(shards))
    fper = -(-len(fcases) // nsh) if fcases else 0
    fshards = [fcases[k * fper:(k + 1) * fper] for k in range(nsh)] if fcases else [[] for _ in range(nsh)]
    if not shards:
        shards = [[]]
    texts = [shard_text(sh, tab if k == 0 else [], [(a, b) for a, b, _ in fshards[k]]) for k, sh in enumerate(shards)]
    phases["parse_and_write_cases"] = round(time.time() - t1, 1)
    t1 = time.time()
    res = vlib.coq_run_shards(PROP, texts, timeout=1500, jobs=4)
    phases["coq_shards"] = round(time.time() - t1, 1)
    vlib.log("C14 phases: %s" % phases)
    mism, tab_fail, finding_fail = [], [], []
    for k, (sh, (okk, idx, raw)) in enumerate(zip(shards, res)):
        if not okk:
            ctx.violation({"kind": "case-file-failed", "log": raw}, found_input=False)
            continue
        for j in idx:
            if j >= 2000000:
                finding_fail.append(fshards[k][j - 2000000][2])
            elif j >= 1000000:
                tab_fail.append(tab[j - 1000000])
            else:
                mism.append(sh[j])

    # ---- verdicts ----
    # a disagreement excused by a known finding that the model does NOT reproduce (or, for the
    # superset defect, that the model of the repaired translator does not remove) is not that finding
    for f in finding_fail[:3]:
        ctx.violation({"kind": "oracle-finding-not-reproduced-by-model", "signature": f["signature"], "replay": f["replay"],
                       "explanation": "the shrunk disagreement matches an open known finding by signature, but the Coq model "
                                      "does not show the same two verdicts at that point, or translate_repaired does not give "
                                      "the precedence verdict there: a different defect hides behind the signature",
                       "replay_cmd": "build/bin/rbac -replay <this file>"})
    seen_sig, distinct_fail = set(), []
    for c, f in new_fail:
        k = json.dumps(f["signature"], sort_keys=True)
        if k not in seen_sig:
            seen_sig.add(k)
            distinct_fail.append((c, f))
    for c, f in distinct_fail[:5]:
        ctx.violation({"kind": "oracle", "signature": f["signature"], "replay": f["replay"],
                       "found_in_case": {"id": c["id"], "kind": c["kind"], "ixns": [ixn_brief(x) for x in c["input"]["ixns"]]},
                       "replay_cmd": "build/bin/rbac -replay <this file>"})
    for c in problems[:3]:
        ctx.violation({"kind": "harness-self-check", "problems": c["problems"], "input": c["input"]}, found_input=False)
    for c in impl_errs[:3]:
        if not new_fail:
            ctx.violation({"kind": "implementation-error-or-unrepresentable-output", "what": c["impl_err"], "input": c["input"]},
                          found_input=not c["impl_err"].startswith("unrepresentable"))
    if (mism or tab_fail) and not new_fail:
        # correspondence broken, and the oracle found no new failing input on any generated case
        first = None
        if mism:
            c = mism[0]
            first = {"id": c["id"], "kind": c["kind"], "input": c["input"], "implementation": c["impl"], "samples": c.get("samples")}
        ctx.violation({"kind": "correspondence", "theorem": "Run.C14.check (model translate / eval_rbac / intention_allows = implementation and Go oracle)",
                       "mismatching_cases": len(mism), "tabulation_mismatches": tab_fail[:5], "first": first,
                       "hint": "coqc the shard in coq/gen and compare `run` of the case with its expectation"},
                      found_input=False)

    cov.update({
        "evaluations": total,
        "distinct_nontrivial": len(distinct),
        "rule": "evaluations = intention lists translated by the real makeRBACRules (exhaustive valid sets over sources {web, api, web.v1, *} (random streams add a|b, c++, x(y) x {local, peer1} x destinations {db, *} x {allow, deny, 3 permission lists}, both defaults, TCP and HTTP; random larger sets; store-collected lists via IntentionMatchOne; a malformed stream); distinct_nontrivial = distinct non-empty RBAC outputs among the cases evaluated in Coq against the model",
        "traces_validated_against_impl": len(coq_cases),
        "model_mismatches": len(mism),
        "tabulated_helper_rows": len(tab),
        "tabulation_mismatches": len(tab_fail),
        "evaluation_samples_replayed_in_coq": n_samples,
        "oracle_cases": oracle_cases,
        "oracle_evaluations": evals,
        "oracle_disagreements": disagreements,
        "oracle_disagreements_by_cause": dict(by_cause),
        "masked_findings_replayed_in_coq": len(fcases),
        "masked_findings_not_reproduced_by_model": len(finding_fail),
        "masked_findings_without_coq_case": unreplayable,
        "model_compared": "translate (= makeRBACRules of /repo HEAD, incl. removeShadowedSourceIntentions)",
        "oracle_failing_classes_known": dict(known_hits),
        "oracle_failing_classes_unknown": len(seen_sig),
        "harness_self_check_failures": len(problems),
        "phase_wall_s": phases,
        "coq_shards": len(shards),
        "case_kinds": dict(kinds),
        "intention_list_sizes": {str(k): v for k, v in sorted(sizes.items())},
        "input_shape": dict(shape),
        "samples": [{"kind": c["kind"], "ixns": [ixn_brief(x) for x in c["input"]["ixns"]],
                     "default_allow": c["input"]["default_allow"], "http": c["input"]["http"],
                     "policies": [p["key"] for p in (c["impl"] or {"policies": []})["policies"]]}
                    for c in coq_cases[:3] + coq_cases[-3:]],
        "exhaustive": False,
        "exhaustive_scope": "all valid intention sets of size <= %d over the atom universe go through the Go oracle; a strided subset of them is evaluated in Coq" % (3 if ctx.tier == "thorough" else 2),
    })
    return ctx.finish(cov, assumptions)
