"""C05 — transactions are all-or-nothing and isolated."""
from checks import storelib

def run(ctx):
    return storelib.run_store_check(
        ctx, "C05", "Properties/C05.v", 450, 4500, "C05",
        ["Go oracle on the real store: a transaction reporting errors leaves the full dump, the lock-delay map, the recording event publisher and a watch set on every table untouched and returns no results; a committed one stamps every changed KV row with its index"],
        "same generator as C03; ~30% of commands are transactions of 1-5 operations mixing KV/node/service/check/session verbs and guards, 60% of them generated in a likely-to-succeed mode, the rest with stale indexes, missing targets and failing guards at random positions; distinct_nontrivial = distinct command sequences")
