"""C12 — the Connect CA issues only authorized, verifiable identities."""
import json, os, collections
import vlib
from vlib import coq_bool, coq_list, coq_N, coq_str

PROP = "C12"
PROP_FILE = "Properties/C12.v"

SERR = {"uri_count": 1, "email": 2, "scheme": 3, "unescape": 4, "format": 5, "unsupported": 6,
        "denied": 7, "datacenter": 8, "trust_domain": 9, "not_agent": 10, "wrong_node": 11, "decorated": 12}
CERR = {"one_active": "EOneActive", "active_overwritten": "EActiveOverwritten", "missing_id": "EMissingID", "config_cas": "EConfigCAS",
        "invalid_op": "EInvalidOp"}


def hs(h):
    """hex -> Coq string"""
    return coq_str(bytes.fromhex(h))


def url_coq(u):
    return "Url %s %s %s %s %s" % (hs(u["scheme"]), hs(u["host"]), hs(u["path"]), hs(u["raw"]), ("DNone", "DUser", "DForm")[u["deco"]])


def tab_coq(t):
    return coq_list(["(%s, %s)" % (hs(e["name"]), coq_bool(e["ok"])) for e in t or []])


def sign_to_coq(c):
    csr = "Csr %s %s %s %s" % (coq_list(["(%s)" % url_coq(u) for u in c["uris"] or []]),
                               coq_list([hs(d) for d in c["dns"] or []]),
                               coq_list([hs(d) for d in c["ips"] or []]), coq_N(c["emails"]))
    e = c["expect"]
    if e["ok"]:
        exp = "Ok (Leaf %s %s %s %s %s)" % (coq_list(["(%s)" % url_coq(u) for u in e.get("uris") or []]),
                                            coq_list([hs(d) for d in e.get("dns") or []]),
                                            coq_list([hs(d) for d in e.get("ips") or []]),
                                            coq_bool(e["is_ca"]), coq_N(e["serial"]))
    else:
        exp = "Err %s" % coq_N(SERR.get(e["err"], 99))
    ser = ("Some %s" % coq_N(c["serial"])) if c["has_serial"] else "None"
    node = "None" if c.get("entry", "authorize") == "authorize" else "(Some %s)" % hs(c.get("node", ""))
    return "CSign (SignCase %s %s %s (%s) %s %s %s %s %s (%s) (%s))" % (
        node, hs(c["dc"]), hs(c["cluster"]), ser, coq_N(c["builtin"]), tab_coq(c["svc_tab"]), tab_coq(c["node_tab"]),
        coq_bool(c["mesh"]), coq_bool(c["acl"]), csr, exp)


def roots_in(rs):
    return coq_list(["(%s, %s)" % (hs(r["id"]), coq_bool(r["active"])) for r in rs or []])


def cfg_in(g):
    return "(ConfigIn %s %s %s %s)" % (hs(g["provider"]), hs(g["cluster"]), coq_N(g["modify"]), coq_N(g["payload"]))


def op_coq(o):
    k = o["op"]
    if k == "set_roots":
        return "OpSetRoots %s %s" % (coq_N(o.get("cidx", 0)), roots_in(o.get("roots")))
    if k == "set_roots_config":
        return "OpSetRootsAndConfig %s %s %s" % (coq_N(o.get("cidx", 0)), roots_in(o.get("roots")), cfg_in(o["config"]))
    if k == "set_config":
        return "OpSetConfig %s" % cfg_in(o["config"])
    if k == "set_pstate":
        return "OpSetProviderState %s" % hs(o.get("id", ""))
    if k == "del_pstate":
        return "OpDeleteProviderState %s" % hs(o.get("id", ""))
    if k == "incr":
        return "OpIncrementSerial"
    if k == "snap":
        return "OpSnapshotRestore"
    return "OpInvalid"


def out_coq(o):
    if o["k"] == "bool":
        return "OBool %s" % coq_bool(o.get("b", False))
    if o["k"] == "nil":
        return "ONil"
    if o["k"] == "serial":
        return "OSerial %s" % coq_N(o.get("n", 0))
    return "OErr %s" % CERR.get(o.get("e", ""), "EInvalidOp")


def dump_coq(d):
    roots = coq_list(["Root %s %s %s %s" % (hs(r["id"]), coq_bool(r["active"]), coq_N(r["create"]), coq_N(r["modify"]))
                      for r in d["roots"] or []])
    g = d["config"]
    cfg = "None" if g is None else "(Some (Config %s %s %s %s %s))" % (
        hs(g["provider"]), hs(g["cluster"]), coq_N(g["create"]), coq_N(g["modify"]), coq_N(g["payload"]))
    ps = coq_list(["PState %s %s %s" % (hs(p["id"]), coq_N(p["create"]), coq_N(p["modify"])) for p in d["pstates"] or []])
    ser = ("(Some %s)" % coq_N(d["serial"])) if d["has_serial"] else "None"
    return "Store %s %s %s %s %s %s" % (roots, coq_N(d["roots_idx"]), cfg, ps, coq_N(d["builtin_idx"]), ser)


def hist_to_coq(c):
    steps = coq_list(["(%s, %s, %s, %s)" % (coq_N(s["idx"]), op_coq(s["op"]), out_coq(s["out"]), dump_coq(s["dump"]))
                      for s in c["steps"]])
    return "CHist %s" % steps


def case_to_coq(c):
    return sign_to_coq(c) if c["type"] == "sign" else hist_to_coq(c)


def shard_text(cases, tab=None):
    body = ";\n  ".join(case_to_coq(c) for c in cases)
    pre = ""
    m = "mismatches cases"
    if tab is not None:
        esc = coq_list([coq_bool(b) for b in tab["escape_path"]])
        hx = coq_list([coq_N(16 if v < 0 else v) for v in tab["hex"]])
        vl = coq_list([coq_bool(b) for b in tab["valid_enc"]])
        pre = "Definition tab_esc : list bool := %s.\nDefinition tab_hex : list N := %s.\nDefinition tab_valid : list bool := %s.\n" % (esc, hx, vl)
        m = "(tab_mismatch tab_esc tab_hex tab_valid ++ mismatches cases)%list"
    return ("From Verif Require Import Base.Prelude CA.Model Run.C12.\n"
            "Open Scope N_scope.\n%s"
            "Definition cases : list case := [\n  %s\n].\n"
            "Definition M := Eval vm_compute in %s.\nPrint M.\n" % (pre, body, m))


# ---- known-finding signatures ------------------------------------------------------------------

def sign_signatures(c):
    """one structured signature per oracle complaint of a sign case; the fields name the mechanism of
    the recorded defect so that another violation of the same kind is not masked"""
    sigs = []
    for k in (c.get("oracle_kind") or "").split("+"):
        if not k:
            continue
        sig = {"kind": k, "entry": c.get("entry", "authorize")}
        if k == "issued-unreadable-identity":
            sig["mechanism"] = c.get("unreadable_mechanism") or "other"
        if k == "decorated-uri":
            sig["decoration_in_request"] = bool(c.get("decoration_in_request"))
        if k == "agent-partition":
            sig["leaf_eq_request"] = bool(c.get("leaf_eq_request"))
        if k == "server-dns-san":
            lf = set(c["expect"].get("dns") or [])
            sig["san_in_request"] = all(d in set(c.get("dns") or []) for d in lf)
        sigs.append(sig)
    return sigs


def hist_signature(c):
    return {"kind": c.get("oracle_kind") or c["oracle"].split(":")[0]}


def shrink_hist(c):
    """shortest prefix that still shows the complaint (the oracle reports the step)"""
    import re
    m = re.search(r"step (\d+)", c["oracle"])
    if not m:
        return c
    k = int(m.group(1))
    d = dict(c)
    d["steps"] = c["steps"][:k + 1]
    return d


def run(ctx):
    info, ok = vlib.proof_stage(ctx, PROP_FILE, ["Run/C12.v"])
    cov = dict(info)
    cov["trusted_base"] = vlib.STD_TRUSTED + [
        "the ACL authorizer is an arbitrary function in the theorems; on cases it is the real acl.Authorizer tabulated on every name occurring in the request",
        "net/url: the model re-implements unescape, escape(encodePath), validEncoded, EscapedPath and setPath; the byte classes (shouldEscape for paths, hex digits, validEncoded) are tabulated from net/url on every run and compared in Coq; scheme/host/userinfo/query/fragment handling of url.Parse and URL.String is summarised by the fields Scheme, Host and a three-valued mark (nothing / userinfo-query-fragment / opaque-or-omit-host) read from the real *url.URL",
        "regexp: the four anchored identity patterns are modelled as shapes of the '/'-split path",
        "modelled, not verified: X.509/ASN.1 encoding, signatures, validity periods and chain validation (the direct oracle checks x509.Verify against the store's active root on every issued leaf: 'chains to the currently active root' is checked, not proved); rate limiting; external CA providers (Vault, AWS); secondary datacenters",
        "the auto-config entry point is the real AutoConfig.InitialConfiguration with a stand-in authorizer (a JWT that validates for the node): parseAutoConfigCSR is the real one, the node-name comparison of jwtAuthorizer.Authorize is copied in the hook file",
        "community edition build (no partitions/namespaces); strings.ToLower modelled on ASCII (hosts and cluster IDs)",
    ]
    assumptions = ["authorizer arbitrary", "crypto/x509 and net/url as oracles for certificate encoding and URL syntax outside the path"]
    if not ok:
        cov.update({"evaluations": 0, "distinct_nontrivial": 0, "rule": "proof stage failed", "samples": []})
        return ctx.finish(cov, assumptions)

    binp = vlib.go_build("ca")
    out = os.path.join(ctx.workdir, "cases.jsonl")
    rc, o = vlib.sh([binp, "-seed", str(ctx.seed), "-tier", ctx.tier, "-out", out], timeout=3000)
    if rc != 0:
        raise vlib.BuildError("harness run failed: " + o[-2000:])

    tab = None
    signs, hists = [], []
    verdicts = collections.Counter()
    shapes = collections.Counter()
    labels = collections.Counter()
    hist_ops = collections.Counter()
    hist_outs = collections.Counter()
    issued_kinds = collections.Counter()
    for line in open(out):
        c = json.loads(line)
        if c["type"] == "tab":
            tab = c
        elif c["type"] == "sign":
            signs.append(c)
            e = c["expect"]
            verdicts["issued" if e["ok"] else e["err"]] += 1
            if e["ok"]:
                issued_kinds[c.get("id_kind") or "?"] += 1
            for part in c["shape"].split(":", 1)[1].split(","):
                if part:
                    shapes[part.split("+")[0]] += 1
                    for l in part.split("+")[1:]:
                        labels[l] += 1
        else:
            hists.append(c)
            for s in c["steps"]:
                hist_ops[c["source"] + "/" + s["op"]["op"]] += 1
                o_ = s["out"]
                hist_outs[o_["k"] + (":" + str(o_.get("b", False)).lower() if o_["k"] == "bool" else "") + (":" + o_.get("e", "") if o_["k"] == "err" else "")] += 1

    coq_cases = [c for c in signs + hists if c["to_coq"]]
    unmodelled = [c for c in signs if c["to_coq"] and not c["expect"]["ok"] and c["expect"]["err"] not in SERR]

    # ---- model vs implementation, inside Coq ----
    per = 120
    shards = [coq_cases[i:i + per] for i in range(0, len(coq_cases), per)]
    texts = [shard_text(s, tab if k == 0 else None) for k, s in enumerate(shards)]
    res = vlib.coq_run_shards(PROP, texts, jobs=4, timeout=3000)
    mism = []
    tab_broken = False
    for s, (okk, idx, raw) in zip(shards, res):
        if not okk:
            ctx.violation({"kind": "case-file-failed", "log": raw}, found_input=False)
            continue
        for i in idx:
            if i == 4294967295:
                tab_broken = True
            else:
                mism.append(s[i])

    # ---- direct oracle on the implementation ----
    new_fail = []
    oracle_fail = [c for c in signs + hists if c["oracle"]]
    known_hits = collections.Counter()
    for c in oracle_fail:
        sigs = sign_signatures(c) if c["type"] == "sign" else [hist_signature(c)]
        unknown = []
        for sig in sigs:
            f = vlib.match_known(PROP, sig)
            if f:
                ctx.known(f, f["what"])
                known_hits[sig["kind"]] += 1
            else:
                unknown.append(sig)
        if unknown:
            new_fail.append((c, unknown))
    # ---- extended search: the correspondence broke but no generated case failed the oracle ----
    extra_runs = 0
    if (mism or tab_broken or unmodelled) and not new_fail:
        for k in range(1, 5):
            out2 = os.path.join(ctx.workdir, "extra_%d.jsonl" % k)
            rc, o = vlib.sh([binp, "-seed", str(ctx.seed * 1000 + k), "-tier", "thorough", "-out", out2], timeout=3000)
            if rc != 0:
                break
            extra_runs += 1
            for line in open(out2):
                c = json.loads(line)
                if c["type"] == "tab" or not c["oracle"]:
                    continue
                sigs = sign_signatures(c) if c["type"] == "sign" else [hist_signature(c)]
                unknown = [sg for sg in sigs if not vlib.match_known(PROP, sg)]
                if unknown:
                    new_fail.append((c, unknown))
            if new_fail:
                break
    seen_sig = set()
    for c, unknown in new_fail:
        key = json.dumps(unknown, sort_keys=True)
        if key in seen_sig:
            continue
        seen_sig.add(key)
        if c["type"] == "sign":
            ctx.violation({"kind": "oracle", "reason": c["oracle"], "signature": unknown,
                           "sign": {k: c[k] for k in ("entry", "node", "raw_uris", "ca_ext", "rules", "dc", "cluster", "shape", "expect", "oracle")},
                           "request_uris": c["raw_uris"], "acl_rules": c["rules"],
                           "replay_cmd": "build/bin/ca -replay <this file>"})
        else:
            sc = shrink_hist(c)
            ctx.violation({"kind": "oracle", "reason": c["oracle"], "signature": unknown,
                           "hist": {"type": "hist", "source": sc["source"], "id": sc["id"], "steps": sc["steps"], "oracle": sc["oracle"], "to_coq": True},
                           "replay_cmd": "build/bin/ca -replay <this file>"})
    for c in unmodelled[:3]:
        if not new_fail:
            ctx.violation({"kind": "correspondence", "theorem": "Run.C12.check_sign: the implementation failed in a way the model has no class for",
                           "request_uris": c["raw_uris"], "error": c["expect"]}, found_input=False)
    if (mism or tab_broken) and not new_fail:
        c = mism[0] if mism else None
        rep = {"kind": "correspondence",
               "theorem": "Run.C12.check (model sign_request / step = implementation)" if c else "Run.C12.tab_ok (net/url byte classes)",
               "mismatching_cases": len(mism)}
        if c is not None and c["type"] == "sign":
            rep["first"] = {k: c[k] for k in ("raw_uris", "uris", "rules", "dc", "cluster", "has_serial", "serial", "builtin", "expect", "shape")}
        elif c is not None:
            rep["first"] = {"source": c["source"], "id": c["id"], "steps": c["steps"]}
        ctx.violation(rep, found_input=False)

    nontrivial = set()
    for c in signs:
        if c["to_coq"]:
            nontrivial.add((c["shape"], c["expect"].get("err", "issued"), c["mesh"], c["acl"]))
    hist_distinct = set(json.dumps([(s["op"], s["out"]) for s in c["steps"]], sort_keys=True) for c in hists)
    sample = []
    for c in (signs[:2] + [x for x in signs if x["expect"]["ok"]][:2]):
        sample.append({"request_uris": c["raw_uris"], "rules": c["rules"], "result": c["expect"].get("err") or
                       {"uris": [u["str"] for u in c["expect"]["uris"]], "serial": c["expect"]["serial"], "is_ca": c["expect"]["is_ca"], "verify": c["expect"]["verify"]}})
    for c in hists[-2:]:
        sample.append({"history": [(s["idx"], s["op"]["op"], s["out"]) for s in c["steps"]][:8]})
    cov.update({
        "evaluations": len(signs) + sum(len(c["steps"]) for c in hists),
        "distinct_nontrivial": len(nontrivial) + len(hist_distinct),
        "rule": "sign requests: distinct (generator shape incl. every escaping/case/decoration label, outcome class, mesh/acl grant) among requests crypto/x509 accepted; histories: distinct (command, answer) sequences; every case is evaluated in Coq against the model and goes through the direct oracle",
        "sign_requests": len(signs),
        "sign_requests_in_coq": len([c for c in signs if c["to_coq"]]),
        "histories": len(hists),
        "history_steps": sum(len(c["steps"]) for c in hists),
        "traces_validated_against_impl": len(coq_cases),
        "model_mismatches": len(mism),
        "tabulation_ok": not tab_broken,
        "oracle_failures": len(oracle_fail),
        "oracle_failures_unknown": len(new_fail),
        "extended_search_runs": extra_runs,
        "known_finding_hits": dict(known_hits),
        "sign_outcomes": dict(verdicts),
        "sign_entry_points": dict(collections.Counter(c.get("entry", "authorize") for c in signs)),
        "issued_identity_kinds": dict(issued_kinds),
        "uri_kinds": dict(shapes),
        "uri_variation_labels": dict(labels),
        "history_ops": dict(hist_ops),
        "history_answers": dict(hist_outs),
        "samples": sample,
        "exhaustive": False,
        "exhaustive_small_scope": ("thorough tier: every CAOpSetRoots list of length <= 3 over IDs {a, b, ''} x active flags x {current, zero, stale/future index} on three base states: %d histories" % len([c for c in hists if c["source"] == "exhaustive"])) if ctx.tier == "thorough" else "thorough tier only",
    })
    return ctx.finish(cov, assumptions)
