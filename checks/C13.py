"""C13 — intention decisions follow precedence, independent of write order."""
import collections
import json
import os
import re
import time

import vlib
from vlib import coq_bool, coq_list, coq_N

PROP = "C13"
PROP_FILE = "Properties/C13.v"
HEADER = "From Verif Require Import Base.Prelude.\nFrom Verif Require Import Intention.Model.\nFrom Verif Require Import Run.C13.\n"


# ------------------------------------------------------------------ Coq printers

class Names:
    """Every distinct string of a file becomes one definition (keeps the case files small)."""

    def __init__(self):
        self.ids = {}

    def ref(self, s):
        if s not in self.ids:
            self.ids[s] = "s%d" % len(self.ids)
        return self.ids[s]

    def defs(self):
        out = []
        for s, n in self.ids.items():
            out.append("Definition %s : string := %s." % (n, vlib.coq_str(s)))
        return "\n".join(out) + "\n"


ACT = {"allow": "Allow", "deny": "Deny", "": "NoAct"}


def act(a):
    return ACT.get(a, "BadAct")


def ixn(nm, x):
    return "Ixn %s %s %s %s %s %s %s %s %s" % (
        nm.ref(x["id"]), nm.ref(x["peer"]), nm.ref(x["sns"]), nm.ref(x["sname"]), nm.ref(x["dns"]),
        nm.ref(x["dname"]), act(x["act"]), coq_N(x["nperm"]), coq_N(x.get("prec", 0)))


def src(nm, s):
    return "Src %s %s %s %s %s" % (nm.ref(s["peer"]), nm.ref(s["name"]), act(s["act"]), coq_N(s["nperm"]),
                                    coq_N(s.get("prec", 0)))


def op(nm, o):
    if o["kind"] == "lset":
        return "LSet (%s)" % ixn(nm, o["ixn"])
    if o["kind"] == "entry":
        return "CEnt (Entry %s %s)" % (nm.ref(o.get("name", "")), coq_list([src(nm, s) for s in o.get("srcs") or []]))
    if o["kind"] == "sdest":
        return "CDest %s" % nm.ref(o.get("name", ""))
    return "CUps %s (%s)" % (nm.ref(o.get("name", "")), src(nm, o["srcs"][0]))


def nlist(l):
    return coq_list([coq_N(x) for x in l])


def case_to_coq(nm, c):
    return "Case %s %s %s %s %s %s %s %s %s %s %s %s %s" % (
        coq_bool(c["legacy"]),
        coq_list([op(nm, o) for o in c["ops"]]),
        coq_list(["(%s, %s)" % (nm.ref(q[0]), nm.ref(q[1])) for q in c["qs"]]),
        coq_list([nm.ref(p) for p in c["peers"]]),
        coq_bool(c["dflt"]), coq_bool(c["aperm"]),
        nlist(c["wres"]),
        coq_list([ixn(nm, x) for x in c["all"]]),
        coq_list([nlist(l) for l in c["msrc"]]),
        coq_list([nlist(l) for l in c["mdst"]]),
        coq_list([nlist(l) for l in c["msrd"]]),
        nlist(c["r1"]), nlist(c["r2"]))


def shard_text(cases):
    nm = Names()
    body = ";\n  ".join(case_to_coq(nm, c) for c in cases)
    return (HEADER + nm.defs() +
            "Definition cases : list case := [\n  %s\n].\n"
            "Definition S := Eval vm_compute in scope_count cases.\nPrint S.\n"
            "Definition M := Eval vm_compute in mismatches cases.\nPrint M.\n" % body)


def tab_text(t):
    nm = Names()
    prec = coq_list(["(%s, %s, %s, %s, %s)" % (nm.ref(r[0]), nm.ref(r[1]), nm.ref(r[2]), nm.ref(r[3]), coq_N(int(r[4])))
                     for r in t["prec"]])
    cprec = coq_list(["(%s, %s, %s)" % (nm.ref(r[0]), nm.ref(r[1]), coq_N(int(r[2]))) for r in t["cprec"]])
    u = coq_list([ixn(nm, x) for x in t["u"]])
    less = coq_list([nlist(r) for r in t["less"]])
    authz = coq_list(["(%s, %s, %s, %s, %s)" % (coq_bool(r[0]), nm.ref(r[1]), nm.ref(r[2]), nm.ref(r[3]), nlist(r[4]))
                      for r in t["authz"]])
    return (HEADER + nm.defs() +
            "Definition prec_tab : list (string * string * string * string * N) := %s.\n"
            "Definition cprec_tab : list (string * string * N) := %s.\n"
            "Definition universe : list ixn := %s.\n"
            "Definition less_tab : list (list N) := %s.\n"
            "Definition authz_tab : list (bool * string * string * string * list N) := %s.\n"
            "Definition T := Eval vm_compute in\n"
            "  (prec_tab_ok prec_tab, cprec_tab_ok cprec_tab, less_tab_ok universe less_tab, authz_tab_ok universe authz_tab).\n"
            "Print T.\n"
            "(* UpdatePrecedence, computeIntentionPrecedence, IntentionPrecedenceSorter.Less and connect.IntentionMatch,\n"
            "   as tabulated from the Go code of this run, ARE the model's functions on these universes: *)\n"
            "Lemma tab_eq : (prec_tab_ok prec_tab, cprec_tab_ok cprec_tab, less_tab_ok universe less_tab,\n"
            "                authz_tab_ok universe authz_tab) = (true, true, true, true).\n"
            "Proof. vm_cast_no_check (eq_refl (true, true, true, true)). Qed.\n"
            % (prec, cprec, u, less, authz))


def run_tab(t):
    """Returns (ok, [names of the tabulations that fail], raw)."""
    os.makedirs(vlib.GEN, exist_ok=True)
    p = os.path.join(vlib.GEN, "tab_C13_p%d.v" % os.getpid())
    open(p, "w").write(tab_text(t))
    rc, out = vlib.sh(["coqc", "-Q", ".", "Verif", p], cwd=vlib.COQ, timeout=600)
    m = re.search(r"T\s*=\s*\(\s*(true|false)\s*,\s*(true|false)\s*,\s*(true|false)\s*,\s*(true|false)\s*\)", out.replace("\n", " "))
    names = ["UpdatePrecedence", "computeIntentionPrecedence", "IntentionPrecedenceSorter.Less", "connect.IntentionMatch"]
    if not m:
        return False, ["tab file did not evaluate"], out[-2000:]
    bad = [n for n, v in zip(names, m.groups()) if v != "true"]
    return rc == 0 and not bad, bad, out[-2000:]


# ------------------------------------------------------------------ the check

def load(path):
    tab, cases = None, []
    for line in open(path):
        c = json.loads(line)
        if c.get("tab"):
            tab = c
        else:
            cases.append(c)
    return tab, cases


def classify(ctx, cases):
    """known findings vs new oracle failures"""
    new, known = [], collections.Counter()
    for c in cases:
        for f in c.get("fails") or []:
            k = vlib.match_known(PROP, f["sig"]) if f["sig"].get("cause") else None
            if k:
                ctx.known(k, k["what"])
                known["%s [%s]" % (f["kind"], f["sig"]["cause"])] += 1
            else:
                new.append((c, f))
    return new, known


def replay_obj(c, f):
    return {"kind": "oracle", "failure": f["kind"], "detail": f["detail"], "signature": f["sig"],
            "group_kind": c["gkind"], "mode": c["mode"], "case_id": c["id"],
            "replay": f.get("shrunk") or {"legacy": c["legacy"], "ops": c["ops"], "qs": c["qs"], "peers": c["peers"],
                                          "dflt": c["dflt"], "aperm": c["aperm"]},
            "replay_cmd": "build/bin/intention -replay <this file>"}


def run(ctx):
    info, ok = vlib.proof_stage(ctx, PROP_FILE, ["Run/C13.v"])
    cov = dict(info)
    cov["trusted_base"] = vlib.STD_TRUSTED + [
        "go-memdb indexes and iteration (the model keeps tables as lists; index lookups are modelled as filters with the same case folding)",
        "CE build: partitions, sameness groups and non-default namespaces of config entries do not exist; the harness asserts the corresponding fields stay empty",
        "modelled, not verified: ACL filtering and blocking-query plumbing of the RPC endpoints (Intention.Match/Check, agent authorize) around the store calls; "
        "the discovery-chain protocol check that admits L7 intentions (a global proxy-defaults with protocol=http is written first); "
        "catalog registrations (no instance of any destination is registered: GatewayServiceKind then depends only on service-defaults Destination blocks, which ARE modelled and generated; terminating-gateway services are not); IntentionPermission contents beyond their count; Intention.Meta / ExternalSource; "
        "legacy UUID syntax (generated IDs are valid lower-case UUIDs); non-ASCII names (strings.ToLower is modelled on ASCII)",
        "Go's sort.Sort / sort.SliceStable return a sorted permutation (any such permutation is the model's list because Less is strict on stored intentions)",
    ]
    assumptions = ["names are ASCII", "no service instances or terminating-gateway services registered in the catalog", "CE (no namespaces/partitions)"]
    if not ok:
        cov.update({"evaluations": 0, "distinct_nontrivial": 0, "rule": "proof stage failed", "samples": []})
        return ctx.finish(cov, assumptions)

    t0 = time.time()
    vlib.log("C13: proof stage done")
    binp = vlib.go_build("intention")
    vlib.log("C13: harness built %.1fs" % (time.time() - t0))
    out = os.path.join(ctx.workdir, "cases.jsonl")
    # the sampled slice of the small scope and the random groups depend on the seed AND on the commit under
    # test, so that successive runs on a moving tree do not look at the same 1/14 of the scope every time
    rc_h, head = vlib.sh(["git", "-C", vlib.REPO, "rev-parse", "HEAD"])
    salt = int(head.strip()[:8], 16) if rc_h == 0 and re.match(r"^[0-9a-f]{8}", head.strip()) else 0
    if os.environ.get("VERIF_C13_SALT"):
        salt = int(os.environ["VERIF_C13_SALT"])
    rc, o = vlib.sh([binp, "-seed", str(ctx.seed), "-salt", str(salt), "-tier", ctx.tier, "-out", out], timeout=3000)
    if rc != 0:
        raise vlib.BuildError("harness run failed: " + o[-2000:])
    tab, cases = load(out)
    vlib.log("C13: harness ran, %d cases, %.1fs" % (len(cases), time.time() - t0))

    # ---- finite tabulations (Go function = model function, proved by vm_compute on this run's table),
    #      concurrently with the model-vs-implementation shards evaluated inside Coq
    from concurrent.futures import ThreadPoolExecutor
    coq_cases = [c for c in cases if c["to_coq"]]
    per = 300
    shards = [coq_cases[i:i + per] for i in range(0, len(coq_cases), per)]
    with ThreadPoolExecutor(max_workers=1) as ex:
        tab_future = ex.submit(run_tab, tab)
        res = vlib.coq_run_shards(PROP, [shard_text(s) for s in shards], jobs=4)
        tab_ok, tab_bad, tab_raw = tab_future.result()
    vlib.log("C13: tabulation lemmas %s %.1fs" % (tab_ok, time.time() - t0))
    mism, shard_fail, in_scope = [], [], 0
    for s, (okk, idx, raw) in zip(shards, res):
        if not okk:
            shard_fail.append(raw)
            continue
        mism += [s[i] for i in idx]
        m = re.search(r"S\s*=\s*(\d+)%N", raw)
        in_scope += int(m.group(1)) if m else 0
    vlib.log("C13: coq shards done %.1fs" % (time.time() - t0))

    # ---- direct oracle on the implementation's observations
    new_fail, known = classify(ctx, cases)
    searched = 0
    if (mism or shard_fail or not tab_ok) and not new_fail:
        # the correspondence broke but no generated case fails the property: search harder with the oracle only
        for extra_seed in (ctx.seed + 1000, ctx.seed + 2000):
            out2 = os.path.join(ctx.workdir, "search.jsonl")
            rc, o = vlib.sh([binp, "-seed", str(extra_seed), "-salt", str(salt), "-tier", "thorough", "-coqmax", "1", "-out", out2], timeout=3000)
            if rc != 0:
                break
            _, more = load(out2)
            searched += len(more)
            new_fail, _ = classify(ctx, more)
            if new_fail:
                break

    seen_kinds = set()
    for c, f in new_fail:
        if f["kind"] in seen_kinds or len(seen_kinds) >= 6:
            continue
        seen_kinds.add(f["kind"])
        ctx.violation(replay_obj(c, f))
    if not new_fail:
        if not tab_ok:
            ctx.violation({"kind": "tabulation", "lemma": "coq/gen/tab_C13.v: " + ", ".join(tab_bad),
                           "meaning": "the Go function no longer equals the model's function on the tabulated universe",
                           "log": tab_raw, "oracle_only_cases_searched": searched}, found_input=False)
        if shard_fail:
            ctx.violation({"kind": "case-file-failed", "log": shard_fail[0]}, found_input=False)
        if mism:
            c = mism[0]
            ctx.violation({"kind": "correspondence", "theorem": "Run.C13.check (model observations = implementation observations)",
                           "mismatching_cases": len(mism), "oracle_only_cases_searched": searched,
                           "first": {k: c[k] for k in ("id", "gkind", "mode", "legacy", "ops", "qs", "peers", "dflt", "aperm",
                                                      "wres", "wmsg", "all", "msrc", "mdst", "msrd", "r1", "r2")},
                           "replay": {"legacy": c["legacy"], "ops": c["ops"], "qs": c["qs"], "peers": c["peers"],
                                      "dflt": c["dflt"], "aperm": c["aperm"]},
                           "replay_cmd": "build/bin/intention -replay <this file>"}, found_input=False)

    # ---- evidence
    kinds = collections.Counter((c["gkind"], c["mode"]) for c in cases)
    nops = collections.Counter(len(c["ops"]) for c in cases)
    opmix = collections.Counter(o["kind"] for c in cases for o in c["ops"])
    wres = collections.Counter(str(r) for c in cases for r in c["wres"])
    acts = collections.Counter()
    peered = 0
    for c in cases:
        for x in c["all"]:
            acts["l7" if x["nperm"] else (x["act"] or "none")] += 1
            peered += 1 if x["peer"] else 0
    distinct = len({json.dumps([c["legacy"], c["ops"], c["dflt"], c["aperm"]], sort_keys=True) for c in coq_cases})
    decisions = sum(4 * (len(c["r1"]) + len(c["r2"])) for c in cases)
    cov.update({
        "evaluations": len(cases),
        "distinct_nontrivial": distinct,
        "rule": "a case = one ordered history of writes on a fresh real state.Store plus all match/list/decision queries over its names; "
                "distinct_nontrivial = distinct (representation, history, default policy, allow-permissions) tuples evaluated in Coq against the model; "
                "every case (also those not sent to Coq) goes through the direct oracle under all four (default, allow-permissions) combinations",
        "traces_validated_against_impl": len(coq_cases),
        "model_mismatches": len(mism),
        "sample_salt": salt,
        "cases_meeting_theorem_hypotheses": in_scope,
        "cases_meeting_theorem_hypotheses_rule": "evaluated in Coq by Run.C13.in_scope: final table/store satisfies legacy_okb/store_okb and no two stored or queried names differ only in case (hypotheses of C13_most_specific, C13_paths_agree, C13_sorted_*)",
        "tabulations": {"UpdatePrecedence rows": len(tab["prec"]), "computeIntentionPrecedence rows": len(tab["cprec"]),
                        "Less pairs": len(tab["u"]) ** 2, "IntentionMatch rows": len(tab["authz"]) * len(tab["u"]),
                        "all_equal_to_model": tab_ok},
        "decisions_checked_by_oracle": decisions,
        "oracle_failures_known": dict(known),
        "oracle_failures_unknown": len(new_fail),
        "oracle_only_cases_searched_after_mismatch": searched,
        "group_kinds": {"%s/%s" % k: v for k, v in sorted(kinds.items())},
        "history_lengths": {str(k): v for k, v in sorted(nops.items())},
        "op_mix": dict(opmix),
        "write_result_codes": dict(wres),
        "stored_intentions_by_action": dict(acts),
        "stored_peered_intentions": peered,
        "exhaustive": ctx.tier == "thorough",
        "oracle_clauses": ["not-sorted", "precedence-not-specificity", "src/dst-match-extra|missing", "dest-target-src-match-extra|missing",
                           "ambiguous-most-specific", "decision-not-most-specific", "routes-disagree", "order-dependent",
                           "stored-order-dependent", "representations-disagree (legacy table vs structs.MigrateIntentions image)"],
        "exhaustive_scope": "thorough: every set of <= 3 intentions with distinct (source, destination) over names {a,b,*} x {allow,deny,L7}, "
                            "in every order, in three representations (legacy table, IntentionMutation upsert, whole config entries); quick: every 14th set",
        "samples": [{"id": c["id"], "gkind": c["gkind"], "mode": c["mode"], "ops": c["ops"], "wres": c["wres"],
                     "all": c["all"], "oracle": c["oracle"]} for c in (coq_cases[:2] + coq_cases[-2:])],
    })
    return ctx.finish(cov, assumptions)
