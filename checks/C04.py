"""C04 — locks: one holder, only live sessions, released whenever the session ends."""
from checks import storelib

def run(ctx):
    return storelib.run_store_check(
        ctx, "C04", "Properties/C04.v", 450, 4500, "C04",
        ["Go oracle: lock-holder / check-link / query-session liveness on the real store after every command, and the end-of-session clause on consecutive dumps"],
        "same generator as C03 (seed offset by tier only); every way a session can end is generated: destroy, node deregistration, check deregistration, check going critical by registration and by transaction verbs, service deregistration taking a bound check, node rename by ID, session delete inside a transaction, session-type checks chaining sessions; distinct_nontrivial = distinct command sequences")
