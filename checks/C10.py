"""C10 — conditional writes are honest: applied iff matched, reported iff applied."""
import json, os, collections, time
import vlib
from checks import storelib
from checks.storelib import cs, cb, cn, clist

PROP = "C10"
PROP_FILE = "Properties/C10.v"


# ------------------------------------------------------------------ cas family -> Coq terms of CAS.Model / Run.C10
ERRS = {"EGraph", "ECAConfigIndex", "EActiveRoots", "EActiveReplaced", "ERootID", "ENoSecret", "ENoAccessor", "ESecretImmutable",
        "EFGNoStatus", "EFGNoPolicy"}


def ckey(c):
    return "(%s, %s)" % (cs(c.get("ckind", "")), cs(c.get("name", "")))


def roots(rs):
    return clist(["(%s, %s)" % (cs(r["id"]), cb(r["active"])) for r in rs or []])


def opt(flag, v):
    return "(Some %s)" % cn(v) if flag else "None"


def ccmd(c):
    k = c["kind"]
    g = lambda f: c.get(f, 0)
    if k == "cfg-upsert":
        return "CfgUpsert %s %s" % (ckey(c), cn(g("content")))
    if k == "cfg-upsert-cas":
        return "CfgUpsertCAS %s %s %s" % (ckey(c), cn(g("content")), cn(g("index")))
    if k == "cfg-upsert-status-cas":
        return "CfgUpsertStatusCAS %s %s %s %s" % (ckey(c), cn(g("content")), cn(g("status")), cn(g("index")))
    if k == "cfg-delete":
        return "CfgDelete %s" % ckey(c)
    if k == "cfg-delete-cas":
        return "CfgDeleteCAS %s %s" % (ckey(c), cn(g("index")))
    if k == "ca-set-config":
        return "CASetConfig %s %s %s" % (cs(c.get("cluster", "")), cn(g("provider")), cn(g("index")))
    if k == "ca-set-roots":
        return "CASetRoots %s %s" % (cn(g("index")), roots(c.get("roots")))
    if k == "ca-set-roots-config":
        return "CASetRootsAndConfig %s %s %s %s %s" % (cn(g("index")), roots(c.get("roots")), cs(c.get("cluster", "")),
                                                       cn(g("provider")), cn(g("cfg_index")))
    if k == "autopilot":
        return "Autopilot %s %s %s" % (cb(c.get("cas", False)), cn(g("payload")), cn(g("index")))
    if k == "token-set":
        return "TokenSet %s %s" % (cb(c.get("cas", False)),
                                   clist(["TokReq %s %s %s %s" % (cs(q["accessor"]), cs(q["secret"]), cn(q["descr"]), cn(q["index"]))
                                          for q in c.get("tokens") or []]))
    if k == "token-delete":
        return "TokenDelete %s" % clist([cs(a) for a in c.get("accessors") or []])
    if k == "feature-gate":
        return "FeatureGate %s %s %s %s" % (opt(c.get("has_policy"), g("policy")), opt(c.get("has_status"), g("fg_status")),
                                            cn(g("epi")), cn(g("esi")))
    if k == "rpc-cfg-apply":
        return "RpcCfgApply %s %s %s %s %s" % (cb(c.get("cas", False)), ckey(c), cn(g("content")), cn(g("status")), cn(g("index")))
    if k == "rpc-cfg-delete":
        return "RpcCfgDelete %s %s %s" % (cb(c.get("cas", False)), ckey(c), cn(g("index")))
    raise ValueError("unknown cas command " + k)


def cres(r):
    k = r["kind"]
    if k == "nil":
        return "RNil"
    if k == "bool":
        return "(RBool %s)" % cb(r.get("bool", False))
    if k == "err":
        if r["err"] not in ERRS:
            raise ValueError("unmapped implementation error: " + r["err"])
        return "(RErr %s)" % r["err"]
    raise ValueError(k)


def some(x, f):
    return "None" if x is None else "(Some (%s))" % f(x)


def cdump(d):
    if d["other"]:
        raise ValueError("rows outside the model's tables: %s" % d["other"])
    return "(Dump %s %s %s %s %s %s %s %s)" % (
        clist(["((%s, %s), CE %s %s %s %s)" % (cs(r["kind"]), cs(r["name"]), cn(r["content"]), cn(r["status"]), cn(r["c"]), cn(r["m"]))
               for r in d["cfg"]]),
        some(d["ca_config"], lambda r: "CAConf %s %s %s %s" % (cs(r["cluster"]), cn(r["provider"]), cn(r["c"]), cn(r["m"]))),
        clist(["(%s, Root %s %s %s)" % (cs(r["id"]), cb(r["active"]), cn(r["c"]), cn(r["m"])) for r in d["roots"]]),
        some(d["autopilot"], lambda r: "AP %s %s %s" % (cn(r["payload"]), cn(r["c"]), cn(r["m"]))),
        clist(["(%s, Tok %s %s %s %s)" % (cs(r["accessor"]), cs(r["secret"]), cn(r["descr"]), cn(r["c"]), cn(r["m"])) for r in d["tokens"]]),
        some(d["fg_policy"], lambda r: "FGP %s %s %s" % (cn(r["payload"]), cn(r["c"]), cn(r["m"]))),
        some(d["fg_status"], lambda r: "FGS %s %s %s %s" % (cn(r["payload"]), cn(r["policy_index"]), cn(r["c"]), cn(r["m"]))),
        clist(["(%s, %s)" % (cs(i[0]), cn(i[1])) for i in d["index"]]))


def ccase(h):
    return clist(["Step %s (%s) %s %s" % (cn(s["cmd"]["idx"]), ccmd(s["cmd"]), cres(s["res"]),
                                          "None" if s.get("dump") is None else "(Some %s)" % cdump(s["dump"]))
                  for s in h["steps"]])


def cas_shard_text(hs):
    body = ";\n  ".join(ccase(h) for h in hs)
    return ("From stdpp Require Import gmap strings.\nFrom Coq Require Import NArith.\n"
            "From Verif Require Import CAS.Model Run.C10.\nLocal Open Scope N_scope.\n"
            "Definition cases : list case := [\n  %s\n].\n"
            "Definition M := Eval vm_compute in mismatches cases.\nPrint M.\n" % body)


# ------------------------------------------------------------------ verdicts

def entity(target):
    t = target.split("/")[0]
    for p, e in (("rpc-cfg", "config-entry-rpc"), ("txn-shape", "txn"), ("acl-token", "acl-token"), ("autopilot", "autopilot"), ("cfg-", "config-entry"), ("ca-config", "ca-config"),
                 ("ca-roots-and-config", "ca-roots+config"), ("ca-roots", "ca-roots"), ("feature-gate", "feature-gate"),
                 ("kv-", "kv"), ("txn-kv", "kv"), ("txn-node", "node"), ("txn-service", "service"), ("txn-check", "check")):
        if t.startswith(p):
            return e
    return t


def signature(o):
    """structured signature of an oracle failure, computed from the observation"""
    sig = {"kind": o["oracle"], "entity": entity(o["target"]), "target": o["target"].split("/")[0],
           "result": o["result"], "target_changed": o.get("target_changed", False), "changed": o["changed"],
           "present": o["present"], "payload_equal": o.get("payload_equal", False)}
    if o["oracle"] == "matched-not-applied":
        sig["present"] = o["present"]
        sig["supplied_zero"] = (o["supplied"] == 0)
    return sig


def replay_of(h, o):
    n = o["step"] + 1
    if h["family"] == "store":
        return {"family": "store", "cmds": h["cmds"][:n], "results": h["results"][:n]}
    return {"family": "cas", "ccmds": [s["cmd"] for s in h["steps"][:n]], "cresults": [s["res"] for s in h["steps"][:n]]}


def shrink(h, o):
    """The replay is the history cut after the failing conditional command.  Failures are reported
    shortest first, so whenever a defect shows in the cross product the replay is that minimal case
    (2-6 set-up commands on a fresh store + the conditional command); a random history is only used
    when the cross product is silent."""
    return replay_of(h, o)


def run(ctx):
    t0 = time.time()
    timing = {}
    info, ok = vlib.proof_stage(ctx, PROP_FILE, ["Run/C10.v", "Run/Store.v"])
    timing["proof_stage_s"] = round(time.time() - t0, 1)
    cov = dict(info)
    cov["trusted_base"] = vlib.STD_TRUSTED + [
        "two models: coq/Store/Model.v (KV and catalog verbs; shared with C03-C05) and coq/CAS/Model.v (config entries, CA configuration, CA roots, roots+configuration, autopilot, ACL tokens, feature gates); both tied to /repo by this run's differential execution only",
        "modelled rather than verified: go-memdb (atomic commit/abort of a write transaction, unique primary index), msgpack decoding and the FSM dispatch table; config-entry graph validation is a parameter of the model (theorems hold for every validator; the run instantiates it with the router-needs-http rule the generated entries can trigger)",
        "payloads the property does not look inside are numbers (protocol, provider, description, ...); ACL tokens are keyed by accessor and the generated secrets are unique per accessor (memdb keys the table by secret)",
        "projection: every table row touched by these verbs with create/modify index, and the WHOLE index table for the cas family; for the store family the projection of Run/Store.v (index rows kvs/tombstones/sessions/prepared-queries; catalog index rows are outside Store/Model.v) — the Go oracle's 'unchanged' uses a fingerprint of every row of every table instead"]
    assumptions = ["go-memdb transaction semantics (atomic commit/abort)", "Raft hands the FSM strictly increasing indexes (used by the visibility lemmas, not by honesty)",
                   "generators stay inside the modelled command universe"]
    if not ok:
        cov.update({"evaluations": 0, "distinct_nontrivial": 0, "rule": "proof stage failed", "samples": []})
        return ctx.finish(cov, assumptions)

    t1 = time.time()
    binp = vlib.go_build("cas")
    timing["go_build_s"] = round(time.time() - t1, 1)
    t1 = time.time()
    out = os.path.join(ctx.workdir, "cases.jsonl")
    rc, o = vlib.sh([binp, "-seed", str(ctx.seed), "-tier", ctx.tier, "-out", out], timeout=3000)
    if rc != 0:
        raise vlib.BuildError("harness run failed: " + o[-2000:])
    hs = [json.loads(l) for l in open(out)]
    timing["harness_run_s"] = round(time.time() - t1, 1)
    t1 = time.time()

    # mixed-case names are outside the models' vocabulary (they key by exact string): oracle only
    store = [h for h in hs if h["family"] == "store" and not h.get("nocoq")]
    cas = [h for h in hs if h["family"] == "cas" and not h.get("nocoq")]

    # ---- model vs implementation, inside Coq
    shards, texts = [], []
    try:
        per = 120
        for i in range(0, len(store), per):
            shards.append(store[i:i + per])
            texts.append(storelib.shard_text(store[i:i + per]))
        per = 150
        for i in range(0, len(cas), per):
            shards.append(cas[i:i + per])
            texts.append(cas_shard_text(cas[i:i + per]))
    except ValueError as e:
        ctx.violation({"kind": "correspondence", "theorem": "Run.C10.check / Run.Store.check",
                       "what": "implementation produced an observation outside the model's vocabulary: %s" % e}, found_input=False)
        shards, texts = [], []
    results = vlib.coq_run_shards(PROP, texts, jobs=6)
    timing["coq_shards_s"] = round(time.time() - t1, 1)
    timing["coq_shards"] = len(texts)
    mism = []
    for s, (okk, idx, raw) in zip(shards, results):
        if not okk:
            ctx.violation({"kind": "case-file-failed", "log": raw}, found_input=False)
            continue
        mism += [s[i] for i in idx]

    # ---- the direct oracle (evaluated by the harness on the implementation's own observations)
    stats = collections.Counter()
    res_hist = collections.Counter()
    fails, unknown = [], []
    distinct = set()
    for h in hs:
        for o in h["obs"]:
            stats[(o["target"], o["pre"], o["idx_class"], o["payload"])] += 1
            res_hist[o["target"].split("/")[0] + ":" + o["result"]] += 1
            distinct.add((o["target"], o["pre"], o["idx_class"], o["payload"], o["present"], o["matched"], o["result"], o["changed"]))
            if o["oracle"]:
                fails.append((h, o))
    for h, o in fails:
        sig = signature(o)
        f = vlib.match_known(PROP, sig)
        if f:
            ctx.known(f, f["what"])
        else:
            unknown.append((h, o, sig))
    # report each distinct unknown signature once, preferring the shortest history
    seen_sig = set()
    for h, o, sig in sorted(unknown, key=lambda x: x[1]["step"]):
        key = json.dumps(sig, sort_keys=True)
        if key in seen_sig:
            continue
        seen_sig.add(key)
        rep = shrink(h, o)
        rep.update({"kind": "oracle", "reason": o["oracle"], "observation": o, "signature": sig,
                    "replay_cmd": "build/bin/cas -replay <this file>"})
        ctx.violation(rep)
    searched = None
    if mism and not unknown:
        # correspondence broken but the oracle was silent: search harder (fresh seed, 8x the random
        # histories, oracle only) for a concrete dishonest conditional write
        out2 = os.path.join(ctx.workdir, "search.jsonl")
        nrand = 8 * len([h for h in hs if h["mode"] == "random"]) // 2
        vlib.sh([binp, "-seed", str(ctx.seed + 7919), "-tier", ctx.tier, "-n", str(nrand), "-out", out2], timeout=3000)
        found = []
        for l in open(out2):
            h2 = json.loads(l)
            for o in h2["obs"]:
                if o["oracle"] and not vlib.match_known(PROP, signature(o)):
                    found.append((h2, o, signature(o)))
        searched = {"extra_random_histories": 2 * nrand, "found": len(found)}
        seen2 = set()
        for h2, o, sig in sorted(found, key=lambda x: x[1]["step"]):
            key = json.dumps(sig, sort_keys=True)
            if key in seen2:
                continue
            seen2.add(key)
            rep = shrink(h2, o)
            rep.update({"kind": "oracle", "reason": o["oracle"], "observation": o, "signature": sig,
                        "found_by": "extended search after a correspondence mismatch",
                        "replay_cmd": "build/bin/cas -replay <this file>"})
            ctx.violation(rep)
        unknown = found
    if mism and not unknown:
        h = mism[0]
        rep = {"kind": "correspondence",
               "theorem": "Run.Store.check (Store/Model.v)" if h["family"] == "store" else "Run.C10.check (CAS/Model.v)",
               "what": "the model's results/state differ from the implementation's and the oracle found no dishonest conditional write in %d observed commands" % sum(stats.values()),
               "mismatching_histories": len(mism), "case_id": h["id"], "obs": h["obs"][:3]}
        rep.update(replay_of(h, {"step": 10 ** 6}))
        ctx.violation(rep, found_input=False)

    targets = sorted({o["target"] for h in hs for o in h["obs"]})
    cross = [h for h in hs if h["mode"] == "cross"]
    cov.update({
        "evaluations": sum(stats.values()),
        "distinct_nontrivial": len(distinct),
        "rule": "every conditional command type x pre-state {absent, present, deleted-and-recreated (singletons: rewritten)} x supplied index {zero, current, stale (an index the entity carried earlier, the old incarnation's for a recreated one), future} x payload {same, different, invalid (a write the store rejects)}, each on a fresh FSM; the composite roots+configuration and the feature-gate update over the product of BOTH expected indexes; then random histories of 6-20 (thorough: 6-36) commands on an accumulated state. evaluations = conditional commands judged by the oracle; distinct_nontrivial = distinct (command type, pre-state, index class, payload, presence, matched, result, changed) tuples. Every history is also evaluated in Coq (all results, state after every command for the cross product, final state for random histories)",
        "histories": len(hs), "oracle_only_histories": len([h for h in hs if h.get("nocoq")]),
        "txn_shape_cases": len([h for h in hs if h["mode"] == "txn-shape"]), "cross_product_cases": len(cross), "random_histories": len([h for h in hs if h["mode"] == "random"]),
        "command_types": targets,
        "traces_validated_against_impl": len(hs) - len(mism),
        "model_mismatches": len(mism),
        "oracle_failures": len(fails), "oracle_failures_unknown": len(unknown),
        "result_histogram": dict(res_hist),
        "index_class_histogram": dict(collections.Counter(o["idx_class"] for h in hs for o in h["obs"])),
        "payload_histogram": dict(collections.Counter(o["payload"] for h in hs for o in h["obs"])),
        "pre_state_histogram": dict(collections.Counter(o["pre"] for h in hs for o in h["obs"])),
        "matched_histogram": dict(collections.Counter(str(o["matched"]) for h in hs for o in h["obs"])),
        "samples": [{"family": h["family"], "obs": h["obs"][0]} for h in (cross[:2] + cross[-2:] + hs[-1:]) if h["obs"]],
        "timing": timing,
        "extended_search": searched,
        "exhaustive": False,
        "exhaustive_note": "the cross product is exhaustive over the stated classes (and over both expected indexes for the two-index commands); the random histories are samples",
    })
    return ctx.finish(cov, assumptions)
