"""C18 — resource store: version CAS, stable UIDs, ordered watches."""
import json, os, collections
import vlib
from vlib import coq_list, coq_N

PROP = "C18"
PROP_FILE = "Properties/C18.v"


# ------------------------------------------------------------------ Coq term printers
def cs(s):
    b = s.encode("utf-8")
    return "[" + ";".join(str(x) for x in b) + "]" if b else "[]"


def cver(v):
    return str(int(v)) if v != "" else "0"


def cid(i):
    return "(K %s %s %s %s %s)" % (cs(i["G"]), cs(i["K"]), cs(i["P"]), cs(i["N"]), cs(i["Nm"]))


def cres(r):
    own = "None"
    if r.get("own"):
        own = "(Some (%s, %s))" % (cid(r["own"]["id"]), cs(r["own"]["uid"]))
    i = r["id"]
    return "(R %s %s %s %s %s %s %s %s %d %s)" % (cs(i["G"]), cs(i["K"]), cs(i["P"]), cs(i["N"]), cs(i["Nm"]),
                                                  cs(r["gv"]), cs(r["uid"]), cver(r["ver"]), r["data"], own)


def cq(q):
    return "(Q %s %s %s %s %s)" % (cs(q["G"]), cs(q["K"]), cs(q["P"]), cs(q["N"]), cs(q["Pre"]))


def cop(o):
    t = o["t"]
    if t == "write":
        return "OWrite %s" % cres(o["res"])
    if t == "writes":
        return "OWriteS %s %s" % (cres(o["res"]), cver(o.get("vsn", "")))
    if t == "delete":
        return "ODelete %s %s %s" % (cid(o["id"]), cs(o.get("uid", "")), cver(o.get("vsn", "")))
    if t == "read":
        return "ORead %s %s %s" % (cid(o["id"]), cs(o.get("gv", "")), cs(o.get("uid", "")))
    if t == "list":
        return "OList %s" % cq(o["q"])
    if t == "listowner":
        return "OListByOwner %s %s" % (cid(o["id"]), cs(o.get("uid", "")))
    if t == "watch":
        return "OWatch %s" % cq(o["q"])
    if t == "next":
        return "ONext %d" % o.get("w", 0)
    if t == "close":
        return "OClose %d" % o.get("w", 0)
    if t == "publish":
        return "OPublish"
    if t == "restore":
        return "ORestore %s" % coq_list([cres(r) for r in (o.get("list") or [])])
    if t == "snapshot":
        return "OSnapshot"
    if t == "evict":
        return "OEvict %s" % cq(o["q"])
    raise ValueError(t)


ERR = {"notfound": "ENotFound", "cas": "ECAS", "wronguid": "EWrongUid", "watchclosed": "EWatchClosed", "other": "EOther"}


def cout(o):
    t = o["t"]
    if t == "ok":
        return "OutOk"
    if t == "res":
        return "OutRes %s" % cres(o["res"])
    if t == "list":
        return "OutList %s" % coq_list([cres(r) for r in (o.get("list") or [])])
    if t == "err":
        return "OutErr %s" % ERR[o["err"]]
    if t == "gvm":
        return "OutGVM %s" % cres(o["res"])
    if t == "event":
        if o["ev"] == "eos":
            return "OutEvent EndOfSnapshot"
        return "OutEvent (%s %s)" % ("Upsert" if o["ev"] == "upsert" else "Delete", cres(o["res"]))
    if t == "noevent":
        return "OutNoEvent"
    if t == "watch":
        return "OutWatch %d" % o.get("w", 0)
    if t == "bool":
        return "OutBool %s" % ("true" if o.get("b") else "false")
    raise ValueError(t)


def case_to_coq(c):
    return "Case %s" % coq_list(["(%s, %s)" % (cop(s["op"]), cout(s["out"])) for s in c["steps"]])


def shard_text(cases):
    body = ";\n  ".join(case_to_coq(c) for c in cases)
    return ("From Verif Require Import Base.Prelude Resource.Model Run.C18.\nLocal Open Scope N_scope.\n"
            "Definition cases : list case := [\n  %s\n].\n"
            "Definition M := Eval vm_compute in mismatches cases.\nPrint M.\n" % body)
