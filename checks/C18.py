"""C18 — resource store: version CAS, stable UIDs, ordered watches."""
import json, os, collections
import vlib
from vlib import coq_list, coq_N

PROP = "C18"
PROP_FILE = "Properties/C18.v"


# ------------------------------------------------------------------ Coq term printers
# Elaborating big literal terms is what costs time in coqc, so every distinct string, id, resource and
# query of a shard is defined once and referred to by name.
class Intern:
    def __init__(self):
        self.defs, self.names = [], {}

    def name(self, kind, key, term):
        k = (kind, key)
        if k not in self.names:
            n = "%s%d" % (kind, len(self.names))
            self.names[k] = n
            self.defs.append("Definition %s := %s." % (n, term))
        return self.names[k]

    def s(self, x):
        b = x.encode("utf-8")
        return self.name("s", x, ("[" + ";".join(str(c) for c in b) + "]%N") if b else "(@nil N)")

    def id(self, i):
        key = (i["G"], i["K"], i["P"], i["N"], i["Nm"])
        return self.name("k", key, "K %s %s %s %s %s" % tuple(self.s(x) for x in key))

    def res(self, r):
        own, okey = "None", None
        if r.get("own"):
            okey = (tuple(r["own"]["id"][f] for f in ("G", "K", "P", "N", "Nm")), r["own"]["uid"])
            own = "(Some (%s, %s))" % (self.id(r["own"]["id"]), self.s(r["own"]["uid"]))
        i = r["id"]
        key = (tuple(i[f] for f in ("G", "K", "P", "N", "Nm")), r["gv"], r["uid"], r["ver"], r["data"], okey)
        return self.name("r", key, "Res %s %s %s %s %d %s" % (self.id(i), self.s(r["gv"]), self.s(r["uid"]), cver(r["ver"]), r["data"], own))

    def q(self, q):
        key = (q["G"], q["K"], q["P"], q["N"], q["Pre"])
        return self.name("q", key, "Q %s %s %s %s %s" % tuple(self.s(x) for x in key))

    def rlist(self, l):
        key = tuple(self.res(r) for r in (l or []))
        return self.name("l", key, "[%s]" % "; ".join(key) if key else "(@nil resource)")


def cver(v):
    """version strings: "" -> 0, canonical positive decimals -> the number. The model compares numbers where the
    code compares strings, so anything else ("0", "01", non-decimal) has no faithful image and is refused."""
    if v == "":
        return "0"
    if not (v.isdigit() and v[0] != "0"):
        raise ValueError("version string %r has no image in the model" % v)
    return str(int(v))


def cop(o, I):
    t = o["t"]
    if t == "write":
        return "OWrite %s" % I.res(o["res"])
    if t == "writes":
        return "OWriteS %s %s" % (I.res(o["res"]), cver(o.get("vsn", "")))
    if t == "delete":
        return "ODelete %s %s %s" % (I.id(o["id"]), I.s(o.get("uid", "")), cver(o.get("vsn", "")))
    if t == "read":
        return "ORead %s %s %s" % (I.id(o["id"]), I.s(o.get("gv", "")), I.s(o.get("uid", "")))
    if t == "list":
        return "OList %s" % I.q(o["q"])
    if t == "listowner":
        return "OListByOwner %s %s" % (I.id(o["id"]), I.s(o.get("uid", "")))
    if t == "watch":
        return "OWatch %s" % I.q(o["q"])
    if t == "next":
        return "ONext %d" % o.get("w", 0)
    if t == "close":
        return "OClose %d" % o.get("w", 0)
    if t == "publish":
        return "OPublish"
    if t == "restore":
        return "ORestore %s" % I.rlist(o.get("list"))
    if t == "snapshot":
        return "OSnapshot"
    if t == "evict":
        return "OEvict %s" % I.q(o["q"])
    raise ValueError(t)


ERR = {"notfound": "ENotFound", "cas": "ECAS", "wronguid": "EWrongUid", "watchclosed": "EWatchClosed", "other": "EOther"}


def cout(o, I):
    t = o["t"]
    if t == "ok":
        return "OutOk"
    if t == "res":
        return "OutRes %s" % I.res(o["res"])
    if t == "list":
        return "OutList %s" % I.rlist(o.get("list"))
    if t == "err":
        return "OutErr %s" % ERR[o["err"]]
    if t == "gvm":
        return "OutGVM %s" % I.res(o["res"])
    if t == "event":
        if o["ev"] == "eos":
            return "OutEvent EndOfSnapshot"
        return "OutEvent (%s %s)" % ("Upsert" if o["ev"] == "upsert" else "Delete", I.res(o["res"]))
    if t == "noevent":
        return "OutNoEvent"
    if t == "watch":
        return "OutWatch %d" % o.get("w", 0)
    if t == "bool":
        return "OutBool %s" % ("true" if o.get("b") else "false")
    raise ValueError(t)


def case_to_coq(c, I):
    return "Case [%s]" % "; ".join("(%s, %s)" % (cop(s["op"], I), cout(s["out"], I)) for s in c["steps"])


def shard_text(cases):
    I = Intern()
    body = ["Definition c%d : case := %s." % (n, case_to_coq(c, I)) for n, c in enumerate(cases)]
    return ("From Verif Require Import Base.Prelude Resource.Model Run.C18.\nLocal Open Scope N_scope.\n"
            + "\n".join(I.defs) + "\n" + "\n".join(body) + "\n"
            + "Definition cases : list case := [%s].\n" % "; ".join("c%d" % n for n in range(len(cases)))
            + "Definition M := Eval vm_compute in mismatches cases.\nPrint M.\n")


# ------------------------------------------------------------------ the check
KNOWN_CLASS = "watch-after-restore-residue"


def first_bad_steps(ctx, cases):
    """index of the first disagreeing step of each mismatching case (evaluated in Coq)"""
    I = Intern()
    body = ["Definition c%d : case := %s." % (n, case_to_coq(c, I)) for n, c in enumerate(cases)]
    txt = ("From Verif Require Import Base.Prelude Resource.Model Run.C18.\nLocal Open Scope N_scope.\n"
           + "\n".join(I.defs) + "\n" + "\n".join(body) + "\n"
           + "Definition M := Eval vm_compute in map (fun c => match first_bad init (c_steps c) 0 with Some n => n | None => 999999 end) [%s].\nPrint M.\n"
           % "; ".join("c%d" % n for n in range(len(cases))))
    res = vlib.coq_run_shards(PROP + "fb", [txt])
    ok, idx, raw = res[0]
    return idx if ok else []


def shrink(binp, ctx, c, n):
    p = os.path.join(ctx.workdir, "fail_%d.json" % n)
    json.dump(c, open(p, "w"))
    rc, o = vlib.sh([binp, "-shrink", p], timeout=600)
    try:
        return json.loads(o)
    except Exception:
        return c


def run(ctx):
    info, ok = vlib.proof_stage(ctx, PROP_FILE, ["Run/C18.v"])
    cov = dict(info)
    cov["trusted_base"] = vlib.STD_TRUSTED + [
        "modelled, not verified: atomicity of one write/delete/subscribe/publish step (eventLock, the memdb write transaction, EventPublisher.lock) - exercised by the concurrent histories under the race detector, whose witness linearizations are replayed through the model; go-memdb/iradix; the Go scheduler and memory model",
        "modelled, not verified: field strings contain no NUL byte (indexSeparator), so radix keys / subject strings are injective and ordered field by field; version strings are decimal counters (both backends produce them); publishCh capacity (64) is not modelled (the generator never lets more than 60 batches queue)",
        "verification hooks (build tag verif, add-only): EventPublisher.VerifResPublishOne = one iteration of Run; VerifResEvictSnapshot = the snapshot-cache TTL timer; a context whose Done() is decided by VerifResSubHasNext makes Watch.Next non-blocking",
        "the CAS theorem is about the sequential backend model (version = counter+1); the concurrent runs tie the real stores to it through a witness linearization built from the commit order a wildcard watch observes, real-time order checked in Go",
        "gRPC resource service above the backend (write.go/delete.go retry loop) is not modelled",
        "Raft-path theorems assume only the schedule discipline raft_ok (fresh log-index versions, restored rows with a version >= 1); raft.Backend's retired-type short cut (isRetiredType: success without storing) and forwarding are not modelled",
        "Subscription.snapshotIndex (716731d) is argued in Model.v to be subsumed by Watch.idx, not modelled as a field; version strings are canonical decimals or empty (others are refused by the case writer)",
    ]
    assumptions = ["atomic steps justified by the locks in the code", "NUL-free field strings, decimal versions"]
    if not ok:
        cov.update({"evaluations": 0, "distinct_nontrivial": 0, "rule": "proof stage failed", "samples": []})
        return ctx.finish(cov, assumptions)

    binp = vlib.go_build("resource", race=True)
    out = os.path.join(ctx.workdir, "cases.jsonl")
    env = dict(os.environ, GORACE="halt_on_error=1 exitcode=66")
    rc, o = vlib.sh([binp, "-seed", str(ctx.seed), "-tier", ctx.tier, "-out", out], timeout=6000, env=env)
    if rc != 0:
        if "DATA RACE" in o:
            ctx.violation({"kind": "data-race", "log": o[-4000:],
                           "what": "the race detector fired while N goroutines used the store: a write is not atomic"})
            cov.update({"evaluations": 0, "distinct_nontrivial": 0, "rule": "race detector", "samples": []})
            return ctx.finish(cov, assumptions)
        raise vlib.BuildError("harness run failed: " + o[-3000:])

    cases = [json.loads(l) for l in open(out)]
    modes = collections.Counter(c["mode"] for c in cases)
    restore_conc = [c for c in cases if c["mode"] == "conc-restore"]
    opmix, outmix = collections.Counter(), collections.Counter()
    steps = 0
    distinct = set()
    for c in cases:
        st = c.get("stats") or {}
        for k, v in st.items():
            if k.startswith("op_"):
                opmix[k[3:]] += v
            elif k.startswith("out_"):
                outmix[k[4:]] += v
        n = len(c.get("steps") or [])
        steps += n
        if n and (st.get("out_res", 0) + st.get("out_ok", 0) > 0):
            distinct.add(hash(json.dumps([s["op"] for s in c["steps"]], sort_keys=True)))

    # ---- model vs implementation, inside Coq ----
    coq_cases = [c for c in cases if c.get("steps")]
    per = 250
    shards = [coq_cases[i:i + per] for i in range(0, len(coq_cases), per)]
    res = vlib.coq_run_shards(PROP, [shard_text(s) for s in shards], jobs=4, timeout=2400)
    mism = []
    for s, (okk, idx, raw) in zip(shards, res):
        if not okk:
            ctx.violation({"kind": "case-file-failed", "log": raw}, found_input=False)
            continue
        mism += [s[i] for i in idx]

    # ---- direct oracle on the implementation ----
    oracle_fail = [c for c in cases if c.get("oracle")]
    new_fail, known_n = [], 0
    for c in oracle_fail:
        f = vlib.match_known(PROP, c.get("sig") or {})
        if f:
            known_n += 1
            ctx.known(f, f["what"])
        else:
            new_fail.append(c)
    kinds = collections.Counter((c.get("sig") or {}).get("kind", "?") for c in new_fail)
    seen = set()
    for n, c in enumerate(new_fail):
        k = (c.get("sig") or {}).get("kind")
        if k in seen or len(seen) >= 4:
            continue
        seen.add(k)
        sc = shrink(binp, ctx, c, n) if c["mode"].startswith("sched") or c["mode"].startswith("conc") and c.get("steps") else c
        ctx.violation({"kind": "oracle", "reason": sc.get("oracle") or c["oracle"], "signature": sc.get("sig") or c.get("sig"),
                       "mode": c["mode"], "seed": c.get("seed"), "case": sc, "failing_cases_of_this_kind": kinds[k],
                       "replay_cmd": "build/bin/resource-race -replay <this file>"})

    extra_note = None
    if mism and not new_fail:
        # correspondence broken, oracle silent: search harder with the oracle alone (10x schedules, other seed)
        out2 = os.path.join(ctx.workdir, "search.jsonl")
        n_more = 10 * modes.get("sched", 1000)
        vlib.sh([binp, "-seed", str(ctx.seed + 7919), "-tier", ctx.tier, "-out", out2, "-nsched", str(n_more), "-nconc", "200", "-nraft", "0"],
                timeout=6000, env=env)
        found = None
        if os.path.exists(out2):
            for l in open(out2):
                c = json.loads(l)
                if c.get("oracle") and not vlib.match_known(PROP, c.get("sig") or {}):
                    found = c
                    break
        if found:
            sc = shrink(binp, ctx, found, 99)
            ctx.violation({"kind": "oracle", "reason": sc.get("oracle") or found["oracle"], "signature": sc.get("sig") or found.get("sig"),
                           "mode": found["mode"], "case": sc, "found_by": "extended search after a correspondence mismatch",
                           "replay_cmd": "build/bin/resource-race -replay <this file>"})
        else:
            bad = mism[:3]
            fb = first_bad_steps(ctx, bad)
            c = bad[0]
            k = fb[0] if fb else None
            ctx.violation({"kind": "correspondence", "theorem": "Run.C18.check (model step = implementation, every output of the schedule)",
                           "mismatching_cases": len(mism), "first_disagreeing_step": k,
                           "step": c["steps"][k] if k is not None and k < len(c["steps"]) else None,
                           "case": c, "extended_search_cases": n_more,
                           "replay_cmd": "build/bin/resource-race -replay <this file>"}, found_input=False)
            extra_note = "correspondence mismatch, no failing input in %d further schedules" % n_more

    cov.update({
        "evaluations": len(cases),
        "steps_compared": steps,
        "distinct_nontrivial": len(distinct),
        "rule": "one evaluation = one schedule (scheduled mode: 15-200 generated steps + drain; concurrent mode: the witness linearization of one history of 2-6 goroutines) whose every output was compared with the model inside Coq; distinct_nontrivial = distinct op sequences containing at least one successful write or delete",
        "traces_validated_against_impl": len(coq_cases),
        "model_mismatches": len(mism),
        "oracle_failures": len(oracle_fail),
        "oracle_failures_known": known_n,
        "oracle_failures_unknown": len(new_fail),
        "modes": dict(modes),
        "op_mix": dict(opmix),
        "output_mix": dict(outmix),
        "cases_with_restore": sum(1 for c in cases if (c.get("stats") or {}).get("restores", 0) > 0),
        "concurrent_restore_histories": {"histories": len(restore_conc),
                                         "watch_sessions": sum((c.get("stats") or {}).get("sessions", 0) for c in restore_conc),
                                         "events_checked": sum((c.get("stats") or {}).get("events", 0) for c in restore_conc),
                                         "restores": sum((c.get("stats") or {}).get("restores", 0) for c in restore_conc)},
        "race_detector": "harness built with -race, GORACE=halt_on_error=1: no report",
        "samples": [{"mode": c["mode"], "seed": c.get("seed"), "steps": len(c["steps"]), "first_steps": c["steps"][:4], "oracle": c.get("oracle", "")}
                    for c in (coq_cases[:2] + coq_cases[len(coq_cases) // 2:len(coq_cases) // 2 + 1] + coq_cases[-2:])],
        "exhaustive": False,
    })
    if extra_note:
        cov["note"] = extra_note
    return ctx.finish(cov, assumptions)
