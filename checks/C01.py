"""C01 — replicas that apply the same committed log hold the same state.

The heart: build/bin/replica applies the same generated Raft log in TWO (thorough: three) separate OS
processes with different environments (GOMAXPROCS, time zone, start time, GC pacing, per-process map
seeds, and -- on one of them -- lock delays planted in the store's local, non-replicated Delay map);
after every entry each process writes the canonical command result and the canonical delta + SHA-256
of a dump of the whole store.  The outputs are compared byte-wise; any difference is a failing history.
"""
import collections
import hashlib
import json
import os
import re
import subprocess
import time

import vlib
from checks import storelib

PROP = "C01"
PROP_FILE = "Properties/C01.v"
# sub-operations of the registered message types (generator kind prefixes): each must occur in the log of a
# thorough run (the quick tier reports the ones it did not draw)
SUBOPS = ["kvs:set", "kvs:cas", "kvs:delete", "kvs:delete-cas", "kvs:delete-tree", "kvs:lock", "kvs:unlock", "kvs:invalid-op",
          "session:create", "session:destroy", "session_create", "session_destroy", "register:node", "register:service",
          "register:connect-proxy", "register:connect-native", "register:terminating-gateway", "register:ingress-gateway",
          "register:mesh-gateway", "register:api-gateway", "deregister:node", "deregister:service", "deregister:check", "txn",
          "txn:full", "reap", "tombstone:invalid-op", "coordinate", "prepared-query:create", "prepared-query:update",
          "prepared-query:delete", "query_set", "query_delete", "autopilot:set", "autopilot:cas", "feature-gate",
          "intention:legacy-create", "intention:legacy-update", "intention:legacy-delete", "intention:legacy-delete-all",
          "intention:mutation-create", "intention:mutation-update", "intention:mutation-delete", "intention:mutation-upsert",
          "connect-ca:set-config", "connect-ca:set-roots", "connect-ca:set-provider-state", "connect-ca:delete-provider-state",
          "connect-ca:set-roots-config", "connect-ca:increment-provider-serial", "ca-leaf:increment-index",
          "acl-token-set", "acl-token-set:cas", "acl-token-delete", "acl-bootstrap", "acl-policy-set", "acl-policy-delete",
          "acl-role-set", "acl-role-delete", "acl-binding-rule-set", "acl-binding-rule-delete", "acl-auth-method-set",
          "acl-auth-method-delete", "config-entry:upsert:", "config-entry:upsert-cas:", "config-entry:upsert-with-status-cas:",
          "config-entry:delete:", "config-entry:delete-cas:", "federation-state:upsert", "federation-state:delete",
          "system-metadata:upsert", "system-metadata:delete", "peering-write", "peering-delete", "peering-terminate",
          "peering-trust-bundle-write", "peering-trust-bundle-delete", "peering-secrets", "resource:write", "resource:delete",
          "manual-vips", "chunk:", "unknown-ignorable", "verifier-checkpoint", "malformed:truncated"]
KEYS = ["a", "a/", "a/b", "ab", "b", "é"]          # harness/replica: the keys that get planted lock delays

# ---------------------------------------------------------------- replica processes

REPLICAS = [
    # name, environment, extra arguments
    ("A", {"GOMAXPROCS": "1", "TZ": "UTC", "GOGC": "100", "HOSTNAME": "replica-a"}, []),
    ("B", {"GOMAXPROCS": "16", "TZ": "Asia/Tokyo", "GOGC": "25", "HOSTNAME": "replica-b", "GODEBUG": "madvdontneed=1"},
     ["-plant-delays", "-sleep-ms", "1300"]),
    ("C", {"GOMAXPROCS": "4", "TZ": "America/Sao_Paulo", "GOGC": "400", "HOSTNAME": "replica-c"}, ["-plant-delays"]),
]


def start_replica(binp, hist, out, spec, quiet=False, repeat=1):
    name, env, args = spec
    e = dict(os.environ)
    e.update(env)
    cmd = [binp, "-apply", hist, "-out", out, "-name", name, "-repeat", str(repeat)] + \
        (args if not quiet else [a for a in args if a == "-plant-delays"])
    return subprocess.Popen(cmd, env=e, stdout=subprocess.PIPE, stderr=subprocess.STDOUT, text=True)


def run_replicas(binp, hist, outdir, specs, quiet=False, timeout=3000, repeat=1):
    procs = []
    for spec in specs:
        out = os.path.join(outdir, "obs_%s.jsonl" % spec[0])
        procs.append((spec, out, start_replica(binp, hist, out, spec, quiet, repeat)))
    res = []
    for spec, out, p in procs:
        try:
            o, _ = p.communicate(timeout=timeout)
        except subprocess.TimeoutExpired:
            p.kill()
            raise vlib.BuildError("replica %s timed out" % spec[0])
        if p.returncode != 0:
            raise vlib.BuildError("replica %s failed: %s" % (spec[0], (o or "")[-2000:]))
        res.append(out)
    return res


# ---------------------------------------------------------------- classification of a differing step

# Differences that match an OPEN entry of known_findings.json would be listed here as (class, predicate on
# the two result texts) -- recognised by the exact SHAPE of the texts, never by message type alone.  There
# is none: the order-dependent results found by this check (UnassignedFrom in map order; error texts naming
# the first invalid metadata pair, the missing JWT providers, the first failing discovery chain, the first
# complaint of validateChainIsPeerExportSafe) were repaired in /repo (9d6116b, 7ea9e44, 281c379, 897c9ff,
# ed6a743) and every result is compared raw -- list orders and error texts included.
ERROR_CLASSES = []


def step_core(s):
    """what must agree exactly besides the result: the state (delta, hash, row count) and the projections"""
    return (s["delta"], s["sha"], s["rows"], s.get("mres"), s.get("mvip"))


def classify(entry, sa, sb):
    """None when the steps agree; otherwise a dict: {'known': signature} or {'violation': description}."""
    if sa == sb:
        return None
    if step_core(sa) != step_core(sb):
        what = ("replicated state differs" if (sa["delta"], sa["sha"]) != (sb["delta"], sb["sha"])
                else "command result differs" if sa["res"] != sb["res"] else "projection differs")
        return {"violation": what}
    ra, rb = sa["res"], sb["res"]
    if ra == rb:
        return None
    for cls, same_class in ERROR_CLASSES:
        if same_class(ra, rb):
            return {"known": {"kind": "error-text-map-order", "class": cls}}
    return {"violation": "command result differs"}


def compare_files(hists, fa, fb):
    """yields (history, step index, classification, step_a, step_b) for every differing step"""
    with open(fa) as a, open(fb) as b:
        a.readline()
        b.readline()
        for h, la, lb in zip(hists, a, b):
            if la == lb:
                continue
            x, y = json.loads(la), json.loads(lb)
            assert x["id"] == h["id"] == y["id"]
            x.pop("self_diffs", None)     # reported separately (self_divergences)
            y.pop("self_diffs", None)
            if len(x["steps"]) != len(y["steps"]) or x.get("panic") != y.get("panic"):
                yield h, min(len(x["steps"]), len(y["steps"])) - 1, {"violation": "one replica stopped (panic) and the other did not"}, \
                    (x["steps"] or [None])[-1], (y["steps"] or [None])[-1]
                continue
            for i, (sa, sb) in enumerate(zip(x["steps"], y["steps"])):
                c = classify(h["entries"][i], sa, sb)
                if c:
                    yield h, i, c, sa, sb
            if x.get("mfinal") != y.get("mfinal"):
                yield h, len(x["steps"]) - 1, {"violation": "projected final store differs"}, x["steps"][-1], y["steps"][-1]


def self_divergences(hists, f):
    """the in-process repeats (-repeat k): every step at which a further fresh FSM differed from the first"""
    with open(f) as a:
        a.readline()
        for h, la in zip(hists, a):
            if '"self_diffs"' not in la and '"l4_targets_max"' not in la:
                continue
            x = json.loads(la)
            for d in x.get("self_diffs") or []:
                if d.get("a") is None or d.get("b") is None:
                    yield h, d["step"], {"violation": "one in-process replica stopped (panic) and the other did not"}, d.get("a"), d.get("b")
                    continue
                c = classify(h["entries"][d["step"]], d["a"], d["b"])
                if c:
                    yield h, d["step"], c, d["a"], d["b"]
            if x.get("l4_targets_max", 0) > 1:
                yield h, len(x["steps"]) - 1, {"violation": "a non-HTTP discovery chain has %d non-failover targets: the argument that makes "
                                               "config_entry.go convertTargetsToTestSpiffeIDs / newSpiffeIDs order-independent (allowlist class "
                                               "'unreachable') does not hold" % x["l4_targets_max"]}, x["steps"][-1], x["steps"][-1]


# ---------------------------------------------------------------- shrinking

def unknown_divergence(binp, entries, workdir, tag, trials=4):
    """does this log make two fresh replica processes disagree in a way that is not a known finding?"""
    hist = os.path.join(workdir, "shrink_%s.jsonl" % tag)
    h = {"id": 0, "profile": "shrink", "entries": entries}
    with open(hist, "w") as f:
        f.write(json.dumps(h) + "\n")
    for _ in range(trials):
        d = os.path.join(workdir, "shrink_%s" % tag)
        os.makedirs(d, exist_ok=True)
        outs = run_replicas(binp, hist, d, REPLICAS[:2], quiet=True, timeout=300, repeat=3)
        found = list(compare_files([h], outs[0], outs[1])) + list(self_divergences([h], outs[0])) + list(self_divergences([h], outs[1]))
        for _, i, c, sa, sb in sorted(found, key=lambda t: t[1]):
            if "violation" in c:
                return i, c, sa, sb
    return None


def shrink(binp, entries, workdir, budget=45):
    """delta debugging over the entries (order kept); the predicate is re-run on fresh processes"""
    cur = list(entries)
    n = 2
    runs = 0
    while len(cur) >= 2 and runs < budget:
        chunk = max(1, len(cur) // n)
        reduced = False
        for start in range(0, len(cur), chunk):
            cand = cur[:start] + cur[start + chunk:]
            if not cand:
                continue
            runs += 1
            if unknown_divergence(binp, cand, workdir, "c", trials=3):
                cur, n, reduced = cand, max(n - 1, 2), True
                break
            if runs >= budget:
                break
        if not reduced:
            if chunk == 1:
                break
            n = min(len(cur), n * 2)
    return cur


# ---------------------------------------------------------------- Coq case files

def case_text(h, obs):
    cmds = [e["model"] for e in h["entries"]]
    results = [s["mres"] for s in obs["steps"]]
    return "Case %s %s %s %s %s" % (
        storelib.clist([storelib.cmd(c) for c in cmds]),
        storelib.clist(["(%s)" % storelib.res(r) for r in results]),
        storelib.dump(obs["mfinal"]),
        "[]", storelib.clist([storelib.cs(k) for k in KEYS]))


def shard_text(cases):
    return ("From stdpp Require Import gmap strings.\nFrom Coq Require Import NArith.\n"
            "From Verif Require Import Store.Model Run.Store Run.C01.\nLocal Open Scope N_scope.\n"
            "Definition cases : list case := [\n  %s\n].\n"
            "Definition M := Eval vm_compute in mismatches cases.\nPrint M.\n" % ";\n  ".join(cases))


def vip_rows(v):
    return storelib.clist(["(%s, Vip %s %s %s %s)" % (storelib.cs(r["key"]), r["ip"], storelib.clist([storelib.cs(x) for x in r["manual"]]),
                                                    r["c"], r["m"]) for r in v["rows"]])


def vcase_text(idx, mv):
    return "VCase %s %d %d %s %s %s %d %s %s" % (
        vip_rows(mv["before"]), mv["before"]["index"], idx, storelib.cs(mv["svc"]),
        storelib.clist([storelib.cs(x) for x in mv["ips"]]), vip_rows(mv["after"]), mv["after"]["index"],
        storelib.cb(mv["found"]), storelib.clist([storelib.cs(x) for x in mv["unassigned"]]))


def vshard_text(cases):
    return ("From stdpp Require Import gmap strings.\nFrom Coq Require Import NArith.\n"
            "From Verif Require Import Store.Model FSM.Model Run.C01.\nLocal Open Scope N_scope.\n"
            "Definition cases : list vcase := [\n  %s\n].\n"
            "Definition M := Eval vm_compute in vmismatches cases.\nPrint M.\n" % ";\n  ".join(cases))


# ---------------------------------------------------------------- static inventory (map ranges, clock, randomness, host reads)

def start_inventory(wd):
    """build and start checks/C01inv (go/packages + SSA + class-hierarchy call graph) on the tree under test"""
    src = os.path.join(vlib.VERIF, "checks", "C01inv")
    binp = os.path.join(vlib.BUILD, "bin", "fsminv")
    rc, o = vlib.sh([vlib.GO, "build", "-o", binp, "."], cwd=src, env=vlib.GOENV, timeout=1200)
    if rc != 0:
        raise vlib.BuildError("inventory tool does not build: " + o[-2000:])
    out = os.path.join(wd, "inventory.jsonl")
    return out, subprocess.Popen([binp, "-repo", vlib.REPO, "-out", out], stdout=subprocess.PIPE, stderr=subprocess.STDOUT, text=True)


def check_inventory(ctx, out, proc):
    o, _ = proc.communicate(timeout=2400)
    if proc.returncode != 0:
        raise vlib.BuildError("inventory tool failed: " + (o or "")[-2000:])
    sites = [json.loads(l) for l in open(out)]
    allowdoc = json.load(open(os.path.join(vlib.VERIF, "checks", "C01.allow.json")))
    allow = allowdoc["sites"]
    pkg_rules = {r["pkg"]: r for r in allowdoc.get("package_rules", [])}
    key = lambda x: (x["kind"], x["pkg"], x["func"], x["text"])
    allowed = {key(a): a for a in allow}
    new, grown = [], []
    classes = collections.Counter()
    for x in sites:
        a = allowed.get(key(x))
        if a is None and x["pkg"] in pkg_rules:
            classes[pkg_rules[x["pkg"]]["class"] + " (package rule)"] += 1
        elif a is None:
            new.append(x)
        elif x["n"] > a["n"]:
            grown.append(dict(x, allowed_n=a["n"]))
        else:
            classes[a["class"]] += 1
    stale = [a for k, a in allowed.items() if k not in {key(x) for x in sites}]
    if new or grown:
        ctx.violation({"kind": "static-inventory",
                       "what": "code reachable from FSM.Apply ranges over a Go map / reads the clock, randomness, the environment or the host "
                               "at a site that checks/C01.allow.json does not account for: settle it (model it, argue order/clock independence, "
                               "or record a finding) and add it to the allowlist",
                       "new_sites": new[:40], "sites_whose_count_grew": grown[:40]}, found_input=False)
    return {"sites": len(sites), "by_kind": dict(collections.Counter(x["kind"] for x in sites)), "by_class": dict(classes),
            "unaccounted": len(new) + len(grown), "allowlist_entries_no_longer_in_tree": len(stale), "tool_output": (o or "").strip()[-200:]}


# ---------------------------------------------------------------- unit cases (one call of the real handler per case)

def _addrs(l):
    return storelib.clist(["(%s, (%s, %d))" % (storelib.cs(a["key"]), storelib.cs(a["addr"]), a["port"]) for a in l])


def _strs(l):
    return storelib.clist([storelib.cs(x) for x in l])


def unit_shards(units):
    """{kind: (coq type, mismatch function, [case terms])}"""
    out = collections.OrderedDict((k, (t, f, [])) for k, t, f in [
        ("usage", "ucase", "umismatches"), ("topo", "tcase", "tmismatches"), ("tagged-register", "gcase", "gmismatches"),
        ("tagged-config", "hcase", "hmismatches"), ("meta", "mcase", "mmismatches"), ("jwt", "jcase", "jmismatches")])
    for u in units:
        k = u["kind"]
        if k == "usage":
            t = "UCase %d %s %s %s" % (u["idx"],
                                       storelib.clist(["(%s, (%d)%%Z)" % (storelib.cs(d[0]), d[1]) for d in u.get("deltas") or []]),
                                       storelib.clist(["(%s, (%d, %d))" % (storelib.cs(r[0]), r[1], r[2]) for r in u.get("ubefore") or []]),
                                       storelib.clist(["(%s, (%d, %d))" % (storelib.cs(r[0]), r[1], r[2]) for r in u.get("uafter") or []]))
        elif k == "topo":
            pr = lambda rows: storelib.clist(["(%s, %s)" % (storelib.cs(a), storelib.cs(b)) for a, b in rows])
            t = "TCase %d %s %s %s %s %d %s %d" % (u["idx"], storelib.cs(u["ds"]), _strs(u["news"]), _strs(u["old"]),
                                                  pr(u["rows_before"]), u["index_before"], pr(u["rows_after"]), u["index_after"])
        elif k == "tagged-register":
            t = "GCase %s %s %s" % (_addrs(u["requested"]), _addrs(u["addrs"]), _addrs(u["result"]))
        elif k == "tagged-config":
            t = "HCase %s %s %s" % (_addrs(u["existing"]), _addrs(u["addrs"]), _addrs(u["result"]))
        elif k == "meta":
            named = "None" if not u.get("named") else "(Some (%s, %s))" % (storelib.cs(u["named"][0]), storelib.cs(u["named"][1]))
            t = "MCase %s %s %s" % (storelib.clist(["(%s, %s)" % (storelib.cs(a), storelib.cs(b)) for a, b in u["pairs"]]), _strs(u["bad"]), named)
        elif k == "jwt":
            t = "JCase %s %s %s" % (_strs(u["known"]), _strs(u["referenced"]), _strs(u["lines"]))
        else:
            raise ValueError("unknown unit kind " + k)
        out[k][2].append(t)
    return out


def unit_text(typ, fn, cases):
    return ("From stdpp Require Import gmap strings.\nFrom Coq Require Import NArith ZArith.\n"
            "From Verif Require Import Store.Model FSM.Model Run.C01.\nLocal Open Scope N_scope.\n"
            "Definition cases : list %s := [\n  %s\n].\n"
            "Definition M := Eval vm_compute in %s cases.\nPrint M.\n" % (typ, ";\n  ".join(cases), fn))


# ---------------------------------------------------------------- the check

def run(ctx):
    info, ok = vlib.proof_stage(ctx, PROP_FILE, ["Run/C01.v"])
    cov = dict(info)
    cov["trusted_base"] = vlib.STD_TRUSTED + [
        "the replica comparison itself is model-independent: two OS processes of build/bin/replica (real fsm.FSM behind FSM.ChunkingFSM(), real Raft resource-storage backend) on the same encoded log; dumps are compared through their canonical row deltas plus SHA-256 of the full dump text (collision freedom of SHA-256)",
        "canonical serialisation by reflection over every memdb table (Store.WalkAllTables, incl. the index table) and the resource store: exported and unexported fields, maps by sorted key, time.Time as UTC text; protobuf runtime bookkeeping fields and the compiled prepared-query template are left out",
        "identical configuration on every replica is assumed (the property fixes it): bind-address family (netutil.IsDualStack inside addIPOffset, mocked to 0.0.0.0 as consul's tests do) and the virtual-IP CIDRs (state.SetVirtualIPConfig) decide how stored virtual-IP tagged addresses are rendered",
        "events published on commit (catalog_events.go ranges over maps) are outside the property's observables and are not compared",
        "modelled rather than verified: msgpack/protobuf decoding, go-memdb, raftchunking; the Coq theorems are about coq/Store/Model.v (core commands: KV, sessions, catalog core, txn, tombstones, prepared-query session binding) and coq/FSM/Model.v (the handlers that range over Go maps); every other command type is compared between replicas but its field-level semantics are not proved",
    ]
    assumptions = ["SHA-256 collision freedom (dump comparison)", "replicas are identically configured (bind address family, virtual IP CIDRs)",
                   "go-memdb transactions are atomic"]
    if not ok:
        cov.update({"evaluations": 0, "distinct_nontrivial": 0, "rule": "proof stage failed", "samples": []})
        return ctx.finish(cov, assumptions)

    binp = vlib.go_build("replica")
    wd = ctx.workdir
    inv_out, inv_proc = start_inventory(wd)

    # ---- every registered message type must have a generator
    rc, o = vlib.sh([binp, "-types"], timeout=120)
    try:
        types = json.loads(o.strip().split("\n")[-1])
    except Exception:
        raise vlib.BuildError("replica -types failed: " + o[-2000:])
    if rc != 0 or types.get("missing"):
        ctx.violation({"kind": "generator-coverage", "what": "message types registered in fsm.commands without a log generator",
                       "missing": types.get("missing"), "names": {k: types["names"].get(str(k)) for k in types.get("missing") or []}},
                      found_input=False)

    # ---- the log: corpus first, then generated from the seed
    hist = os.path.join(wd, "hist.jsonl")
    n = 300 if ctx.tier == "quick" else 3000
    now_unix = int(time.time()) + 5
    rc, o = vlib.sh([binp, "-gen", "-seed", str(ctx.seed), "-tier", ctx.tier, "-n", str(n), "-now-unix", str(now_unix), "-out", hist], timeout=3000)
    if rc != 0:
        if types.get("missing"):
            cov.update({"evaluations": 0, "distinct_nontrivial": 0, "rule": "generator refuses to run: uncovered message types", "samples": []})
            return ctx.finish(cov, assumptions)
        raise vlib.BuildError("generator failed: " + o[-2000:])
    hists = [json.loads(l) for l in open(hist)]
    cdir = os.path.join(vlib.VERIF, "corpus", PROP)
    corpus = []
    if os.path.isdir(cdir):
        for f in sorted(os.listdir(cdir)):
            if f.endswith(".json"):
                h = json.load(open(os.path.join(cdir, f)))
                corpus.append({"id": 0, "profile": "corpus:" + f, "entries": h["entries"]})
    if corpus:
        hists = corpus + hists
        for i, h in enumerate(hists):
            h["id"] = i
        with open(hist, "w") as f:
            for h in hists:
                f.write(json.dumps(h) + "\n")

    # ---- the replicas: separate processes, different environments
    specs = REPLICAS[:2] if ctx.tier == "quick" else REPLICAS
    repeat = 2 if ctx.tier == "quick" else 4      # fresh FSMs per history inside each process (quick: 4 FSMs in all, thorough: 12)
    t0 = time.time()
    outs = run_replicas(binp, hist, wd, specs, repeat=repeat)
    replica_wall = time.time() - t0
    headers = [json.loads(open(o).readline()) for o in outs]

    known_counts, violations = collections.Counter(), []
    pairs = [(0, j) for j in range(1, len(outs))]
    for i, j in pairs:
        for h, step, c, sa, sb in compare_files(hists, outs[i], outs[j]):
            if "known" in c:
                f = vlib.match_known(PROP, c["known"])
                if f:
                    ctx.known(f, f["what"])
                    known_counts[json.dumps(c["known"], sort_keys=True)] += 1
                    continue
                c = {"violation": "difference of a recorded class but no open known finding matches", "signature": c["known"]}
            violations.append((h, step, c, sa, sb, specs[i][0], specs[j][0]))
    self_diffs = 0
    for i, o in enumerate(outs):
        for h, step, c, sa, sb in self_divergences(hists, o):
            self_diffs += 1
            if "known" in c:
                f = vlib.match_known(PROP, c["known"])
                if f:
                    ctx.known(f, f["what"])
                    known_counts[json.dumps(c["known"], sort_keys=True)] += 1
                    continue
                c = {"violation": "difference of a recorded class but no open known finding matches", "signature": c["known"]}
            violations.append((h, step, c, sa, sb, specs[i][0] + "/fsm0", specs[i][0] + "/fsm+"))

    for h, step, c, sa, sb, na, nb in violations[:3]:
        entries = h["entries"][:step + 1]
        small = entries
        found = None
        try:
            first = unknown_divergence(binp, entries, wd, "v", trials=6)
            if first:
                small = shrink(binp, entries, wd)
                # map-order effects show with probability < 1 per run: confirm the shrunk log on more fresh
                # process pairs, and fall back to the unshrunk prefix if it does not show again
                found = unknown_divergence(binp, small, wd, "v", trials=10)
                if not found:
                    small, found = entries, first
        except vlib.BuildError:
            pass
        obj = {"kind": "replica-divergence", "reason": c.get("violation"), "signature": c.get("signature", {"kind": "unknown-divergence"}),
               "history_id": h["id"], "profile": h["profile"], "step": step, "entry_kind": h["entries"][step]["kind"],
               "replicas": [na, nb],
               "observed": {na: {"res": sa and sa["res"], "delta": sa and sa["delta"][:40]}, nb: {"res": sb and sb["res"], "delta": sb and sb["delta"][:40]}},
               "entries": small, "entries_unshrunk": len(entries),
               "reproduced_on_fresh_processes": bool(found),
               "replay_cmd": "build/bin/replica -replay <this file>   (or: build/bin/replica -apply <file with this object on one line> -full)"}
        if found:
            i2, c2, a2, b2 = found
            obj["shrunk"] = {"step": i2, "reason": c2.get("violation"), "entry_kind": small[i2]["kind"],
                             "A": {"res": a2 and a2["res"], "delta": a2 and a2["delta"][:40]}, "B": {"res": b2 and b2["res"], "delta": b2 and b2["delta"][:40]}}
        ctx.violation(obj)

    # ---- statistics, and the cases for the models
    kinds, outcome, tys = collections.Counter(), collections.Counter(), collections.Counter()
    profiles = collections.Counter(h["profile"].split(":")[0] for h in hists)
    lens = collections.Counter()
    seen, nontrivial = set(), 0
    cases, vcases, case_hists = [], [], []
    steps_total = rows_max = 0
    vocab_error = None
    with open(outs[0]) as fa:
        fa.readline()
        for h, la in zip(hists, fa):
            obs = json.loads(la)
            lens[len(h["entries"]) // 10 * 10] += 1
            key = hashlib.sha1(json.dumps([(e["data"], e.get("ext", "")) for e in h["entries"]]).encode()).hexdigest()
            changed = False
            for e, s in zip(h["entries"], obs["steps"]):
                k = e["kind"]
                kinds[k.split(":")[0] if k.startswith("config-entry") is False else ":".join(k.split(":")[:2])] += 1
                if e["type"] >= 0:
                    tys[e["type"]] += 1
                r = s["res"]
                outcome["error" if (r.startswith("error") or "Response:<*" in r) else "panic" if r.startswith("panic") else "ok"] += 1
                steps_total += 1
                rows_max = max(rows_max, s["rows"])
                changed = changed or bool(s["delta"])
                if s.get("mvip") and len(vcases) < (4000 if ctx.tier == "quick" else 20000):
                    vcases.append(vcase_text(e["idx"], s["mvip"]))
            if changed and key not in seen:
                nontrivial += 1
            seen.add(key)
            if obs.get("mfinal") is not None:
                try:
                    cases.append(case_text(h, obs))
                    case_hists.append(h)
                except ValueError as ex:
                    vocab_error = str(ex)
    allkinds = {e["kind"] for h in hists for e in h["entries"]}
    subops_missing = [p for p in SUBOPS if not any(k == p or (p.endswith(":") and k.startswith(p)) or k.startswith(p + ":") for k in allkinds)]
    if subops_missing and ctx.tier != "quick":
        ctx.violation({"kind": "generator-coverage", "what": "sub-operations that did not occur in this run's log", "kinds": subops_missing}, found_input=False)
    registered = set(types.get("registered") or [])
    uncovered_in_run = sorted(registered - set(tys))
    if uncovered_in_run:
        ctx.violation({"kind": "generator-coverage", "what": "registered message types that did not occur in this run's log", "types": uncovered_in_run},
                      found_input=False)

    # ---- the models against the implementation, inside Coq
    mism, vmism = [], []
    if vocab_error:
        ctx.violation({"kind": "correspondence", "theorem": "Run.C01.check", "what": "implementation produced an observation outside the model's vocabulary: " + vocab_error},
                      found_input=False)
    per = 120
    shards = [cases[i:i + per] for i in range(0, len(cases), per)]
    vper = 400
    vshards = [vcases[i:i + vper] for i in range(0, len(vcases), vper)]
    # unit cases: one call of the real handler per case (usage deltas, mesh topology, tagged addresses,
    # metadata, JWT providers)
    ufile = os.path.join(wd, "units.jsonl")
    rc, o = vlib.sh([binp, "-units", "-seed", str(ctx.seed), "-tier", ctx.tier, "-out", ufile], timeout=1800)
    if rc != 0:
        raise vlib.BuildError("unit mode failed: " + o[-2000:])
    ush = unit_shards([json.loads(l) for l in open(ufile)])
    utexts, umeta = [], []
    for kind, (typ, fn, ucs) in ush.items():
        for i in range(0, len(ucs), 300):
            utexts.append(unit_text(typ, fn, ucs[i:i + 300]))
            umeta.append((kind, ucs[i:i + 300]))
    texts = [shard_text(s) for s in shards] + [vshard_text(s) for s in vshards] + utexts
    res = vlib.coq_run_shards(PROP, texts, jobs=4)
    umism = collections.Counter()
    ufirst = {}
    for k, (okk, idx, raw) in enumerate(res):
        if not okk:
            ctx.violation({"kind": "case-file-failed", "log": raw}, found_input=False)
            continue
        if k < len(shards):
            mism += [case_hists[k * per + i] for i in idx]
        elif k < len(shards) + len(vshards):
            vmism += [vshards[k - len(shards)][i] for i in idx]
        else:
            kind, ucs = umeta[k - len(shards) - len(vshards)]
            umism[kind] += len(idx)
            if idx:
                ufirst.setdefault(kind, ucs[idx[0]])
    if (mism or vmism or sum(umism.values())) and not violations:
        obj = {"kind": "correspondence", "theorem": "Run.C01 check / vcheck / ucheck / tcheck / gcheck / hcheck / mcheck / jcheck (models = implementation)",
               "mismatching_core_histories": len(mism), "mismatching_manual_vip_steps": len(vmism), "mismatching_unit_cases": dict(umism)}
        if mism:
            obj["entries"] = mism[0]["entries"]
        if vmism:
            obj["first_vip_case"] = vmism[0]
        if ufirst:
            obj["first_unit_case"] = ufirst
        ctx.violation(obj, found_input=False)

    inventory = check_inventory(ctx, inv_out, inv_proc)
    l4_chains = l4_max = 0
    with open(outs[0]) as fa:
        fa.readline()
        for la in fa:
            if '"l4_chains"' in la:
                x = json.loads(la)
                l4_chains += x.get("l4_chains", 0)
                l4_max = max(l4_max, x.get("l4_targets_max", 0))

    cov.update({
        "evaluations": len(hists),
        "distinct_nontrivial": nontrivial,
        "generator_now_unix": now_unix,
        "rule": "histories = scripted (manual virtual IPs taken from 2-3 services at once; rejected commands whose error text is built from the keys of a map -- each repeated 6 times so that a result in map order would show) + corpus + generated from the seed: 3/4 'full' profile (5-40 commands drawn from generators for every registered message type, built the way the leader builds them -- Normalize/Validate/SetHash, IDs and timestamps fixed in the command -- against a live FSM so that ~65% of CAS indexes and most references are valid; leadership preamble; chunked commands; ignorable unknown types; log-verifier checkpoints), 1/4 'core' profile (the commands coq/Store/Model.v models). distinct_nontrivial = distinct logs (by content) with at least one state-changing entry",
        "log_entries_applied_per_replica": steps_total,
        "replicas": [{"name": hd.get("replica"), "gomaxprocs": hd.get("gomaxprocs"), "tz": hd.get("tz"), "plant_delays": hd.get("plant_delays"),
                      "pid": hd.get("pid"), "start_unix_nano": hd.get("start_unix_nano")} for hd in headers],
        "replica_pairs_compared": len(pairs),
        "replica_wall_s": round(replica_wall, 1),
        "max_rows_in_a_dump": rows_max,
        "registered_message_types": sorted(registered),
        "message_type_histogram": {types["names"].get(str(t), str(t)): c for t, c in sorted(tys.items())},
        "generator_kinds": dict(sorted(kinds.items())),
        "suboperations_required": len(SUBOPS), "suboperations_not_drawn": subops_missing,
        "result_outcomes": dict(outcome),
        "profiles": dict(profiles),
        "history_length_histogram": {str(k): v for k, v in sorted(lens.items())},
        "divergent_steps_known": {k: v for k, v in known_counts.items()},
        "divergent_steps_unknown": len(violations),
        "fresh_fsms_per_history": repeat * len(specs),
        "in_process_divergent_steps": self_diffs,
        "static_inventory": inventory,
        "non_http_chains_compiled": l4_chains, "non_http_chain_max_nonfailover_targets": l4_max,
        "unit_cases_replayed_in_coq_three_orders": {k: len(v[2]) for k, v in ush.items()},
        "unit_case_mismatches": dict(umism),
        "traces_validated_against_impl": len(cases) - len(mism) + len(vcases) - len(vmism) + sum(len(v[2]) for v in ush.values()) - sum(umism.values()),
        "core_histories_replayed_in_coq_twice": len(cases),
        "manual_vip_steps_replayed_in_coq_two_orders": len(vcases),
        "model_mismatches": len(mism) + len(vmism) + sum(umism.values()),
        "samples": [{"profile": h["profile"], "kinds": [e["kind"] for e in h["entries"][:12]]} for h in hists[:2] + hists[-3:]],
        "exhaustive": False,
    })
    return ctx.finish(cov, assumptions)
