"""C19 — one replication round makes a secondary datacenter equal to the primary."""
import collections
import json
import os

import vlib
from vlib import coq_bytes, coq_bool, coq_list, coq_N

PROP = "C19"
PROP_FILE = "Properties/C19.v"
HEADER = "From Verif Require Import Base.Prelude.\nFrom Verif Require Import Repl.Model.\nFrom Verif Require Import Run.C19.\n"
CASES_PER_SHARD = 400
TAB_CHUNK = 15000
TAB_BLOCK = 250
MASK128 = (1 << 128) - 1


def hexb(h):
    return coq_bytes(bytes.fromhex(h))


def is_acl(inst):
    return inst in ("token", "policy", "role")


def item(inst, it):
    if is_acl(inst):
        return "Item %s %s %s %s %s" % (hexb(it["id"]), coq_N(it["mod"]), hexb(it.get("hash", "")),
                                        coq_N(it["body"]), coq_bool(it.get("local", False)))
    if inst == "config":
        return "Item (%s, %s) %s %s %s false" % (hexb(it.get("kind", "")), hexb(it["id"]), coq_N(it["mod"]),
                                                 coq_N(it.get("hash64", 0)), coq_N(it["body"]))
    return "Item %s %s tt %s false" % (hexb(it["id"]), coq_N(it["mod"]), coq_N(it["body"]))


def items(inst, l):
    return coq_list([item(inst, x) for x in (l or [])])


def case_to_coq(c):
    inst = c["inst"]
    loc, rem = items(inst, c["local"]), items(inst, c["remote"])
    if c["kind"] == "diff":
        o = c["out"]
        if is_acl(inst):
            return "DiffACL %s %s %s %s %s %s %s" % (
                loc, rem, coq_N(c["last"]), coq_list([hexb(x["id"]) for x in o["del"]]),
                coq_list([hexb(x["id"]) for x in o["ups"]]), coq_N(o["lskip"]), coq_N(o["rskip"]))
        if inst == "config":
            f = lambda x: "(%s, %s, %s, %s)" % (hexb(x.get("kind", "")), hexb(x["id"]), coq_N(x["mod"]), coq_N(x.get("hash64", 0)))
            return "DiffCfg %s %s %s %s %s" % (loc, rem, coq_N(c["last"]), coq_list([f(x) for x in o["del"]]),
                                               coq_list([f(x) for x in o["ups"]]))
        f = lambda x: "(%s, %s)" % (hexb(x["id"]), coq_N(x["mod"]))
        return "DiffFed %s %s %s %s %s" % (loc, rem, coq_N(c["last"]), coq_list([f(x) for x in o["del"]]),
                                           coq_list([f(x) for x in o["ups"]]))
    fin = c["round"]["final"]
    facl = lambda x: "(%s, %s, %s, %s)" % (hexb(x["id"]), hexb(x.get("hash", "")), coq_N(x["body"]), coq_bool(x.get("local", False)))
    fcfg = lambda x: "(%s, %s, %s, %s)" % (hexb(x.get("kind", "")), hexb(x["id"]), coq_N(x.get("hash64", 0)), coq_N(x["body"]))
    ffed = lambda x: "(%s, %s)" % (hexb(x["id"]), coq_N(x["body"]))
    if c["kind"] in ("round2", "twosnap"):
        fin2 = c["round2"]["final"]
        rem2 = items(inst, c.get("remote2"))
        ri, last, ri2 = coq_N(c["remote_index"]), coq_N(c["last"]), coq_N(c["remote_index2"])
        if c["kind"] == "twosnap":
            return "TwoSnap %s %s %s %s %s %s %s %s" % (loc, rem, items(inst, c.get("batch")), ri, last, rem2, ri2,
                                                        coq_list([facl(x) for x in fin2]))
        if is_acl(inst):
            return "Round2ACL %s %s %s %s %s %s %s" % (loc, rem, ri, last, rem2, ri2, coq_list([facl(x) for x in fin2]))
        if inst == "config":
            return "Round2Cfg %s %s %s %s %s %s %s" % (loc, rem, ri, last, rem2, ri2, coq_list([fcfg(x) for x in fin2]))
        return "Round2Fed %s %s %s %s %s %s %s" % (loc, rem, ri, last, rem2, ri2, coq_list([ffed(x) for x in fin2]))
    if inst in ("policy", "role"):
        return "RoundStore %s %s %s %s %s %s" % (loc, rem, coq_N(c["remote_index"]), coq_N(c["last"]),
                                                 coq_list([facl(x) for x in fin]), coq_bool(c["round"]["err"] == ""))
    if is_acl(inst):
        f = facl
        return "RoundACL %s %s %s %s %s" % (loc, rem, coq_N(c["remote_index"]), coq_N(c["last"]), coq_list([f(x) for x in fin]))
    if inst == "config":
        f = lambda x: "(%s, %s, %s, %s)" % (hexb(x.get("kind", "")), hexb(x["id"]), coq_N(x.get("hash64", 0)), coq_N(x["body"]))
        return "RoundCfg %s %s %s %s %s" % (loc, rem, coq_N(c["remote_index"]), coq_N(c["last"]), coq_list([f(x) for x in fin]))
    f = lambda x: "(%s, %s)" % (hexb(x["id"]), coq_N(x["body"]))
    return "RoundFed %s %s %s %s %s" % (loc, rem, coq_N(c["remote_index"]), coq_N(c["last"]), coq_list([f(x) for x in fin]))


def shard_text(cases):
    body = ";\n  ".join(case_to_coq(c) for c in cases)
    return (HEADER + "Definition cases : list case := [\n  %s\n].\n"
            "Definition M := Eval vm_compute in mismatches cases.\nPrint M.\n" % body)


def scope_to_coq(sc):
    inst = sc["inst"]
    nl = lambda l: coq_list([coq_N(x) for x in l])
    if is_acl(inst):
        keys = coq_list([hexb(k["id"]) for k in sc["keys"]])
        hashes = coq_list([hexb(h.get("hash", "")) for h in sc["hashes"]])
        ty, fn = "@scope bytes bytes", "acl_tab"
    elif inst == "config":
        keys = coq_list(["(%s, %s)" % (hexb(k.get("kind", "")), hexb(k["id"])) for k in sc["keys"]])
        hashes = nl([h.get("hash64", 0) for h in sc["hashes"]])
        ty, fn = "@scope ckey N", "cfg_tab"
    else:
        keys = coq_list([hexb(k["id"]) for k in sc["keys"]])
        hashes = coq_list(["tt" for _ in sc["hashes"]])
        ty, fn = "@scope bytes unit", "fed_tab"
    term = "(Scope %s %s %s %s %s %s %s : %s)" % (keys, hashes, coq_N(sc["lhashes"]), nl(sc["mods"]), nl(sc["lasts"]), coq_N(sc["salt"]),
                                               coq_bool(sc.get("ids_only", False)), ty)
    return term, fn


def table_text(sc, start, count):
    """Coq prints one checksum per block of TAB_BLOCK model outputs"""
    term, fn = scope_to_coq(sc)
    return (HEADER + "Definition sc := %s.\n"
            "Definition M := Eval vm_compute in %s_digests sc %s %s %s.\nPrint M.\n"
            % (term, fn, coq_N(start), coq_N(count), coq_N(TAB_BLOCK)))


def block_text(sc, start, count):
    """Coq prints the model's encoded outputs of one block in full"""
    term, fn = scope_to_coq(sc)
    return (HEADER + "Definition sc := %s.\n"
            "Definition M := Eval vm_compute in %s_outputs sc %s %s.\nPrint M.\n" % (term, fn, coq_N(start), coq_N(count)))


def digests(outs):
    """the checksums Run.C19.digests computes, over the implementation's outputs"""
    res, h, k = [], 0, 0
    for o in outs:
        h = (h * 1000003 + o + 1) & MASK128
        k += 1
        if k == TAB_BLOCK:
            res.append(h)
            h, k = 0, 0
    if k:
        res.append(h)
    return res


def slim(c):
    """a case without bulky fields, for replays"""
    return {k: c[k] for k in ("kind", "inst", "class", "local", "remote", "last", "remote_index", "remote2", "remote_index2", "batch", "out", "round", "round2",
                              "pre", "oracle", "signature") if k in c and c[k] is not None}


def run(ctx):
    import time
    t0 = time.time()
    stages = {}

    def lap(name):
        nonlocal t0
        stages[name] = round(time.time() - t0, 1)
        vlib.log("[C19] %s: %.1fs" % (name, stages[name]))
        t0 = time.time()
    info, ok = vlib.proof_stage(ctx, PROP_FILE, ["Run/C19.v"])
    lap("proof stage (make under the shared lock + Print Assumptions)")
    cov = dict(info)
    cov["trusted_base"] = vlib.STD_TRUSTED + [
        "theorem hypotheses (stated, not axioms): ids are unique within the secondary's table and within the primary's list (they are the primary key of the state-store tables); `consistent`: whatever the primary has not modified after lastRemoteIndex is already in the secondary; `hash_sound`: equal stored hashes mean equal content (no collision between two versions of one object); remote lists contain no local-scoped tokens",
        "modelled, not verified: the RPCs to the primary (the list and the batch read are taken from ONE snapshot of the primary; ensureRemoteConsistent, which guards against a stale batch read, is executed by the real rounds but not modelled); the state-store tables as finite maps keyed by id (a write of an existing id replaces it); rate limiting, batching and context cancellation of the apply loops (executed for real by the round cases, incl. one round per ACL type that crosses the 4096-id delete batch and the 256 KiB upsert batch); sort.Slice beyond 12 elements is not stable (the model's sort is) - irrelevant for unique ids, exercised by the `long` cases",
        "harness: the secondary is the real FSM + state store behind a real single-node in-memory raft, Server struct filled only with what a round touches (hooks/agent/consul/zz_verif_repl.go); the primary is simulated at the net/rpc boundary; fixtures are loaded by direct state-store writes; round cases map ACL ids to UUIDs (index requirement) and keep config-entry names unique up to case (the table's index is lower-cased)",
    ]
    assumptions = ["unique ids per table", "lastRemoteIndex consistent with what was applied", "content hashes identify content",
                   "list and batch read of one round see one snapshot of the primary"]
    if not ok:
        cov.update({"evaluations": 0, "distinct_nontrivial": 0, "rule": "proof stage failed", "samples": []})
        return ctx.finish(cov, assumptions)

    binp = vlib.go_build("repl")
    lap("harness build")
    out = os.path.join(ctx.workdir, "cases.jsonl")
    tab = os.path.join(ctx.workdir, "tables.jsonl")
    rc, o = vlib.sh([binp, "-seed", str(ctx.seed), "-tier", ctx.tier, "-out", out, "-tab", tab], timeout=3000)
    if rc != 0:
        raise vlib.BuildError("harness run failed: " + o[-3000:])
    lap("implementation run (tables, diff cases, real rounds)")
    try:
        dist = json.loads(o.strip().split("\n")[-1])
    except Exception:
        dist = {}

    # ---------------- read what the implementation did
    cases, oracle_fail = [], []
    classes = collections.Counter()
    nontrivial = 0
    for line in open(out):
        c = json.loads(line)
        cases.append(c)
        classes["%s/%s/%s" % (c["kind"], c["inst"], c["class"])] += 1
        if c["oracle"]:
            oracle_fail.append(c)
        if c.get("out") and (c["out"]["del"] or c["out"]["ups"]):
            nontrivial += 1
        elif c.get("round") and c["round"].get("writes", 0) > 0:
            nontrivial += 1
    tables = [json.loads(l) for l in open(tab)]
    tab_total = sum(t["total"] for t in tables)
    tab_stats = {t["scope"]["inst"]: dict(t["stats"], total=t["total"], keys=len(t["scope"]["keys"]),
                                          hashes=len(t["scope"]["hashes"]), local_hashes=t["scope"]["lhashes"]) for t in tables}
    tab_oracle_failures = sum(t["stats"].get("oracle_failures", 0) for t in tables)
    for t in tables:
        nontrivial += t["stats"].get("nonempty_diff", 0)
        oracle_fail += t["oracle_fail"]

    # ---------------- model vs implementation, inside Coq
    coq_cases = [c for c in cases if c.get("to_coq")]
    shards, meta = [], []
    for i in range(0, len(coq_cases), CASES_PER_SHARD):
        part = coq_cases[i:i + CASES_PER_SHARD]
        shards.append(shard_text(part))
        meta.append(("cases", part))
    for t in tables:
        t["ints"] = [int(h, 16) for h in t["out"]]
        for s in range(0, t["total"], TAB_CHUNK):
            n = min(TAB_CHUNK, t["total"] - s)
            shards.append(table_text(t["scope"], s, n))
            meta.append(("table", (t, s, n)))
    res = vlib.coq_run_shards(PROP, shards, timeout=1500, jobs=10)
    lap("model evaluation in Coq (%d shards)" % len(shards))
    mism = []  # replay-ready descriptions of disagreements
    n_mism = 0
    bad_blocks = []
    for (kind, what), (okk, idx, raw) in zip(meta, res):
        if not okk:
            ctx.violation({"kind": "case-file-failed", "shard": kind, "log": raw}, found_input=False)
            continue
        if kind == "cases":
            n_mism += len(idx)
            mism += [slim(what[i]) for i in idx[:3]]
            continue
        t, s, n = what
        want = digests(t["ints"][s:s + n])
        if len(idx) != len(want):
            ctx.violation({"kind": "case-file-failed", "shard": "table %s@%d" % (t["scope"]["inst"], s),
                           "log": "expected %d block checksums, Coq printed %d" % (len(want), len(idx))}, found_input=False)
            continue
        for b, (x, y) in enumerate(zip(idx, want)):
            if x != y:
                bad_blocks.append((t, s + b * TAB_BLOCK, min(TAB_BLOCK, n - b * TAB_BLOCK)))
    if bad_blocks:
        # second stage: the model's outputs of the differing blocks, number by number
        shown = bad_blocks[:24]
        res2 = vlib.coq_run_shards(PROP + "_blk", [block_text(t["scope"], s, n) for (t, s, n) in shown], timeout=900, jobs=10)
        for (t, s, n), (okk, outs, raw) in zip(shown, res2):
            if not okk or len(outs) != n:
                ctx.violation({"kind": "case-file-failed", "shard": "block %s@%d" % (t["scope"]["inst"], s), "log": raw}, found_input=False)
                continue
            for i, (m, g) in enumerate(zip(outs, t["ints"][s:s + n])):
                if m != g:
                    n_mism += 1
                    if len(mism) < 6:
                        rc2, o2 = vlib.sh([binp, "-seed", str(ctx.seed), "-tier", ctx.tier, "-explain",
                                           "%s:%d" % (t["scope"]["inst"], s + i)], timeout=600)
                        try:
                            d = slim(json.loads(o2.strip().split("\n")[-1]))
                        except Exception:
                            d = {"inst": t["scope"]["inst"], "explain_output": o2[-500:]}
                        d.update({"table_index": s + i, "implementation_output_code": "%x" % g, "model_output_code": "%x" % m})
                        mism.append(d)
        n_mism += (len(bad_blocks) - len(shown))  # at least one per block not expanded
    mism.sort(key=lambda c: len(c.get("local") or []) + len(c.get("remote") or []))
    lap("comparison")

    # ---------------- direct oracle on the implementation
    new_fail = []
    known_counts = collections.Counter()
    for c in oracle_fail:
        f = vlib.match_known(PROP, c.get("signature") or {})
        if f:
            ctx.known(f, f["what"])
            known_counts[f.get("id", "known")] += 1
        else:
            new_fail.append(c)
    new_fail.sort(key=lambda c: (not c.get("shrunk", False), len(c.get("local") or []) + len(c.get("remote") or [])))
    seen_sig = set()
    for c in new_fail:
        sig = json.dumps(c.get("signature"), sort_keys=True)
        if sig in seen_sig or len(seen_sig) >= 5:
            continue
        seen_sig.add(sig)
        ctx.violation({"kind": "oracle", "reason": c["oracle"], "signature": c.get("signature"), "case": slim(c),
                       "replay_cmd": "build/bin/repl -replay <this file>"})
    extra = None
    if n_mism and not new_fail:
        # correspondence broken but the oracle is silent: look harder (fresh explicit stream, other seed,
        # thorough volume) with the oracle only
        out2 = os.path.join(ctx.workdir, "cases_extra.jsonl")
        rc3, o3 = vlib.sh([binp, "-seed", str(ctx.seed + 7919), "-tier", "thorough", "-out", out2], timeout=3000)
        extra = 0
        found = []
        if rc3 == 0:
            for line in open(out2):
                c = json.loads(line)
                extra += 1
                if c["oracle"] and not vlib.match_known(PROP, c.get("signature") or {}):
                    found.append(c)
        found.sort(key=lambda c: (not c.get("shrunk", False), len(c.get("local") or []) + len(c.get("remote") or [])))
        if found:
            c = found[0]
            ctx.violation({"kind": "oracle", "reason": c["oracle"], "signature": c.get("signature"), "case": slim(c),
                           "found_by": "extended search after a correspondence mismatch",
                           "replay_cmd": "build/bin/repl -replay <this file>"})
        else:
            ctx.violation({"kind": "correspondence",
                           "theorem": "Run.C19.check / tab_failing: model diff / round = implementation (hypothesis of every C19 theorem's transfer to the code)",
                           "mismatching_cases": n_mism, "case": mism[0] if mism else None, "more": mism[1:4],
                           "extended_search_cases": extra,
                           "replay_cmd": "build/bin/repl -replay <this file>"}, found_input=False)

    evaluated_in_coq = len(coq_cases) + tab_total
    cov.update({
        "evaluations": len(cases) + tab_total,
        "distinct_nontrivial": nontrivial,
        "rule": "a case is non-trivial when the implementation's diff is non-empty (deletions or upserts) or the real round appended at least one raft entry; every table index is a distinct input by construction",
        "traces_validated_against_impl": evaluated_in_coq,
        "model_mismatches": n_mism,
        "oracle_failures": len([c for c in cases if c["oracle"]]) + tab_oracle_failures,
        "oracle_failures_unknown": len(new_fail),
        "known_finding_hits": dict(known_counts),
        "exhaustive": True,
        "exhaustive_scope": "per instance: ALL pairs (local set, remote set) of unique-key objects over the scope's keys x hashes x remote modify indexes {1,3}, x lastRemoteIndex in {0,2,3} (the local side draws from the first `local_hashes` hashes: quick uses one local hash for the ACL types - hash equality is symmetric - and two of three for config entries; thorough the full product for ACL), each pair in one pseudo-random input order per side derived from the case number and the seed; ACL keys are \"\", a, ab, b (empty id, a prefix pair), config keys differ by kind and by name (incl. exported-services), config hashes include 0; sizes per instance under `tables`",
        "tables": tab_stats,
        "explicit_case_classes": dict(classes),
        "input_distribution": dist,
        "real_rounds": sum((2 if c.get("round2") else 1) for c in cases if c["kind"] in ("round", "round2", "twosnap")),
        "stage_seconds": stages,
        "samples": [slim(c) for c in (coq_cases[:2] + [c for c in coq_cases if c["kind"] == "round"][:1] + [c for c in coq_cases if c["kind"] == "round2"][:1])],
    })
    return ctx.finish(cov, assumptions)
