"""C08 — ACL decisions follow rule semantics and depend only on the token's own policies."""
import collections
import json
import os

import vlib
from vlib import coq_bool, coq_list, coq_N, coq_str

PROP = "C08"
PROP_FILE = "Properties/C08.v"
KINDS = ["KAgent", "KKey", "KNode", "KService", "KSession", "KEvent", "KQuery"]
PER_SHARD = 60


def rule_to_coq(r):
    return "Rule %s %s %s (rep %d) (rep %d)" % (KINDS[r["kind"]], coq_bool(r["prefix"]), coq_str(r["name"]),
                                                r["pol"], r["int"])


def entry_to_coq(e):
    p = e["pol"]
    pol = "(Policy (rep %d) (rep %d) (rep %d) (rep %d) (rep %d) %s)" % (
        p["acl"], p["keyring"], p["operator"], p["mesh"], p["peering"],
        coq_list([rule_to_coq(r) for r in (p["rules"] or [])]))
    return "PEntry %d %d %d %s %s" % (e["id"], e["idx"], e["hash"], coq_bool(e["ok"]), pol)


def case_to_coq(c):
    names = coq_list([coq_str(bytes.fromhex(h)) for h in c["names_hex"]])
    pool = coq_list([entry_to_coq(e) for e in c["pool"]])
    toks = coq_list(["Tok %s %s" % (coq_list([str(i) for i in (t["idx"] or [])]),
                                    "None" if t["err"] else '(Some "%s"%%string)' % t["expect"])
                     for t in c["toks"]])
    return "Case %s\n   %s\n   %s" % (names, pool, toks)


def sis_to_coq(xs):
    return coq_list(["SIdent %d %s" % (x["name"], coq_list([str(d) for d in (x["dcs"] or [])])) for x in (xs or [])])


def nis_to_coq(xs):
    return coq_list(["NIdent %d %d" % (x["name"], x["dc"]) for x in (xs or [])])


def ids(xs):
    return coq_list([str(i) for i in (xs or [])])


def tps_to_coq(xs):
    return coq_list(["TPol %d %d %s" % (x["tmpl"], 0 if x["tmpl"] == 2 else x["name"], coq_list([str(d) for d in (x["dcs"] or [])])) for x in (xs or [])])


def rcase_to_coq(c):
    names = coq_list([coq_str(bytes.fromhex(h)) for h in c["names_hex"]])
    synth = c["synth"] or []
    ssvc = coq_list(["(%d, %s)" % (s["name"], entry_to_coq(s)) for s in synth if s["kind"] == "svc"])
    snode = coq_list(["(%d, %s)" % (s["name"], entry_to_coq(s)) for s in synth if s["kind"] == "node"])
    stp = coq_list(["((%d, %d), %s)" % (int(s["kind"][2:]), s["name"], entry_to_coq(s)) for s in synth if s["kind"].startswith("tp")])

    def world(w):
        pols = coq_list(["(%d, WPolicy (%s) %s)" % (p["id"], entry_to_coq(p), ids(p["dcs"])) for p in (w["pols"] or [])])
        roles = coq_list(["(%d, WRole %s %s %s %s)" % (r["id"], ids(r["pols"]), sis_to_coq(r["sis"]), nis_to_coq(r["nis"]), tps_to_coq(r.get("tps"))) for r in (w["roles"] or [])])
        toks = coq_list(["WToken %s %s %s %s %s" % (ids(t["pols"]), ids(t["roles"]), sis_to_coq(t["sis"]), nis_to_coq(t["nis"]), tps_to_coq(t.get("tps"))) for t in (w["toks"] or [])])
        return "(World %d %s\n    %s\n    synth_svc synth_node synth_tp,\n    %s)" % (c["dc"], pols, roles, toks)

    worlds = coq_list([world(w) for w in [c] + (c.get("later") or [])])
    steps = coq_list(["RStep %d %d %s" % (s.get("w", 0), s["tok"], "None" if s["err"] else '(Some "%s"%%string)' % s["expect"]) for s in c["steps"]])
    return ("ResolverCase (let synth_svc := %s in let synth_node := %s in let synth_tp := %s in\n   RCase %s %s\n   %s\n   %s)"
            % (ssvc, snode, stp, names, "allow_all" if c.get("default_allow") else "deny_all", worlds, steps))


def any_to_coq(c):
    return rcase_to_coq(c) if c.get("resolver") else "PlainCase (%s)" % case_to_coq(c)


def shard_text(cases):
    body = ";\n  ".join(any_to_coq(c) for c in cases)
    return ("From Verif Require Import Base.Prelude ACL.Model ACL.Identity Run.C08.\nLocal Open Scope N_scope.\n"
            "Definition cases : list anycase := [\n  %s\n].\n"
            "Definition M := Eval vm_compute in mismatches cases.\nPrint M.\n" % body)


def tab_text(tab):
    def rows(xs, f):
        return coq_list([f(x) for x in xs])
    b = lambda i: coq_bool(bool(i))
    return (
        "(* GENERATED on every run from the Go code through harness/acl -tab: exhaustive tables of the\n"
        "   finite-domain helpers, each proved equal to the model's function by computation. *)\n"
        "From Verif Require Import Base.Prelude ACL.Model Run.C08.\nLocal Open Scope N_scope.\n"
        "Definition tpo_tab : list (N * N * bool) := %s.\n"
        "Definition enforce_tab : list (N * N * N) := %s.\n"
        "Definition level_tab : list (N * bool * N) := %s.\n"
        "Definition valid_tab : list (N * bool * bool) := %s.\n"
        "Definition dia_tab : list (N * N) := %s.\n"
        "Lemma tab_sizes : (List.length tpo_tab, List.length enforce_tab, List.length level_tab, List.length valid_tab, List.length dia_tab) = (100, 25, 10, 20, 3)%%nat.\n"
        "Proof. vm_compute. reflexivity. Qed.\n"
        "Lemma takes_precedence_over_tab : forallb tpo_row_ok tpo_tab = true.\nProof. vm_compute. reflexivity. Qed.\n"
        "Lemma enforce_tab_ok : forallb enforce_row_ok enforce_tab = true.\nProof. vm_compute. reflexivity. Qed.\n"
        "Lemma access_level_from_string_tab : forallb level_row_ok level_tab = true.\nProof. vm_compute. reflexivity. Qed.\n"
        "Lemma is_policy_valid_tab : forallb valid_row_ok valid_tab = true.\nProof. vm_compute. reflexivity. Qed.\n"
        "Lemma default_is_allow_tab : forallb dia_row_ok dia_tab = true.\nProof. vm_compute. reflexivity. Qed.\n"
        % (rows(tab["tpo"], lambda x: "(%d, %d, %s)" % (x[0], x[1], b(x[2]))),
           rows(tab["enforce"], lambda x: "(%d, %d, %d)" % tuple(x)),
           rows(tab["level"], lambda x: "(%d, %s, %d)" % (x[0], b(x[1]), x[2])),
           rows(tab["valid"], lambda x: "(%d, %s, %s)" % (x[0], b(x[1]), b(x[2]))),
           rows(tab["dia"], lambda x: "(%d, %d)" % tuple(x))))


def signature(c):
    s = c.get("sig") or {}
    return {"kind": s.get("kind"), "noncanonical_spelling": s.get("noncanonical_spelling")}


def slim(c):
    """the part of a case needed to replay it (build/bin/acl -replay reads {"case": ...})"""
    return {"stream": c["stream"], "names_hex": c["names_hex"], "cache": c["cache"],
            "pool": [{k: e[k] for k in ("id", "idx", "pol", "hcl") + tuple(x for x in ("raw", "name", "desc") if e.get(x))} for e in c["pool"]],
            "toks": [{"idx": t["idx"]} for t in c["toks"]]}


def slim_r(c):
    return {k: c.get(k) for k in ("stream", "names_hex", "dc", "default_allow", "cache", "pols", "roles", "toks", "later")} | {"steps": [{"w": s.get("w", 0), "tok": s["tok"]} for s in c["steps"]]}


def describe_r(c):
    """the resolver case in words: roles, tokens and the order they were resolved in"""
    svc = ["a", "ab", "abc", "b"]
    si = lambda xs: ["%s@%s" % (svc[x["name"]], ",".join("dc%d" % d for d in (x["dcs"] or [])) or "all") for x in (xs or [])]
    ni = lambda xs: ["node %s@dc%d" % (svc[x["name"]], x["dc"]) for x in (xs or [])]
    tmpl = ["builtin/service", "builtin/node", "builtin/dns"]
    tp = lambda xs: ["%s%s@%s" % (tmpl[x["tmpl"]], "" if x["tmpl"] == 2 else "(" + svc[x["name"]] + ")", ",".join("dc%d" % d for d in (x["dcs"] or [])) or "all") for x in (xs or [])]
    def world(w):
        return {"policies": {p["id"]: {"rules": p["hcl"], "version": p["idx"], "datacenters": ["dc%d" % d for d in (p["dcs"] or [])]} for p in (w["pols"] or [])},
                "roles": {r["id"]: {"policies": r["pols"], "identities": si(r["sis"]) + ni(r["nis"]) + tp(r.get("tps"))} for r in (w["roles"] or [])},
                "tokens": {t["id"]: {"policies": t["pols"], "roles": t["roles"], "identities": si(t["sis"]) + ni(t["nis"]) + tp(t.get("tps"))} for t in (w["toks"] or [])}}
    worlds = [c] + (c.get("later") or [])
    out = {"datacenter": "dc%d" % c["dc"], "default_policy": "allow" if c.get("default_allow") else "deny",
           "resolved_in_order": [{"world": s.get("w", 0), "token": worlds[s.get("w", 0)]["toks"][s["tok"]]["id"]} for s in c["steps"]]}
    if len(worlds) == 1:
        out.update(world(c))
    else:
        out["worlds"] = [world(w) for w in worlds]
    return out


def run(ctx):
    if ctx.replay:
        # re-run one recorded case on the implementation (oracle only)
        binp = vlib.go_build("acl")
        rc, o = vlib.sh([binp, "-replay", ctx.replay], timeout=600)
        print(o, end="")
        return 1 if rc != 0 else 0
    info, ok = vlib.proof_stage(ctx, PROP_FILE, ["Run/C08.v"])
    cov = dict(info)
    cov["trusted_base"] = vlib.STD_TRUSTED + [
        "armon/go-radix is abstracted in the model to a finite map from names to leaves with WalkPath = entries at the prefixes of the segment (shortest first), WalkPrefix = entries whose name starts with the prefix, Walk = all entries; exercised by the correspondence check, not proved",
        "the HCL decoder (text -> rule lists), blake2b (cache keys are modelled as the hashed tuples themselves) and the 2Q LRU (any eviction is covered by the 'evict' steps of the reachable-cache relation) are external",
        "Go pointer aliasing: model values are immutable; that MergePolicies/Compile never write through the parsed policies shared by the cache is established on every run by the shared-cache vs fresh-cache oracle and the cached-policy deep comparison, not by the proof",
        "policy strings are modelled up to the distinctions the code makes: '', the four lowercase constants, other spellings that lowercase to them, anything else (tabulated from the Go code on every run, coq/gen/tab_C08.v)",
        "identity / identity_prefix rules (zeroed by PolicyRules.Validate, never read by loadRules) and enterprise-only hooks (CE stubs) are not modelled",
        "C08_pure assumes the policy store is versioned: (ID, ModifyIndex) determines the content hash and the hash determines the rules (Raft-applied store); an Example shows the hypothesis is needed",
    ]
    assumptions = ["(ID, ModifyIndex) determines a policy's rules; content hash collision freedom",
                   "go-radix, HCL decoder and golang-lru as external components (exercised by the correspondence check)"]
    if not ok:
        cov.update({"evaluations": 0, "distinct_nontrivial": 0, "rule": "proof stage failed", "samples": []})
        return ctx.finish(cov, assumptions)

    binp = vlib.go_build("acl")
    out = os.path.join(ctx.workdir, "cases.jsonl")
    tabf = os.path.join(ctx.workdir, "tab.json")
    open_kinds = sorted({f.get("signature", {}).get("kind", "") for f in vlib.load_known()
                         if f.get("property") == PROP and f.get("status") != "fixed"} - {""})
    rc, o = vlib.sh([binp, "-seed", str(ctx.seed), "-tier", ctx.tier, "-out", out, "-tab", tabf, "-known", ",".join(open_kinds)], timeout=3000)
    if rc != 0:
        raise vlib.BuildError("harness run failed: " + o[-2000:])

    # ---- finite-domain helpers: tabulated from the Go code, proved equal to the model ----
    tab = json.load(open(tabf))
    os.makedirs(vlib.GEN, exist_ok=True)
    tabv = os.path.join(vlib.GEN, "tab_C08_p%d.v" % os.getpid())
    open(tabv, "w").write(tab_text(tab))
    rc, o = vlib.sh(["coqc", "-Q", ".", "Verif", tabv], cwd=vlib.COQ, timeout=600)
    tab_ok = rc == 0
    if not tab_ok:
        ctx.violation({"kind": "tabulation-lemma-failed", "file": "coq/gen/tab_C08.v",
                       "what": "a finite-domain helper of the Go code (takesPrecedenceOver / enforce / AccessLevelFromString / isPolicyValid / defaultIsAllow) no longer equals the model",
                       "tables": tab, "log": o[-2500:]}, found_input=False)

    allcases = [json.loads(l) for l in open(out)]
    rcases = [c for c in allcases if c.get("resolver")]
    cases = [c for c in allcases if not c.get("resolver")]
    streams = collections.Counter(c["stream"] for c in allcases)
    tokens = sum(len(c["toks"]) for c in cases)
    decisions = sum(len(t["expect"]) for c in cases for t in c["toks"]) + sum(len(st["expect"]) for c in rcases for st in c["steps"])
    errors = sum(1 for c in cases for t in c["toks"] if t["err"])
    tok_sizes = collections.Counter(len(t["idx"] or []) for c in cases for t in c["toks"])
    rule_kinds = collections.Counter()
    levels = collections.Counter()
    rules_per_policy = collections.Counter()
    for c in cases:
        for e in c["pool"]:
            rs = e["pol"]["rules"] or []
            rules_per_policy[len(rs)] += 1
            for r in rs:
                rule_kinds[KINDS[r["kind"]][1:].lower() + ("_prefix" if r["prefix"] else "")] += 1
                levels[r["pol"]] += 1
    distinct = len({(json.dumps([c["pool"][i]["hcl"] for i in (t["idx"] or [])]), t["expect"]) for c in cases for t in c["toks"]})

    # ---- model vs implementation, inside Coq ----
    shards = [allcases[i:i + PER_SHARD] for i in range(0, len(allcases), PER_SHARD)]
    res = vlib.coq_run_shards(PROP, [shard_text(s) for s in shards], jobs=4)
    mism = []
    for s, (okk, idx, raw) in zip(shards, res):
        if not okk:
            ctx.violation({"kind": "case-file-failed", "log": raw}, found_input=False)
            continue
        mism += [s[i] for i in idx]

    # ---- direct oracle on the implementation ----
    # Every failing clause of every case is judged on its own: a clause is excused only if an OPEN
    # known finding matches that clause's signature; a case whose verdict is a known finding can
    # still produce a violation through another clause.
    oracle_fail = [c for c in allcases if c.get("fails")]
    known_hits, unknown = collections.Counter(), collections.OrderedDict()
    has_unknown = set()
    for c in oracle_fail:
        for f in c["fails"]:
            sig = {"kind": f["sig"]["kind"], "noncanonical_spelling": f["sig"].get("noncanonical_spelling")}
            kf = vlib.match_known(PROP, sig)
            if kf:
                ctx.known(kf, kf["what"])
                known_hits[sig["kind"]] += 1
            else:
                has_unknown.add(id(c))
                unknown.setdefault(sig["kind"], []).append((c, f))
    new_fail = [c for c in oracle_fail if id(c) in has_unknown]
    for k, lst in list(unknown.items())[:5]:
        # prefer a case whose verdict (the clause the harness shrank for) is this clause
        c, f = next(((c, f) for c, f in lst if c.get("shrunk") and c["sig"]["kind"] == k), lst[0])
        shrunk_ok = bool(c.get("shrunk")) and c["sig"]["kind"] == k
        sh = c["shrunk"] if shrunk_ok else c
        reason = sh["oracle"] if shrunk_ok else f["reason"]
        base = {"kind": "oracle", "reason": reason, "signature": {"kind": k}, "detail": f["sig"], "cases_failing_this_clause": len(lst),
                "all_failing_clauses_of_case": c.get("oracle_kinds"), "stream": c["stream"], "unshrunk_reason": f["reason"],
                "shrunk": shrunk_ok, "replay_cmd": "build/bin/acl -replay <this file>"}
        if c.get("resolver"):
            base.update({"token_sequence": describe_r(sh), "rcase": slim_r(sh)})
        else:
            base.update({"token_sequence": [[sh["pool"][i]["hcl"] for i in (t["idx"] or [])] for t in sh["toks"]], "case": slim(sh)})
        ctx.violation(base)
    # A model/implementation mismatch is a violation of the correspondence whatever the oracle
    # says about known findings; only a case that already carries an unknown oracle failure
    # (reported above with its input) is not reported a second time.
    unexplained = [c for c in mism if id(c) not in has_unknown]
    for c in unexplained[:2]:
        if c.get("resolver"):
            ctx.violation({"kind": "correspondence", "theorem": "Run.C08.rcheck (model policies_for_identity/compile/chain_decide = ACLResolver.ResolveToken)",
                           "mismatching_cases": len(unexplained), "stream": c["stream"], "token_sequence": describe_r(c), "rcase": slim_r(c),
                           "oracle_clauses_failing_in_case": c.get("oracle_kinds"),
                           "observed": [st["expect"] if not st["err"] else "error" for st in c["steps"]]}, found_input=False)
        else:
            ctx.violation({"kind": "correspondence", "theorem": "Run.C08.check (model compile/policy_decide/chain_decide = implementation)",
                           "mismatching_cases": len(unexplained), "stream": c["stream"], "case": slim(c),
                           "oracle_clauses_failing_in_case": c.get("oracle_kinds"),
                           "observed": [t["expect"] if not t["err"] else "error" for t in c["toks"]]}, found_input=False)

    ex = [c for c in cases if c["stream"] == "main"][:2] + [c for c in cases if c["stream"] == "mixed-case"][:1]
    cov.update({
        "evaluations": decisions,
        "distinct_nontrivial": distinct,
        "rule": "one evaluation = one acl.Authorizer method call on one name on the authorizer returned by ACLPolicies.Compile (or its chain with DenyAll/AllowAll), compared with the model inside Coq and with the Go reference evaluator; distinct_nontrivial = distinct (token policy texts, full decision vector) pairs",
        "cases": len(allcases),
        "resolver_cases": len(rcases),
        "resolver_steps": sum(len(c["steps"]) for c in rcases),
        "resolver_tokens_with_2plus_roles": sum(1 for c in rcases for t in c["toks"] if len(t["roles"] or []) > 1),
        "resolver_identity_histogram": {"service_identities": sum(len(r["sis"] or []) for c in rcases for r in c["roles"]) + sum(len(t["sis"] or []) for c in rcases for t in c["toks"]),
                                        "node_identities": sum(len(r["nis"] or []) for c in rcases for r in c["roles"]) + sum(len(t["nis"] or []) for c in rcases for t in c["toks"]),
                                        "templated_policies": sum(len(r.get("tps") or []) for c in rcases for r in c["roles"]) + sum(len(t.get("tps") or []) for c in rcases for t in c["toks"]),
                                        "scoped_policies": sum(1 for c in rcases for p in c["pols"] if p["dcs"])},
        "resolver_cases_with_store_writes": sum(1 for c in rcases if c.get("later")),
        "resolver_datacenter_histogram": dict(collections.Counter("dc%d" % c["dc"] for c in rcases)),
        "resolver_default_allow_cases": sum(1 for c in rcases if c.get("default_allow")),
        "resolver_small_cache_cases": sum(1 for c in rcases if c.get("cache")),
        "tokens_resolved": tokens,
        "compile_errors_observed": errors,
        "streams": dict(streams),
        "token_size_histogram": {str(k): v for k, v in sorted(tok_sizes.items())},
        "rules_per_policy_histogram": {str(k): v for k, v in sorted(rules_per_policy.items())},
        "rule_kind_histogram": dict(rule_kinds),
        "policy_string_histogram": {["", "deny", "read", "list", "write", "Deny", "READ", "List", "wRiTe", "foo"][k]: v for k, v in sorted(levels.items())},
        "names_queried": [bytes.fromhex(h).decode("latin-1") for h in cases[0]["names_hex"]] if cases else [],
        "tabulated": {"takesPrecedenceOver": len(tab["tpo"]), "enforce": len(tab["enforce"]), "AccessLevelFromString": len(tab["level"]),
                      "isPolicyValid": len(tab["valid"]), "defaultIsAllow": len(tab["dia"]), "lemmas_ok": tab_ok},
        "traces_validated_against_impl": len(allcases),
        "model_mismatches": len(mism),
        "model_mismatches_without_oracle_failure": len(unexplained),
        "oracle_failures": len(oracle_fail),
        "oracle_failing_clauses_unknown": {k: len(v) for k, v in unknown.items()},
        "oracle_failures_known": dict(known_hits),
        "oracle_failures_unknown": len(new_fail),
        "oracle_clauses": ["cache-dependence (shared vs fresh cache)", "cached-policy-mutated (deep compare with a fresh parse)",
                           "semantics (Go evaluator of the documented rule)", "order-dependence (reversed/rotated policy list)",
                           "enforce-dispatch (acl.Enforce)", "compile-error-on-valid-policies",
                           "resolver stream: history-dependence (same token alone in a fresh ACLResolver over fresh objects)",
                           "resolver stream: backend-object-mutated (tokens/roles/policies handed out by pointer deep-equal a fresh copy)",
                           "resolver stream: identity-semantics (documented union of own and inherited policies/identities valid in the datacenter)",
                           "resolver stream: role-order-dependence"],
        "samples": [{"stream": c["stream"], "policies": [e["hcl"] for e in c["pool"]][:4],
                     "tokens": [t["idx"] for t in c["toks"]], "first_token_decisions": c["toks"][0]["expect"][:60]} for c in ex],
        "exhaustive": ctx.tier == "thorough",
    })
    return ctx.finish(cov, assumptions)
