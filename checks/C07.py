"""C07 — catalog integrity: no orphans, complete cascades, derived views agree."""
import collections
import json
import os

import vlib

PROP = "C07"
PROP_FILE = "Properties/C07.v"
ERRS = {"EMissingNode", "EMissingService", "ESimilarName", "ECheckNodeMismatch", "EStale", "ENotFound",
        "EVipExhausted", "EOther"}
KIND = {"": "KTypical", "connect-proxy": "KProxy", "mesh-gateway": "KMeshGW", "terminating-gateway": "KTermGW",
        "ingress-gateway": "KIngressGW"}
GSK = {"": "GUnknown", "service": "GService", "destination": "GDestination"}
VERB = {"get": "VGet", "set": "VSet", "cas": "VCAS", "delete": "VDelete", "delete-cas": "VDeleteCAS"}


# ------------------------------------------------------------------ Coq term writers
def cs(s):
    b = s.encode("utf-8")
    if all(32 <= c < 127 and c != 34 for c in b):
        return '"%s"' % s
    out = "EmptyString"
    for c in reversed(b):
        out = "(String (Ascii.ascii_of_N %d) %s)" % (c, out)
    return out


def cb(b):
    return "true" if b else "false"


def cn(n):
    return "%d" % int(n)


def clist(items):
    return "[" + "; ".join(items) + "]"


def svcreq(s):
    if s["kind"] not in KIND:
        raise ValueError("service kind " + s["kind"])
    return "(SvcReq %s %s %s %s %s %s %s %s %s)" % (
        cs(s["id"]), cs(s["name"]), KIND[s["kind"]], cb(s["native"]), cs(s["dest"] if s["kind"] == "connect-proxy" else ""),
        cn(s["port"]), clist([cs(u) for u in s.get("ups") or []]), cb(s.get("weights", False)), cn(s.get("index", 0)))


def checkreq(c):
    return "(CheckReq %s %s %s %s %s)" % (cs(c["node"]), cs(c["id"]), cn(c["status"]), cs(c["service"]), cn(c.get("index", 0)))


def conf(c):
    k = c["kind"]
    if k == "terminating-gateway":
        return "(CTermGW %s)" % clist([cs(x) for x in c.get("services") or []])
    if k == "ingress-gateway":
        return "(CIngressGW %s)" % clist(["(%s, %s)" % (cn(l["port"]), clist([cs(x) for x in l["services"]]))
                                         for l in c.get("listeners") or []])
    if k == "service-defaults":
        return "(CDefaults %s)" % cb(c.get("dest", False))
    if k == "service-resolver":
        return "CResolver"
    raise ValueError("config entry kind " + k)


def txnop(o):
    k = o["kind"]
    if k == "node":
        return "TNode %s %s %s %s %s" % (VERB[o["verb"]], cs(o.get("node", "")), cs(o.get("id", "")), cn(o.get("addr", 0)), cn(o.get("index", 0)))
    if k == "service":
        return "TService %s %s %s" % (VERB[o["verb"]], cs(o.get("node", "")), svcreq(o["svc"]))
    if k == "check":
        return "TCheck %s %s" % (VERB[o["verb"]], checkreq(o["check"]))
    raise ValueError(k)


def cmd(c):
    k = c["kind"]
    if k == "sysmeta":
        if c["key"] != "virtual-ips":
            raise ValueError("system metadata key " + c["key"])
        t = "SysMeta %s" % cb(c.get("value", "") != "")
    elif k == "register":
        t = "Register %s %s %s %s %s %s" % (cs(c.get("node", "")), cs(c.get("id", "")), cn(c.get("addr", 0)), cb(c.get("skip", False)),
                                            ("(Some %s)" % svcreq(c["svc"])) if c.get("svc") else "None",
                                            clist([checkreq(x) for x in c.get("checks") or []]))
    elif k == "deregister":
        t = "Deregister %s %s %s" % (cs(c.get("node", "")), cs(c.get("svc_id", "")), cs(c.get("check_id", "")))
    elif k == "txn":
        t = "Txn %s" % clist([txnop(o) for o in c.get("ops") or []])
    elif k == "conf_set":
        if c["conf"]["kind"] == "proxy-defaults":
            t = "Noop"
        else:
            t = "ConfSet %s %s" % (cs(c["conf"]["name"]), conf(c["conf"]))
    elif k == "conf_delete":
        t = "ConfDelete %s %s" % (cs(c["conf"]["kind"]), cs(c["conf"]["name"]))
    elif k == "manual_vips":
        t = "ManualVIPs %s %s" % (cs(c["service"]), clist([cs(x) for x in c.get("ips") or []]))
    elif k == "coord":
        t = "Coord %s" % cs(c.get("node", ""))
    else:
        raise ValueError(k)
    return "(%s, %s)" % (cn(c["idx"]), t)


def err_t(e):
    if e not in ERRS:
        raise ValueError("unmapped implementation error: " + e)
    return e


def res(r):
    k = r["kind"]
    if k == "nil":
        return "CNil"
    if k == "bool":
        return "CBool %s" % cb(r.get("bool", False))
    if k == "err":
        return "CErr %s" % err_t(r["err"])
    if k == "txn-ok":
        return "CTxnOk"
    if k == "txn-err":
        return "CTxnErr %d%%nat %s" % (r.get("op", 0), err_t(r["err"]))
    if k == "manual":
        return "CManual %s %s" % (cb(r.get("found", False)), clist([cs(x) for x in r.get("from") or []]))
    raise ValueError(k)


def svc_row(r):
    if r["vip"] < -1 or r["extra"]:
        raise ValueError("tagged addresses outside the model: %s" % r)
    vip = "None" if r["vip"] == -1 else "(Some %s)" % cn(r["vip"])
    return "(Svc %s %s %s %s %s %s %s %s %s)" % (cs(r["name"]), KIND[r["kind"]], cb(r["native"]), cs(r["dest"]), cn(r["port"]),
                                                 clist([cs(u) for u in r["ups"]]), vip, cn(r["c"]), cn(r["m"]))


def dump(d):
    counter = 0
    free = []
    for f in d["free"]:
        if f["counter"]:
            counter = f["ip"]
        else:
            free.append(f["ip"])
    usage = [u for u in d["usage"] if u[0] != "config-entries-proxy-defaults"]
    topo = []
    for t in d["topo"]:
        refs = []
        for x in t["refs"]:
            n, _, i = x.partition("/")
            refs.append("(%s, %s)" % (cs(n), cs(i)))
        topo.append("(%s, %s, %s)" % (cs(t["up"]), cs(t["down"]), clist(refs)))
    return "(Dump %s %s %s %s %s %s %s %s %s %s %s %s %s)" % (
        clist(["(%s, Node %s %s %s %s)" % (cs(r["name"]), cs(r["id"]), cn(r["addr"]), cn(r["c"]), cn(r["m"])) for r in d["nodes"]]),
        clist(["(%s, %s, %s)" % (cs(r["node"]), cs(r["id"]), svc_row(r)) for r in d["services"]]),
        clist(["(%s, %s, Chk %s %s %s %s %s)" % (cs(r["node"]), cs(r["id"]), cn(r["status"]), cs(r["svc"]), cs(r["svcname"]),
                                                cn(r["c"]), cn(r["m"])) for r in d["checks"]]),
        clist([cs(x) for x in d["coords"]]),
        clist(["(%s, %s, %s)" % (cs(r["kind"]), cs(r["name"]), conf(r)) for r in d["confs"]]),
        clist(["(%s, %s)" % (cs(k[0]), cs(k[1])) for k in d["kindnames"]]),
        clist(["(%s, %s)" % (cs(u[0]), cn(u[1])) for u in usage]),
        clist(["(%s, (%s, %s))" % (cs(v["service"]), cn(v["ip"]), clist([cs(m) for m in v["manual"]])) for v in d["vips"]]),
        clist([cn(f) for f in free]), cn(counter),
        clist(["(%s, %s, %s, GS %s %s %s)" % (cs(g["gateway"]), cs(g["service"]), cn(g["port"]), KIND[g["gwkind"]], cb(g["wildcard"]),
                                             GSK[g["svckind"]]) for g in d["gws"]]),
        clist(topo), cb(d["vips_on"]))


def case(h):
    return "Case %s %s %s" % (clist([cmd(c) for c in h["cmds"]]), clist(["(%s)" % res(r) for r in h["results"]]), dump(h["final"]))


HEADER = ("From stdpp Require Import gmap strings.\nFrom Coq Require Import NArith.\n"
          "From Verif Require Import Catalog.Model Run.C07.\nLocal Open Scope N_scope.\n")


def shard_text(hs):
    body = ";\n  ".join(case(h) for h in hs)
    return HEADER + ("Definition cases : list case := [\n  %s\n].\n"
                     "Definition M := Eval vm_compute in mismatches cases.\nPrint M.\n" % body)


def explain_text(h):
    return HEADER + "Definition E := Eval vm_compute in explain (%s).\nPrint E.\n" % case(h)


# ------------------------------------------------------------------ verdicts
def signature(f):
    """structured signature of an oracle failure: the derived view and the class of histories (computed by the
    harness from the real dumps) it falls in; cause "" = outside every excluded class"""
    return {"kind": f["kind"], "cause": f.get("cause", "")}


CORPUS_EXPECT = {
    # witnesses of the open findings: must fail as recorded
    "kindnames-instance-renamed": ("kindnames", "instance-redefined"),
    "usage-instance-renamed-to-consul": ("kindnames", "instance-redefined"),
    "topology-upstream-dropped": ("topology", "upstream-dropped"),
    "topology-instance-redefined": ("topology", "instance-redefined"),
    "topology-ingress-wildcard-cleanup": ("topology", "ingress-wildcard-cleanup"),
    "topology-native-upstreams": ("topology", "native-upstreams"),
    # peer stream (oracle-only): rows imported from a peer
    "peer-vip-imported-proxy-outlives-assignment": ("vip-advertised", "imported-proxy-outlived-assignment"),
    # wide stream (oracle-only): parts of the universe the model's generator stays out of
    "wide-destination-with-instances": ("gateway-services", "destination-with-instances"),
    "wide-client-supplied-virtual-address": ("vip-advertised", "client-supplied-address"),
    "wide-manual-ip-in-auto-range": ("vip-unique", "manual-ip-in-auto-range"),
    "peer-same-names-both-sides": None,           # imported and local rows of the same names do not disturb each other
    "gateway-ingress-wildcard-order": ("gateway-services", "wildcard-order"),
    # regression cases of the repaired findings (8e1bd1c, acb191c, 10e7cca, 0bb54ea, a882280, 948377c, dc11ff4): any oracle
    # failure of the repaired view on them has no excluded class and is therefore reported as a VIOLATION with
    # the corpus history as its replay
    "vip-proxy-outlives-assignment": None,
    "kindnames-destination-dropped": None,                 # regression case of 0d0f3e6
    "peer-imported-proxy-under-ingress-wildcard": None,    # regression case of 737750a
    "topology-pair-declared-twice": None,
    "kindnames-name-shared-across-kinds": None,
    "gateway-listed-service-overwritten-by-wildcard": None,
    "gateway-service-in-two-rows": None,
    # mixed-case names (oracle-only universe): a proxy with upstreams on a node with upper-case letters,
    # deregistered by service and by node
    "topology-mixed-case-node": None,
    "topology-mixed-case-node-respelled": None,   # regression case of dc11ff4
}


def store_orphans(d):
    """orphan oracle on a dump of harness/store (nodes, services, checks with sessions around)"""
    nodes = {n["name"] for n in d["nodes"]}
    svcs = {(s["node"], s["id"]) for s in d["services"]}
    out = []
    for s in d["services"]:
        if s["node"] not in nodes:
            out.append("service-without-node:%s/%s" % (s["node"], s["id"]))
    for c in d["checks"]:
        if c["node"] not in nodes:
            out.append("check-without-node:%s/%s" % (c["node"], c["id"]))
        if c["svc"] and (c["node"], c["svc"]) not in svcs:
            out.append("check-without-service:%s/%s" % (c["node"], c["id"]))
    for s in d["sessions"]:
        if s["node"] not in nodes:
            out.append("session-without-node:%s" % s["id"])
    return out


def explain(h):
    p = os.path.join(vlib.GEN, "explain_C07_p%d.v" % os.getpid())
    open(p, "w").write(explain_text(h))
    rc, out = vlib.sh(["coqc", "-Q", ".", "Verif", p], cwd=vlib.COQ, timeout=600)
    return out.strip()[-400:]


def run(ctx):
    info, ok = vlib.proof_stage(ctx, PROP_FILE, ["Run/C07.v", "Run/Store.v"])
    cov = dict(info)
    cov["trusted_base"] = vlib.STD_TRUSTED + [
        "two hand-written models: Store/Model.v (nodes, typical services, checks, sessions, KV, transactions) for orphan freedom and the cascades, Catalog/Model.v (service kinds, kind-service-names, usage, virtual IPs, gateway-services, mesh-topology) for the derived views; both are compared with the real FSM/state store on this run (whole canonical dumps and every command result)",
        "projected away (not compared): the index table, create/modify indexes of derived rows, usage rows with count 0 and the usage row of proxy-defaults, every error of a failed transaction after the first; the stored GatewayService.ServiceKind is compared exactly against the model but only as 'is a destination' (terminating gateways) by the oracle",
        "modelled rather than verified: go-memdb (iteration order, change tracking at commit), msgpack decoding, the FSM dispatch; node names differing only in case and rows imported from peers (both covered by oracle-only streams of this check, not by the model), api-gateways, terminating-gateway virtual IPs (system metadata flag off) and service-router/splitter/intentions entries are outside the generated universe",
        "the direct oracle (Go, harness/catalog) recomputes every derived view from the real base tables after every command; its notion of 'what the view ought to contain' is restated in Coq as Catalog/Spec.v (recompute_*) and the two are tied only by the witnesses of Catalog/Refuted.v replayed on the real store"]
    assumptions = ["go-memdb transaction semantics (atomic commit/abort, change set at commit)",
                   "generators stay inside the modelled command universe"]
    if not ok:
        cov.update({"evaluations": 0, "distinct_nontrivial": 0, "rule": "proof stage failed", "samples": []})
        return ctx.finish(cov, assumptions)

    # ---------------- catalog harness
    binp = vlib.go_build("catalog")
    out = os.path.join(ctx.workdir, "hist.jsonl")
    rc, o = vlib.sh([binp, "-seed", str(ctx.seed), "-tier", ctx.tier, "-out", out], timeout=6000)
    if rc != 0:
        raise vlib.BuildError("harness run failed: " + o[-2000:])
    hs = [json.loads(l) for l in open(out)]
    kinds, errs, flags, mixes, lens = (collections.Counter() for _ in range(5))
    seen = set()
    steps = 0
    for h in hs:
        mixes[h["mix"].split(":")[0]] += 1
        lens[len(h["cmds"]) // 5 * 5] += 1
        seen.add(json.dumps(h["cmds"], sort_keys=True))
        steps += len(h["cmds"])
        for k, v in (h.get("stats") or {}).items():
            (errs if k.startswith("err:") else kinds)[k] += v
        fl = h.get("flags") or {}
        for k in fl:
            flags[k] += 1
        if not fl:
            flags["(none: outside every excluded class)"] += 1

    # ---------------- model vs implementation, inside Coq
    per = 100 if ctx.tier == "quick" else 150
    model_hs = [h for h in hs if h.get("model")]
    shards = [model_hs[i:i + per] for i in range(0, len(model_hs), per)]
    try:
        texts = [shard_text(s) for s in shards]
    except (ValueError, KeyError) as e:
        ctx.violation({"kind": "correspondence", "theorem": "Run.C07.check",
                       "what": "implementation produced an observation outside the model's vocabulary: %s" % e}, found_input=False)
        texts, shards = [], []
    results = vlib.coq_run_shards(PROP, texts, jobs=8)
    mism = []
    for s, (okk, idx, raw) in zip(shards, results):
        if not okk:
            ctx.violation({"kind": "case-file-failed", "log": raw}, found_input=False)
            continue
        mism += [s[i] for i in idx]

    # ---------------- direct oracle
    known_counts = collections.Counter()
    unknown = []
    for h in hs:
        for f in h["oracle"]:
            sig = signature(f)
            kf = vlib.match_known(PROP, sig) if sig["cause"] else None
            if kf:
                ctx.known(kf, kf["what"])
                known_counts[sig["kind"] + ":" + sig["cause"]] += 1
            else:
                unknown.append((h, f, sig))
    reported = set()
    for h, f, sig in unknown:
        key = (sig["kind"], f["sub"].split(":")[0])
        if key in reported or len(reported) >= 5:
            continue
        reported.add(key)
        cmds = h.get("shrunk") or h["cmds"][:f["step"] + 1]
        ctx.violation({"kind": "oracle", "view": f["kind"], "sub": f["sub"], "what": f["what"], "signature": sig,
                       "history_flags": h.get("flags") or {}, "cmds": cmds, "shrunk": bool(h.get("shrunk")),
                       "replay_cmd": "build/bin/catalog -replay <this file>"})
    corpus_notes = []
    for h in hs:
        if h["mix"].startswith("corpus:"):
            name = h["mix"].split(":", 1)[1]
            exp = CORPUS_EXPECT.get(name)
            if exp and not any((f["kind"], f.get("cause", "")) == exp for f in h["oracle"]):
                corpus_notes.append("witness %s no longer fails as recorded (finding repaired or changed)" % name)

    # ---------------- the core store model (orphans and cascades with sessions around)
    from checks import storelib
    sbin = vlib.go_build("store")
    sout = os.path.join(ctx.workdir, "store.jsonl")
    sn = 120 if ctx.tier == "quick" else 1500
    rc, o = vlib.sh([sbin, "-seed", str(ctx.seed + 7), "-tier", ctx.tier, "-n", str(sn), "-out", sout], timeout=3000)
    if rc != 0:
        raise vlib.BuildError("store harness run failed: " + o[-2000:])
    shs = [json.loads(l) for l in open(sout)]
    store_mism, store_orph = [], []
    try:
        stexts = [storelib.shard_text(shs[i:i + 150]) for i in range(0, len(shs), 150)]
        sres = vlib.coq_run_shards(PROP + "store", stexts, jobs=6)
        for i, (okk, idx, raw) in enumerate(sres):
            if not okk:
                ctx.violation({"kind": "case-file-failed", "log": raw}, found_input=False)
                continue
            store_mism += [shs[i * 150 + j] for j in idx]
    except ValueError as e:
        ctx.violation({"kind": "correspondence", "theorem": "Run.Store.check", "what": str(e)}, found_input=False)
    for h in shs:
        for x in store_orphans(h["final"]):
            store_orph.append((h, x))
    for h, x in store_orph[:2]:
        ctx.violation({"kind": "oracle", "view": "orphan", "sub": x.split(":")[0], "what": x, "signature": {"kind": "orphan", "cause": ""},
                       "cmds": h["cmds"], "replay_cmd": "build/bin/store -replay <this file>"})

    # ---------------- correspondence broken without a failing input
    if (mism or store_mism) and not unknown and not store_orph:
        # search harder: a fresh, larger batch through the oracle only
        out2 = os.path.join(ctx.workdir, "hist2.jsonl")
        rc, o = vlib.sh([binp, "-seed", str(ctx.seed + 1000), "-n", str(4 * len(hs)), "-out", out2], timeout=6000)
        found = None
        if rc == 0:
            for l in open(out2):
                h2 = json.loads(l)
                for f in h2["oracle"]:
                    sig = signature(f)
                    if not (sig["cause"] and vlib.match_known(PROP, sig)):
                        found = (h2, f, sig)
                        break
                if found:
                    break
        if found:
            h2, f, sig = found
            ctx.violation({"kind": "oracle", "view": f["kind"], "sub": f["sub"], "what": f["what"], "signature": sig,
                           "cmds": h2.get("shrunk") or h2["cmds"][:f["step"] + 1], "found_by": "extended search after a correspondence mismatch",
                           "replay_cmd": "build/bin/catalog -replay <this file>"})
        elif mism:
            h = min(mism, key=lambda x: len(x["cmds"]))
            ctx.violation({"kind": "correspondence", "theorem": "Run.C07.check (catalog model run = implementation results and final catalog dump)",
                           "mismatching_histories": len(mism), "differing_tables_and_results": explain(h),
                           "cmds": h["cmds"], "results": h["results"], "final": h["final"],
                           "replay_cmd": "build/bin/catalog -replay <this file>"}, found_input=False)
        else:
            h = store_mism[0]
            ctx.violation({"kind": "correspondence", "theorem": "Run.Store.check (store model run = implementation)",
                           "mismatching_histories": len(store_mism), "cmds": h["cmds"], "results": h["results"]}, found_input=False)

    cov.update({
        "evaluations": len(hs) + len(shs),
        "distinct_nontrivial": len(seen),
        "rule": "catalog histories of 3-30 commands (plus a 1-2 command preamble) from five mixes over a universe of 3 nodes, 2 node IDs, 3 service ids, names web/db/api (+consul, gateways), kinds typical / connect-proxy / connect-native / mesh / terminating / ingress gateway, terminating and ingress gateway entries with wildcards, service-defaults (with destination for 'ext'), resolvers, manual virtual IPs, coordinates, catalog transactions; distinct_nontrivial = distinct command lists; every history is executed on a real fsm.FSM, compared with the Coq model (final dump + every result) and checked by the oracle after every command; plus three oracle-only streams of a quarter of that size each (no model comparison): case = the same over names with upper-case letters, peer = two registrations/deregistrations in five carry a peer name (imported rows), wide = virtual-IP flag toggled mid-history, destinations that also have instances, manual addresses inside 240.0.0.0/4, requests carrying their own consul-virtual address",
        "traces_validated_against_impl": len(model_hs) - len(mism) + len(shs) - len(store_mism),
        "commands_executed": steps, "oracle_evaluations": steps,
        "model_mismatches": len(mism), "store_model_histories": len(shs), "store_model_mismatches": len(store_mism),
        "store_orphan_failures": len(store_orph),
        "oracle_failures": sum(len(h["oracle"]) for h in hs), "oracle_failures_unknown": len(unknown),
        "known_finding_failures": dict(known_counts), "corpus_notes": corpus_notes,
        "command_mix": dict(kinds), "error_kinds": dict(errs), "mixes": dict(mixes),
        "history_classes": dict(flags),
        "history_length_histogram": {str(k): v for k, v in sorted(lens.items())},
        "samples": [{"mix": h["mix"], "cmds": h["cmds"][:4], "results": h["results"][:4]} for h in hs[6:8]],
        "stage": "A proved (virtual IP uniqueness, advertised virtual IPs and usage counts in full; kind-service-names refuted + proved under the naming discipline); B (gateway-services, mesh-topology) modelled, compared with the implementation on every run, refuted by witnesses, no positive theorem (one lemma about updateMeshTopology alone is proved); peer-imported rows: oracle-only testing",
        "exhaustive": False,
    })
    return ctx.finish(cov, assumptions)
