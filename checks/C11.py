"""C11 — streaming subscribers materialize exactly the server's state."""
import json, os, collections
import vlib

PROP = "C11"
PROP_FILE = "Properties/C11.v"


# ------------------------------------------------------------------ Coq terms

def N(n):
    return str(int(n))


def key(t, s, i):
    return "(%d,%d,%d)" % (t, s, i)


def ts(x):
    return "(%d, %s)" % (x["t"], ("Some %d" % x["s"]) if x["s"] >= 0 else "None")


def ev(e):
    return "Ev %s %s" % (key(e["t"], e["s"], e["i"]), ("(Some %d)" % e["v"]) if e["v"] else "None")


def lst(items):
    return "[" + "; ".join(items) + "]"


def rows(t, kvs):
    return lst("(%s,%d)" % (key(t, r["s"], r["i"]), r["v"]) for r in kvs)


def qterm(q):
    return lst("(%s, %s)" % (ts(c["ts"]), rows(c["ts"]["t"], c["rows"] or [])) for c in q)


def store_rows(q):
    """all rows of the (restored) store, from the per-subject query results"""
    seen = {}
    for c in q:
        for r in c["rows"] or []:
            seen[(c["ts"]["t"], r["s"], r["i"])] = r["v"]
    return lst("(%s,%d)" % (key(*k), seen[k]) for k in sorted(seen))


def step_term(s):
    op = s["op"]
    if op == "commit":
        q = qterm(s.get("q") or [])
        if s.get("queued"):
            b = "Batch %d %s %s %s" % (s["idx"], lst(ev(e) for e in s.get("evs") or []), lst(N(t) for t in s.get("close") or []),
                                       lst(ev(e) for e in s.get("silent") or []))
            return "CStep (Some (LCommit (%s))) (XQ %s)" % (b, q)
        return "CStep None (XQ %s)" % q
    if op == "restore":
        return "CStep (Some (LRestore %s %d)) (XQ %s)" % (store_rows(s.get("q") or []), s.get("idx", 0), qterm(s.get("q") or []))
    if op == "pub":
        return "CStep (Some LPublish) (XPub %s)" % vlib.coq_bool(s.get("did", False))
    if op == "sub":
        return "CStep (Some (LSubscribe %d %s %d %s %d)) (XSub %s %d)" % (
            s["c"], ts(s["ts"]), s["tok"], vlib.coq_bool(s["ck"] == 0), s.get("qidx", 0),
            vlib.coq_bool(bool(s.get("err"))), s.get("reqidx", 0))
    if op == "next":
        o = s.get("out")
        if o == "nosub":
            return "CStep (Some (LNext %d)) XNoSub" % s["c"]
        t = s["ts"]["t"] if "ts" in s else 0
        x = {"ev": "XEv %d %s" % (s.get("oidx", 0), lst(ev(e) for e in s.get("oevs") or [])),
             "eos": "XEos %d" % s.get("oidx", 0), "nstf": "XNstf", "force": "XForce", "acl": "XAcl",
             "block": "XBlock"}.get(o)
        if x is None:
            return "CStep (Some (LNext %d)) XUnsub" % s["c"]      # never matches: reported as a mismatch
        view = lst("(%s,%d)" % (key(s["vt"], r["s"], r["i"]), r["v"]) for r in s.get("view") or [])
        return "CStep (Some (LNext %d)) (XNext (%s) %d %s)" % (s["c"], x, s.get("cidx", 0), view)
    if op == "unsub":
        return "CStep (Some (LUnsub %d)) %s" % (s["c"], "XNoSub" if s.get("out") == "nosub" else "XUnsub")
    if op == "evict":
        return "CStep (Some (LEvict %s)) XUnsub" % ts(s["ts"])
    raise ValueError(op)


def case_term(c):
    # the topic of a client's view rows: that of its subscription
    topic = {}
    for s in c["steps"]:
        if s["op"] == "sub" and s["c"] not in topic:
            topic[s["c"]] = s["ts"]["t"]
        if s["op"] == "next":
            s["vt"] = topic.get(s["c"], 0)
    return "Case %s %s %d %d %d" % (vlib.coq_bool(c["cache"]), lst(step_term(s) for s in c["steps"]),
                                    c["bufs"], c["snaps"], c["queue_n"])


def shard_text(cases):
    body = ";\n  ".join(case_term(c) for c in cases)
    return ("From Verif Require Import Base.Prelude Stream.Model Run.C11.\nOpen Scope N_scope.\n"
            "Definition cases : list case := [\n  %s\n].\n"
            "Definition M := Eval vm_compute in mismatches cases.\nPrint M.\n"
            "Definition D := Eval vm_compute in diags cases.\nPrint D.\n" % body)


# ------------------------------------------------------------------ findings

def signature(f):
    return {"kind": f["kind"], "cause": f["cause"]}


def run(ctx):
    info, ok = vlib.proof_stage(ctx, PROP_FILE, ["Run/C11.v"])
    cov = dict(info)
    cov["trusted_base"] = vlib.STD_TRUSTED + []
    assumptions = []
    if not ok:
        cov.update({"evaluations": 0, "distinct_nontrivial": 0, "rule": "proof stage failed", "samples": []})
        return ctx.finish(cov, assumptions)
    return ctx.finish(cov, assumptions)
