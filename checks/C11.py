"""C11 — streaming subscribers materialize exactly the server's state."""
import json, os, collections, re, subprocess, time
from concurrent.futures import ThreadPoolExecutor
import vlib

PROP = "C11"
PROP_FILE = "Properties/C11.v"


# ------------------------------------------------------------------ Coq terms

def N(n):
    return str(int(n))


def key(t, s, i):
    return "(%d,%d,%d)" % (t, s, i)


def ts(x):
    return "(%d, %s)" % (x["t"], ("Some %d" % x["s"]) if x["s"] >= 0 else "None")


def ev(e):
    return "Ev %s %s" % (key(e["t"], e["s"], e["i"]), ("(Some %d)" % e["v"]) if e["v"] else "None")


def lst(items):
    return "[" + "; ".join(items) + "]"


def rows(t, kvs):
    return lst("(%s,%d)" % (key(t, r["s"], r["i"]), r["v"]) for r in kvs)


def qterm(q):
    return lst("(%s, %s)" % (ts(c["ts"]), rows(c["ts"]["t"], c["rows"] or [])) for c in q)


def store_rows(q):
    """all rows of the (restored) store, from the per-subject query results"""
    seen = {}
    for c in q:
        for r in c["rows"] or []:
            seen[(c["ts"]["t"], r["s"], r["i"])] = r["v"]
    return lst("(%s,%d)" % (key(*k), seen[k]) for k in sorted(seen))


def step_term(s):
    op = s["op"]
    if op == "commit":
        q = qterm(s.get("q") or [])
        if s.get("queued"):
            b = "Batch %d %s %s" % (s["idx"], lst(ev(e) for e in s.get("evs") or []), lst(N(t) for t in s.get("close") or []))
            return "CStep (Some (LCommit (%s))) (XQ %s)" % (b, q)
        return "CStep None (XQ %s)" % q
    if op == "restore":
        return "CStep (Some (LRestore %s %d)) (XQ %s)" % (store_rows(s.get("q") or []), s.get("idx", 0), qterm(s.get("q") or []))
    if op == "pub":
        return "CStep (Some LPublish) (XPub %s)" % vlib.coq_bool(s.get("did", False))
    if op == "sub":
        return "CStep (Some (LSubscribe %d %s %d %s %d)) (XSub %s %d %s)" % (
            s["c"], ts(s["ts"]), s["tok"], vlib.coq_bool(s["ck"] == 0), s.get("qidx", 0),
            vlib.coq_bool(bool(s.get("err"))), s.get("reqidx", 0),
            {"err": "PErr", "resume": "PResume", "cache": "PCache", "build": "PBuild"}[s.get("path", "build")])
    if op == "next":
        o = s.get("out")
        if o == "nosub":
            return "CStep (Some (LNext %d)) XNoSub" % s["c"]
        t = s["ts"]["t"] if "ts" in s else 0
        x = {"ev": "XEv %d %s" % (s.get("oidx", 0), lst(ev(e) for e in s.get("oevs") or [])),
             "eos": "XEos %d" % s.get("oidx", 0), "nstf": "XNstf", "force": "XForce", "acl": "XAcl",
             "block": "XBlock"}.get(o)
        if x is None:
            return "CStep (Some (LNext %d)) XUnsub" % s["c"]      # never matches: reported as a mismatch
        view = lst("(%s,%d)" % (key(s["vt"], r["s"], r["i"]), r["v"]) for r in s.get("view") or [])
        return "CStep (Some (LNext %d)) (XNext (%s) %d %s)" % (s["c"], x, s.get("cidx", 0), view)
    if op == "unsub":
        return "CStep (Some (LUnsub %d)) %s" % (s["c"], "XNoSub" if s.get("out") == "nosub" else "XUnsub")
    if op == "evict":
        return "CStep (Some (LEvict %s)) XUnsub" % ts(s["ts"])
    raise ValueError(op)


def case_term(c):
    # the topic of a client's view rows: that of its subscription
    topic = {}
    for s in c["steps"]:
        if s["op"] == "sub" and s["c"] not in topic:
            topic[s["c"]] = s["ts"]["t"]
        if s["op"] == "next":
            s["vt"] = topic.get(s["c"], 0)
    return "Case %s %s %d %d %d" % (vlib.coq_bool(c["cache"]), lst(step_term(s) for s in c["steps"]),
                                    c["bufs"], c["snaps"], c["queue_n"])


def shard_text(cases):
    """one Definition per case (a single list literal of a few hundred KB takes coqc three times as long)"""
    defs = "\n".join("Definition c%d : case := %s." % (i, case_term(c)) for i, c in enumerate(cases))
    return ("From Verif Require Import Base.Prelude Stream.Model Run.C11.\nOpen Scope N_scope.\n" + defs +
            "\nDefinition cases : list case := [%s].\n" % "; ".join("c%d" % i for i in range(len(cases))) +
            "Definition R := Eval vm_compute in reports cases.\nPrint R.\n")


def run_shards(shards, jobs=8, timeout=900):
    """-> list of (ok, [(diag, known-shape query-index breaks, raft-index breaks, other breaks)] per case, raw)"""
    os.makedirs(vlib.GEN, exist_ok=True)
    paths = []
    for k, cs in enumerate(shards):
        p = os.path.join(vlib.GEN, "cases_%s_p%d_%d.v" % (PROP, os.getpid(), k))
        open(p, "w").write(shard_text(cs))
        paths.append(p)

    def one(p):
        try:
            rc, out = vlib.sh(["coqc", "-Q", ".", "Verif", p], cwd=vlib.COQ, timeout=timeout)
        except subprocess.TimeoutExpired:
            return (False, None, "timeout")
        if rc != 0:
            return (False, None, out[-3000:])
        flat = out.replace("\n", " ")
        m = re.search(r"R\s*=\s*\[(.*?)\]\s*:\s*list", flat)
        if not m:
            return (False, None, out[-3000:])
        trip = [tuple(int(x) for x in t) for t in re.findall(r"\(\s*(\d+)\s*,\s*(\d+)\s*,\s*(\d+)\s*,\s*(\d+)\s*\)", m.group(1))]
        return (True, trip, "")

    with ThreadPoolExecutor(max_workers=jobs) as ex:
        return list(ex.map(one, paths))


# ------------------------------------------------------------------ findings, shrinking

def signature(f):
    return {"kind": f["kind"], "cause": f["cause"], "scope": f.get("scope", "")}


def finding_fixed(cause):
    return any(f.get("property") == PROP and f.get("status") == "fixed" and cause in json.dumps(f) for f in vlib.load_known())


def replay_json(binp, workdir, steps, cache, drain=True, idx0=False):
    os.makedirs(workdir, exist_ok=True)
    p = os.path.join(workdir, "shrink.json")
    json.dump({"steps": steps, "cache": cache, "drain": drain, "idx0": bool(idx0)}, open(p, "w"))
    rc, out = vlib.sh([binp, "-replay", p, "-json"], timeout=120)
    if rc != 0:
        return None
    try:
        return json.loads(out.strip().split("\n")[-1])
    except ValueError:
        return None


INPUT_KEYS = ("op", "w", "r", "c", "ts", "tok", "ck")


def inputs_only(steps):
    return [{k: s[k] for k in INPUT_KEYS if k in s} for s in steps]


def shrink(binp, workdir, case, fail, budget=150):
    """greedy delta debugging over the step list: keep the same (kind, cause)"""
    want = (fail["kind"], fail["cause"])
    steps = inputs_only([s for s in case["steps"]])
    # the drain is appended by the harness again: cut the schedule at the failing step when possible
    def fails(st):
        c = replay_json(binp, workdir, st, case["cache"], idx0=case.get("idx0", False))
        return c is not None and any((f["kind"], f["cause"]) == want for f in c.get("fails") or [])
    tries = 0
    cut = steps[:fail["step"] + 1] if 0 <= fail["step"] < len(steps) else steps
    if cut != steps and fails(cut):
        steps = cut
    tries += 1
    i = len(steps) - 1
    while i >= 0 and tries < budget:
        cand = steps[:i] + steps[i + 1:]
        tries += 1
        if fails(cand):
            steps = cand
        i -= 1
    return steps


def run(ctx):
    t0 = time.time()
    info, ok = vlib.proof_stage(ctx, PROP_FILE, ["Run/C11.v"])
    cov = dict(info)
    cov["trusted_base"] = vlib.STD_TRUSTED + [
        "environment hypothesis of the theorems (Stream.Model.step_ok): Raft indexes grow strictly; a query's index covers every commit that touched its subject and is not ahead of the raft index; a restored store has one row per key. Checked on every generated step (Run.C11.breaks_from); its query-index clause is broken by the real state store in one class (open known finding query-index-behind-content, C06 territory) and shown necessary by C11_view_is_some_committed_state_refuted",
        "the state store is modelled as keyed rows (topic, subject, instance) changed by the abstract events the harness reads from the real batch; catalog_events.go / config_entry_events.go are not modelled line by line: the model's store (events applied) is compared with CheckServiceNodes / CheckConnectServiceNodes / ConfigEntry results after every commit, and the oracle (kind events-do-not-match-state-change) compares the events with the change of those results",
        "values are interned canonical JSON of structs.CheckServiceNode / ServiceConfigEntry (empty fields dropped, checks sorted); projected away: ServiceConfigEntry.Kind (pbconfigentry.ConfigEntryToStructs leaves it empty; GetKind() is constant)",
        "modelled, not verified: lock-free list memory ordering (atomic.Value), goroutine scheduling (replaced by explicit schedule steps; the thorough tier runs free goroutines under -race and compares final states), gRPC transport, ACL filtering of event payloads (all tokens are allowed to read), snapshot-handler errors, publishCh capacity (64) and the snapshot-cache TTL timer (an explicit Evict step); topicBuffer pointer identity is modelled by a counter",
        "hooks (build tag verif, add-only): stream.VerifPublishOne/VerifQueue/VerifQueued/VerifReady/VerifEvictSnapshot/VerifCloseTokens/VerifTopicBuffers, submatview.VerifMat (drives the real materializer.updateView/reset and the real handler state machine one event at a time)",
    ]
    assumptions = ["Raft indexes strictly increasing, index 1 never user data",
                   "query index >= index of the last commit that changed the query's result and <= the raft index (broken by the real connect query / rename fallback: open known finding query-index-behind-content)"]
    if not ok:
        cov.update({"evaluations": 0, "distinct_nontrivial": 0, "rule": "proof stage failed", "samples": []})
        return ctx.finish(cov, assumptions)

    binp = vlib.go_build("stream")
    out = os.path.join(ctx.workdir, "cases.jsonl")
    n = 400 if ctx.tier == "quick" else 4000
    cmd = [binp, "-seed", str(ctx.seed), "-tier", ctx.tier, "-n", str(n), "-corpus", os.path.join(vlib.VERIF, "corpus", PROP), "-out", out]
    respell_fixed = finding_fixed("node-name-respelled")
    if respell_fixed:
        cmd.append("-respell")      # node names spelled in two ways, once the view keys no longer depend on the spelling
    rc, o = vlib.sh(cmd, timeout=3000)
    if rc != 0:
        raise vlib.BuildError("harness run failed: " + o[-2000:])
    cases = [json.loads(l) for l in open(out)]
    # schedules of an OPEN finding in which the real view itself diverges (the model has no such view bug):
    # executed on the implementation and judged by the oracle only, not compared with the model
    oracle_only_dir = os.path.join(vlib.VERIF, "corpus", PROP, "oracle-only")
    oo_cases = []
    if os.path.isdir(oracle_only_dir):
        oout = os.path.join(ctx.workdir, "oracle_only.jsonl")
        rc, o = vlib.sh([binp, "-n", "-1", "-corpus", oracle_only_dir, "-out", oout], timeout=600)
        if rc != 0:
            raise vlib.BuildError("harness run failed (oracle-only corpus): " + o[-2000:])
        oo_cases = [json.loads(l) for l in open(oout)]
    if respell_fixed:
        cases = oo_cases + cases
        oo_cases = []
    oracle_only = len(oo_cases)

    # ---- model vs implementation, inside Coq
    per = 100
    shards = [cases[i:i + per] for i in range(0, len(cases), per)]
    res = run_shards(shards)
    mism, breaks_step, breaks_raft, breaks_other, break_cases, raft_cases, other_cases = [], 0, 0, 0, [], [], []
    for cs, (okk, trip, raw) in zip(shards, res):
        if not okk or len(trip) != len(cs):
            ctx.violation({"kind": "case-file-failed", "log": raw}, found_input=False)
            continue
        for c, (d, a, b, x) in zip(cs, trip):
            if d:
                mism.append((c, d - 1))
            breaks_step += a
            breaks_raft += b
            breaks_other += x
            if a:
                break_cases.append((c, a))
            if b and not c.get("idx0"):
                raft_cases.append(c)
            if x:
                other_cases.append(c)

    # ---- direct oracle on the implementation
    known_counts = collections.Counter()
    new_fail = []
    for c in cases + oo_cases:
        for f in c.get("fails") or []:
            kf = vlib.match_known(PROP, signature(f))
            if kf:
                known_counts[f["kind"] + ":" + f["cause"]] += 1
                ctx.known(kf, "%s cause=%s: %s" % (f["kind"], f["cause"], kf["what"]))
            else:
                new_fail.append((c, f))
    # the assumption of the theorems (query index) broken by the implementation's environment: the recorded finding
    for c, a in break_cases:
        kf = vlib.match_known(PROP, {"kind": "assumption-break", "cause": "query-index-behind-content", "scope": "service-health-connect"})
        if kf:
            known_counts["assumption-break:query-index-behind-content"] += 1
            ctx.known(kf, "assumption-break cause=query-index-behind-content: " + kf["what"])
        else:
            new_fail.append((c, {"kind": "assumption-break", "cause": "query-index-behind-content", "scope": "service-health-connect", "step": -1, "c": -1,
                                 "msg": "the index a query reported does not cover a commit that touched its subject"}))

    # any other broken clause of step_ok (query index ahead of the raft index, an understated index on a
    # config-entry topic, a restored store with two rows for one key) is not a recorded finding
    for c in other_cases:
        new_fail.append((c, {"kind": "assumption-break", "cause": "step-ok-other-clause", "scope": "", "step": -1, "c": -1,
                             "msg": "a query index ahead of the raft index, or behind a commit of its subject outside the connect health topic, or a restored store with a duplicate key"}))

    # Raft indexes not strictly increasing / above 1: only the corpus case that declares it (idx0) may do that
    for c in raft_cases:
        new_fail.append((c, {"kind": "assumption-break", "cause": "raft-index", "step": -1, "c": -1,
                             "msg": "a commit index was not above the previous one (or was 1)"}))

    seen = set()
    for c, f in new_fail:
        key = (f["kind"], f["cause"])
        if key in seen or len(seen) >= 5:
            continue
        seen.add(key)
        steps = shrink(binp, ctx.workdir, c, f) if f.get("step", -1) >= 0 or True else inputs_only(c["steps"])
        rep = replay_json(binp, ctx.workdir, steps, c["cache"], idx0=c.get("idx0", False))
        ctx.violation({"kind": "oracle", "signature": signature(f), "reason": f["msg"], "failing_step": f.get("step"),
                       "client": f.get("c"), "generator": c["gen"], "case_id": c["id"],
                       "case": {"steps": steps, "cache": c["cache"], "drain": True, "idx0": bool(c.get("idx0"))},
                       "shrunk_trace_failures": (rep or {}).get("fails"),
                       "replay_cmd": "build/bin/stream -replay <this file>"})
    if mism and not new_fail:
        c, d = mism[0]
        bad = c["steps"][d] if d < len(c["steps"]) else {"final_counters": [c["bufs"], c["snaps"], c["queue_n"]]}
        ctx.violation({"kind": "correspondence", "theorem": "Run.C11.check (model step = implementation step)",
                       "mismatching_cases": len(mism), "case_id": c["id"], "generator": c["gen"], "first_bad_step": d,
                       "implementation_step": bad,
                       "case": {"steps": inputs_only(c["steps"]), "cache": c["cache"], "drain": False}}, found_input=False)

    # ---- thorough: free-running goroutines under -race, final equality only
    free_cases, free_fail = 0, 0
    if ctx.tier == "thorough":
        try:
            rbin = vlib.go_build("stream", race=True)
            fout = os.path.join(ctx.workdir, "free.jsonl")
            rc, o = vlib.sh([rbin, "-mode", "free", "-seed", str(ctx.seed), "-n", "150", "-out", fout], timeout=3000)
            if rc != 0:
                ctx.violation({"kind": "free-run-failed", "log": o[-3000:]}, found_input=("DATA RACE" in o))
            else:
                for l in open(fout):
                    fc = json.loads(l)
                    free_cases += 1
                    if fc.get("oracle"):
                        free_fail += 1
                        if free_fail <= 2:
                            ctx.violation({"kind": "oracle-free-running", "reason": fc["fails"][0]["msg"], "case": fc})
        except vlib.BuildError as e:
            ctx.notes.append("race build unavailable: " + str(e)[-300:])
            cov["race_build"] = "unavailable: " + str(e)[-200:]

    # ---- evidence
    ops = collections.Counter()
    outs = collections.Counter()
    writes = collections.Counter()
    gens = collections.Counter(c["gen"].split(":")[0] for c in cases)
    paths = collections.Counter()
    pubpaths = collections.Counter()
    nsteps = 0
    sigs = set()
    for c in cases:
        first = {}
        for s in c["steps"]:
            nsteps += 1
            ops[s["op"]] += 1
            if s["op"] == "commit":
                writes[s["w"]["k"] + ("" if s.get("queued") else "(rejected)")] += 1
            if s["op"] == "sub":
                first[s["c"]] = s
                pubpaths[s.get("path", "build")] += 1
                if s.get("err"):
                    paths["error(unsupported wildcard)"] += 1
                elif s.get("qlen", 0) > 0:
                    paths["subscribe with non-empty queue"] += 1
            if s["op"] == "next":
                outs[s.get("out")] += 1
                sb = first.pop(s["c"], None)
                if sb is not None and not sb.get("err") and s.get("out") in ("ev", "eos", "nstf", "block"):
                    if sb.get("reqidx", 0) == 0:
                        paths["fresh (index 0): snapshot"] += 1
                    elif s.get("out") == "nstf":
                        paths["stale index: NewSnapshotToFollow + snapshot"] += 1
                    else:
                        paths["resumed at index"] += 1
        sigs.add(json.dumps(inputs_only(c["steps"]), sort_keys=True))
    sample = []
    for c in cases[:2] + cases[-1:]:
        sample.append({"gen": c["gen"], "cache": c["cache"], "oracle": c["oracle"],
                       "steps": [{k: v for k, v in s.items() if k not in ("q",)} for s in c["steps"][:14]]})
    cov.update({
        "evaluations": len(cases),
        "distinct_nontrivial": len(sigs),
        "rule": "schedules of 10-32 steps (+ drain to quiescence) over 2 nodes (one of them also written under a differently-cased name once that finding is recorded as fixed), 6 service ids (plain, connect-native, connect-proxy, renamed), node and service checks, service-defaults config entries, ACL tokens/policies/role, KV noise; 8 subjects (health web/api/db, connect web/api, service-defaults web/api/wildcard); combined node+service registrations and transactions; flavours mixed, gap (bursts of commits then a subscription), eager (publish after every commit), restore (restored content may carry ACL rows), restorebuf (several subscribers share a subject across a restore), resume (resubscribe at the held index), acl, malformed (rejected writes, unknown clients, unsupported wildcard) and the corpus of minimised findings; distinct_nontrivial = distinct input schedules, every one executed on the real store+publisher+materializer, evaluated by the model in Coq step by step (every Next outcome, index, whole view; every query result after every commit; the path every Subscribe takes inside the publisher: error, resume from the topic buffer, cached snapshot, built snapshot) and by the direct oracle (which applies the delivered events itself, and computes the set of subscriptions an ACL write must close independently of the model)",
        "traces_validated_against_impl": len(cases) - len(mism),
        "steps_executed": nsteps,
        "model_mismatches": len(mism),
        "assumption_breaks_observed": {"query_index_behind_on_connect_topic": breaks_step,
                                       "raft_index_in_declared_floor_case": breaks_raft, "other_clause": breaks_other},
        "oracle_only_cases": oracle_only,
        "oracle_failures_known": dict(known_counts),
        "oracle_failures_unknown": len(new_fail),
        "generator_flavours": dict(gens),
        "op_mix": dict(ops),
        "write_mix": dict(writes),
        "next_outcomes": dict(outs),
        "subscribe_paths": dict(paths),
        "publisher_subscribe_paths_compared_with_model": dict(pubpaths),
        "free_running_cases": free_cases,
        "free_running_failures": free_fail,
        "samples": sample,
        "exhaustive": False,
    })
    return ctx.finish(cov, assumptions)
