"""C03 — the KV store behaves as a sequential versioned map."""
from checks import storelib

def run(ctx):
    return storelib.run_store_check(
        ctx, "C03", "Properties/C03.v", 450, 4500, "C03",
        ["abstract map SpecKV and its verb semantics are in Store/Theorems.v; the Go oracle is an independent 120-line reference map stepped alongside the real FSM"],
        "histories of 1-30 FSM commands from one seed over a small universe (6 keys incl. prefix-related and a non-ASCII key, 5 prefixes incl. empty and unmatched, 3 values, 4 session ids, 3 nodes, CAS indexes resolved against the implementation: ~65% current, else 0/stale/future), three command mixes (kv/session/txn heavy); every command result and the final projected store are compared with the model inside Coq; distinct_nontrivial = distinct command sequences")
