"""C06 — blocking-query contract: a change is never missed."""
import json, os, collections, time
import vlib

PROP = "C06"
PROP_FILE = "Properties/C06.v"


# ------------------------------------------------------------------ Coq term writers
def cs(s):
    b = s.encode("utf-8")
    if all(32 <= c < 127 and c != 34 for c in b):
        return '"%s"' % s
    out = "EmptyString"
    for c in reversed(b):
        out = "(String (Ascii.ascii_of_N %d) %s)" % (c, out)
    return out


def cb(b):
    return "true" if b else "false"


def cl(items):
    return "[" + "; ".join(items) + "]"


def svcspec(v):
    return "(SvcSpec %s %s %s %s %s %s %d)" % (cs(v["id"]), cs(v["name"]), cb(v["kind"] == "connect-proxy"), cs(v.get("dest") or ""),
                                               cb(v.get("native", False)), cl([cs(t) for t in v.get("tags") or []]), v.get("port", 0))


def chkspec(c):
    if c.get("sess"):
        raise ValueError("session-type check in a model-stream history")
    return "(ChkSpec %s %d %s %d)" % (cs(c["id"]), c.get("status", 0), cs(c.get("svc") or ""), c.get("output", 0))


def cmd(o):
    k = o["kind"]
    g = lambda f, d=0: o.get(f, d)
    s = lambda f: cs(o.get(f, "") or "")
    if o.get("node_id"):
        raise ValueError("node id in a model-stream history")
    if k == "kv_set":
        return "KVSet %s %d %d" % (s("key"), g("val"), g("flags"))
    if k == "kv_del":
        return "KVDelete %s" % s("key")
    if k == "kv_deltree":
        return "KVDeleteTree %s" % s("key")
    if k == "kv_cas":
        return "KVCas %s %d %d %d" % (s("key"), g("val"), g("flags"), g("cas"))
    if k == "kv_delcas":
        return "KVDeleteCas %s %d" % (s("key"), g("cas"))
    if k == "kv_lock":
        return "KVLock %s %d %d %s" % (s("key"), g("val"), g("flags"), s("session"))
    if k == "kv_unlock":
        return "KVUnlock %s %d %d %s" % (s("key"), g("val"), g("flags"), s("session"))
    if k == "reap":
        return "Reap %d" % g("upto")
    if k == "sess_create":
        if o.get("name"):
            raise ValueError("named session in a model-stream history")
        return "SessCreate %s %s %s %s" % (s("sid"), s("node"), cb(g("delete", False)), cl([cs(x) for x in o.get("schk") or []]))
    if k == "sess_destroy":
        return "SessDestroy %s" % s("sid")
    if k == "node":
        return "EnsureNode %s %d" % (s("node"), g("addr"))
    if k == "svc":
        return "EnsureSvc %s %s" % (s("node"), svcspec(o["svc"]))
    if k == "check":
        return "EnsureCheck %s %s" % (s("node"), chkspec(o["checks"][0]))
    if k == "register":
        return "Register %s %d %s %s" % (s("node"), g("addr"), "(Some %s)" % svcspec(o["svc"]) if o.get("svc") else "None",
                                         cl([chkspec(c) for c in o.get("checks") or []]))
    if k == "del_node":
        return "DelNode %s" % s("node")
    if k == "del_svc":
        return "DelSvc %s %s" % (s("node"), s("svc_id"))
    if k == "del_check":
        return "DelCheck %s %s" % (s("node"), s("chk_id"))
    if k == "coord":
        return "CoordSet %s %d" % (s("node"), g("content"))
    if k == "cfg_set":
        c = g("content") % 3 if o["tab"] == "service-defaults" else g("content")
        return "CfgSet %s %s %d" % (s("tab"), s("name"), c)
    if k == "cfg_del":
        return "CfgDel %s %s" % (s("tab"), s("name"))
    if k == "pq_set":
        return "PQSet %s %s %d" % (s("sid"), s("session"), g("content"))
    if k == "pq_del":
        return "PQDel %s" % s("sid")
    if k == "ca_set":
        return "CASet %d %s" % (g("cas"), cl([cs("root%d" % r) for r in o.get("roots") or []]))
    raise ValueError("write kind outside the model: " + k)


STATE = {"any": "None", "passing": "(Some 0)", "warning": "(Some 1)", "critical": "(Some 2)"}
QK = {"kv_get": "QKVGet", "kv_get_ep": "QKVGetEP", "kv_list": "QKVList", "sess_get": "QSessGet", "node_sess": "QNodeSess",
      "svc_nodes": "QSvcNodes", "connect_nodes": "QConnectNodes", "node_services": "QNodeServices", "node_checks": "QNodeChecks",
      "svc_checks": "QSvcChecks", "csn": "QCSN", "csn_connect": "QCSNConnect", "coord": "QCoord", "cfg_kind": "QCfgKind",
      "pq_get": "QPQGet"}
Q0 = {"sess_list": "QSessList", "nodes": "QNodes", "services": "QServices", "service_list": "QServiceList", "coords": "QCoords",
      "ca_roots": "QCARoots", "pq_list": "QPQList"}
Q2 = {"kv_keys": "QKVKeys", "svc_tag_nodes": "QSvcTagNodes", "csn_tag": "QCSNTag", "cfg_get": "QCfgGet"}


def query(q):
    k = q["k"]
    if k in Q0:
        return Q0[k]
    if k == "checks_state":
        return "QChecksState %s" % STATE[q["a"]]
    if k in QK:
        return "%s %s" % (QK[k], cs(q.get("a", "")))
    if k in Q2:
        return "%s %s %s" % (Q2[k], cs(q.get("a", "")), cs(q.get("b", "")))
    raise ValueError("query kind outside the model: " + k)


def atom(a):
    if isinstance(a, bool):
        return "AN %d" % int(a)
    if isinstance(a, int):
        return "AN %d" % a
    return "AS %s" % cs(a)


def obs(d):
    rows = cl(["(%s, %s)" % (cl([cs(x) for x in r["k"]]), cl([atom(a) for a in r["v"]])) for r in d["r"] or []])
    return "Obs %d %d %s" % (d["q"], d["i"], rows)


def case(h):
    steps = []
    for op, st in zip(h["ops"], h["steps"]):
        steps.append("Step %d (%s) %s %s" % (op["idx"], cmd(op), cl([obs(d) for d in st["chg"] or []]),
                                             cl(["%d%%nat" % j for j in st["fired"] or []])))
    return "Case %s %s" % (cl([obs(d) for d in h["obs0"] or []]), cl(steps))


HEADER = ("From stdpp Require Import gmap strings.\nFrom Coq Require Import NArith.\n"
          "From Verif Require Import Blocking.Model Run.C06.\nLocal Open Scope N_scope.\n")


def shard_text(qs, hs):
    return (HEADER + "Definition qs : list query := %s.\n" % cl(["(%s)" % query(q) for q in qs]) +
            "Definition cases : list case := [\n  %s\n].\n" % ";\n  ".join("(%s)" % case(h) for h in hs) +
            "Definition M := Eval vm_compute in mismatches qs cases.\nPrint M.\n")


WAKE = {"fired": "Fired", "none": "Timeout", "abandon": "Abandoned"}
QERR = ["ENone", "ENotFound", "ENotChanged"]


def loopcase(lc):
    rounds = []
    wakes = lc.get("wakes") or []
    for j, c in enumerate(lc["calls"] or []):
        w = WAKE[wakes[j]] if j < len(wakes) else "Timeout"
        rounds.append("(%d, %s, %s)" % (c["idx"], QERR[c["err"]], w))
    return "LoopCase %d %s %d %d%%nat %d" % (lc["min"], cl(rounds), lc["final"], len(lc["calls"] or []), lc["kind"])


def loop_shard(lcs):
    return (HEADER + "Definition cases : list loopcase := [\n  %s\n].\n" % ";\n  ".join("(%s)" % loopcase(l) for l in lcs) +
            "Definition M := Eval vm_compute in loop_mismatches cases.\nPrint M.\n")


# ------------------------------------------------------------------ finding classes
# A failure is attributed to a recorded defect only when ALL of these agree with it: the kind of
# query (its index rule), the NAME queried (it must be the name the anomaly of this write is about:
# a Connect destination that loses / gains / keeps an instance the write touches), and what was
# lost.  (The rename, check-move, check-delete and stale-name check-move classes were repaired in
# /repo -- 2c57fbe, e956cb5, 566301e, 77429de -- and are VIOLATIONs again.)  Everything else is class "other" and is reported as a VIOLATION.
NAME_INDEX = {"svc_nodes", "svc_tag_nodes", "csn", "csn_tag"}     # index rule reads service.<name>
HEALTH = {"csn", "csn_tag"}                                       # result contains the check rows
INDEX_LOSS = {"missed-index", "index-decreased", "missed-highwater"}


def signature(q, v, op, si, stream):
    """structured signature of one oracle failure"""
    qk = q["k"][3:] if q["k"].startswith("ep:") else q["k"]
    # names are compared case-folded: the memdb service index and the index table both lower-case
    name, lost = q.get("a", "").lower(), v["kind"]
    idx_lost = lost in INDEX_LOSS
    # a blocked call that never comes back is the same loss seen through the loop (endpoint tier);
    # in the store tiers only the optimised CheckServiceNodes watch can stay silent
    wake_ok = lost == "missed-wake" and (stream == "ep" or qk == "csn")
    fam = {"connect_nodes": "connect-nodes", "csn_connect": "csn-connect"}.get(qk, "name-index" if qk in NAME_INDEX else qk)
    cls, rel = "other", ""
    low = lambda l: {x.lower() for x in l or []}
    if qk in ("kv_list", "kv_keys") and op["kind"] == "kv_deltree" and idx_lost \
            and q.get("a", "").startswith(op.get("key", "")) and q.get("a", "") != op.get("key", ""):
        cls, rel = "kvlist-deltree-shorter-prefix", "longer-prefix"
    elif qk == "connect_nodes" and idx_lost or (qk == "connect_nodes" and stream == "ep" and lost == "missed-wake"):
        if name in low(si.get("conn_rem")) | low(si.get("conn_add")) | low(si.get("conn_touch")):
            cls, rel = "connect-nodes-index-of-destination", "destination-touched"
    elif qk == "csn_connect" and (idx_lost or (stream == "ep" and lost == "missed-wake")):
        if name in low(si.get("conn_rem")):
            cls, rel = "csn-connect-index-over-result-names", "destination-loses-instance"
    return {"class": cls, "family": fam, "lost_family": "index" if idx_lost else ("wake" if lost == "missed-wake" else lost),
            "related": rel, "query": qk, "name": name, "lost": lost, "situation": si.get("kind", v.get("sit", ""))}


def still_fails(ctx, binp, stream, ops, q, kind):
    """re-run the implementation on the candidate history: does the LAST write still break the contract for q?"""
    rp = os.path.join(ctx.workdir, "shrink.json")
    out = os.path.join(ctx.workdir, "shrink.out")
    json.dump({"stream": stream, "ops": ops}, open(rp, "w"))
    rc, _ = vlib.sh([binp, "-replay", rp, "-out", out], timeout=120)
    if rc != 0:
        return False
    lines = open(out).read().splitlines()
    hdr, h = json.loads(lines[0]), json.loads(lines[1])
    qs = {"ext": hdr["ext_queries"], "ep": hdr["ep_queries"]}.get(stream, hdr["queries"])
    return any(v["step"] == len(ops) - 1 and v["kind"] == kind and qs[v["q"]] == q for v in h["viol"] or [])


def shrink(ctx, binp, stream, ops, q, kind):
    """greedy delta-debugging over the write list (the failing write stays last)"""
    if not still_fails(ctx, binp, stream, ops, q, kind):
        return ops
    changed = True
    while changed:
        changed = False
        for i in range(len(ops) - 2, -1, -1):
            cand = ops[:i] + ops[i + 1:]
            if still_fails(ctx, binp, stream, cand, q, kind):
                ops, changed = cand, True
    return ops


def run(ctx):
    t0 = time.time()
    info, ok = vlib.proof_stage(ctx, PROP_FILE, ["Run/C06.v"])
    t_proof = time.time() - t0
    cov = dict(info)
    cov["trusted_base"] = vlib.STD_TRUSTED + [
        "modelled, not verified: go-memdb / iradix watch granularity is abstracted to 'a watch on an index value or prefix fires when a row under it differs' (checked one-directionally on every run: model fires => real watch fired)",
        "fragment of the model: empty node IDs (no rename by ID), no session-type checks, no gateways, peers or transactions, lower-case names; service_kind.* rows and the un-peered duplicates of catalog index rows omitted (no modelled query reads them); these areas get the direct oracle only (ext stream)",
        "endpoint tier: a consul.Server reduced by hooks/agent/consul/zz_verif_c06.go (real FSM/store, real single-node in-memory raft, config defaults, ACLs disabled) runs the real endpoint methods, the real blockingquery.Query and the real Server.SetQueryMeta; the scripted loop cases still use a fake FSMServer that restates the floor",
        "RPC transport, forwarding between servers, ACL filtering with ACLs enabled, the streaming (submatview) backend"]
    assumptions = ["go-memdb radix watches fire when a row below the watched node is inserted, replaced or deleted",
                   "Raft indexes of successive writes strictly increase"]
    if not ok:
        cov.update({"evaluations": 0, "distinct_nontrivial": 0, "rule": "proof stage failed", "samples": []})
        return ctx.finish(cov, assumptions)

    t0 = time.time()
    binp = vlib.go_build("blocking")
    t_build = time.time() - t0
    t0 = time.time()
    out = os.path.join(ctx.workdir, "hist.jsonl")
    rc, o = vlib.sh([binp, "-seed", str(ctx.seed), "-tier", ctx.tier, "-out", out], timeout=3000)
    t_harness = time.time() - t0
    if rc != 0:
        raise vlib.BuildError("harness run failed: " + o[-2000:])
    hs, loops = [], []
    for n, line in enumerate(open(out)):
        o = json.loads(line)
        if n == 0:
            qs_model, qs_ext, qs_ep = o["queries"], o["ext_queries"], o["ep_queries"]
        elif "loop" in o:
            loops.append(o["loop"])
        else:
            hs.append(o)
    model_hs = [h for h in hs if h["stream"] == "model"]
    # a scripted action that raced with the loop's own timeout (recorded, but the loop had already
    # given up) makes the script inconclusive: such cases are counted, not compared
    racy = [lc for lc in loops if lc["timed_out"] and len(lc.get("wakes") or []) >= len(lc["calls"] or [])
            and (lc.get("wakes") or [None])[-1] != "none"]
    loops = [lc for lc in loops if lc not in racy]

    # ---- model vs implementation, inside Coq
    t0 = time.time()
    per = 19 if ctx.tier == "quick" else 50
    shards = [model_hs[i:i + per] for i in range(0, len(model_hs), per)]
    mism, texts = [], []
    try:
        texts = [shard_text(qs_model, s) for s in shards] + [loop_shard(loops)]
    except ValueError as e:
        ctx.violation({"kind": "correspondence", "theorem": "Run.C06.check", "what": "observation outside the model's vocabulary: %s" % e}, found_input=False)
        shards = []
    results = vlib.coq_run_shards(PROP, texts, timeout=1500, jobs=10 if ctx.tier == "quick" else 6) if texts else []
    t_coq = time.time() - t0
    loop_mism = []
    for k, (okk, idx, raw) in enumerate(results):
        if not okk:
            ctx.violation({"kind": "case-file-failed", "shard": k, "log": raw}, found_input=False)
            continue
        if k < len(shards):
            mism += [shards[k][i] for i in idx]
        else:
            loop_mism += [loops[i] for i in idx]

    # ---- direct oracle on the implementation
    tot = collections.Counter()
    opmix, errkinds, lens = collections.Counter(), collections.Counter(), collections.Counter()
    known_hits, unknown = collections.Counter(), []
    seen = set()
    for h in hs:
        qs = {"ext": qs_ext, "ep": qs_ep}.get(h["stream"], qs_model)
        for k in ("evals", "changed", "fired_tot", "spurious", "raw_zero", "idx_only"):
            tot[k] += h[k]
        lens[len(h["ops"]) // 5 * 5] += 1
        seen.add(json.dumps(h["ops"], sort_keys=True))
        for op, e in zip(h["ops"], h["errs"]):
            opmix[h["stream"] + ":" + op["kind"]] += 1
            if e:
                errkinds[op["kind"] + ": " + e.split('"')[0].split("'")[0].strip()[:40]] += 1
        for v in h["viol"] or []:
            sig = signature(qs[v["q"]], v, h["ops"][v["step"]], (h.get("sits") or [{}] * (v["step"] + 1))[v["step"]], h["stream"])
            f = vlib.match_known(PROP, sig)
            if f:
                known_hits[sig["class"]] += 1
                ctx.known(f, f["what"])
            else:
                unknown.append((h, v, sig))
    for lc in loops:
        if lc["oracle"]:
            unknown.append(({"id": "loop-%d" % lc["id"], "stream": "loop", "ops": [], "loop": lc}, {"step": 0, "q": 0, "kind": lc["oracle"]},
                            {"class": "loop", "query": "blockingquery.Query", "lost": lc["oracle"], "situation": lc["mode"]}))
    reported = set()
    for h, v, sig in unknown:
        key = json.dumps(sig, sort_keys=True)
        if key in reported or len(reported) >= 5:
            continue
        reported.add(key)
        qs = {"ext": qs_ext, "ep": qs_ep}.get(h["stream"], qs_model)
        ops = h["ops"][:v["step"] + 1]
        if ops:
            ops = shrink(ctx, binp, h["stream"], ops, qs[v["q"]], v["kind"])
        ctx.violation({"kind": "oracle", "signature": sig, "violation": v, "query": qs[v["q"]] if h["ops"] else None,
                       "stream": h["stream"], "ops": ops, "shrunk_from": v["step"] + 1, "loop": h.get("loop"),
                       "replay_cmd": "%s -replay <this file>" % os.path.relpath(binp, vlib.VERIF)})
    if (mism or loop_mism) and not unknown:
        if mism:
            h = mism[0]
            ctx.violation({"kind": "correspondence", "theorem": "Run.C06.check (model idx/res = implementation in every state; model fires => real watch fired)",
                           "mismatching_histories": len(mism), "stream": "model", "ops": h["ops"], "history_id": h["id"]}, found_input=False)
        else:
            ctx.violation({"kind": "correspondence", "theorem": "Run.C06.loop_check (model of blockingquery.Query = implementation)",
                           "mismatching_cases": len(loop_mism), "loop": loop_mism[0]}, found_input=False)

    nq = len(qs_model)
    cov.update({
        "evaluations": tot["evals"],
        "distinct_nontrivial": tot["changed"],
        "rule": "evaluations = (query, state) pairs evaluated on the real store; distinct_nontrivial = (query, write) pairs where the result of the query changed across the write (the antecedent of the contract); every such pair gets the direct oracle; model-stream pairs are compared exactly with the Coq model",
        "histories": {"model": len(model_hs), "ext": sum(1 for h in hs if h["stream"] == "ext"),
                      "endpoint_tier": sum(1 for h in hs if h["stream"] == "ep"), "distinct": len(seen),
                      "loop_cases": len(loops), "loop_cases_inconclusive_timing": len(racy)},
        "endpoint_tier": {"what": "real KVS.Get/List/ListKeys, Health.ServiceNodes (plain/tag/connect), Catalog.ServiceNodes/NodeServices, Session.Get through the real blockingquery.Query and Server.SetQueryMeta, blocked at the old index across every write",
                          "queries_per_state": len(qs_ep),
                          "changed_replies": sum(h["changed"] for h in hs if h["stream"] == "ep"),
                          "blocked_calls_woken_with_new_reply": sum(h["fired_tot"] for h in hs if h["stream"] == "ep")},
        "ext_stream_extras": {"txn_writes": opmix.get("ext:txn", 0), "restore_steps": opmix.get("ext:restore", 0)},
        "queries_per_state": {"model": nq, "ext": len(qs_ext), "endpoint_tier": len(qs_ep)},
        "traces_validated_against_impl": len(model_hs) - len(mism),
        "model_mismatches": len(mism), "loop_mismatches": len(loop_mism),
        "watch": {"fired": tot["fired_tot"], "spurious_real_wakeups": tot["spurious"], "index_grew_without_result_change": tot["idx_only"]},
        "raw_index_zero_before_floor": tot["raw_zero"],
        "oracle_failures_known": dict(known_hits), "oracle_failures_unknown": len(unknown),
        "op_mix": dict(opmix), "error_kinds": dict(errkinds),
        "history_length_histogram": {str(k): v for k, v in sorted(lens.items())},
        "samples": [{"stream": h["stream"], "ops": h["ops"][:3], "first_changes": (h["steps"][0]["chg"] or [])[:2]} for h in hs[:2]],
        "exhaustive": False,
        "stage_wall_s": {"proof_stage": round(t_proof, 1), "go_build": round(t_build, 1), "harness": round(t_harness, 1),
                         "coq_case_shards": round(t_coq, 1), "shards": len(texts)},
    })
    return ctx.finish(cov, assumptions)
