"""C15 — discovery-chain compilation is closed, terminating and deterministic."""
import json, os, collections
import vlib
from vlib import coq_bool, coq_list, coq_N, coq_str

PROP = "C15"
PROP_FILE = "Properties/C15.v"


class Tab:
    """shared sub-terms of a shard (strings, targets, node ids) are defined once: the case file stays small"""
    def __init__(self):
        self.defs, self.ids = [], {}

    def name(self, prefix, term, typ):
        k = (prefix, term)
        if k not in self.ids:
            self.ids[k] = "%s%d" % (prefix, len(self.ids))
            self.defs.append("Definition %s : %s := %s." % (self.ids[k], typ, term))
        return self.ids[k]


TAB = Tab()


def S(s):
    return TAB.name("s", "Eval vm_compute in " + coq_str(s), "string")


def tgt(t):
    return TAB.name("t", "Tgt %s %s %s" % (S(t["svc"]), S(t["sub"]), S(t["dc"])), "target")


def nid(n):
    if n["k"] == "router":
        return TAB.name("n", "NRouter %s" % S(n["s"]), "nid")
    if n["k"] == "splitter":
        return TAB.name("n", "NSplitter %s" % S(n["s"]), "nid")
    if n["k"] == "resolver":
        return TAB.name("n", "NResolver %s" % tgt(n["t"]), "nid")
    raise ValueError("unconvertible node id %r" % (n,))


def entry(e):
    k = e["kind"]
    if k == "router":
        return "ERouter %s %s" % (S(e["name"]), coq_list(["Route %s %s" % (S(r["svc"]), S(r["sub"])) for r in e.get("routes") or []]))
    if k == "splitter":
        return "ESplitter %s %s" % (S(e["name"]), coq_list(["Split %s %s %s" % (coq_N(s["w"]), S(s["svc"]), S(s["sub"])) for s in e.get("splits") or []]))
    if k == "resolver":
        rd = e.get("redirect")
        rds = "None" if rd is None else "(Some (Redirect %s %s %s))" % (S(rd["svc"]), S(rd["sub"]), S(rd["dc"]))
        fos = coq_list(["(%s, Failover %s %s %s %s)" % (
            S(f["key"]), S(f["svc"]), S(f["sub"]), coq_list([S(d) for d in f.get("dcs") or []]),
            coq_list(["FT %s %s %s" % (S(t["svc"]), S(t["sub"]), S(t["dc"])) for t in f.get("targets") or []]))
            for f in e.get("failover") or []])
        return "EResolver %s (Resolver %s %s %s %s %s)" % (
            S(e["name"]), S(e.get("default_subset", "")), coq_list([S(x) for x in e.get("subsets") or []]), rds, fos,
            coq_bool(e.get("other", False)))
    if k == "defaults":
        return "EDefaults %s %s %s" % (S(e["name"]), S(e.get("protocol", "")), coq_bool(e.get("external", False)))
    if k == "proxy":
        return "EProxy %s" % S(e.get("protocol", ""))
    raise ValueError(k)


KIND = {"router": "KRouter", "splitter": "KSplitter", "resolver": "KResolver", "defaults": "KDefaults", "proxy": "KProxy"}


def key(kind, name):
    return "(%s, %s)" % (KIND[kind], S("global" if kind == "proxy" else name))


def node(n):
    k = n["id"]["k"]
    if k == "router":
        body = "RouterN %s" % coq_list([nid(x) for x in n.get("next") or []])
    elif k == "splitter":
        body = "SplitterN %s" % coq_list(["(%s, %s)" % (coq_N(e["w"]), nid(e["next"])) for e in n.get("edges") or []])
    else:
        body = "ResolverN %s %s" % (coq_bool(n.get("dflt", False)), coq_list([tgt(t) for t in n.get("fo") or []]))
    return "(%s, %s)" % (nid(n["id"]), body)


def out(o):
    if not o["ok"]:
        return "OErr %s" % coq_N(o["err"])
    return "OOk %s %s %s %s" % (nid(o["start"]), coq_list([node(n) for n in o.get("nodes") or []]),
                                coq_list([tgt(t) for t in o.get("targets") or []]), S(o.get("proto", "")))


def case_to_coq(c):
    if c["kind"] == "compile":
        return "CaseC (CCase %s %s (Ctx %s %s) %s)" % (
            coq_list([entry(e) for e in (c.get("entries") or [])]), S(c["svc"]), S(c["dc"]), S(c.get("override", "")),
            coq_list([out(o) for o in (c.get("outs") or [])]))
    ops = []
    for op in (c.get("ops") or []):
        e = op["entry"]
        w = "WDelete %s" % key(e["kind"], e["name"]) if op["del"] else "WPut (%s)" % entry(e)
        stored = coq_list(["(%s, %s)" % (key(s["kind"], s["name"]), coq_N(s["op"])) for s in op.get("stored") or []])
        ops.append("(%s, %s, %s)" % (w, coq_bool(op["accepted"]), stored))
    return "CaseS (SCase %s)" % coq_list(ops)


def shard_text(cases):
    global TAB
    TAB = Tab()
    body = ";\n  ".join(case_to_coq(c) for c in cases)
    return ("From Verif Require Import Base.Prelude Chain.Model Run.C15.\n" + "\n".join(TAB.defs) + "\n"
            "Definition cases : list case := [\n  %s\n].\n"
            "Definition M := Eval vm_compute in mismatches cases.\nPrint M.\n" % body)


def slim(c):
    """the part of a case a replay needs (the harness re-runs it with -replay)"""
    keep = ("id", "kind", "gen", "entries", "svc", "dc", "override", "wide", "valid", "ops", "oracle", "sig", "outs", "to_coq")
    return {k: c[k] for k in keep if k in c}


def run(ctx):
    info, ok = vlib.proof_stage(ctx, PROP_FILE, ["Run/C15.v"])
    cov = dict(info)
    cov["trusted_base"] = vlib.STD_TRUSTED + [
        "model scope (coq/Chain/Model.v): router -> splitter -> resolver assembly with memoised nodes, redirects (service/subset/datacenter), default subsets, subset existence, failover (service/subset/datacenters/targets, '*' key), external-SNI restrictions, protocol recording and gating, OverrideProtocol, detectCircularReferences, flattenAdjacentSplitterNodes (sorted node ids; the map order the ids are collected in is a parameter the result is proved independent of), removeUnusedNodes, and the write-time validation over every chain that reaches the written name through the link index",
        "modelled as opaque or ignored (oracle-only on the wide generator): namespaces/partitions (CE: always default), cluster peers, sameness groups, mesh-gateway modes, transparent proxy, load-balancer and header payloads, timeouts (only whether a resolver is 'default'), customization hash, envoy extensions, virtual IPs, protocol letter case",
        "target IDs are the triple (service, subset, datacenter): Go's string ID (structs.ChainID) is injective exactly on names without dots (C15_target_id_injective_partial / _refuted); cases with dotted names are oracle-only (generator dotted-names, known finding target-identity)",
        "split weights are exact integers in 1/100 %: Go multiplies in float32; the correspondence generator uses weights on which both agree (checked at harness start), three-deep chains are generated on every run, compiled 24x with shuffled insertion order and compared exactly",
        "write-time validation is modelled as test-compiling over the whole proposed entry set; the real store first fetches the related entries (readDiscoveryChainConfigEntriesTxn): agreement is checked on every store case, not proved",
        "detectCircularReferences is modelled as the recursion its explicit stack implements; a Go nil dereference / 'non-retained node' is the model's EInternal (proved unreachable)",
    ]
    assumptions = ["entry sets are maps keyed by (kind, name) (NoDup keys in C15_deterministic)", "names contain no dots",
                   "service-splitter entries have at least one split (enforced by Validate) in C15_paths_end_at_resolvers",
                   "written resolver entries do not set both Datacenters and Targets in a failover section (enforced by Validate) in C15_reachable_stores_valid",
                   "evaluation context in the guard's datacenter with an override that keeps routers and splitters in C15_context_independence_partial (override tcp: refuted, known finding)"]
    if not ok:
        cov.update({"evaluations": 0, "distinct_nontrivial": 0, "rule": "proof stage failed", "samples": []})
        return ctx.finish(cov, assumptions)

    binp = vlib.go_build("chain")
    outp = os.path.join(ctx.workdir, "cases.jsonl")
    if ctx.replay:
        rc, o = vlib.sh([binp, "-replay", ctx.replay], timeout=600)
        print(o)
        return rc
    rc, o = vlib.sh([binp, "-seed", str(ctx.seed), "-tier", ctx.tier, "-out", outp], timeout=6000)
    if rc != 0:
        # the harness died (Go cannot recover from a stack overflow inside the compiler): the last
        # case written is the one before the fatal one; report the crash itself
        ctx.violation({"kind": "harness-crashed", "log": o[-3000:],
                       "note": "discoverychain.Compile or the state store crashed the process (unrecoverable runtime error, e.g. unbounded recursion)"})
        cov.update({"evaluations": 0, "distinct_nontrivial": 0, "rule": "harness crashed", "samples": []})
        return ctx.finish(cov, assumptions)

    total = 0
    gens = collections.Counter()
    verdicts = collections.Counter()
    feats = collections.Counter()
    store_ops = collections.Counter()
    coq_cases, oracle_fail = [], []
    distinct = set()
    for line in open(outp):
        c = json.loads(line)
        total += 1
        gens[c["gen"]] += 1
        if c["kind"] == "compile":
            for o_ in (c.get("outs") or []):
                verdicts["ok" if o_["ok"] else "err%d" % o_["err"]] += 1
            for f in c.get("feat") or []:
                if not f.startswith("shrunk-from"):
                    feats[f] += 1
            distinct.add(json.dumps([(c.get("entries") or []), c["svc"], c["dc"], c.get("override", "")], sort_keys=True))
        else:
            for op in (c.get("ops") or []):
                store_ops[("delete" if op["del"] else "put") + ("-accepted" if op["accepted"] else "-rejected")] += 1
            distinct.add(json.dumps([[(op["del"], op["entry"]) for op in (c.get("ops") or [])]], sort_keys=True))
        if c["to_coq"]:
            coq_cases.append(c)
        if c["oracle"]:
            oracle_fail.append(c)

    # ---- model vs implementation, inside Coq ----
    per = 250
    shards = [coq_cases[i:i + per] for i in range(0, len(coq_cases), per)]
    res = vlib.coq_run_shards(PROP, [shard_text(s) for s in shards], jobs=6)
    mism = []
    for s, (okk, idx, raw) in zip(shards, res):
        if not okk:
            ctx.violation({"kind": "case-file-failed", "log": raw}, found_input=False)
            continue
        mism += [s[i] for i in idx]

    # ---- direct oracle on the implementation ----
    new_fail = []
    known = collections.Counter()
    for c in oracle_fail:
        f = vlib.match_known(PROP, c.get("sig") or {})
        if f:
            ctx.known(f, f["what"])
            known[f["what"][:60]] += 1
        else:
            new_fail.append(c)
    seen_sig = set()
    for c in new_fail:
        sg = json.dumps(c.get("sig"), sort_keys=True)
        if sg in seen_sig:
            continue
        seen_sig.add(sg)
        ctx.violation({"kind": "oracle", "reason": c["oracle"], "signature": c.get("sig"), "case": slim(c),
                       "replay_cmd": "build/bin/chain -replay <this file>"})
    # a mismatch on a case whose oracle failure is a known finding is expected only for nothing: the model is
    # faithful to the findings, so every mismatch counts
    if mism and not new_fail:
        c = mism[0]
        ctx.violation({"kind": "correspondence", "theorem": "Run.C15.check (model compile / write = implementation)",
                       "mismatching_cases": len(mism), "ids": [m["id"] for m in mism[:20]], "case": slim(c),
                       "note": "no oracle failure on %d generated cases (wide generator included)" % total},
                      found_input=False)

    cov.update({
        "evaluations": total,
        "distinct_nontrivial": len(distinct),
        "rule": "distinct (entry set, chain name, datacenter, override) tuples resp. distinct write sequences; each compile case is compiled 5x (24x for three-deep splitter chains: regression for 2e58eb8; the 'indirect' store cases are the regression for f9df4b1) with shuffled insertion order; every case goes through the direct oracle (compile cases: closure, paths, termination, determinism, cycles, target identity; store cases: unchanged on reject, cause of a reject, no chain broken by an accepted write, every stored chain also compiles in dc2 and under OverrideProtocol tcp/http/grpc), the cases inside the modelled feature set are also evaluated in Coq",
        "traces_validated_against_impl": len(coq_cases),
        "model_mismatches": len(mism),
        "oracle_failures": len(oracle_fail),
        "oracle_failures_unknown": len(new_fail),
        "known_findings_hit": dict(known),
        "generators": dict(gens),
        "compile_verdicts": dict(verdicts),
        "features": dict(feats),
        "store_ops": dict(store_ops),
        "samples": [slim(c) for c in (coq_cases[:2] + coq_cases[-2:])],
        "exhaustive": False,
    })
    return ctx.finish(cov, assumptions)
