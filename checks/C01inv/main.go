// Static inventory for property C01: every place, in the consul code reachable from FSM.Apply, that
// ranges over a Go map or reads something that is not in the command (wall clock, randomness, UUID
// generation, environment, host name, network interfaces).
//
// The program loads agent/consul/fsm with full type information, builds SSA and a class-hierarchy
// call graph (interface calls resolve to every implementation, calls of function values to every
// address-taken function of that type: an over-approximation), takes everything reachable from
// (*FSM).Apply, every (*FSM).apply* handler and the storage backend's Apply, and lists the sites found in
// the reachable functions of the consul module.  A site is identified by package, enclosing function
// and the text of the statement (not by line number, so unrelated edits do not move it).
// checks/C01.py compares the list with checks/C01.allow.json; a site that is not accounted for there
// fails the check.
package main

import (
	"bytes"
	"encoding/json"
	"flag"
	"fmt"
	"go/ast"
	"go/printer"
	"go/token"
	"go/types"
	"os"
	"os/exec"
	"path/filepath"
	"sort"
	"strings"

	"golang.org/x/tools/go/callgraph"
	"golang.org/x/tools/go/callgraph/cha"
	"golang.org/x/tools/go/packages"
	"golang.org/x/tools/go/ssa"
	"golang.org/x/tools/go/ssa/ssautil"
)

type Site struct {
	Kind string `json:"kind"` // map-range | map-keys | clock | random | uuid | env | host
	Pkg  string `json:"pkg"`
	Func string `json:"func"`
	Text string `json:"text"` // the range header / the call
	Type string `json:"type,omitempty"`
	N    int    `json:"n"`   // how many times this statement occurs in the function
	Pos  string `json:"pos"` // file:line of the first occurrence, informational only
}

const module = "github.com/hashicorp/consul"

// calls that read something outside the command
var impure = map[string]string{
	"time.Now": "clock", "time.Since": "clock", "time.Until": "clock", "time.After": "clock", "time.AfterFunc": "clock",
	"time.NewTimer": "clock", "time.NewTicker": "clock", "time.Tick": "clock", "time.Sleep": "clock",
	"os.Getenv": "env", "os.LookupEnv": "env", "os.Environ": "env", "os.Hostname": "host", "os.Getpid": "host",
	"net.Interfaces": "host", "net.InterfaceAddrs": "host",
	"github.com/hashicorp/go-uuid.GenerateUUID": "uuid", "github.com/hashicorp/go-uuid.GenerateRandomBytes": "uuid",
	"github.com/hashicorp/consul/lib.GenerateUUID": "uuid",
	// the keys / values of a map as a slice, in iteration order
	"github.com/hashicorp/consul/lib/maps.SliceOfKeys": "map-keys", "github.com/hashicorp/consul/lib/maps.SliceOfValues": "map-keys",
	"golang.org/x/exp/maps.Keys": "map-keys", "golang.org/x/exp/maps.Values": "map-keys",
	"maps.Keys": "map-keys", "maps.Values": "map-keys", "maps.All": "map-keys",
	"github.com/hashicorp/consul/agent/netutil.IsDualStack":      "host",
	"github.com/hashicorp/consul/agent/netutil.GetAgentBindAddr": "host",
}

func main() {
	repo := flag.String("repo", "/repo", "consul source tree")
	out := flag.String("out", "", "output file")
	flag.Parse()

	// go/packages runs the `go` command: make the right toolchain answer to that name
	goroot, err := exec.Command("go1.26.8", "env", "GOROOT").Output()
	if err != nil {
		panic(err)
	}
	bin := filepath.Join(strings.TrimSpace(string(goroot)), "bin")
	os.Setenv("PATH", bin+":"+os.Getenv("PATH"))
	env := append(os.Environ(), "GOFLAGS=-mod=mod", "GOPROXY=off", "GOSUMDB=off", "GOTOOLCHAIN=local", "CGO_ENABLED=0")
	cfg := &packages.Config{Mode: packages.LoadAllSyntax, Dir: *repo, Env: env}
	pkgs, err := packages.Load(cfg, module+"/agent/consul/fsm")
	if err != nil {
		panic(err)
	}
	if packages.PrintErrors(pkgs) > 0 {
		os.Exit(3)
	}
	prog, _ := ssautil.AllPackages(pkgs, ssa.InstantiateGenerics)
	prog.Build()
	cg := cha.CallGraph(prog)

	// roots
	var roots []*ssa.Function
	fsmPkg := prog.ImportedPackage(module + "/agent/consul/fsm")
	fsmT := fsmPkg.Type("FSM")
	ms := prog.MethodSets.MethodSet(types.NewPointer(fsmT.Type()))
	for i := 0; i < ms.Len(); i++ {
		n := ms.At(i).Obj().Name()
		if n == "Apply" || strings.HasPrefix(n, "apply") || strings.HasPrefix(n, "deprecatedApply") {
			roots = append(roots, prog.MethodValue(ms.At(i)))
		}
	}
	if f := fsmPkg.Func("ApplyConnectCAOperationFromRequest"); f != nil {
		roots = append(roots, f)
	}
	if p := prog.ImportedPackage(module + "/internal/storage/raft"); p != nil {
		bt := p.Type("Backend")
		bms := prog.MethodSets.MethodSet(types.NewPointer(bt.Type()))
		for i := 0; i < bms.Len(); i++ {
			if bms.At(i).Obj().Name() == "Apply" {
				roots = append(roots, prog.MethodValue(bms.At(i)))
			}
		}
	}
	reach := map[*ssa.Function]bool{}
	var work []*ssa.Function
	for _, r := range roots {
		if r != nil && !reach[r] {
			reach[r] = true
			work = append(work, r)
		}
	}
	for len(work) > 0 {
		f := work[len(work)-1]
		work = work[:len(work)-1]
		if n := cg.Nodes[f]; n != nil {
			for _, e := range n.Out {
				if c := e.Callee.Func; c != nil && !reach[c] {
					reach[c] = true
					work = append(work, c)
				}
			}
		}
		for _, af := range f.AnonFuncs {
			if !reach[af] {
				reach[af] = true
				work = append(work, af)
			}
		}
	}
	_ = callgraph.Edge{}

	// syntax of the reachable functions of the consul module
	type key struct {
		pkg string
		pos token.Pos
	}
	reachDecl := map[token.Pos]string{} // position of the function's syntax -> name
	for f := range reach {
		if o := f.Origin(); o != nil {
			f = o // an instance of a generic function: its syntax is the generic declaration
		}
		if f.Pkg == nil || f.Syntax() == nil {
			continue
		}
		if !strings.HasPrefix(f.Pkg.Pkg.Path(), module) {
			continue
		}
		top := f
		for top.Parent() != nil {
			top = top.Parent()
		}
		reachDecl[f.Syntax().Pos()] = top.RelString(top.Pkg.Pkg)
	}
	var sites []Site
	seen := map[string]int{}
	packages.Visit(pkgs, nil, func(p *packages.Package) {
		if !strings.HasPrefix(p.PkgPath, module) {
			return
		}
		for _, file := range p.Syntax {
			fname := p.Fset.Position(file.Pos()).Filename
			if strings.HasSuffix(fname, "_test.go") || strings.Contains(fname, "zz_verif_") || strings.Contains(fname, "verifharness") {
				continue
			}
			var visit func(n ast.Node, fn string, in bool)
			visit = func(n ast.Node, fn string, in bool) {
				ast.Inspect(n, func(x ast.Node) bool {
					switch v := x.(type) {
					case *ast.FuncDecl:
						if v == n {
							return true
						}
						name, ok := reachDecl[v.Pos()]
						visit(v, name, ok)
						return false
					case *ast.FuncLit:
						if v == n {
							return true
						}
						name, ok := reachDecl[v.Pos()]
						if !ok {
							name, ok = fn, in
						}
						visit(v, name, ok)
						return false
					case *ast.RangeStmt:
						if !in {
							return true
						}
						t := p.TypesInfo.TypeOf(v.X)
						if t == nil {
							return true
						}
						if isMapType(t) {
							hdr := &ast.RangeStmt{Key: v.Key, Value: v.Value, Tok: v.Tok, X: v.X, Body: &ast.BlockStmt{}}
							var b bytes.Buffer
							printer.Fprint(&b, p.Fset, hdr)
							text := strings.TrimSpace(strings.TrimSuffix(strings.TrimSpace(b.String()), "{\n}"))
							text = strings.TrimSuffix(strings.TrimSpace(text), "{")
							add(&sites, seen, Site{"map-range", p.PkgPath, fn, strings.TrimSpace(text), t.String(), 1, pos(p.Fset, v.Pos(), *repo)})
						}
					case *ast.CallExpr:
						if !in {
							return true
						}
						var obj types.Object
						switch f := v.Fun.(type) {
						case *ast.SelectorExpr:
							obj = p.TypesInfo.Uses[f.Sel]
						case *ast.Ident:
							obj = p.TypesInfo.Uses[f]
						}
						if fo, ok := obj.(*types.Func); ok && fo.Pkg() != nil {
							full := fo.Pkg().Path() + "." + fo.Name()
							kind, bad := impure[full]
							if !bad && (fo.Pkg().Path() == "math/rand" || fo.Pkg().Path() == "math/rand/v2" || fo.Pkg().Path() == "crypto/rand") {
								kind, bad = "random", true
							}
							if bad {
								var b bytes.Buffer
								printer.Fprint(&b, p.Fset, v.Fun)
								add(&sites, seen, Site{kind, p.PkgPath, fn, b.String(), "", 1, pos(p.Fset, v.Pos(), *repo)})
							}
						}
					}
					return true
				})
			}
			visit(file, "", false)
		}
	})
	sort.Slice(sites, func(i, j int) bool {
		a, b := sites[i], sites[j]
		if a.Pkg != b.Pkg {
			return a.Pkg < b.Pkg
		}
		if a.Func != b.Func {
			return a.Func < b.Func
		}
		if a.Kind != b.Kind {
			return a.Kind < b.Kind
		}
		return a.Text < b.Text
	})
	w := os.Stdout
	if *out != "" {
		f, err := os.Create(*out)
		if err != nil {
			panic(err)
		}
		defer f.Close()
		w = f
	}
	enc := json.NewEncoder(w)
	enc.SetEscapeHTML(false)
	for _, s := range sites {
		enc.Encode(s)
	}
	fmt.Fprintf(os.Stderr, "reachable functions: %d, sites in %s: %d\n", len(reach), module, len(sites))
}

func isMapType(t types.Type) bool {
	if _, ok := t.Underlying().(*types.Map); ok {
		return true
	}
	if tp, ok := t.(*types.TypeParam); ok {
		if iface, ok := tp.Constraint().Underlying().(*types.Interface); ok && iface.NumEmbeddeds() > 0 {
			for i := 0; i < iface.NumEmbeddeds(); i++ {
				if u, ok := iface.EmbeddedType(i).(*types.Union); ok {
					for j := 0; j < u.Len(); j++ {
						if _, ok := u.Term(j).Type().Underlying().(*types.Map); ok {
							return true
						}
					}
				}
			}
		}
	}
	return false
}

func pos(fset *token.FileSet, p token.Pos, repo string) string {
	q := fset.Position(p)
	return fmt.Sprintf("%s:%d", strings.TrimPrefix(q.Filename, repo+"/"), q.Line)
}

func add(sites *[]Site, seen map[string]int, s Site) {
	// identical statements in one function are one site with a count (the allowlist states the count)
	k := s.Kind + "|" + s.Pkg + "|" + s.Func + "|" + s.Text
	if i, ok := seen[k]; ok {
		(*sites)[i].N++
		return
	}
	seen[k] = len(*sites)
	*sites = append(*sites, s)
}
