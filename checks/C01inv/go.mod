module verif/c01inv

go 1.26

require (
	golang.org/x/mod v0.40.0 // indirect
	golang.org/x/sync v0.22.0 // indirect
	golang.org/x/tools v0.49.0
)
