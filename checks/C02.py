"""C02 — snapshot and restore reproduce the state exactly, at any point of any history."""
import json, os, re, collections
import vlib
from checks import storelib as S

PROP = "C02"
MIXED = re.compile(r"(node=|svc=)\S*[A-Z]")
PROP_FILE = "Properties/C02.v"


# ---------------------------------------------------------------- case writer (model histories)

def rec_t(r):
    t = r["t"]
    if t == "node":
        return "SNode %s %s" % (S.cs(r["node"]["name"]), S.node_t(r["node"]))
    if t == "service":
        return "SService %s %s %s %s" % (S.cs(r["node"]["name"]), S.node_t(r["node"]), S.cs(r["svc"]["id"]), S.svc_t(r["svc"]))
    if t == "check":
        return "SCheck %s %s %s %s" % (S.cs(r["node"]["name"]), S.node_t(r["node"]), S.cs(r["check"]["id"]), S.check_t(r["check"]))
    if t == "session":
        x = r["sess"]
        return "SSession %s (Sess %s %s %s %s %s %s)" % (S.cs(x["id"]), S.cs(x["node"]), S.cs(x["name"]), S.cb(x["del"]),
                                                        S.clist([S.cs(c) for c in x["checks"]]), S.cb(x["delay"]), S.cn(x["c"]))
    if t == "kv":
        return "SKV %s %s" % (S.cs(r["kv"]["k"]), S.kvent(r["kv"]))
    if t == "tomb":
        return "STomb %s %s" % (S.cs(r.get("key", "")), S.cn(r.get("n", 0)))
    if t == "query":
        return "SQuery %s %s %s" % (S.cs(r.get("key", "")), S.cs(r.get("sid", "")), S.cn(r.get("n", 0)))
    if t == "index":
        return "SIndex %s %s" % (S.cs(r.get("key", "")), S.cn(r.get("n", 0)))
    raise ValueError(t)


def sess_t(x):
    return "(Sess %s %s %s %s %s %s)" % (S.cs(x["node"]), S.cs(x["name"]), S.cb(x["del"]), S.clist([S.cs(c) for c in x["checks"]]),
                                        S.cb(x["delay"]), S.cn(x["c"]))


def opt(v, f):
    return "None" if v is None else "(Some %s)" % f(v)


def qread_t(r):
    """one read of the restored store: (query, the implementation's answer as a qres)"""
    q, a, i = r["q"], S.cs(r.get("arg", "")), S.cn(r.get("idx", 0))
    if q == "kvget":
        return "(QKVGet %s, QRkv %s %s)" % (a, i, opt(r.get("kv"), S.kvent))
    if q == "kvlist":
        return "(QKVListAll, QRkvs %s %s)" % (i, S.clist(["(%s, %s)" % (S.cs(e["k"]), S.kvent(e)) for e in r.get("kvs") or []]))
    if q == "sessget":
        return "(QSessionGet %s, QRsess %s %s)" % (a, i, opt(r.get("sess"), sess_t))
    if q == "sesslist":
        return "(QSessionList, QRsessions %s %s)" % (i, S.clist(["(%s, %s)" % (S.cs(e["id"]), sess_t(e)) for e in r.get("sessions") or []]))
    if q == "node":
        return "(QNode %s, QRnode %s)" % (a, opt(r.get("node"), S.node_t))
    if q == "nodeservices":
        return "(QNodeServices %s, QRservices %s)" % (a, S.clist(["(%s, %s)" % (S.cs(e["id"]), S.svc_t(e)) for e in r.get("services") or []]))
    if q == "nodechecks":
        return "(QNodeChecks %s, QRchecks %s)" % (a, S.clist(["(%s, %s)" % (S.cs(e["id"]), S.check_t(e)) for e in r.get("checks") or []]))
    if q == "queryget":
        return "(QQueryGet %s, QRquery %s %s)" % (a, i, opt(r.get("qsid"), S.cs))
    raise ValueError(q)


def cut_t(c, with_suffix):
    fin = "None"
    if with_suffix and c.get("final") is not None:
        fin = "(Some %s)" % S.dump(c["final"])
    return "Cut %d%%nat %s %s %s (%s, %s, %s) %s %s" % (c["k"], S.cn(c["last_index"]), S.clist(["(%s)" % rec_t(r) for r in c["records"]]),
                                                      S.dump(c["restored"]), S.cn(c["reads"][0]), S.cn(c["reads"][1]), S.cn(c["reads"][2]),
                                                      S.clist([qread_t(r) for r in c.get("qreads") or []]), fin)


def case_t(h):
    n = len(h["cmds"])
    cuts = []
    for c in h["cuts"]:
        # the suffix is re-run inside Coq for every third cut (phase by history id), the first and the last
        k = c["k"]
        with_suffix = (k % 3 == h["id"] % 3) or k == 0 or k == n
        cuts.append("(%s)" % cut_t(c, with_suffix))
    streams = ["(Stream %s %s %s)" % (S.cn(x["last_index"]), S.clist(["(%s)" % rec_t(r) for r in x["records"]]),
                                     "None" if x.get("err") else "(Some %s)" % S.dump(x["restored"])) for x in h.get("streams") or []]
    return "Case %s %s %s %s %s" % (S.clist([S.cmd(c) for c in h["cmds"]]), S.clist(["(%s)" % S.res(r) for r in h["results"]]),
                                    S.dump(h["final"]), S.clist(cuts), S.clist(streams))


def shard_text(hs):
    body = ";\n  ".join(case_t(h) for h in hs)
    return ("From stdpp Require Import gmap strings.\nFrom Coq Require Import NArith.\n"
            "From Verif Require Import Store.Model Run.Store Snapshot.Model Run.C02.\nLocal Open Scope N_scope.\n"
            "Definition cases : list Run.C02.case := [\n  %s\n].\n"
            "Definition M := Eval vm_compute in Run.C02.mismatches cases.\nPrint M.\n" % body)


# ---------------------------------------------------------------- driver

def run(ctx):
    info, ok = vlib.proof_stage(ctx, PROP_FILE, ["Run/C02.v"])
    cov = dict(info)
    cov["trusted_base"] = vlib.STD_TRUSTED + [
        "the core store model coq/Store/Model.v (tied to the code by C03/C04/C05) and the snapshot/restore model coq/Snapshot/Model.v, tied to agent/consul/fsm/snapshot_ce.go + state.Restore by this run: for every cut of every modelled history the records the real Persist wrote and the store the real Restore produced are compared with the model's, evaluated inside Coq",
        "modelled rather than verified: msgpack framing, the chunking-state record, go-memdb; tables outside the core model (ACL, config entries, intentions, CA, peering, coordinates, federation states, system metadata, autopilot, feature gates, virtual IPs, catalog index rows and derived catalog tables) are covered by the direct oracle on the real FSM only, not by the theorems",
        "SnapshotHeader.LastIndex and the prepared queries' ModifyIndex are not part of the model's state: the theorems quantify over all their values",
        "C02_cut reuses C01's non-interference theorem for the lock-delay map (coq/FSM/NonInterference.v run_sim, same Store model)",
        "hypotheses of the theorems: Raft indexes are positive and SessionCreate never reuses a live session id (Session.Apply draws UUIDs until an unused one is found) -- wf_log",
        "the Go harness (harness/snaprestore): canonical field-by-field serialiser; lenient renderings for the open known findings, each invoked only when its witness predicate holds on the donor at the cut (harness/snaprestore/witness.go; the witness is part of the matched signature) and only for the rows / names the witness names; projected fields listed under projected_fields",
    ]
    assumptions = ["go-memdb transaction semantics", "generators stay inside what the leader emits (session ids unused, config entries normalized+validated, CAS indexes any)",
                   "wf_log: positive Raft indexes, unused session ids on create"]
    if not ok:
        cov.update({"evaluations": 0, "distinct_nontrivial": 0, "rule": "proof stage failed", "samples": []})
        return ctx.finish(cov, assumptions)

    binp = vlib.go_build("snaprestore")
    out = os.path.join(ctx.workdir, "hist.jsonl")
    rc, o = vlib.sh([binp, "-seed", str(ctx.seed), "-tier", ctx.tier, "-out", out], timeout=6000)
    if rc != 0:
        raise vlib.BuildError("harness run failed: " + o[-3000:])

    wide, model, summary = [], [], None
    for line in open(out):
        h = json.loads(line)
        if h["mode"] == "wide":
            wide.append(h)
        elif h["mode"] == "model":
            model.append(h)
        elif h["mode"] == "summary":
            summary = h

    # ---- model vs implementation, inside Coq
    per = 8 if ctx.tier == "quick" else 10
    shards = [model[i:i + per] for i in range(0, len(model), per)]
    mism, outside = [], None
    try:
        texts = [shard_text(s) for s in shards]
    except ValueError as e:
        outside = str(e)
        texts, shards = [], []
    for h in model:
        for c in h["cuts"]:
            if c["other_record_types"]:
                outside = "snapshot of a modelled history contains record types %s" % c["other_record_types"]
    if outside:
        ctx.violation({"kind": "correspondence", "theorem": "Run.C02.check", "what": "implementation produced an observation outside the model's vocabulary: %s" % outside}, found_input=False)
    results = vlib.coq_run_shards(PROP, texts, timeout=1500)
    for s, (okk, idx, raw) in zip(shards, results):
        if not okk:
            ctx.violation({"kind": "case-file-failed", "log": raw}, found_input=False)
            continue
        mism += [s[i] for i in idx]

    # ---- direct oracle
    known_sigs, unknown = collections.Counter(), []
    stage_hist = collections.Counter()
    for h in wide + model:
        shr = {json.dumps(s["signature"], sort_keys=True): s for s in h.get("shrunk") or []}
        for f in h["failures"]:
            sig = f["signature"]
            stage_hist[f["stage"]] += 1
            kf = vlib.match_known(PROP, sig)
            if kf:
                known_sigs[sig["kind"]] += 1
                ctx.known(kf, kf["what"])
            else:
                unknown.append((h, f, shr.get(json.dumps(sig, sort_keys=True))))
    seen = set()
    for h, f, sh in unknown:
        key = json.dumps(f["signature"], sort_keys=True)
        if key in seen:
            continue
        seen.add(key)
        if len(seen) > 6:
            break
        rep = {"kind": "oracle", "signature": f["signature"], "stage": f["stage"], "detail": f["detail"], "tables": f.get("tables"),
               "extra": f.get("extra"), "history": h["id"], "mode": h["mode"], "replay_cmd": "build/bin/snaprestore -replay <this file>"}
        if sh:
            rep.update({"cmds": sh["cmds"], "cut": sh["cut"], "shrunk": True, "failure_on_shrunk": sh["failure"]})
        elif h["mode"] == "wide":
            rep.update({"cmds": h["cmds"], "cut": f["cut"], "shrunk": False})
        else:
            rep.update({"model_cmds": h["cmds"], "cut": f["cut"], "shrunk": False})
        ctx.violation(rep)
    if summary and summary["never_restored"]:
        ctx.violation({"kind": "oracle", "signature": {"kind": "table-never-restored", "tables": summary["never_restored"]},
                       "detail": "tables that held rows in some donor store and never any after a restore (a table without a persister/restorer pair)",
                       "donor_tables": summary["donor_tables"], "restored_tables": summary["restored_tables"]})
    if mism and not unknown:
        h = mism[0]
        ctx.violation({"kind": "correspondence", "theorem": "Run.C02.check (model snapshot = persisted records, model restore = restored store, suffix on the restored model = implementation)",
                       "mismatching_histories": len(mism), "model_cmds": h["cmds"], "hint": "Eval vm_compute in Run.C02.diagnose on the case gives (cut, code)"},
                      found_input=False)

    # ---- evidence
    kinds = collections.Counter()
    errs = 0
    lens = collections.Counter()
    for h in wide + model:
        lens[len(h["cmds"]) // 5 * 5] += 1
    witness = [h for h in model if h["id"] == 1000]
    witness_ok = bool(witness) and any(f["signature"].get("kind") == "check-service-fields-refreshed-by-restore" for f in witness[0]["failures"])
    for h in wide:
        for c in h["cmds"]:
            kinds[c["kind"].split(":")[0] + (":" + c["kind"].split(":")[1] if c["kind"].startswith(("kvs", "config")) else "")] += 1
        errs += h["errors"]
    mkinds = collections.Counter()
    for h in model:
        for c in h["cmds"]:
            mkinds[c["kind"]] += 1
    cuts_model = sum(len(h["cuts"]) for h in model)
    recs_model = sum(len(c["records"]) for h in model for c in h["cuts"])
    distinct = len({json.dumps([c["data"] for c in h["cmds"]]) for h in wide}) + len({json.dumps(h["cmds"], sort_keys=True) for h in model})
    cov.update({
        "evaluations": (summary or {}).get("restores", 0) + cuts_model,
        "distinct_nontrivial": distinct,
        "rule": "evaluations = snapshot->restore cycles through the real FSM (every cut of every history: wide histories over ~95 command kinds + model histories of the core store subset); distinct_nontrivial = distinct command sequences; every cycle compares the canonical dump of every table, ~190 read queries with their indexes, every result of the suffix and the final dump; a third of the cuts also persist the Snapshot() only after the rest of the history ran (deferred Persist must restore to the same store), another third snapshot the RESTORED server half way through the suffix and restore that into an FSM that already holds state (chained, second generation)",
        "wide_histories": len(wide), "model_histories": len(model),
        "restore_cycles_wide": (summary or {}).get("restores", 0), "restore_cycles_model": cuts_model,
        "commands_applied": (summary or {}).get("applies", 0),
        "rows_compared": (summary or {}).get("rows_compared", 0), "queries_compared": (summary or {}).get("queries_compared", 0),
        "records_compared_with_model": recs_model,
        "traces_validated_against_impl": len(model) - len(mism),
        "model_mismatches": len(mism),
        "oracle_failures_known": dict(known_sigs), "oracle_failures_unknown": len(unknown),
        "oracle_failure_stages": dict(stage_hist),
        "wide_command_mix": dict(kinds), "wide_commands_rejected_by_fsm": errs, "model_command_mix": dict(mkinds),
        "tables": (summary or {}).get("tables"), "tables_donor_nonempty_cuts": (summary or {}).get("donor_tables"),
        "tables_never_populated_by_generator": (summary or {}).get("never_populated"),
        "tables_never_restored": (summary or {}).get("never_restored"),
        "restorer_record_types": (summary or {}).get("restorer_types"), "fsm_command_types": (summary or {}).get("command_types"),
        "projected_fields": (summary or {}).get("projected_fields"),
        "peering_secret_combinations_at_cuts": (summary or {}).get("peering_secret_combinations_at_cuts"),
        "witness_holds_at_cuts": (summary or {}).get("witness_holds_at_cuts"),
        "deferred_persist_cycles": (summary or {}).get("deferred_persist_cycles"),
        "chained_restore_cycles": (summary or {}).get("chained_restore_cycles"),
        "model_reads_compared_in_coq": sum(len(c.get("qreads") or []) for h in model for c in h["cuts"]),
        "handmade_snapshot_streams_compared_in_coq": sum(len(h.get("streams") or []) for h in model),
        "histories_with_mixed_case_names": sum(1 for h in wide if any(MIXED.search(c["desc"]) for c in h["cmds"])),
        "history_length_histogram": {str(k): v for k, v in sorted(lens.items())},
        "malformed_commands": sum(v for k, v in kinds.items() if k.startswith("malformed")),
        "refutation_witness_replayed_on_implementation": witness_ok,
        "lenient_renderings": "one per open known finding (harness/snaprestore/canon.go maskSet), applied only at cuts where the finding's witness predicate holds on the donor (witness.go computeWitness) and only to the rows / index rows / query names the witness names; without the witness the same difference is a VIOLATION; a difference explained by a finding is reported under {kind, witness}",
        "samples": [{"mix": h["mix"], "cmds": [c["desc"] for c in h["cmds"][:5]]} for h in wide[:2]] +
                   [{"mix": h["mix"], "cmds": h["cmds"][:3], "first_cut_records": h["cuts"][min(3, len(h["cuts"]) - 1)]["records"][:4]} for h in model[:1]],
        "exhaustive": False,
    })
    return ctx.finish(cov, assumptions)
