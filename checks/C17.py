"""C17 — peering: imports mirror exactly what was exported and touch nothing else."""
import json, os, collections
import vlib
from vlib import coq_bool, coq_list, coq_N


def coq_str(s):
    """names in this property are printable ASCII: a Coq string literal elaborates far faster than bs [...]"""
    if all(32 <= ord(ch) < 127 and ch != '"' for ch in s):
        return '"%s"' % s
    return vlib.coq_str(s)

PROP = "C17"
PROP_FILE = "Properties/C17.v"
HARNESS = "peering"


# ------------------------------------------------------------------ Coq terms
# Rows repeat massively (before / after / calls / hints): every distinct row is defined once per
# generated file and referred to by name, which keeps elaboration of the case list fast.

class Tab:
    def __init__(self):
        self.names, self.defs = {}, []

    def ref(self, prefix, term):
        n = self.names.get(term)
        if n is None:
            n = "%s%d" % (prefix, len(self.names))
            self.names[term] = n
            self.defs.append("Definition %s := %s." % (n, term))
        return n


def q_node(t, n):
    return t.ref("n", "Node %s %s %s %s" % (coq_str(n["peer"]), coq_str(n["name"]), coq_str(n["id"]), coq_N(n["body"])))


def q_svc(t, s):
    return t.ref("s", "Svc %s %s %s %s %s %s %s %s %s %s %s" % (
        coq_str(s["peer"]), coq_str(s["node"]), coq_str(s["id"]), coq_str(s["name"]), coq_N(s["tags"]),
        coq_N(s["body"]), coq_N(s["kind"]), coq_bool(s["native"]), coq_str(s["dest"]),
        coq_list([coq_str(u) for u in (s.get("ups") or [])]), coq_bool(s.get("pm", False))))


def q_chk(t, k):
    return t.ref("k", "Chk %s %s %s %s %s %s %s %s" % (
        coq_str(k["peer"]), coq_str(k["node"]), coq_str(k["id"]), coq_str(k["sid"]), coq_str(k["sname"]),
        coq_N(k["stags"]), coq_N(k["status"]), coq_N(k["body"])))


def q_cat(t, c):
    return t.ref("c", "Cat %s %s %s %s" % (
        coq_list([q_node(t, n) for n in c["nodes"]]), coq_list([q_svc(t, s) for s in c["svcs"]]),
        coq_list([q_chk(t, k) for k in c["chks"]]),
        coq_list([t.ref("t", "Topo %s %s %s" % (coq_str(x["up"]), coq_str(x["down"]), coq_list([coq_str(r) for r in x["refs"]])))
                  for x in c["topo"]])))


def q_inst(t, i):
    return "Inst %s %s %s" % (q_node(t, i["node"]), q_svc(t, i["svc"]), coq_list([q_chk(t, k) for k in i["chks"]]))


def q_op(t, o):
    if o["kind"] == "reg":
        sv = ("(Some %s)" % q_svc(t, o["rs"])) if o.get("rs") else "None"
        return "OReg (Reg %s %s %s)" % (q_node(t, o["rn"]), sv, coq_list([q_chk(t, k) for k in (o.get("rc") or [])]))
    if o["kind"] == "dsvc":
        return "ODereg (DSvc %s %s %s)" % (coq_str(o["peer"]), coq_str(o["node"]), coq_str(o["id"]))
    if o["kind"] == "dchk":
        return "ODereg (DChk %s %s %s)" % (coq_str(o["peer"]), coq_str(o["node"]), coq_str(o["id"]))
    return "ODereg (DNode %s %s)" % (coq_str(o["peer"]), coq_str(o["node"]))


def case_to_coq(t, c):
    if c["kind"] == "export":
        entry = coq_list(["(%s, %s)" % (coq_str(e["name"]), coq_list([coq_str(p) for p in e["peers"]])) for e in (c.get("entry") or [])])
        sl = lambda l: coq_list([coq_str(x) for x in (l or [])])
        return "CExport %s %s %s %s %s %s %s %s %s %s" % (coq_str(c["peer"]), coq_bool(c.get("peer_known", False)), entry, sl(c.get("typical")), sl(c.get("connect")),
                                                  sl(c.get("chains")), sl(c.get("tgw")), sl(c.get("bad_chains")), sl(c.get("got_svcs")), sl(c.get("got_chains")))
    if c["kind"] == "upsert":
        ev = "EvUpsert %s %s %s" % (coq_str(c["peer"]), coq_str(c["service"]), coq_list([q_inst(t, i) for i in (c.get("export") or [])]))
    else:
        ev = "EvList %s %s" % (coq_str(c["peer"]), coq_list([coq_str(n) for n in (c.get("names") or [])]))
    h = "Hints %s %s %s %s" % (
        coq_list([coq_str(n) for n in (c.get("hnodes") or [])]),
        coq_list(["(%s, %s)" % (coq_str(a), coq_str(b)) for a, b in (c.get("hsvcs") or [])]),
        coq_list([q_chk(t, k) for k in (c.get("hchks") or [])]),
        coq_list([coq_str(n) for n in (c.get("hnames") or [])]))
    return "CImport %s (%s) (%s) %s %s %s" % (q_cat(t, c["before"]), ev, h, coq_list([q_op(t, o) for o in (c.get("ops") or [])]),
                                             coq_N(c["err"]), q_cat(t, c["after"]))


def shard_text(cases):
    t = Tab()
    body = ";\n  ".join(case_to_coq(t, c) for c in cases)
    return ("From Verif Require Import Base.Prelude Peering.Model Run.C17.\nLocal Open Scope string_scope.\n"
            + "\n".join(t.defs) +
            "\nDefinition cases : list case := [\n  %s\n].\n"
            "Definition M := Eval vm_compute in mismatches cases.\nPrint M.\n" % body)


# ------------------------------------------------------------------ run

def run(ctx):
    info, ok = vlib.proof_stage(ctx, PROP_FILE, ["Run/C17.v"])
    cov = dict(info)
    cov["trusted_base"] = vlib.STD_TRUSTED + [
        "Section hypothesis of Properties/C17.v: every `range` over a Go map is some permutation of its entries (shuffles_ok); nothing else is assumed about iteration order",
        "content the handlers only compare (addresses, meta, ports, weights, proxy config, check output/definition) is one number per row: equal number <-> IsSame on that content (harness hash, 48 bits of SHA-256 of the JSON form; JSON drops the nil/empty distinction of omitempty containers, so every peer row of a generated state is produced by the handler itself, as in production, and local rows are never compared with received ones)",
        "the MODEL takes names as lower-case ASCII without NUL (memdb lower-cases every key component; strings.EqualFold is then plain equality); names re-spelled in another letter case are generated in oracle-only worlds and judged by the Go oracle; the peer name is not the local keyword \"~\"; service weights present and valid; no prepared-query upstreams",
        "modelled, not verified: go-memdb (unique primary index = replace on insert, transaction abort on error), msgpack/protobuf round trips of the requests, the index table / watch channels, virtual-IP allocation (compared with the model only with the virtual-ips flag off; with the flag on the Go oracle projects the stamped address away), gateway-services (outside the model; local wildcard gateways are seeded in the oracle-only worlds, where the frame oracle watches that table), ACLs, the gRPC stream and its ACK/NACK framing, Enterprise partitions/namespaces",
        "projected away by the frame oracle (shared by design): un-prefixed rows of the index table (table-wide watermarks over all peers), the free-virtual-ips allocator table",
    ]
    assumptions = ["Go map iteration is a permutation of the entries",
                   "hash equality stands for IsSame on opaque content", "lower-case ASCII names"]
    if not ok:
        cov.update({"evaluations": 0, "distinct_nontrivial": 0, "rule": "proof stage failed", "samples": []})
        return ctx.finish(cov, assumptions)

    binp = vlib.go_build(HARNESS)
    out = os.path.join(ctx.workdir, "cases.jsonl")
    rc, o = vlib.sh([binp, "-seed", str(ctx.seed), "-tier", ctx.tier, "-out", out], timeout=3000)
    if rc != 0:
        raise vlib.BuildError("harness run failed: " + o[-2000:])

    total = 0
    gens, errs, flags, opk = collections.Counter(), collections.Counter(), collections.Counter(), collections.Counter()
    sizes = collections.Counter()
    coq_cases, oracle_fail, seen = [], [], set()
    distinct = 0
    for line in open(out):
        c = json.loads(line)
        total += 1
        gens[c["gen"] + ("/vip" if c.get("vip") else "")] += 1
        errs[c["err"]] += 1
        for f, v in (c.get("flags") or {}).items():
            if v:
                flags[f] += 1
        for o_ in c.get("ops") or []:
            opk[o_["kind"]] += 1
        if c["kind"] == "upsert":
            sizes["instances=%d" % min(len(c.get("export") or []), 4)] += 1
        key = json.dumps([c.get("before"), c.get("export"), c.get("names"), c.get("entry"), c.get("peer"), c.get("service"),
                          c.get("typical"), c.get("chains")], sort_keys=True)
        nontrivial = bool(c.get("ops")) or c["kind"] == "export"
        if key not in seen and nontrivial:
            seen.add(key)
            distinct += 1
        if c["to_coq"]:
            coq_cases.append(c)
        if c["oracle"]:
            oracle_fail.append(c)

    # ---- model vs implementation, inside Coq ----
    per = 250
    shards = [coq_cases[i:i + per] for i in range(0, len(coq_cases), per)]
    res = vlib.coq_run_shards(PROP, [shard_text(s) for s in shards], jobs=6 if ctx.tier == "quick" else 8)
    mism = []
    for s, (okk, idx, raw) in zip(shards, res):
        if not okk:
            ctx.violation({"kind": "case-file-failed", "log": raw}, found_input=False)
            continue
        mism += [s[i] for i in idx]

    # ---- direct oracle on the implementation ----
    new_fail = []
    known_hits = collections.Counter()
    for c in oracle_fail:
        f = vlib.match_known(PROP, c.get("sig") or {})
        if f:
            ctx.known(f, f["what"])
            known_hits[f.get("id", f["what"][:40])] += 1
        else:
            new_fail.append(c)
    for c in new_fail[:5]:
        ctx.violation({"kind": "oracle", "reason": c["oracle"][:4000], "signature": c.get("sig"), "gen": c["gen"],
                       "peer": c["peer"], "service": c.get("service"), "export": c.get("export"), "names": c.get("names"),
                       "before": c.get("before"), "after": c.get("after"), "ops": c.get("ops"), "err": c["err"],
                       "errmsg": c.get("errmsg"), "flags": c.get("flags"), "entry": c.get("entry"),
                       "got_svcs": c.get("got_svcs"), "got_chains": c.get("got_chains"),
                       "replay": c.get("replay"), "replay_cmd": "build/bin/peering -replay <this file>"})
    extra_runs = 0
    if mism and not new_fail:
        # the model and the code disagree but the oracle is silent: look harder for a failing
        # input (fresh seeds, oracle only) before reporting the broken correspondence
        for k in range(1, 4):
            out2 = os.path.join(ctx.workdir, "extra_%d.jsonl" % k)
            rc2, _ = vlib.sh([binp, "-seed", str(ctx.seed * 1000 + k), "-tier", "quick", "-out", out2], timeout=3000)
            if rc2 != 0:
                continue
            extra_runs += 1
            for line in open(out2):
                c2 = json.loads(line)
                if c2["oracle"] and not vlib.match_known(PROP, c2.get("sig") or {}):
                    new_fail.append(c2)
            if new_fail:
                break
        for c2 in new_fail[:3]:
            ctx.violation({"kind": "oracle", "found_by": "extended search after a correspondence mismatch",
                           "reason": c2["oracle"][:4000], "signature": c2.get("sig"), "gen": c2["gen"], "peer": c2["peer"],
                           "service": c2.get("service"), "export": c2.get("export"), "names": c2.get("names"),
                           "before": c2.get("before"), "after": c2.get("after"), "ops": c2.get("ops"), "err": c2["err"],
                           "replay": c2.get("replay"), "replay_cmd": "build/bin/peering -replay <this file>"})
    if mism and not new_fail:
        c = mism[0]
        ctx.violation({"kind": "correspondence", "theorem": "Run.C17.check (model handle / exported_services = implementation)",
                       "mismatching_cases": len(mism),
                       "first": {k: c.get(k) for k in ("kind", "gen", "peer", "service", "export", "names", "before", "after", "ops",
                                                       "err", "errmsg", "hnodes", "hsvcs", "hchks", "hnames", "entry", "typical",
                                                       "connect", "chains", "got_svcs", "got_chains")},
                       "replay": c.get("replay"), "replay_cmd": "build/bin/peering -replay <this file>"},
                      found_input=False)

    samples = []
    for c in (coq_cases[:2] + [x for x in coq_cases if x["kind"] == "list"][:1] + [x for x in coq_cases if x["kind"] == "export"][:1]):
        samples.append({"kind": c["kind"], "gen": c["gen"], "peer": c["peer"], "service": c.get("service"),
                        "instances": len(c.get("export") or []), "ops": [o_["kind"] for o_ in (c.get("ops") or [])], "err": c["err"],
                        "names": c.get("names"), "entry": c.get("entry"), "got_svcs": c.get("got_svcs")})
    cov.update({
        "evaluations": total,
        "distinct_nontrivial": distinct,
        "rule": "one case = one event processed by the real handler on a real store (or one ExportedServicesForPeer call); distinct_nontrivial = cases with a distinct (prior catalog, event) pair that produced at least one Backend call (import) or any export case",
        "traces_validated_against_impl": len(coq_cases),
        "model_mismatches": len(mism),
        "extended_search_runs": extra_runs,
        "oracle_failures": len(oracle_fail),
        "oracle_failures_unknown": len(new_fail),
        "known_finding_hits": dict(known_hits),
        "generators": dict(gens),
        "error_classes": {str(k): v for k, v in errs.items()},
        "snapshot_classes": dict(flags),
        "backend_calls": dict(opk),
        "snapshot_sizes": dict(sizes),
        "samples": samples,
        "exhaustive": False,
    })
    return ctx.finish(cov, assumptions)
