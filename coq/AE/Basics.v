(* C16 — basic facts about the model's building blocks: pointwise lookup lemmas for every map
   operation the model performs. *)
From Verif Require Import Base.Prelude AE.Model.
From stdpp Require Import gmap.

Lemma next_nil : next [] = (OOk, []).
Proof. reflexivity. Qed.

(* ------------------------------------------------------------------ keys *)

Lemma In_keys {A} (m : gmap N A) k : In k (keys m) <-> is_Some (m !! k).
Proof.
  unfold keys. rewrite <- elem_of_list_In, elem_of_list_fmap. split.
  - intros [[k' v] [-> H]]. apply elem_of_map_to_list in H. eauto.
  - intros [v H]. exists (k, v). split; [reflexivity|]. apply elem_of_map_to_list. exact H.
Qed.

(* ------------------------------------------------------------------ stamp, register *)

(* what of a check definition is the agent's: everything except ServiceName / ServiceTags
   (copied by the catalog from its service row) and an empty status (defaulted to critical) *)
Definition chk_core_upto (blank : bool) (d : chk) : N * N * N * N :=
  (ck_sid d, status_default (ck_status d), if blank then 0%N else ck_out d, ck_rest d).
Definition chk_core (d : chk) : N * N * N * N := chk_core_upto false d.
(* neither contains [ck_aux]: the catalog stores it, but HealthCheck.IsSame never looks at it, so
   "held" in the sense the agent can establish cannot include it (C16_ignored_fields_refuted) *)

Lemma chk_core_weaken b r d : chk_core r = chk_core d -> chk_core_upto b r = chk_core_upto b d.
Proof. unfold chk_core, chk_core_upto. intros [= E1 E2 E3 E4]. rewrite E1, E2, E3, E4. reflexivity. Qed.

Lemma status_default_idem s : status_default (status_default s) = status_default s.
Proof. unfold status_default. destruct (N.eqb_spec s 0) as [->|E]; [reflexivity|]. destruct (N.eqb_spec s 0); [contradiction|reflexivity]. Qed.

Lemma stamp_Some svcs d r :
  stamp svcs d = Some r ->
  chk_core r = chk_core d /\ (ck_sid d = 0%N \/ is_Some (svcs !! ck_sid d)).
Proof.
  unfold stamp, chk_core, chk_core_upto. destruct (N.eqb_spec (ck_sid d) 0) as [E|E].
  - intros [= <-]. cbn. rewrite status_default_idem. auto.
  - destruct (svcs !! ck_sid d) eqn:L; [|discriminate]. intros [= <-]. cbn. rewrite status_default_idem.
    split; [reflexivity|eauto].
Qed.

Lemma stamp_is_Some svcs d :
  ck_sid d = 0%N \/ is_Some (svcs !! ck_sid d) -> is_Some (stamp svcs d).
Proof.
  unfold stamp. destruct (N.eqb_spec (ck_sid d) 0) as [E|E]; [eauto|].
  intros [?|[s Hs]]; [contradiction|]. rewrite Hs. eauto.
Qed.

Lemma stamp_sid svcs d r : stamp svcs d = Some r -> ck_sid r = ck_sid d.
Proof. intros H. apply stamp_Some in H as [H _]. unfold chk_core, chk_core_upto in H. congruence. Qed.

Lemma reg_svcs_lookup sv (m : gmap N svc) k :
  reg_svcs sv m !! k = match sv with
                       | Some (id, d) => if decide (id = k) then Some d else m !! k
                       | None => m !! k
                       end.
Proof.
  destruct sv as [[id d]|]; cbn [reg_svcs]; [|reflexivity].
  destruct (decide (id = k)) as [->|Hne]; [apply lookup_insert|apply lookup_insert_ne; exact Hne].
Qed.

Lemma reg_svcs_mono sv (m : gmap N svc) k : is_Some (m !! k) -> is_Some (reg_svcs sv m !! k).
Proof.
  rewrite reg_svcs_lookup. destruct sv as [[id d]|]; [|auto]. destruct (decide (id = k)); eauto.
Qed.

Lemma forallb_map_to_list {A} (f : A -> bool) (m : gmap N A) :
  forallb (fun kc : N * A => f (snd kc)) (map_to_list m) = true <->
  (forall k d, m !! k = Some d -> f d = true).
Proof.
  rewrite forallb_forall. split.
  - intros H k d Hk. apply (H (k, d)). apply elem_of_list_In, elem_of_map_to_list. exact Hk.
  - intros H [k d] Hin. apply elem_of_list_In, elem_of_map_to_list in Hin. exact (H k d Hin).
Qed.

Lemma is_some_true {A} (o : option A) : is_some o = true <-> is_Some o.
Proof. destruct o; cbn; split; intros H; eauto; try discriminate. destruct H; discriminate. Qed.

Lemma chk_isame_core b d r : chk_isame d r = true -> chk_core_upto b r = chk_core_upto b d.
Proof.
  unfold chk_isame, chk_cmp, chk_core_upto. intros H. apply bool_decide_eq_true in H.
  injection H as E1 E2 E3 E4 E5 E6. rewrite E1, E2, E3, E4. reflexivity.
Qed.

Lemma keep_same_core old r : chk_core (keep_same old r) = chk_core r /\ ck_sid (keep_same old r) = ck_sid r.
Proof.
  unfold keep_same. destruct old as [o|]; [|auto]. destruct (chk_isame o r) eqn:E; [|auto].
  split; [symmetry; apply (chk_isame_core false); exact E|].
  unfold chk_isame, chk_cmp in E. apply bool_decide_eq_true in E. congruence.
Qed.

Lemma cat_register_Some ni skip sv chks c c' :
  cat_register ni skip sv chks c = Some c' ->
  c_node c' = reg_node ni skip (c_node c) /\
  c_svcs c' = reg_svcs sv (c_svcs c) /\
  c_chks c' = merge (reg_chk (reg_svcs sv (c_svcs c))) chks (c_chks c) /\
  (forall k d, chks !! k = Some d -> is_Some (stamp (reg_svcs sv (c_svcs c)) d)).
Proof.
  unfold cat_register.
  destruct (forallb _ _) eqn:F; [|discriminate]. intros [= <-]. cbn.
  repeat split. intros k d Hk.
  apply (forallb_map_to_list (fun d => is_some (stamp (reg_svcs sv (c_svcs c)) d))) with (k:=k) (d:=d) in F; [|exact Hk].
  apply is_some_true. exact F.
Qed.

Lemma cat_register_ok ni skip sv chks c :
  (forall k d, chks !! k = Some d -> is_Some (stamp (reg_svcs sv (c_svcs c)) d)) ->
  is_Some (cat_register ni skip sv chks c).
Proof.
  intros H. unfold cat_register.
  assert (F : forallb (fun kc : N * chk => is_some (stamp (reg_svcs sv (c_svcs c)) (snd kc))) (map_to_list chks) = true).
  { apply (forallb_map_to_list (fun d => is_some (stamp (reg_svcs sv (c_svcs c)) d))).
    intros k d Hk. apply is_some_true. eauto. }
  rewrite F. eauto.
Qed.

Lemma reg_chks_lookup svcs (chks old : gmap N chk) k :
  merge (reg_chk svcs) chks old !! k =
  match chks !! k with
  | Some d => match stamp svcs d with Some r => Some (keep_same (old !! k) r) | None => old !! k end
  | None => old !! k
  end.
Proof.
  rewrite lookup_merge. unfold reg_chk.
  destruct (chks !! k) as [d|], (old !! k); cbn; try reflexivity; destruct (stamp svcs d); reflexivity.
Qed.

(* ------------------------------------------------------------------ deregister *)

Lemma dereg_svc_svcs id c k :
  c_svcs (cat_dereg_svc id c) !! k = if decide (id = k) then None else c_svcs c !! k.
Proof.
  unfold cat_dereg_svc. destruct (c_svcs c !! id) eqn:L; cbn.
  - destruct (decide (id = k)) as [->|Hne]; [apply lookup_delete|apply lookup_delete_ne; exact Hne].
  - destruct (decide (id = k)) as [->|Hne]; [exact L|reflexivity].
Qed.

Lemma dereg_svc_chks id c k :
  c_chks (cat_dereg_svc id c) !! k =
  match c_svcs c !! id with
  | None => c_chks c !! k
  | Some _ => match c_chks c !! k with
              | Some r => if decide (ck_sid r = id) then None else Some r
              | None => None
              end
  end.
Proof.
  unfold cat_dereg_svc. destruct (c_svcs c !! id) eqn:L; cbn; [|reflexivity].
  destruct (c_chks c !! k) as [r|] eqn:Lk.
  - destruct (decide (ck_sid r = id)) as [E|E].
    + apply map_filter_lookup_None. right. intros r' Hr'. cbn. rewrite Lk in Hr'. injection Hr' as <-. tauto.
    + apply map_filter_lookup_Some. split; [exact Lk|exact E].
  - apply map_filter_lookup_None. left. exact Lk.
Qed.

Lemma dereg_svc_node id c : c_node (cat_dereg_svc id c) = c_node c.
Proof. unfold cat_dereg_svc. destruct (c_svcs c !! id); reflexivity. Qed.

(* ------------------------------------------------------------------ piggy-backed checks *)

Lemma pig_of_lookup g id tok (m : gmap N centry) k :
  pig_of g id tok m !! k =
  match m !! k with Some e => if is_pig g id tok e then ce_def e else None | None => None end.
Proof. unfold pig_of. rewrite lookup_omap. destruct (m !! k); reflexivity. Qed.

Lemma mark_pig_lookup g id tok (m : gmap N centry) k :
  mark_pig g id tok m !! k =
  match m !! k with Some e => Some (if is_pig g id tok e then ce_set_sync true e else e) | None => None end.
Proof. unfold mark_pig. rewrite lookup_fmap. destruct (m !! k); reflexivity. Qed.

Lemma is_pig_spec g id tok e :
  is_pig g id tok e = true ->
  exists d, ce_def e = Some d /\ ce_del e = false /\ ce_sync e = false /\ ck_sid d = id.
Proof.
  unfold is_pig. destruct (ce_def e) as [d|]; [|discriminate].
  intros H. repeat (apply andb_true_iff in H as [H ?]).
  exists d. repeat split; try (apply negb_true_iff; assumption). apply N.eqb_eq. assumption.
Qed.

Lemma prune_lookup_Some id (m : gmap N centry) k e :
  prune_chks id m !! k = Some e <-> m !! k = Some e /\ prunable id e = false.
Proof. unfold prune_chks. rewrite map_filter_lookup_Some. reflexivity. Qed.

Lemma prune_lookup_None id (m : gmap N centry) k :
  prune_chks id m !! k = None <-> m !! k = None \/ exists e, m !! k = Some e /\ prunable id e = true.
Proof.
  unfold prune_chks. rewrite map_filter_lookup_None. split.
  - intros [H|H]; [auto|]. destruct (m !! k) as [e|] eqn:L; [|auto]. right. exists e. split; [reflexivity|].
    specialize (H e eq_refl). cbn in H. destruct (prunable id e); [reflexivity|contradiction H; reflexivity].
  - intros [H|[e [L P]]]; [auto|]. right. intros e' L'. rewrite L in L'. injection L' as <-. cbn. congruence.
Qed.

Lemma prunable_spec id e :
  prunable id e = true <-> ce_del e = true /\ exists d, ce_def e = Some d /\ ck_sid d = id.
Proof.
  unfold prunable. split.
  - intros H. apply andb_true_iff in H as [H1 H2]. split; [exact H1|].
    destruct (ce_def e) as [d|]; [|discriminate]. exists d. split; [reflexivity|apply N.eqb_eq; exact H2].
  - intros [H1 [d [H2 H3]]]. rewrite H1, H2. cbn. apply N.eqb_eq. exact H3.
Qed.

(* ------------------------------------------------------------------ updateSyncState, pointwise *)

Lemma exempt_lookup {A} id (loc m : gmap N A) k :
  exempt id loc m !! k = if decide (id = k) then (match loc !! id with None => None | Some _ => m !! k end) else m !! k.
Proof.
  unfold exempt. destruct (loc !! id) eqn:L.
  - destruct (decide (id = k)); reflexivity.
  - destruct (decide (id = k)) as [->|Hne]; [apply lookup_delete|apply lookup_delete_ne; exact Hne].
Qed.

Lemma uss_svcs_lookup g st c k :
  l_svcs (uss_apply g st c) !! k =
  if decide (g_consul g = k)
  then match l_svcs st !! k with None => None | Some _ => uss_svc (l_svcs st !! k) (c_svcs c !! k) end
  else uss_svc (l_svcs st !! k) (c_svcs c !! k).
Proof.
  cbn. rewrite exempt_lookup, lookup_merge.
  destruct (decide (g_consul g = k)) as [->|Hne].
  - destruct (l_svcs st !! k), (c_svcs c !! k); reflexivity.
  - destruct (l_svcs st !! k), (c_svcs c !! k); reflexivity.
Qed.

Lemma uss_chks_lookup g st c k :
  l_chks (uss_apply g st c) !! k =
  if decide (g_serf g = k)
  then match l_chks st !! k with None => None | Some _ => uss_chk (g_interval g) (l_chks st !! k) (c_chks c !! k) end
  else uss_chk (g_interval g) (l_chks st !! k) (c_chks c !! k).
Proof.
  cbn. rewrite exempt_lookup, lookup_merge.
  destruct (decide (g_serf g = k)) as [->|Hne].
  - destruct (l_chks st !! k), (c_chks c !! k); reflexivity.
  - destruct (l_chks st !! k), (c_chks c !! k); reflexivity.
Qed.
