(* C16 — the service half of the sync theorems needs no hypothesis on the local state at all
   (the malformed stream of the correspondence check exercises such states). *)
From Verif Require Import Base.Prelude AE.Model AE.Basics AE.Steps AE.Inv AE.Proofs.
From stdpp Require Import gmap.

Record INVS (st0 : lstate) (c0 : cat) (st : lstate) (c : cat) (log : list event) : Prop := {
  invs_svcs : forall id e, l_svcs st !! id = Some e -> exists e0, l_svcs st0 !! id = Some e0 /\ sle e e0;
  invs_sgone : forall id e0, l_svcs st0 !! id = Some e0 -> l_svcs st !! id = None ->
                             se_del e0 = true /\ c_svcs c !! id = None;
  invs_hs : forall id e d, l_svcs st !! id = Some e -> se_sync e = true -> se_del e = false -> se_def e = Some d ->
              holds_svc c id d \/ refused_svc log id \/ (l_svcs st0 !! id = Some e /\ ~ holds_svc c0 id d)
}.

Lemma INVS_init st0 c0 : INVS st0 c0 st0 c0 [].
Proof.
  split; eauto using sle_refl; try congruence.
  intros id e d L S D F. destruct (decide (holds_svc c0 id d)); auto.
Qed.

Lemma INVS_step g st0 c0 st c log st' c' ev :
  INVS st0 c0 st c log -> Step g st c st' c' ev -> INVS st0 c0 st' c' (log ++ [ev]).
Proof.
  intros [Is Isg Ihs] H. split.
  - intros id e L. destruct (step_svcs_back _ _ _ _ _ _ _ _ H L) as (e1 & L1 & S1).
    destruct (Is id e1 L1) as (e0 & L0 & S0). eauto using sle_trans.
  - intros id e0 L0 N. destruct (l_svcs st !! id) as [e|] eqn:L.
    + split; [|eapply step_svcs_gone_cat; eauto].
      destruct (Is id e L) as (e0' & L0' & S0). apply sle_def in S0 as (_ & Sl & _).
      pose proof (step_svcs_gone _ _ _ _ _ _ _ _ H L N). congruence.
    + destruct (Isg id e0 L0 L) as [D Cn]. split; [exact D|].
      destruct (step_csvcs _ _ _ _ _ _ id H) as [E|[(e & dx & Le & _)|(e & Le & _)]]; congruence.
  - intros id e' d L' S' D' F'.
    destruct (step_svcs_back _ _ _ _ _ _ _ _ H L') as (e1 & L1 & S1).
    pose proof (sle_def _ _ S1) as (Sd & Sl & _).
    destruct (se_sync e1) eqn:Sy1.
    + assert (e' = e1) as -> by (destruct S1 as [->| ->]; [reflexivity|apply se_set_sync_id; exact Sy1]).
      destruct (Ihs id e1 d L1 Sy1 D' F') as [Hh|[Hr|Ho]].
      * left. eapply step_keep_svc; eauto.
      * right; left. apply refused_svc_mono. exact Hr.
      * auto.
    + destruct (step_mark_svc _ _ _ _ _ _ _ _ _ H L1 L' Sy1 S') as (dx & Fx & [Hh|(R1 & R2 & R3)]); [congruence| |].
      * left. congruence.
      * right; left. exists ev. split; [apply in_or_app; right; left; reflexivity|auto].
Qed.

Lemma INVS_map_pred st0 c0 : map_pred (INVS st0 c0).
Proof.
  intros st c log st' c' log' Es Ec Ecs Ecc Hl [Is Isg Ihs].
  split; unfold holds_svc in *; rewrite ?Es, ?Ecs; auto.
  intros id e d L S D F. destruct (Ihs id e d L S D F) as [?|[(x & Hx & ?)|?]]; auto.
  right; left. exists x. auto.
Qed.

Lemma sync_changes_INVS g os oc st c fs st' c' fs' log err :
  sync_changes g os oc st c fs = (st', c', fs', log, err) -> INVS st c st' c' log.
Proof.
  intros E.
  pose proof (sync_changes_pres g (INVS st c) os oc st c fs (INVS_map_pred st c)) as H.
  rewrite E in H. apply H; [|apply INVS_init].
  intros. eapply INVS_step; eauto.
Qed.

(* services, ANY local state, any catalog, any faults, any order *)
Theorem svc_any_changes g os oc st c fs st' c' fs' log err :
  sync_changes g os oc st c fs = (st', c', fs', log, err) ->
  (forall id e d, l_svcs st' !! id = Some e -> se_sync e = true -> se_del e = false -> se_def e = Some d ->
     holds_svc c' id d \/ refused_svc log id \/ l_svcs st !! id = Some e) /\
  (forall id e, l_svcs st !! id = Some e -> se_del e = true ->
     (exists e', l_svcs st' !! id = Some e' /\ se_del e' = true) \/ c_svcs c' !! id = None).
Proof.
  intros E. pose proof (sync_changes_INVS _ _ _ _ _ _ _ _ _ _ _ E) as I. split.
  - intros id e d L S D F. destruct (invs_hs _ _ _ _ _ I id e d L S D F) as [?|[?|[? _]]]; auto.
  - intros id e L D. destruct (l_svcs st' !! id) as [e'|] eqn:L'.
    + left. exists e'. split; [reflexivity|].
      destruct (invs_svcs _ _ _ _ _ I id e' L') as (e0 & L0 & S0). apply sle_def in S0 as (_ & Sl & _). congruence.
    + right. exact (proj2 (invs_sgone _ _ _ _ _ I id e L L')).
Qed.

Theorem svc_any_full g os oc st c fs st' c' fs' log err :
  sync_full g os oc st c fs = (st', c', fs', log, err) ->
  (st' = st /\ c' = c /\ err = true) \/
  ((forall id e d, l_svcs st' !! id = Some e -> se_sync e = true -> se_del e = false -> se_def e = Some d ->
      holds_svc c' id d \/ refused_svc log id) /\
   (forall id e, l_svcs st !! id = Some e -> se_del e = true ->
      (exists e', l_svcs st' !! id = Some e' /\ se_del e' = true) \/ c_svcs c' !! id = None)).
Proof.
  intros E. apply sync_full_cases in E as [(-> & -> & -> & _)|(fs1 & la & lb & _ & _ & E & ->)]; [auto|]. right.
  pose proof (sync_changes_INVS _ _ _ _ _ _ _ _ _ _ _ E) as I. split.
  - intros id e d L S D F. destruct (invs_hs _ _ _ _ _ I id e d L S D F) as [?|[?|[L1 N]]]; auto.
    + right. apply refused_svc_app. auto.
    + exfalso. apply N. eapply uss_held_svc; eauto.
  - intros id e L D. destruct (uss_svcs_old g st c id e L) as (e1 & L1 & Dl & _).
    destruct (l_svcs st' !! id) as [e'|] eqn:L'.
    + left. exists e'. split; [reflexivity|].
      destruct (invs_svcs _ _ _ _ _ I id e' L') as (e0 & L0 & S0). apply sle_def in S0 as (_ & Sl & _). congruence.
    + right. exact (proj2 (invs_sgone _ _ _ _ _ I id e1 L1 L')).
Qed.
