(* C16 — convergence of a fault-free full sync, and retry of entries the catalog does not hold. *)
From Verif Require Import Base.Prelude AE.Model AE.Basics AE.Steps AE.Inv AE.Proofs.
From stdpp Require Import gmap.

(* ------------------------------------------------------------------ fault-free iterations *)

Definition done_s (st : lstate) (id : N) : Prop :=
  l_svcs st !! id = None \/ exists e, l_svcs st !! id = Some e /\ se_del e = false /\ se_sync e = true.
Definition done_c (st : lstate) (id : N) : Prop :=
  l_chks st !! id = None \/ exists e, l_chks st !! id = Some e /\ ce_del e = false /\ ce_sync e = true.

Definition all_ok (log : list event) : Prop := forall ev, In ev log -> e_out ev = OOk.

Definition AllOk (g : cfg) (a : acc) : Prop :=
  let '(st, c, fs, log, err) := a in
  fs = [] /\ err = false /\ wf_local st /\ all_ok log /\ c_node c = Some (g_ni g) /\ l_node st = true.

Lemma AllOk_intro g st c log :
  wf_local st -> all_ok log -> c_node c = Some (g_ni g) -> l_node st = true -> AllOk g (st, c, [], log, false).
Proof. intros. repeat split; auto; apply H. Qed.

Lemma all_ok_snoc log ev : all_ok log -> e_out ev = OOk -> all_ok (log ++ [ev]).
Proof. intros H E x Hx. apply in_app_or in Hx as [Hx|[<-|[]]]; auto. Qed.

Lemma reg_node_same ni skip : reg_node ni skip (Some ni) = Some ni.
Proof. destruct skip; reflexivity. Qed.

Lemma step_svc_ok g a id :
  AllOk g a -> AllOk g (step_svc g a id) /\ done_s (fst (fst (fst (fst (step_svc g a id))))) id.
Proof.
  destruct a as [[[[st c] fs] log] err]. intros (-> & -> & W & Hl & Hn & Ln).
  pose proof W as (W1 & W2 & W3). unfold step_svc.
  destruct (l_svcs st !! id) as [e|] eqn:L; [|split; [apply AllOk_intro; auto|left; exact L]].
  destruct (se_del e) eqn:D.
  - unfold delete_service, push. cbn. split.
    + refine (conj eq_refl (conj eq_refl (conj _ (conj _ (conj _ _))))); [|apply all_ok_snoc; auto|rewrite dereg_svc_node; exact Hn|exact Ln].
      eapply (step_wf_local g st c); [eapply St_delsvc_ok; eauto|exact W].
    + left. apply lookup_delete.
  - destruct (se_sync e) eqn:S; [split; [apply AllOk_intro; auto|right; eauto]|].
    destruct (W1 id e L D) as [d F]. rewrite F.
    unfold sync_service, push. cbn [next].
    destruct (cat_register_ok (g_ni g) (l_node st) (Some (id, d))
                (pig_of g id (reg_token g (se_tok e) (se_loc e)) (l_chks st)) c) as [c1 R].
    { intros k dk Hk. rewrite pig_of_lookup in Hk. destruct (l_chks st !! k) as [x|]; [|discriminate].
      destruct (is_pig g id _ x) eqn:P; [|discriminate]. destruct (is_pig_spec _ _ _ _ P) as (dx & Fx & _ & _ & Bx).
      apply stamp_is_Some. right. assert (dk = dx) by congruence. subst dk. rewrite Bx, reg_svcs_lookup.
      destruct (decide (id = id)); [eauto|contradiction]. }
    rewrite R. cbn. split.
    + refine (conj eq_refl (conj eq_refl (conj _ (conj _ (conj _ _))))); [|apply all_ok_snoc; auto| |reflexivity].
      * eapply (step_wf_local g st c); [eapply St_svc_ok; eauto|exact W].
      * apply cat_register_Some in R as (Hnode & _). rewrite Hnode, Hn. apply reg_node_same.
    + right. exists (se_set_sync true e). cbn. rewrite lookup_insert. auto.
Qed.

Lemma step_chk_ok g a id :
  AllOk g a -> AllOk g (step_chk g a id) /\ done_c (fst (fst (fst (fst (step_chk g a id))))) id.
Proof.
  destruct a as [[[[st c] fs] log] err]. intros (-> & -> & W & Hl & Hn & Ln).
  pose proof W as (W1 & W2 & W3). unfold step_chk.
  destruct (l_chks st !! id) as [e|] eqn:L; [|split; [apply AllOk_intro; auto|left; exact L]].
  destruct (ce_del e) eqn:D.
  - unfold delete_check, push. cbn. split.
    + refine (conj eq_refl (conj eq_refl (conj _ (conj _ (conj _ _))))); [|apply all_ok_snoc; auto|exact Hn|exact Ln].
      eapply (step_wf_local g st c); [eapply St_delchk_ok; eauto|exact W].
    + left. apply lookup_delete.
  - destruct (ce_sync e) eqn:S; [split; [apply AllOk_intro; auto|right; eauto]|].
    destruct (W2 id e L D) as (d & F & Hs). rewrite F.
    unfold sync_check, push. fold (sync_sv st d). cbn [next].
    destruct (cat_register_ok (g_ni g) (l_node st) (sync_sv st d) {[id := d]} c) as [c1 R].
    { intros k dk Hk. apply lookup_singleton_Some in Hk as [<- <-]. apply stamp_is_Some.
      destruct Hs as [Hs|(s & Ls & Ds)]; [auto|]. right.
      destruct (W1 _ s Ls Ds) as [sd Fs]. unfold sync_sv. rewrite Ls, Ds, Fs, reg_svcs_lookup.
      destruct (decide (ck_sid d = ck_sid d)); [eauto|contradiction]. }
    rewrite R. cbn. split.
    + refine (conj eq_refl (conj eq_refl (conj _ (conj _ (conj _ _))))); [|apply all_ok_snoc; auto| |reflexivity].
      * eapply (step_wf_local g st c); [eapply St_chk_ok; eauto|exact W].
      * apply cat_register_Some in R as (Hnode & _). rewrite Hnode, Hn. apply reg_node_same.
    + right. exists (ce_set_sync true (ce_clear_defer e)). cbn. rewrite lookup_insert. auto.
Qed.

Lemma done_s_step g st c st' c' ev id : Step g st c st' c' ev -> done_s st id -> done_s st' id.
Proof.
  intros H Hd. destruct (l_svcs st' !! id) as [e'|] eqn:L'; [|left; exact L'].
  destruct (step_svcs_back _ _ _ _ _ _ _ _ H L') as (e1 & L1 & S1). right. exists e'. split; [exact L'|].
  destruct Hd as [N|(e & L & D & S)]; [congruence|]. assert (e1 = e) by congruence. subst e1.
  destruct S1 as [->| ->]; cbn; auto.
Qed.

Lemma done_c_step g st c st' c' ev id : Step g st c st' c' ev -> done_c st id -> done_c st' id.
Proof.
  intros H Hd. destruct (l_chks st' !! id) as [e'|] eqn:L'; [|left; exact L'].
  destruct (step_chks_back _ _ _ _ _ _ _ _ H L') as (e1 & L1 & S1). right. exists e'. split; [exact L'|].
  destruct Hd as [N|(e & L & D & S)]; [congruence|]. assert (e1 = e) by congruence. subst e1.
  rewrite (cle_sync _ _ S1 S). auto.
Qed.

Definition st_of (a : acc) : lstate := fst (fst (fst (fst a))).

Lemma done_s_stepped g a a' id : a' = a \/ stepped g a a' -> done_s (st_of a) id -> done_s (st_of a') id.
Proof.
  intros [->|H]; [auto|]. destruct a as [[[[st c] fs] log] err], a' as [[[[st' c'] fs'] log'] err'].
  destruct H as (ev & er & Hs & _). cbn. eapply done_s_step; eauto.
Qed.
Lemma done_c_stepped g a a' id : a' = a \/ stepped g a a' -> done_c (st_of a) id -> done_c (st_of a') id.
Proof.
  intros [->|H]; [auto|]. destruct a as [[[[st c] fs] log] err], a' as [[[[st' c'] fs'] log'] err'].
  destruct H as (ev & er & Hs & _). cbn. eapply done_c_step; eauto.
Qed.

Lemma fold_svc_ok g os a :
  AllOk g a ->
  AllOk g (fold_left (step_svc g) os a) /\
  (forall id, In id os \/ done_s (st_of a) id -> done_s (st_of (fold_left (step_svc g) os a)) id) /\
  (forall id, done_c (st_of a) id -> done_c (st_of (fold_left (step_svc g) os a)) id).
Proof.
  revert a. induction os as [|x os IH]; intros a Ha; cbn [fold_left].
  - split; [exact Ha|]. split; [intros id [[]|H]; exact H|auto].
  - destruct (step_svc_ok g a x Ha) as [Ha' Dx]. destruct (IH _ Ha') as (I1 & I2 & I3). split; [exact I1|]. split.
    + intros id [[<-|Hin]|Hd]; apply I2; auto. right. eapply done_s_stepped; [apply step_svc_stepped|exact Hd].
    + intros id Hd. apply I3. eapply done_c_stepped; [apply step_svc_stepped|exact Hd].
Qed.

Lemma fold_chk_ok g oc a :
  AllOk g a ->
  AllOk g (fold_left (step_chk g) oc a) /\
  (forall id, In id oc \/ done_c (st_of a) id -> done_c (st_of (fold_left (step_chk g) oc a)) id) /\
  (forall id, done_s (st_of a) id -> done_s (st_of (fold_left (step_chk g) oc a)) id).
Proof.
  revert a. induction oc as [|x oc IH]; intros a Ha; cbn [fold_left].
  - split; [exact Ha|]. split; [intros id [[]|H]; exact H|auto].
  - destruct (step_chk_ok g a x Ha) as [Ha' Dx]. destruct (IH _ Ha') as (I1 & I2 & I3). split; [exact I1|]. split.
    + intros id [[<-|Hin]|Hd]; apply I2; auto. right. eapply done_c_stepped; [apply step_chk_stepped|exact Hd].
    + intros id Hd. apply I3. eapply done_s_stepped; [apply step_chk_stepped|exact Hd].
Qed.

(* a fault-free SyncChanges on an agent-style state: no error, every visited entry is either
   gone or live and in sync, the node row is the agent's *)
Lemma sync_changes_ok g os oc st c st' c' fs' log err :
  wf_local st -> (l_node st = true -> c_node c = Some (g_ni g)) ->
  sync_changes g os oc st c [] = (st', c', fs', log, err) ->
  err = false /\ all_ok log /\ c_node c' = Some (g_ni g) /\
  (forall id, In id os -> done_s st' id) /\ (forall id, In id oc -> done_c st' id).
Proof.
  intros W Hn E. unfold sync_changes in E.
  assert (A1 : AllOk g (if l_node st then (st, c, [], [], false) else sync_node_info g st c [])).
  { destruct (l_node st) eqn:Ln.
    - apply AllOk_intro; auto. intros ev [].
    - cbn. refine (conj eq_refl (conj eq_refl (conj _ (conj _ (conj _ eq_refl))))).
      + eapply wf_local_ext; [| |exact W]; reflexivity.
      + intros ev [<-|[]]. reflexivity.
      + destruct (c_node c); reflexivity. }
  destruct (if l_node st then _ else _) as [[[[st1 c1] fs1] log1] stop] eqn:E1.
  assert (stop = false) as -> by (destruct A1 as (_ & -> & _); reflexivity).
  destruct (fold_svc_ok g os _ A1) as (A2 & D2 & _).
  destruct (fold_chk_ok g oc _ A2) as (A3 & D3 & D3').
  rewrite E in A3, D3, D3'. cbn in A3, D3, D3'. destruct A3 as (_ & -> & _ & Hl & Hc & _).
  repeat split; auto.
Qed.

(* ------------------------------------------------------------------ server-owned fields *)

(* what of a service definition is the agent's: everything except the tags under
   EnableTagOverride and the reserved ("consul-") tagged addresses *)
Definition svc_own (d : svc) : N * N * bool * N * list (N * N) :=
  (sv_name d, if sv_eto d then 0%N else sv_tags d, sv_eto d, sv_rest d, sv_tau d).

Lemma adopt_own d r : svc_own (adopt d r) = svc_own d.
Proof.
  unfold adopt, svc_own. destruct (sv_eto d) eqn:E; cbn.
  - destruct (bool_decide _); cbn; rewrite ?E; reflexivity.
  - destruct (bool_decide _); cbn; rewrite ?E; reflexivity.
Qed.

Lemma uss_svcs_live g st c id e d :
  l_svcs st !! id = Some e -> se_del e = false -> se_def e = Some d ->
  exists e1 d1, l_svcs (uss_apply g st c) !! id = Some e1 /\ se_del e1 = false /\ se_def e1 = Some d1 /\
                svc_own d1 = svc_own d.
Proof.
  intros L D F. rewrite uss_svcs_lookup, L.
  assert (X : exists e1 d1, uss_svc (Some e) (c_svcs c !! id) = Some e1 /\ se_del e1 = false /\ se_def e1 = Some d1 /\
                svc_own d1 = svc_own d).
  { unfold uss_svc. rewrite D, F. destruct (c_svcs c !! id) as [r|].
    - eexists _, _. split; [reflexivity|]. cbn. repeat split; auto. apply adopt_own.
    - exists (se_set_sync false e), d. cbn. auto. }
  destruct (decide (g_consul g = id)); exact X.
Qed.

(* ------------------------------------------------------------------ C16_converges *)

Definition covers {A} (m : gmap N A) (l : list N) : Prop := forall id, is_Some (m !! id) -> In id l.

Record converged (g : cfg) (st : lstate) (c : cat) (st' : lstate) (c' : cat) : Prop := {
  (* the local registrations are the live ones from before, all marked in sync, nothing deleted left *)
  cv_svc_live : forall id e', l_svcs st' !! id = Some e' ->
                  se_del e' = false /\ se_sync e' = true /\ exists e, l_svcs st !! id = Some e /\ se_del e = false;
  cv_svc_kept : forall id e d, l_svcs st !! id = Some e -> se_del e = false -> se_def e = Some d ->
                  exists e' d', l_svcs st' !! id = Some e' /\ se_def e' = Some d' /\ svc_own d' = svc_own d;
  cv_chk_live : forall id e', l_chks st' !! id = Some e' ->
                  ce_del e' = false /\ ce_sync e' = true /\
                  exists e, l_chks st !! id = Some e /\ ce_del e = false /\ ce_def e' = ce_def e;
  cv_chk_kept : forall id e, l_chks st !! id = Some e -> ce_del e = false ->
                  exists e', l_chks st' !! id = Some e' /\ ce_def e' = ce_def e;
  (* the catalog's services are exactly the local ones (the "consul" service is left alone) *)
  cv_cat_svcs : forall id,
                  (id = g_consul g /\ l_svcs st !! id = None /\ c_svcs c' !! id = c_svcs c !! id) \/
                  c_svcs c' !! id = match l_svcs st' !! id with Some e => se_def e | None => None end;
  (* the catalog's checks are exactly the local ones, up to the fields it copies from its service *)
  (* ... and, for a check whose deferred-output timer is pending, up to its Output *)
  cv_cat_chks : forall id e d, l_chks st' !! id = Some e -> ce_def e = Some d -> holds_ce c' id e d;
  cv_cat_nochk : forall id, l_chks st' !! id = None -> id <> g_serf g -> c_chks c' !! id = None;
  cv_node : c_node c' = Some (g_ni g)
}.

Lemma sync_full_nofault g os oc st c :
  sync_full g os oc st c [] =
  let '(st2, c2, fs2, lb, err) := sync_changes g os oc (uss_apply g st c) c [] in
  (st2, c2, fs2, [Ev KListSvcs 0 (agent_token g) false false OOk []; Ev KListChks 0 (agent_token g) false false OOk []] ++ lb, err).
Proof. reflexivity. Qed.

Lemma all_ok_not_refused_svc log id : all_ok log -> ~ refused_svc log id.
Proof. intros H (ev & Hin & R & _). rewrite (H ev Hin) in R. discriminate. Qed.
Lemma all_ok_not_refused_chk log id : all_ok log -> ~ refused_chk log id.
Proof. intros H (ev & Hin & R & _). rewrite (H ev Hin) in R. discriminate. Qed.

(* one fault-free pass over an agent-style state always ends without error and without any
   entry left deleted or out of sync; with [bind_ok] the catalog then equals the local state *)
Lemma sync_full_ok_gen g os oc st c st' c' fs' log err :
  wf_local st -> wf_cat c ->
  covers (l_svcs st) os -> covers (c_svcs c) os -> covers (l_chks st) oc -> covers (c_chks c) oc ->
  sync_full g os oc st c [] = (st', c', fs', log, err) ->
  err = false /\ wf_local st' /\ wf_cat c' /\
  (forall id e', l_svcs st' !! id = Some e' -> se_del e' = false /\ se_sync e' = true) /\
  (forall id e', l_chks st' !! id = Some e' -> ce_del e' = false /\ ce_sync e' = true) /\
  (bind_ok st c -> converged g st c st' c').
Proof.
  intros W Wc Cs Ccs Cc Ccc E. rewrite sync_full_nofault in E.
  destruct (sync_changes g os oc (uss_apply g st c) c []) as [[[[st2 c2] fs2] lb] e2] eqn:E2.
  injection E as <- <- <- <- <-.
  pose proof (uss_wf_local g st c W (proj2 Wc)) as W1.
  assert (Hn : l_node (uss_apply g st c) = true -> c_node c = Some (g_ni g)).
  { cbn. destruct (bool_decide (c_node c = Some (g_ni g))) eqn:B; [intros _; apply bool_decide_eq_true in B; exact B|discriminate]. }
  destruct (sync_changes_ok _ _ _ _ _ _ _ _ _ _ W1 Hn E2) as (-> & Hl & Hnode & Ds & Dc).
  pose proof (sync_changes_INV _ _ _ _ _ _ _ _ _ _ _ W1 E2) as I.
  assert (Ls : forall id e', l_svcs st2 !! id = Some e' -> se_del e' = false /\ se_sync e' = true).
  { intros id e' L'. destruct (inv_svcs _ _ _ _ _ I id e' L') as (e1 & L1 & _).
    assert (Hin : In id os).
    { destruct (l_svcs st !! id) as [e|] eqn:L0; [apply Cs; eauto|].
      destruct (uss_svcs_new _ _ _ _ _ L1 L0) as (_ & _ & Hc). apply Ccs. exact Hc. }
    destruct (Ds id Hin) as [N|(e & L & D & S)]; [congruence|]. assert (e = e') by congruence. subst e. auto. }
  assert (Lc : forall id e', l_chks st2 !! id = Some e' -> ce_del e' = false /\ ce_sync e' = true).
  { intros id e' L'. destruct (inv_chks _ _ _ _ _ I id e' L') as (e1 & L1 & _).
    assert (Hin : In id oc).
    { destruct (l_chks st !! id) as [e|] eqn:L0; [apply Cc; eauto|].
      destruct (uss_chks_new _ _ _ _ _ L1 L0) as (_ & _ & Hc). apply Ccc. exact Hc. }
    destruct (Dc id Hin) as [N|(e & L & D & S)]; [congruence|]. assert (e = e') by congruence. subst e. auto. }
  split; [reflexivity|]. split; [exact (inv_wf _ _ _ _ _ I)|]. split.
  { (* wf_cat is preserved without bind_ok *)
    pose proof (sync_changes_pres g (fun st c _ => wf_local st /\ wf_cat c) os oc (uss_apply g st c) c []) as H.
    rewrite E2 in H. cbn in H. apply H.
    - intros s k l s' k' l' Es Ec Ecs Ecc _ [Hw Hk]. split; [eapply wf_local_ext; eauto|].
      unfold wf_cat in *. rewrite Ecs, Ecc. exact Hk.
    - intros s k l s' k' ev [Hw Hk] Hs. split; [eapply step_wf_local; eauto|eapply step_wf_cat; eauto].
    - auto. }
  split; [exact Ls|]. split; [exact Lc|].
  intros B. pose proof (sync_changes_INV2 _ _ _ _ _ _ _ _ _ _ _ W1 Wc (uss_bind_ok g st c B) E2) as J.
  split.
  - intros id e' L'. destruct (Ls id e' L') as [D S]. split; [exact D|]. split; [exact S|].
    destruct (inv_svcs _ _ _ _ _ I id e' L') as (e1 & L1 & S1). apply sle_def in S1 as (_ & Sl & _).
    destruct (l_svcs st !! id) as [e|] eqn:L0.
    + exists e. split; [reflexivity|]. destruct (uss_svcs_old g st c id e L0) as (x & Lx & Dx & _). congruence.
    + destruct (uss_svcs_new _ _ _ _ _ L1 L0) as (D1 & _). congruence.
  - intros id e d L D F. destruct (uss_svcs_live g st c id e d L D F) as (e1 & d1 & L1 & D1 & F1 & O1).
    destruct (l_svcs st2 !! id) as [e'|] eqn:L'.
    + destruct (inv_svcs _ _ _ _ _ I id e' L') as (x & Lx & Sx). apply sle_def in Sx as (Sd & _).
      exists e', d1. split; [reflexivity|]. split; [congruence|exact O1].
    + destruct (inv_sgone _ _ _ _ _ I id e1 L1 L') as [D' _]. congruence.
  - intros id e' L'. destruct (Lc id e' L') as [D S]. split; [exact D|]. split; [exact S|].
    destruct (inv_chks _ _ _ _ _ I id e' L') as (e1 & L1 & S1). apply cle_def in S1 as (Sd & Sl & _).
    destruct (l_chks st !! id) as [e|] eqn:L0.
    + exists e. destruct (uss_chks_old g st c id e L0) as (x & Lx & Dx & Fx & _).
      split; [reflexivity|]. split; congruence.
    + destruct (uss_chks_new _ _ _ _ _ L1 L0) as (D1 & _). congruence.
  - intros id e L D. destruct (uss_chks_old g st c id e L) as (e1 & L1 & D1 & F1 & _).
    destruct (l_chks st2 !! id) as [e'|] eqn:L'.
    + destruct (inv_chks _ _ _ _ _ I id e' L') as (x & Lx & Sx). apply cle_def in Sx as (Sd & _).
      exists e'. split; [reflexivity|congruence].
    + pose proof (inv_cgone _ _ _ _ _ I id e1 L1 L'). congruence.
  - intros id. destruct (l_svcs st2 !! id) as [e'|] eqn:L'.
    + right. destruct (Ls id e' L') as [D S]. destruct (inv_wf _ _ _ _ _ I) as (V1 & _). destruct (V1 id e' L' D) as [d F].
      rewrite F. destruct (inv_hs _ _ _ _ _ I id e' d L' S D F) as [Hh|[Hr|[L1 Nh]]].
      * exact Hh.
      * exfalso. eapply all_ok_not_refused_svc; eauto.
      * exfalso. apply Nh. eapply uss_held_svc; eauto.
    + destruct (l_svcs (uss_apply g st c) !! id) as [e1|] eqn:L1.
      * right. exact (proj2 (inv_sgone _ _ _ _ _ I id e1 L1 L')).
      * rewrite (inv_foreign _ _ _ _ _ I id L1). rewrite uss_svcs_lookup in L1.
        destruct (decide (g_consul g = id)) as [<-|Hne].
        -- destruct (l_svcs st !! g_consul g) as [e0|] eqn:L0; [|left; auto].
           exfalso. unfold uss_svc in L1. destruct (c_svcs c !! g_consul g); [|discriminate].
           destruct (se_del e0); [discriminate|]. destruct (se_def e0); discriminate.
        -- right. unfold uss_svc in L1.
           destruct (l_svcs st !! id) as [x|], (c_svcs c !! id); try discriminate; try reflexivity.
           destruct (se_del x); [discriminate|]. destruct (se_def x); discriminate.
  - intros id e d L' F. destruct (Lc id e L') as [D S].
    destruct (inv_hc _ _ _ _ _ I id e d L' S D F) as [Hh|[Hr|[L1 Nh]]].
    + exact Hh.
    + exfalso. eapply all_ok_not_refused_chk; eauto.
    + exfalso. apply Nh. eapply uss_held_chk; eauto.
  - intros id L' Hne. destruct (l_chks (uss_apply g st c) !! id) as [e1|] eqn:L1.
    + exact (inv2_cgone _ _ _ _ J id e1 L1 L').
    + destruct (inv2_foreign _ _ _ _ J id L1) as [E|E]; [|exact E]. rewrite E.
      rewrite uss_chks_lookup in L1. destruct (decide (g_serf g = id)); [congruence|]. unfold uss_chk in L1.
      destruct (l_chks st !! id) as [x|], (c_chks c !! id); try discriminate; try reflexivity.
      destruct (ce_del x); [discriminate|]. destruct (ce_def x); discriminate.
  - exact Hnode.
Qed.

Theorem converges g os oc st c st' c' fs' log err :
  wf_local st -> wf_cat c -> bind_ok st c ->
  covers (l_svcs st) os -> covers (c_svcs c) os -> covers (l_chks st) oc -> covers (c_chks c) oc ->
  sync_full g os oc st c [] = (st', c', fs', log, err) ->
  err = false /\ converged g st c st' c'.
Proof.
  intros W Wc B C1 C2 C3 C4 E.
  destruct (sync_full_ok_gen _ _ _ _ _ _ _ _ _ _ W Wc C1 C2 C3 C4 E) as (-> & _ & _ & _ & _ & H). auto.
Qed.

(* without [bind_ok] the first fault-free full sync may leave a stale check behind, but it
   leaves nothing marked deleted, so the second one converges *)
Theorem converges_second g os oc os2 oc2 st c st1 c1 fs1 log1 err1 st2 c2 fs2 log2 err2 :
  wf_local st -> wf_cat c ->
  covers (l_svcs st) os -> covers (c_svcs c) os -> covers (l_chks st) oc -> covers (c_chks c) oc ->
  sync_full g os oc st c [] = (st1, c1, fs1, log1, err1) ->
  covers (l_svcs st1) os2 -> covers (c_svcs c1) os2 -> covers (l_chks st1) oc2 -> covers (c_chks c1) oc2 ->
  sync_full g os2 oc2 st1 c1 [] = (st2, c2, fs2, log2, err2) ->
  err1 = false /\ err2 = false /\ converged g st1 c1 st2 c2.
Proof.
  intros W Wc C1 C2 C3 C4 E1 D1 D2 D3 D4 E2.
  destruct (sync_full_ok_gen _ _ _ _ _ _ _ _ _ _ W Wc C1 C2 C3 C4 E1) as (-> & W1 & Wc1 & _ & Lc & _).
  assert (B1 : bind_ok st1 c1).
  { intros id e d r L D _ _. destruct (Lc id e L) as [D' _]. congruence. }
  destruct (converges _ _ _ _ _ _ _ _ _ _ W1 Wc1 B1 D1 D2 D3 D4 E2) as [-> H]. auto.
Qed.

(* ------------------------------------------------------------------ C16_retry *)

Definition pushed_svc (log : list event) (id : N) : Prop :=
  exists ev, In ev log /\ e_kind ev = KSyncSvc /\ e_id ev = id.
Definition pushed_chk (log : list event) (id : N) : Prop :=
  exists ev, In ev log /\ ((e_kind ev = KSyncChk /\ e_id ev = id) \/ (e_kind ev = KSyncSvc /\ In id (e_pig ev))).
Definition node_failed (log : list event) : Prop :=
  exists ev, In ev log /\ e_kind ev = KNodeInfo /\ e_out ev = OFail.

(* after the diff, a live entry that the catalog does not hold is out of sync, whatever its
   flag said before (for instance "in sync" after an ACL refusal) *)
Theorem retry_marked g st c :
  (forall id e d, l_svcs (uss_apply g st c) !! id = Some e -> se_del e = false -> se_def e = Some d ->
     ~ holds_svc c id d -> se_sync e = false) /\
  (forall id e d, l_chks (uss_apply g st c) !! id = Some e -> ce_del e = false -> ce_def e = Some d ->
     ~ holds_ce c id e d -> ce_sync e = false).
Proof.
  split; intros id e d L D F N.
  - destruct (se_sync e) eqn:S; [|reflexivity]. exfalso. apply N. eapply uss_held_svc; eauto.
  - destruct (ce_sync e) eqn:S; [|reflexivity]. exfalso. apply N. eapply uss_held_chk; eauto.
Qed.

Lemma Step_svc_entry g st c st' c' ev id e :
  Step g st c st' c' ev -> l_svcs st !! id = Some e -> se_del e = false ->
  l_svcs st' !! id = Some e \/ (e_kind ev = KSyncSvc /\ e_id ev = id).
Proof.
  intros H L D. inversion H; subst; cbn; auto;
    try (destruct (decide (id0 = id)) as [->|Hne]; [auto; congruence|left; rewrite ?lookup_insert_ne, ?lookup_delete_ne by exact Hne; exact L]).
Qed.

Lemma Step_chk_entry g st c st' c' ev id e :
  Step g st c st' c' ev -> l_chks st !! id = Some e -> ce_del e = false ->
  l_chks st' !! id = Some e \/ (e_kind ev = KSyncChk /\ e_id ev = id) \/ (e_kind ev = KSyncSvc /\ In id (e_pig ev)).
Proof.
  intros H L D.
  assert (Pr : forall i, prune_chks i (l_chks st) !! id = Some e).
  { intros i. apply prune_lookup_Some. split; [exact L|]. unfold prunable. rewrite D. reflexivity. }
  assert (Mk : forall i tok, mark_pig g i tok (l_chks st) !! id = Some e \/ In id (keys (pig_of g i tok (l_chks st)))).
  { intros i tok. rewrite mark_pig_lookup, L. destruct (is_pig g i tok e) eqn:P; [|auto]. right.
    apply In_keys. rewrite pig_of_lookup, L, P. destruct (is_pig_spec _ _ _ _ P) as (d & F & _). rewrite F. eauto. }
  inversion H; subst; cbn; auto;
    try (destruct (Mk id0 (reg_token g (se_tok e0) (se_loc e0))); auto; fail);
    try (destruct (decide (id0 = id)) as [->|Hne]; [auto; congruence|left; rewrite ?lookup_insert_ne, ?lookup_delete_ne by exact Hne; exact L]).
Qed.

Definition log_of (a : acc) : list event := snd (fst a).

Lemma stepped_log g a a' : a' = a \/ stepped g a a' -> forall ev, In ev (log_of a) -> In ev (log_of a').
Proof.
  intros [->|H]; [auto|]. destruct a as [[[[st c] fs] log] err], a' as [[[[st' c'] fs'] log'] err'].
  destruct H as (ev & er & _ & -> & _). cbn. intros x Hx. apply in_or_app. auto.
Qed.

Lemma step_svc_visit g a id e d :
  l_svcs (st_of a) !! id = Some e -> se_del e = false -> se_sync e = false -> se_def e = Some d ->
  pushed_svc (log_of (step_svc g a id)) id.
Proof.
  destruct a as [[[[st c] fs] log] err]. cbn. intros L D S F. unfold step_svc. rewrite L, D, S, F.
  unfold sync_service, push. destruct (next fs) as [o fs1].
  destruct o; try destruct (cat_register _ _ _ _ _); cbn;
    (eexists; split; [apply in_or_app; right; left; reflexivity|cbn; auto]).
Qed.

Lemma step_chk_visit g a id e d :
  l_chks (st_of a) !! id = Some e -> ce_del e = false -> ce_sync e = false -> ce_def e = Some d ->
  pushed_chk (log_of (step_chk g a id)) id.
Proof.
  destruct a as [[[[st c] fs] log] err]. cbn. intros L D S F. unfold step_chk. rewrite L, D, S, F.
  unfold sync_check, push. destruct (next fs) as [o fs1].
  destruct o; try destruct (cat_register _ _ _ _ _); cbn;
    (eexists; split; [apply in_or_app; right; left; reflexivity|cbn; auto]).
Qed.

Lemma stepped_svc_entry g a a' id e :
  a' = a \/ stepped g a a' -> se_del e = false ->
  l_svcs (st_of a) !! id = Some e \/ pushed_svc (log_of a) id ->
  l_svcs (st_of a') !! id = Some e \/ pushed_svc (log_of a') id.
Proof.
  intros [->|H] D; [auto|]. destruct a as [[[[st c] fs] log] err], a' as [[[[st' c'] fs'] log'] err'].
  destruct H as (ev & er & Hs & -> & _). cbn. intros [L|(x & Hx & P)].
  - destruct (Step_svc_entry _ _ _ _ _ _ _ _ Hs L D) as [?|?]; [auto|].
    right. exists ev. split; [apply in_or_app; right; left; reflexivity|assumption].
  - right. exists x. split; [apply in_or_app; auto|assumption].
Qed.

Lemma stepped_chk_entry g a a' id e :
  a' = a \/ stepped g a a' -> ce_del e = false ->
  l_chks (st_of a) !! id = Some e \/ pushed_chk (log_of a) id ->
  l_chks (st_of a') !! id = Some e \/ pushed_chk (log_of a') id.
Proof.
  intros [->|H] D; [auto|]. destruct a as [[[[st c] fs] log] err], a' as [[[[st' c'] fs'] log'] err'].
  destruct H as (ev & er & Hs & -> & _). cbn. intros [L|(x & Hx & P)].
  - destruct (Step_chk_entry _ _ _ _ _ _ _ _ Hs L D) as [?|?]; [auto|].
    right. exists ev. split; [apply in_or_app; right; left; reflexivity|assumption].
  - right. exists x. split; [apply in_or_app; auto|assumption].
Qed.

Lemma fold_svc_retry g os a id e d :
  se_del e = false -> se_sync e = false -> se_def e = Some d ->
  l_svcs (st_of a) !! id = Some e \/ pushed_svc (log_of a) id ->
  (l_svcs (st_of (fold_left (step_svc g) os a)) !! id = Some e /\ ~ In id os) \/
  pushed_svc (log_of (fold_left (step_svc g) os a)) id.
Proof.
  intros D S F. revert a. induction os as [|x os IH]; intros a H; cbn [fold_left].
  - destruct H; [left; split; [assumption|intros []]|auto].
  - destruct (decide (x = id)) as [->|Hne].
    + assert (P : pushed_svc (log_of (step_svc g a id)) id).
      { destruct H as [L|(y & Hy & P)]; [eapply step_svc_visit; eauto|].
        exists y. split; [eapply stepped_log; [apply step_svc_stepped|exact Hy]|exact P]. }
      destruct (IH _ (or_intror P)) as [[_ ?]|?]; [|auto].
      destruct (IH _ (or_intror P)) as [[L _]|?]; auto.
      right. clear -P. revert P. generalize (step_svc g a id). induction os as [|y os IH']; intros b P; cbn; [exact P|].
      apply IH'. destruct P as (z & Hz & P). exists z. split; [eapply stepped_log; [apply step_svc_stepped|exact Hz]|exact P].
    + destruct (IH (step_svc g a x)) as [[L Nin]|P]; [eapply stepped_svc_entry; [apply step_svc_stepped|exact D|exact H]| |auto].
      left. split; [exact L|]. intros [?|?]; [congruence|contradiction].
Qed.

Lemma fold_chk_keeps_pushed_svc g oc a id :
  pushed_svc (log_of a) id -> pushed_svc (log_of (fold_left (step_chk g) oc a)) id.
Proof.
  revert a. induction oc as [|y oc IH]; intros a P; cbn; [exact P|].
  apply IH. destruct P as (z & Hz & P). exists z. split; [eapply stepped_log; [apply step_chk_stepped|exact Hz]|exact P].
Qed.

Lemma fold_svc_chk_entry g os a id e :
  ce_del e = false ->
  l_chks (st_of a) !! id = Some e \/ pushed_chk (log_of a) id ->
  l_chks (st_of (fold_left (step_svc g) os a)) !! id = Some e \/ pushed_chk (log_of (fold_left (step_svc g) os a)) id.
Proof.
  intros D. revert a. induction os as [|x os IH]; intros a H; cbn [fold_left]; [exact H|].
  apply IH. eapply stepped_chk_entry; [apply step_svc_stepped|exact D|exact H].
Qed.

Lemma fold_chk_retry g oc a id e d :
  ce_del e = false -> ce_sync e = false -> ce_def e = Some d -> In id oc ->
  l_chks (st_of a) !! id = Some e \/ pushed_chk (log_of a) id ->
  pushed_chk (log_of (fold_left (step_chk g) oc a)) id.
Proof.
  intros D S F. revert a. induction oc as [|x oc IH]; intros a Hin H; [destruct Hin|]. cbn [fold_left].
  assert (Keep : forall oc b, pushed_chk (log_of b) id -> pushed_chk (log_of (fold_left (step_chk g) oc b)) id).
  { clear. intros oc. induction oc as [|y oc IH']; intros b P; cbn; [exact P|].
    apply IH'. destruct P as (z & Hz & P). exists z. split; [eapply stepped_log; [apply step_chk_stepped|exact Hz]|exact P]. }
  destruct (decide (x = id)) as [->|Hne].
  - apply Keep. destruct H as [L|(y & Hy & P)]; [eapply step_chk_visit; eauto|].
    exists y. split; [eapply stepped_log; [apply step_chk_stepped|exact Hy]|exact P].
  - destruct Hin as [?|Hin]; [contradiction|].
    apply IH; [exact Hin|]. eapply stepped_chk_entry; [apply step_chk_stepped|exact D|exact H].
Qed.

(* a partial sync pushes every visited live entry that is out of sync, unless the node-info
   registration failed first (SyncChanges returns at once in that case) *)
Theorem retry_changes g os oc st c fs st' c' fs' log err :
  sync_changes g os oc st c fs = (st', c', fs', log, err) ->
  (forall id e d, l_svcs st !! id = Some e -> se_del e = false -> se_sync e = false -> se_def e = Some d ->
     In id os -> pushed_svc log id \/ node_failed log) /\
  (forall id e d, l_chks st !! id = Some e -> ce_del e = false -> ce_sync e = false -> ce_def e = Some d ->
     In id oc -> pushed_chk log id \/ node_failed log).
Proof.
  intros E. unfold sync_changes in E.
  set (a1 := if l_node st then (st, c, fs, [], false) else sync_node_info g st c fs) in E.
  assert (H1 : (l_svcs (st_of a1) = l_svcs st /\ l_chks (st_of a1) = l_chks st) /\
               (snd a1 = true -> node_failed (log_of a1))).
  { subst a1. destruct (l_node st); [cbn; split; [auto|discriminate]|].
    unfold sync_node_info. destruct (next fs) as [o fs1].
    destruct o; cbn; (split; [auto|]); try discriminate;
      intros _; eexists; (split; [left; reflexivity|cbn; auto]). }
  destruct H1 as [[Es Ec] Hstop].
  destruct a1 as [[[[st1 c1] fs1] log1] stop] eqn:Ea. cbn in Es, Ec, Hstop.
  destruct stop.
  - injection E as <- <- <- <- <-. split; intros; right; auto.
  - split.
    + intros id e d L D S F Hin. left.
      assert (H0 : l_svcs (st_of (st1, c1, fs1, log1, false)) !! id = Some e \/ pushed_svc (log_of (st1, c1, fs1, log1, false)) id)
        by (left; cbn; rewrite Es; exact L).
      destruct (fold_svc_retry g os _ id e d D S F H0) as [[_ Nin]|P]; [contradiction|].
      pose proof (fold_chk_keeps_pushed_svc g oc _ id P) as P'. rewrite E in P'. exact P'.
    + intros id e d L D S F Hin. left.
      assert (H0 : l_chks (st_of (st1, c1, fs1, log1, false)) !! id = Some e \/ pushed_chk (log_of (st1, c1, fs1, log1, false)) id)
        by (left; cbn; rewrite Ec; exact L).
      pose proof (fold_chk_retry g oc _ id e d D S F Hin (fold_svc_chk_entry g os _ id e D H0)) as P'.
      rewrite E in P'. exact P'.
Qed.

Lemma pushed_svc_app la lb id : pushed_svc lb id -> pushed_svc (la ++ lb) id.
Proof. intros (x & Hx & P). exists x. split; [apply in_or_app; auto|exact P]. Qed.
Lemma pushed_chk_app la lb id : pushed_chk lb id -> pushed_chk (la ++ lb) id.
Proof. intros (x & Hx & P). exists x. split; [apply in_or_app; auto|exact P]. Qed.
Lemma node_failed_app la lb : node_failed lb -> node_failed (la ++ lb).
Proof. intros (x & Hx & P). exists x. split; [apply in_or_app; auto|exact P]. Qed.

Lemma classic_node_failed log : node_failed log \/ ~ node_failed log.
Proof.
  induction log as [|x log IH].
  - right. intros (y & [] & _).
  - destruct IH as [(y & Hy & P)|N]; [left; exists y; split; [right; exact Hy|exact P]|].
    destruct (e_kind x) eqn:K; try (right; intros (y & [<-|Hy] & P1 & P2); [congruence|apply N; exists y; auto]).
    destruct (e_out x) eqn:O; try (right; intros (y & [<-|Hy] & P1 & P2); [congruence|apply N; exists y; auto]).
    left. exists x. split; [left; reflexivity|auto].
Qed.

(* a full sync whose reads succeed pushes every live entry that the catalog does not hold
   (whatever its flag said, e.g. "in sync" after an ACL refusal) *)
Theorem retry_full g os oc st c fs st' c' fs' log err :
  sync_full g os oc st c fs = (st', c', fs', log, err) ->
  (st' = st /\ c' = c /\ err = true) \/ node_failed log \/
  ((forall id e d, l_svcs (uss_apply g st c) !! id = Some e -> se_del e = false -> se_def e = Some d ->
      ~ holds_svc c id d -> In id os -> pushed_svc log id) /\
   (forall id e d, l_chks (uss_apply g st c) !! id = Some e -> ce_del e = false -> ce_def e = Some d ->
      ~ holds_ce c id e d -> In id oc -> pushed_chk log id)).
Proof.
  intros E. apply sync_full_cases in E as [(-> & -> & -> & _)|(fs1 & la & lb & _ & Hla & E & ->)]; [auto|].
  destruct (retry_changes _ _ _ _ _ _ _ _ _ _ _ E) as [Hs Hc].
  destruct (retry_marked g st c) as [Ms Mc].
  destruct (classic_node_failed lb) as [F|NF]; [right; left; apply node_failed_app; exact F|].
  right; right. split.
  - intros id e d L D F N Hin. destruct (Hs id e d L D (Ms id e d L D F N) F Hin) as [P|P]; [apply pushed_svc_app; exact P|contradiction].
  - intros id e d L D F N Hin. destruct (Hc id e d L D (Mc id e d L D F N) F Hin) as [P|P]; [apply pushed_chk_app; exact P|contradiction].
Qed.
