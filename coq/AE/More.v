(* C16 — further clauses: deregistrations are retried, a full sync that returns nil WITH ACL
   refusals, honest states stay honest through a partial sync, and the end-to-end corollary. *)
From Verif Require Import Base.Prelude AE.Model AE.Basics AE.Steps AE.Inv AE.Proofs AE.Conv AE.Hist.
From stdpp Require Import gmap.

Definition err_of (a : acc) : bool := snd a.

(* ------------------------------------------------------------------ a generic "visited" fold *)

Lemma fold_visit {X} (f : acc -> X -> acc) (IV R : acc -> Prop) (id : X) l a :
  (forall a x, IV a -> IV (f a x)) -> (forall a x, IV a -> R a -> R (f a x)) -> (forall a, IV a -> R (f a id)) ->
  IV a -> In id l -> R (fold_left f l a).
Proof.
  intros Hi Hs Hv. revert a. induction l as [|x l IH]; intros a Ia Hin; [destruct Hin|]. cbn [fold_left].
  destruct Hin as [->|Hin]; [|apply IH; auto].
  assert (G : forall l b, IV b -> R b -> R (fold_left f l b)).
  { clear -Hi Hs. intros l. induction l as [|y l IH]; intros b Ib Rb; cbn; auto. }
  apply G; auto.
Qed.

Lemma fold_keep {X} (f : acc -> X -> acc) (IV R : acc -> Prop) l a :
  (forall a x, IV a -> IV (f a x)) -> (forall a x, IV a -> R a -> R (f a x)) -> IV a -> R a -> R (fold_left f l a) /\ IV (fold_left f l a).
Proof.
  intros Hi Hs. revert a. induction l as [|y l IH]; intros b Ib Rb; cbn; auto.
Qed.

Lemma stepped_wf g a a' : a' = a \/ stepped g a a' -> wf_local (st_of a) -> wf_local (st_of a').
Proof.
  intros [->|H]; [auto|]. destruct a as [[[[st c] fs] log] err], a' as [[[[st' c'] fs'] log'] err'].
  destruct H as (ev & er & Hs & _). cbn. eapply step_wf_local; eauto.
Qed.

Lemma stepped_err g a a' : a' = a \/ stepped g a a' -> err_of a = true -> err_of a' = true.
Proof.
  intros [->|H]; [auto|]. destruct a as [[[[st c] fs] log] err], a' as [[[[st' c'] fs'] log'] err'].
  destruct H as (ev & er & _ & _ & _ & -> & _). cbn. intros ->. reflexivity.
Qed.

(* ------------------------------------------------------------------ C16_retry_delete *)

Definition del_svc_rpc (log : list event) (id : N) : Prop :=
  exists ev, In ev log /\ e_kind ev = KDelSvc /\ e_id ev = id.
Definition del_chk_rpc (log : list event) (id : N) : Prop :=
  exists ev, In ev log /\ e_kind ev = KDelChk /\ e_id ev = id.

Lemma Step_svc_del_touch g st c st' c' ev id e :
  Step g st c st' c' ev -> l_svcs st !! id = Some e -> se_del e = true ->
  l_svcs st' !! id = Some e \/ (e_kind ev = KDelSvc /\ e_id ev = id).
Proof.
  intros H L D. inversion H; subst; cbn; auto;
    try (destruct (decide (id0 = id)) as [->|Hne]; [auto; congruence|left; rewrite ?lookup_insert_ne, ?lookup_delete_ne by exact Hne; exact L]).
Qed.

Lemma is_pig_deleted g i tok e : ce_del e = true -> is_pig g i tok e = false.
Proof. intros D. unfold is_pig. destruct (ce_def e); [rewrite D; reflexivity|reflexivity]. Qed.

Lemma Step_chk_del_touch g st c st' c' ev id e :
  Step g st c st' c' ev -> l_chks st !! id = Some e -> ce_del e = true ->
  l_chks st' !! id = Some e \/ (e_kind ev = KDelChk /\ e_id ev = id) \/ l_chks st' !! id = None.
Proof.
  intros H L D.
  assert (Pr : forall i, prune_chks i (l_chks st) !! id = Some e \/ prune_chks i (l_chks st) !! id = None).
  { intros i. destruct (prune_chks i (l_chks st) !! id) as [x|] eqn:P; [|auto]. left.
    apply prune_lookup_Some in P as [P _]. congruence. }
  assert (Mk : forall i tok, mark_pig g i tok (l_chks st) !! id = Some e).
  { intros i tok. rewrite mark_pig_lookup, L, (is_pig_deleted _ _ _ _ D). reflexivity. }
  inversion H; subst; cbn; auto;
    try (destruct (Pr id0) as [?|?]; auto; fail);
    try (destruct (decide (id0 = id)) as [->|Hne]; [auto; congruence|left; rewrite ?lookup_insert_ne, ?lookup_delete_ne by exact Hne; exact L]).
Qed.

Lemma step_svc_visit_del g a id e :
  l_svcs (st_of a) !! id = Some e -> se_del e = true -> del_svc_rpc (log_of (step_svc g a id)) id.
Proof.
  destruct a as [[[[st c] fs] log] err]. cbn. intros L D. unfold step_svc. rewrite L, D.
  unfold delete_service, push. destruct (next fs) as [o fs1].
  destruct o; try destruct (c_svcs c !! id); cbn;
    (eexists; split; [apply in_or_app; right; left; reflexivity|cbn; auto]).
Qed.

Lemma step_chk_visit_del g a id e :
  l_chks (st_of a) !! id = Some e -> ce_del e = true -> del_chk_rpc (log_of (step_chk g a id)) id.
Proof.
  destruct a as [[[[st c] fs] log] err]. cbn. intros L D. unfold step_chk. rewrite L, D.
  unfold delete_check, push. destruct (next fs) as [o fs1].
  destruct o; try destruct (c_chks c !! id); cbn;
    (eexists; split; [apply in_or_app; right; left; reflexivity|cbn; auto]).
Qed.

Lemma del_svc_rpc_mono g a a' id : a' = a \/ stepped g a a' -> del_svc_rpc (log_of a) id -> del_svc_rpc (log_of a') id.
Proof. intros H (x & Hx & P). exists x. split; [eapply stepped_log; eauto|exact P]. Qed.
Lemma del_chk_rpc_mono g a a' id : a' = a \/ stepped g a a' -> del_chk_rpc (log_of a) id -> del_chk_rpc (log_of a') id.
Proof. intros H (x & Hx & P). exists x. split; [eapply stepped_log; eauto|exact P]. Qed.

(* every visited entry that is marked deleted gets a Deregister RPC in a partial sync (or, for a
   check, is dropped with its service), unless the node-info registration failed first *)
Theorem retry_delete_changes g os oc st c fs st' c' fs' log err :
  sync_changes g os oc st c fs = (st', c', fs', log, err) ->
  (forall id e, l_svcs st !! id = Some e -> se_del e = true -> In id os -> del_svc_rpc log id \/ node_failed log) /\
  (forall id e, l_chks st !! id = Some e -> ce_del e = true -> In id oc ->
     del_chk_rpc log id \/ l_chks st' !! id = None \/ node_failed log).
Proof.
  intros E. unfold sync_changes in E.
  set (a1 := if l_node st then (st, c, fs, [], false) else sync_node_info g st c fs) in E.
  assert (H1 : (l_svcs (st_of a1) = l_svcs st /\ l_chks (st_of a1) = l_chks st) /\
               (snd a1 = true -> node_failed (log_of a1))).
  { subst a1. destruct (l_node st); [cbn; split; [auto|discriminate]|].
    unfold sync_node_info. destruct (next fs) as [o fs1].
    destruct o; cbn; (split; [auto|]); try discriminate;
      intros _; eexists; (split; [left; reflexivity|cbn; auto]). }
  destruct H1 as [[Es Ec] Hstop].
  destruct a1 as [[[[st1 c1] fs1] log1] stop] eqn:Ea. cbn in Es, Ec, Hstop.
  destruct stop.
  - injection E as <- <- <- <- <-. split; intros; [right|right; right]; auto.
  - split.
    + intros id e L D Hin. left.
      set (IV := fun a : acc => l_svcs (st_of a) !! id = Some e \/ del_svc_rpc (log_of a) id).
      assert (R2 : del_svc_rpc (log_of (fold_left (step_svc g) os (st1, c1, fs1, log1, false))) id).
      { apply (fold_visit (step_svc g) IV (fun a => del_svc_rpc (log_of a) id) id os); auto.
        - intros a x [La|Ra]; [|right; eapply del_svc_rpc_mono; [apply step_svc_stepped|exact Ra]].
          destruct (step_svc_stepped g a x) as [->|Hs]; [left; exact La|].
          destruct a as [[[[sa ca] fa] la] ea], (step_svc g (sa, ca, fa, la, ea) x) as [[[[sb cb] fb] lb] eb].
          destruct Hs as (ev & er & Hs & -> & _). cbn in *.
          destruct (Step_svc_del_touch _ _ _ _ _ _ _ _ Hs La D) as [?|?]; [left; assumption|].
          right. exists ev. split; [apply in_or_app; right; left; reflexivity|assumption].
        - intros a x _ Ra. eapply del_svc_rpc_mono; [apply step_svc_stepped|exact Ra].
        - intros a [La|Ra]; [eapply step_svc_visit_del; eauto|eapply del_svc_rpc_mono; [apply step_svc_stepped|exact Ra]].
        - left. cbn. rewrite Es. exact L. }
      destruct (fold_keep (step_chk g) (fun _ => True) (fun a => del_svc_rpc (log_of a) id) oc _
                  (fun _ _ _ => I) (fun a x _ Ra => del_svc_rpc_mono g a _ id (step_chk_stepped g a x) Ra) I R2) as [R3 _].
      rewrite E in R3. exact R3.
    + intros id e L D Hin.
      set (R := fun a : acc => del_chk_rpc (log_of a) id \/ l_chks (st_of a) !! id = None).
      set (IV := fun a : acc => l_chks (st_of a) !! id = Some e \/ R a).
      assert (Stab : forall f : acc -> N -> acc, (forall a x, f a x = a \/ stepped g a (f a x)) -> forall a x, IV a -> IV (f a x)).
      { intros f Hf a x [La|[Ra|Na]].
        - destruct (Hf a x) as [->|Hs]; [left; exact La|].
          destruct a as [[[[sa ca] fa] la] ea], (f (sa, ca, fa, la, ea) x) as [[[[sb cb] fb] lb] eb].
          destruct Hs as (ev & er & Hs & -> & _). unfold IV, R. cbn in *.
          destruct (Step_chk_del_touch _ _ _ _ _ _ _ _ Hs La D) as [?|[?|?]]; auto.
          right; left. exists ev. split; [apply in_or_app; right; left; reflexivity|assumption].
        - right; left. eapply del_chk_rpc_mono; [apply Hf|exact Ra].
        - right; right. destruct (Hf a x) as [->|Hs]; [exact Na|].
          destruct a as [[[[sa ca] fa] la] ea], (f (sa, ca, fa, la, ea) x) as [[[[sb cb] fb] lb] eb].
          destruct Hs as (ev & er & Hs & _). cbn in *.
          destruct (l_chks sb !! id) as [y|] eqn:Ly; [|reflexivity].
          destruct (step_chks_back _ _ _ _ _ _ _ _ Hs Ly) as (y1 & Ly1 & _). congruence. }
      assert (I1 : IV (st1, c1, fs1, log1, false)) by (left; cbn; rewrite Ec; exact L).
      destruct (fold_keep (step_svc g) IV (fun _ => True) os _ (Stab _ (step_svc_stepped g)) (fun _ _ _ _ => I) I1 I) as [_ I2].
      assert (R3 : R (fold_left (step_chk g) oc (fold_left (step_svc g) os (st1, c1, fs1, log1, false)))).
      { apply (fold_visit (step_chk g) IV R id oc); auto.
        - apply Stab, step_chk_stepped.
        - intros a x _ Ra. destruct (Stab _ (step_chk_stepped g) a x (or_intror Ra)) as [La|?]; [|assumption].
          (* R a holds: the entry cannot be back *)
          destruct Ra as [Ra|Na]; [left; eapply del_chk_rpc_mono; [apply step_chk_stepped|exact Ra]|].
          destruct (step_chk_stepped g a x) as [E'|Hs]; [rewrite E' in La; congruence|].
          destruct a as [[[[sa ca] fa] la] ea], (step_chk g (sa, ca, fa, la, ea) x) as [[[[sb cb] fb] lb] eb].
          destruct Hs as (ev & er & Hs & _). cbn in *.
          destruct (step_chks_back _ _ _ _ _ _ _ _ Hs La) as (y1 & Ly1 & _). congruence.
        - intros a [La|Ra]; [left; eapply step_chk_visit_del; eauto|].
          destruct (Stab _ (step_chk_stepped g) a id (or_intror Ra)) as [La|?]; [|assumption].
          left. destruct Ra as [Ra|Na]; [eapply del_chk_rpc_mono; [apply step_chk_stepped|exact Ra]|].
          destruct (step_chk_stepped g a id) as [E'|Hs]; [rewrite E' in La; congruence|].
          destruct a as [[[[sa ca] fa] la] ea], (step_chk g (sa, ca, fa, la, ea) id) as [[[[sb cb] fb] lb] eb].
          destruct Hs as (ev & er & Hs & _). cbn in *.
          destruct (step_chks_back _ _ _ _ _ _ _ _ Hs La) as (y1 & Ly1 & _). congruence. }
      rewrite E in R3. destruct R3 as [?|?]; auto.
Qed.

(* ------------------------------------------------------------------ honest states stay honest *)

(* exported corollary of the invariant: from a state in which every in-sync entry is held, a
   partial sync under ANY faults leaves every live in-sync entry held or refused (no "it was
   like that before" escape) *)
Theorem honest_sync_changes g os oc st c fs st' c' fs' log err :
  wf_local st -> honest st c -> sync_changes g os oc st c fs = (st', c', fs', log, err) ->
  (forall id e d, l_svcs st' !! id = Some e -> se_sync e = true -> se_del e = false -> se_def e = Some d ->
     holds_svc c' id d \/ refused_svc log id) /\
  (forall id e d, l_chks st' !! id = Some e -> ce_sync e = true -> ce_del e = false -> ce_def e = Some d ->
     holds_ce c' id e d \/ refused_chk log id).
Proof.
  intros W [Hs Hc] E. pose proof (sync_changes_INV _ _ _ _ _ _ _ _ _ _ _ W E) as I. split.
  - intros id e d L S D F. destruct (inv_hs _ _ _ _ _ I id e d L S D F) as [?|[?|[L0 N]]]; auto.
    exfalso. apply N. eauto.
  - intros id e d L S D F. destruct (inv_hc _ _ _ _ _ I id e d L S D F) as [?|[?|[L0 N]]]; auto.
    exfalso. apply N. eauto.
Qed.

(* ------------------------------------------------------------------ the end-to-end corollary *)

(* any agent-style history under any faults, then two fault-free full syncs: converged *)
Theorem history_then_two_syncs g ss fs st c fs0 os oc os2 oc2 st1 c1 fs1 log1 err1 st2 c2 fs2 log2 err2 :
  agent_hist g ss lstate0 cat0 fs -> run_hist g ss lstate0 cat0 fs = (st, c, fs0) ->
  covers (l_svcs st) os -> covers (c_svcs c) os -> covers (l_chks st) oc -> covers (c_chks c) oc ->
  sync_full g os oc st c [] = (st1, c1, fs1, log1, err1) ->
  covers (l_svcs st1) os2 -> covers (c_svcs c1) os2 -> covers (l_chks st1) oc2 -> covers (c_chks c1) oc2 ->
  sync_full g os2 oc2 st1 c1 [] = (st2, c2, fs2, log2, err2) ->
  err1 = false /\ err2 = false /\ converged g st1 c1 st2 c2.
Proof.
  intros A R. destruct (wf_reachable _ _ _ _ _ _ A R) as [W Wc]. intros. eapply converges_second; eauto.
Qed.

(* ------------------------------------------------------------------ a full sync that returns nil, with refusals *)

Definition refused_del_svc (log : list event) (id : N) : Prop :=
  exists ev, In ev log /\ e_kind ev = KDelSvc /\ e_id ev = id /\ refusal (e_out ev) = true.
Definition refused_del_chk (log : list event) (id : N) : Prop :=
  exists ev, In ev log /\ e_kind ev = KDelChk /\ e_id ev = id /\ refusal (e_out ev) = true.

Definition settled_s (a : acc) (id : N) : Prop :=
  l_svcs (st_of a) !! id = None \/
  exists e, l_svcs (st_of a) !! id = Some e /\ se_sync e = true /\ (se_del e = true -> refused_del_svc (log_of a) id).
Definition settled_c (a : acc) (id : N) : Prop :=
  l_chks (st_of a) !! id = None \/
  exists e, l_chks (st_of a) !! id = Some e /\ ce_sync e = true /\ (ce_del e = true -> refused_del_chk (log_of a) id).

Lemma settled_s_stable g a a' id :
  a' = a \/ stepped g a a' -> err_of a = true \/ settled_s a id -> err_of a' = true \/ settled_s a' id.
Proof.
  intros H [Er|Hs]; [left; eapply stepped_err; eauto|]. right.
  destruct H as [->|H]; [exact Hs|].
  destruct a as [[[[st c] fs] log] err], a' as [[[[st' c'] fs'] log'] err'].
  destruct H as (ev & er & Hst & -> & _). unfold settled_s in *. cbn in *.
  destruct (l_svcs st' !! id) as [e'|] eqn:L'; [|auto]. right.
  destruct (step_svcs_back _ _ _ _ _ _ _ _ Hst L') as (e1 & L1 & S1).
  destruct Hs as [N|(e & L & S & Hd)]; [congruence|]. assert (e1 = e) by congruence. subst e1.
  assert (e' = e) as -> by (destruct S1 as [->| ->]; [reflexivity|apply se_set_sync_id; exact S]).
  exists e. repeat split; auto. intros D. destruct (Hd D) as (x & Hx & P). exists x. split; [apply in_or_app; auto|exact P].
Qed.

Lemma settled_c_stable g a a' id :
  a' = a \/ stepped g a a' -> err_of a = true \/ settled_c a id -> err_of a' = true \/ settled_c a' id.
Proof.
  intros H [Er|Hs]; [left; eapply stepped_err; eauto|]. right.
  destruct H as [->|H]; [exact Hs|].
  destruct a as [[[[st c] fs] log] err], a' as [[[[st' c'] fs'] log'] err'].
  destruct H as (ev & er & Hst & -> & _). unfold settled_c in *. cbn in *.
  destruct (l_chks st' !! id) as [e'|] eqn:L'; [|auto]. right.
  destruct (step_chks_back _ _ _ _ _ _ _ _ Hst L') as (e1 & L1 & S1).
  destruct Hs as [N|(e & L & S & Hd)]; [congruence|]. assert (e1 = e) by congruence. subst e1.
  rewrite (cle_sync _ _ S1 S).
  exists e. repeat split; auto. intros D. destruct (Hd D) as (x & Hx & P). exists x. split; [apply in_or_app; auto|exact P].
Qed.

Lemma settled_s_visit g a id : wf_local (st_of a) -> err_of (step_svc g a id) = true \/ settled_s (step_svc g a id) id.
Proof.
  destruct a as [[[[st c] fs] log] err]. cbn. intros (W1 & _). unfold step_svc.
  destruct (l_svcs st !! id) as [e|] eqn:L; [|right; left; exact L].
  destruct (se_del e) eqn:D.
  - unfold delete_service, push. destruct (next fs) as [o fs1].
    assert (Mark : forall o', refusal o' = true ->
              settled_s (LS (l_node st) (<[id := se_set_sync true e]> (l_svcs st)) (l_chks st), c, fs1,
                         log ++ [Ev KDelSvc id (agent_token g) false false o' []], err || false) id).
    { intros o' Ho. right. exists (se_set_sync true e). cbn. rewrite lookup_insert. repeat split; auto.
      intros _. eexists. split; [apply in_or_app; right; left; reflexivity|cbn; auto]. }
    destruct o; cbn; try (left; apply orb_true_r).
    + right. left. cbn. apply lookup_delete.
    + destruct (c_svcs c !! id); [right; apply Mark; reflexivity|right; left; cbn; apply lookup_delete].
    + right. apply Mark. reflexivity.
  - destruct (se_sync e) eqn:S; [right; right; exists e; cbn; repeat split; auto; congruence|].
    destruct (W1 id e L D) as [d F]. rewrite F. unfold sync_service, push. destruct (next fs) as [o fs1].
    assert (Mark : forall node c' o',
              settled_s (LS node (<[id := se_set_sync true e]> (l_svcs st)) (mark_pig g id (reg_token g (se_tok e) (se_loc e)) (l_chks st)), c', fs1,
                         log ++ [Ev KSyncSvc id (reg_token g (se_tok e) (se_loc e)) (l_node st) false o'
                                    (keys (pig_of g id (reg_token g (se_tok e) (se_loc e)) (l_chks st)))], err || false) id).
    { intros. right. exists (se_set_sync true e). cbn. rewrite lookup_insert. repeat split; auto. congruence. }
    destruct o; cbn; try (left; apply orb_true_r); try (right; apply Mark).
    destruct (cat_register _ _ _ _ _); cbn; [right; apply Mark|left; apply orb_true_r].
Qed.

Lemma settled_c_visit g a id : wf_local (st_of a) -> err_of (step_chk g a id) = true \/ settled_c (step_chk g a id) id.
Proof.
  destruct a as [[[[st c] fs] log] err]. cbn. intros (_ & W2 & _). unfold step_chk.
  destruct (l_chks st !! id) as [e|] eqn:L; [|right; left; exact L].
  destruct (ce_del e) eqn:D.
  - unfold delete_check, push. destruct (next fs) as [o fs1].
    assert (Mark : forall o', refusal o' = true ->
              settled_c (LS (l_node st) (l_svcs st) (<[id := ce_set_sync true e]> (l_chks st)), c, fs1,
                         log ++ [Ev KDelChk id (agent_token g) false false o' []], err || false) id).
    { intros o' Ho. right. exists (ce_set_sync true e). cbn. rewrite lookup_insert. repeat split; auto.
      intros _. eexists. split; [apply in_or_app; right; left; reflexivity|cbn; auto]. }
    destruct o; cbn; try (left; apply orb_true_r).
    + right. left. cbn. apply lookup_delete.
    + destruct (c_chks c !! id); [right; apply Mark; reflexivity|right; left; cbn; apply lookup_delete].
    + right. apply Mark. reflexivity.
  - destruct (ce_sync e) eqn:S; [right; right; exists e; cbn; repeat split; auto; congruence|].
    destruct (W2 id e L D) as (d & F & _). rewrite F. unfold sync_check, push. fold (sync_sv st d). destruct (next fs) as [o fs1].
    assert (Mark : forall node c' o',
              settled_c (LS node (l_svcs st) (<[id := ce_set_sync true (ce_clear_defer e)]> (l_chks st)), c', fs1,
                         log ++ [Ev KSyncChk id (reg_token g (ce_tok e) (ce_loc e)) (l_node st) (is_some (sync_sv st d)) o' []], err || false) id).
    { intros. right. exists (ce_set_sync true (ce_clear_defer e)). cbn. rewrite lookup_insert. repeat split; auto. congruence. }
    destruct o; cbn; try (left; apply orb_true_r); try (right; apply Mark).
    destruct (cat_register _ _ _ _ _); cbn; [right; apply Mark|left; apply orb_true_r].
Qed.

(* SyncFull returned nil — possibly with ACL refusals along the way, any fault list: every
   entry left is marked in sync; a live one is held by the catalog or its registration was refused
   in this sync; one still marked deleted had its deregistration refused in this sync *)
Theorem sync_full_success g os oc st c fs st' c' fs' log :
  wf_local st -> c_svcs c !! 0%N = None ->
  covers (l_svcs st) os -> covers (c_svcs c) os -> covers (l_chks st) oc -> covers (c_chks c) oc ->
  sync_full g os oc st c fs = (st', c', fs', log, false) ->
  (forall id e, l_svcs st' !! id = Some e ->
     se_sync e = true /\
     (se_del e = true -> refused_del_svc log id) /\
     (se_del e = false -> forall d, se_def e = Some d -> holds_svc c' id d \/ refused_svc log id)) /\
  (forall id e, l_chks st' !! id = Some e ->
     ce_sync e = true /\
     (ce_del e = true -> refused_del_chk log id) /\
     (ce_del e = false -> forall d, ce_def e = Some d -> holds_ce c' id e d \/ refused_chk log id)).
Proof.
  intros W C0 Cs Ccs Cc Ccc E.
  pose proof (no_false_insync_full _ _ _ _ _ _ _ _ _ _ _ W C0 E) as NF.
  apply sync_full_cases in E as [(_ & _ & X & _)|(fs1 & la & lb & _ & _ & E & ->)]; [discriminate|].
  destruct NF as [(_ & _ & X)|[NFs NFc]]; [discriminate|].
  pose proof (uss_wf_local g st c W C0) as W1.
  pose proof (sync_changes_INV _ _ _ _ _ _ _ _ _ _ _ W1 E) as I.
  unfold sync_changes in E.
  destruct (if l_node (uss_apply g st c) then (uss_apply g st c, c, fs1, [], false) else sync_node_info g (uss_apply g st c) c fs1)
    as [[[[s1 k1] f1] l1] stop] eqn:Ea.
  assert (Wa : wf_local s1 /\ stop = false).
  { destruct (l_node (uss_apply g st c)).
    - injection Ea as <- <- <- <- <-. auto.
    - unfold sync_node_info in Ea. destruct (next fs1) as [o f].
      destruct o; injection Ea as <- <- <- <- <-; try (injection E as _ _ _ _ X; discriminate);
        (split; [eapply wf_local_ext; [..|exact W1]; reflexivity|reflexivity]). }
  destruct Wa as [Wa ->].
  set (a2 := fold_left (step_svc g) os (s1, k1, f1, l1, false)) in *.
  assert (W2 : wf_local (st_of a2)).
  { apply (fold_keep (step_svc g) (fun a => wf_local (st_of a)) (fun _ => True) os); auto.
    intros a x. apply stepped_wf with (g := g), step_svc_stepped. }
  cbn in Wa.
  assert (Keys : forall id, (is_Some (l_svcs st' !! id) -> In id os) /\ (is_Some (l_chks st' !! id) -> In id oc)).
  { intros id. split; intros [e L].
    - destruct (inv_svcs _ _ _ _ _ I id e L) as (e1 & L1 & _).
      destruct (l_svcs st !! id) as [e0|] eqn:L0; [apply Cs; eauto|].
      destruct (uss_svcs_new _ _ _ _ _ L1 L0) as (_ & _ & Hc). apply Ccs. exact Hc.
    - destruct (inv_chks _ _ _ _ _ I id e L) as (e1 & L1 & _).
      destruct (l_chks st !! id) as [e0|] eqn:L0; [apply Cc; eauto|].
      destruct (uss_chks_new _ _ _ _ _ L1 L0) as (_ & _ & Hc). apply Ccc. exact Hc. }
  assert (Hs : forall id, In id os -> settled_s (fold_left (step_chk g) oc a2) id).
  { intros id Hin.
    assert (R2 : err_of a2 = true \/ settled_s a2 id).
    { apply (fold_visit (step_svc g) (fun a => wf_local (st_of a)) (fun a => err_of a = true \/ settled_s a id) id os); auto.
      - intros a x. apply stepped_wf with (g := g), step_svc_stepped.
      - intros a x _. apply settled_s_stable with (g := g), step_svc_stepped.
      - intros a. apply settled_s_visit. }
    destruct (fold_keep (step_chk g) (fun _ => True) (fun a => err_of a = true \/ settled_s a id) oc a2
                (fun _ _ _ => Logic.I) (fun a x _ => settled_s_stable g a _ id (step_chk_stepped g a x)) Logic.I R2) as [[R3|R3] _]; [|exact R3].
    rewrite E in R3. discriminate. }
  assert (Hc : forall id, In id oc -> settled_c (fold_left (step_chk g) oc a2) id).
  { intros id Hin.
    assert (R3 : err_of (fold_left (step_chk g) oc a2) = true \/ settled_c (fold_left (step_chk g) oc a2) id).
    { apply (fold_visit (step_chk g) (fun a => wf_local (st_of a)) (fun a => err_of a = true \/ settled_c a id) id oc); auto.
      - intros a x. apply stepped_wf with (g := g), step_chk_stepped.
      - intros a x _. apply settled_c_stable with (g := g), step_chk_stepped.
      - intros a. apply settled_c_visit. }
    destruct R3 as [R3|R3]; [rewrite E in R3; discriminate|exact R3]. }
  rewrite E in Hs, Hc. split.
  - intros id e L. destruct (Hs id (proj1 (Keys id) (ex_intro _ e L))) as [N|(x & Lx & Sx & Dx)]; cbn in *; [congruence|].
    assert (x = e) by congruence. subst x. split; [exact Sx|]. split.
    + intros D. destruct (Dx D) as (y & Hy & P). exists y. split; [apply in_or_app; auto|exact P].
    + intros D d F. exact (NFs id e d L Sx D F).
  - intros id e L. destruct (Hc id (proj2 (Keys id) (ex_intro _ e L))) as [N|(x & Lx & Sx & Dx)]; cbn in *; [congruence|].
    assert (x = e) by congruence. subst x. split; [exact Sx|]. split.
    + intros D. destruct (Dx D) as (y & Hy & P). exists y. split; [apply in_or_app; auto|exact P].
    + intros D d F. exact (NFc id e d L Sx D F).
Qed.

(* ------------------------------------------------------------------ deferred-output timers *)

Lemma holds_ce_exact c id e d : ce_defer e = false -> holds_ce c id e d -> holds_chk c id d.
Proof. unfold holds_ce, holds_chk. intros ->. auto. Qed.

Definition no_defer (st : lstate) : Prop := forall id e, l_chks st !! id = Some e -> ce_defer e = false.

Lemma uss_chks_defer g st c id e :
  l_chks (uss_apply g st c) !! id = Some e -> ce_defer e = true ->
  exists e0, l_chks st !! id = Some e0 /\ ce_defer e0 = true.
Proof.
  intros L Df. rewrite uss_chks_lookup in L.
  assert (L' : uss_chk (g_interval g) (l_chks st !! id) (c_chks c !! id) = Some e).
  { destruct (decide (g_serf g = id)); [|exact L]. destruct (l_chks st !! id); [exact L|discriminate]. }
  clear L. unfold uss_chk in L'.
  destruct (l_chks st !! id) as [e0|], (c_chks c !! id) as [r|]; try discriminate.
  - exists e0. split; [reflexivity|]. destruct (ce_del e0); [congruence|].
    destruct (ce_def e0); injection L' as <-; exact Df.
  - exists e0. split; [reflexivity|]. injection L' as <-. exact Df.
  - injection L' as <-. discriminate.
Qed.

(* syncs never start a timer: when none is pending before, none is pending after, and "held up
   to the Output of a pending timer" is plain "held" *)
Theorem no_defer_sync_full g os oc st c fs st' c' fs' log err :
  no_defer st -> sync_full g os oc st c fs = (st', c', fs', log, err) -> no_defer st'.
Proof.
  intros ND E. apply sync_full_cases in E as [(-> & _)|(fs1 & la & lb & _ & _ & E & _)]; [exact ND|].
  pose proof (sync_changes_pres g (fun st _ _ => no_defer st) os oc (uss_apply g st c) c fs1) as H.
  rewrite E in H. cbn in H. apply H.
  - intros s k l s' k' l' _ Ec _ _ _ Hn. unfold no_defer in *. rewrite Ec. exact Hn.
  - intros s k l s' k' ev Hn Hs id e L. destruct (ce_defer e) eqn:Df; [|reflexivity].
    destruct (step_chks_back _ _ _ _ _ _ _ _ Hs L) as (e1 & L1 & S1).
    rewrite <- (Hn id e1 L1). symmetry. exact (cle_defer _ _ S1 Df).
  - intros id e L. destruct (ce_defer e) eqn:Df; [|reflexivity].
    destruct (uss_chks_defer _ _ _ _ _ L Df) as (e0 & L0 & D0). rewrite <- (ND id e0 L0). symmetry. exact D0.
Qed.
