(* C16 — every loop iteration of SyncChanges, classified once and for all.

   [Step g st c st' c' ev]: one RPC-issuing iteration took the local state from [st] to [st'],
   the catalog from [c] to [c'] and logged [ev].  The constructors are the places where
   state.go flips flags; the invariants of Inv.v are proved by case analysis on them. *)
From Verif Require Import Base.Prelude AE.Model AE.Basics.
From stdpp Require Import gmap.

Definition sync_sv (st : lstate) (d : chk) : option (N * svc) :=
  match l_svcs st !! ck_sid d with
  | Some s => if se_del s then None
              else match se_def s with Some sd => Some (ck_sid d, sd) | None => None end
  | None => None
  end.

Inductive Step (g : cfg) : lstate -> cat -> lstate -> cat -> event -> Prop :=
| St_fail st c ev :
    e_out ev = OFail -> Step g st c st c ev
| St_svc_ok st c c' id e d tok :
    l_svcs st !! id = Some e -> se_del e = false -> se_sync e = false -> se_def e = Some d ->
    tok = reg_token g (se_tok e) (se_loc e) ->
    cat_register (g_ni g) (l_node st) (Some (id, d)) (pig_of g id tok (l_chks st)) c = Some c' ->
    Step g st c
         (LS true (<[id := se_set_sync true e]> (l_svcs st)) (mark_pig g id tok (l_chks st))) c'
         (Ev KSyncSvc id tok (l_node st) false OOk (keys (pig_of g id tok (l_chks st))))
| St_svc_refused st c id e d tok o :
    l_svcs st !! id = Some e -> se_del e = false -> se_sync e = false -> se_def e = Some d ->
    tok = reg_token g (se_tok e) (se_loc e) -> refusal o = true ->
    Step g st c
         (LS (l_node st) (<[id := se_set_sync true e]> (l_svcs st)) (mark_pig g id tok (l_chks st))) c
         (Ev KSyncSvc id tok (l_node st) false o (keys (pig_of g id tok (l_chks st))))
| St_delsvc_ok st c id e :
    l_svcs st !! id = Some e -> se_del e = true ->
    Step g st c (LS (l_node st) (delete id (l_svcs st)) (prune_chks id (l_chks st))) (cat_dereg_svc id c)
         (Ev KDelSvc id (agent_token g) false false OOk [])
| St_delsvc_unknown st c id e :
    l_svcs st !! id = Some e -> se_del e = true -> c_svcs c !! id = None ->
    Step g st c (LS (l_node st) (delete id (l_svcs st)) (prune_chks id (l_chks st))) c
         (Ev KDelSvc id (agent_token g) false false OUnknown [])
| St_delsvc_refused st c id e o :
    l_svcs st !! id = Some e -> se_del e = true -> refusal o = true ->
    Step g st c (LS (l_node st) (<[id := se_set_sync true e]> (l_svcs st)) (l_chks st)) c
         (Ev KDelSvc id (agent_token g) false false o [])
| St_chk_ok st c c' id e d tok :
    l_chks st !! id = Some e -> ce_del e = false -> ce_sync e = false -> ce_def e = Some d ->
    tok = reg_token g (ce_tok e) (ce_loc e) ->
    cat_register (g_ni g) (l_node st) (sync_sv st d) {[id := d]} c = Some c' ->
    Step g st c (LS true (l_svcs st) (<[id := ce_set_sync true (ce_clear_defer e)]> (l_chks st))) c'
         (Ev KSyncChk id tok (l_node st) (is_some (sync_sv st d)) OOk [])
| St_chk_fail st c id e d tok :
    (* the push failed; SyncChanges had already forgotten the pending deferred-output timer *)
    l_chks st !! id = Some e -> ce_del e = false -> ce_sync e = false -> ce_def e = Some d ->
    tok = reg_token g (ce_tok e) (ce_loc e) ->
    Step g st c (LS (l_node st) (l_svcs st) (<[id := ce_clear_defer e]> (l_chks st))) c
         (Ev KSyncChk id tok (l_node st) (is_some (sync_sv st d)) OFail [])
| St_chk_refused st c id e d tok o :
    l_chks st !! id = Some e -> ce_del e = false -> ce_sync e = false -> ce_def e = Some d ->
    tok = reg_token g (ce_tok e) (ce_loc e) -> refusal o = true ->
    Step g st c (LS (l_node st) (l_svcs st) (<[id := ce_set_sync true (ce_clear_defer e)]> (l_chks st))) c
         (Ev KSyncChk id tok (l_node st) (is_some (sync_sv st d)) o [])
| St_delchk_ok st c id e :
    l_chks st !! id = Some e -> ce_del e = true ->
    Step g st c (LS (l_node st) (l_svcs st) (delete id (l_chks st))) (cat_dereg_chk id c)
         (Ev KDelChk id (agent_token g) false false OOk [])
| St_delchk_unknown st c id e :
    l_chks st !! id = Some e -> ce_del e = true -> c_chks c !! id = None ->
    Step g st c (LS (l_node st) (l_svcs st) (delete id (l_chks st))) c
         (Ev KDelChk id (agent_token g) false false OUnknown [])
| St_delchk_refused st c id e o :
    l_chks st !! id = Some e -> ce_del e = true -> refusal o = true ->
    Step g st c (LS (l_node st) (l_svcs st) (<[id := ce_set_sync true e]> (l_chks st))) c
         (Ev KDelChk id (agent_token g) false false o []).

(* an iteration either does nothing or is a [Step] that appends one event and consumes one fault *)
Definition stepped (g : cfg) (a a' : acc) : Prop :=
  let '(st, c, fs, log, err) := a in
  let '(st', c', fs', log', err') := a' in
  exists ev er, Step g st c st' c' ev /\ log' = log ++ [ev] /\ fs' = snd (next fs) /\ err' = (err || er)
                /\ (er = true <-> e_out ev = OFail) /\ (e_out ev = OFail \/ e_out ev = OUnknown \/ e_out ev = fst (next fs)).

Local Ltac fin er tac :=
  refine (ex_intro _ _ (ex_intro _ er (conj _ (conj eq_refl _)))); [tac|cbn; intuition congruence].

Lemma step_svc_stepped g a id : step_svc g a id = a \/ stepped g a (step_svc g a id).
Proof.
  destruct a as [[[[st c] fs] log] err]. unfold step_svc.
  destruct (l_svcs st !! id) as [e|] eqn:L; [|auto].
  destruct (se_del e) eqn:Del.
  - right. unfold delete_service, push, stepped. destruct (next fs) as [o fs'] eqn:Nx. cbn [snd fst].
    destruct o; cbn; try (fin true ltac:(apply St_fail; reflexivity)).
    + fin false ltac:(eapply St_delsvc_ok; eassumption).
    + destruct (c_svcs c !! id) eqn:Lc.
      * fin false ltac:(eapply St_delsvc_refused; eauto).
      * fin false ltac:(eapply St_delsvc_unknown; eauto).
    + fin false ltac:(eapply St_delsvc_refused; eauto).
  - destruct (se_sync e) eqn:Sy; [auto|].
    destruct (se_def e) as [d|] eqn:Df; [|auto].
    right. unfold sync_service, push, stepped. destruct (next fs) as [o fs'] eqn:Nx. cbn [snd fst].
    destruct o; cbn; try (fin true ltac:(apply St_fail; reflexivity)).
    + destruct (cat_register _ _ _ _ _) as [c'|] eqn:R.
      * fin false ltac:(eapply St_svc_ok; eauto).
      * fin true ltac:(apply St_fail; reflexivity).
    + fin false ltac:(eapply St_svc_refused; eauto).
    + fin false ltac:(eapply St_svc_refused; eauto).
Qed.

Lemma step_chk_stepped g a id : step_chk g a id = a \/ stepped g a (step_chk g a id).
Proof.
  destruct a as [[[[st c] fs] log] err]. unfold step_chk.
  destruct (l_chks st !! id) as [e|] eqn:L; [|auto].
  destruct (ce_del e) eqn:Del.
  - right. unfold delete_check, push, stepped. destruct (next fs) as [o fs'] eqn:Nx. cbn [snd fst].
    destruct o; cbn; try (fin true ltac:(apply St_fail; reflexivity)).
    + fin false ltac:(eapply St_delchk_ok; eassumption).
    + destruct (c_chks c !! id) eqn:Lc.
      * fin false ltac:(eapply St_delchk_refused; eauto).
      * fin false ltac:(eapply St_delchk_unknown; eauto).
    + fin false ltac:(eapply St_delchk_refused; eauto).
  - destruct (ce_sync e) eqn:Sy; [auto|].
    destruct (ce_def e) as [d|] eqn:Df; [|auto].
    right. unfold sync_check, push, stepped. fold (sync_sv st d). destruct (next fs) as [o fs'] eqn:Nx. cbn [snd fst].
    destruct o; cbn; try (fin true ltac:(eapply St_chk_fail; eauto)).
    + destruct (cat_register _ _ _ _ _) as [c'|] eqn:R.
      * fin false ltac:(eapply St_chk_ok; eauto).
      * fin true ltac:(eapply St_chk_fail; eauto).
    + fin false ltac:(eapply St_chk_refused; eauto).
    + fin false ltac:(eapply St_chk_refused; eauto).
Qed.
