(* C16 — theorems about one partial sync (SyncChanges) and one full sync (SyncFull), for every
   fault list and every visiting order: no false in-sync mark, deletions remembered. *)
From Verif Require Import Base.Prelude AE.Model AE.Basics AE.Steps AE.Inv.
From stdpp Require Import gmap.

(* ------------------------------------------------------------------ folding the loops *)

Lemma fold_svc_pres g (Q : acc -> Prop) os a :
  (forall a a', stepped g a a' -> Q a -> Q a') -> Q a -> Q (fold_left (step_svc g) os a).
Proof.
  intros HQ. revert a. induction os as [|id os IH]; intros a Ha; cbn; [exact Ha|].
  apply IH. destruct (step_svc_stepped g a id) as [->|Hs]; eauto.
Qed.

Lemma fold_chk_pres g (Q : acc -> Prop) oc a :
  (forall a a', stepped g a a' -> Q a -> Q a') -> Q a -> Q (fold_left (step_chk g) oc a).
Proof.
  intros HQ. revert a. induction oc as [|id oc IH]; intros a Ha; cbn; [exact Ha|].
  apply IH. destruct (step_chk_stepped g a id) as [->|Hs]; eauto.
Qed.

Definition on_acc (Q : lstate -> cat -> list event -> Prop) (a : acc) : Prop :=
  let '(st, c, _, log, _) := a in Q st c log.

Lemma stepped_on_acc g (Q : lstate -> cat -> list event -> Prop) :
  (forall st c log st' c' ev, Q st c log -> Step g st c st' c' ev -> Q st' c' (log ++ [ev])) ->
  forall a a', stepped g a a' -> on_acc Q a -> on_acc Q a'.
Proof.
  intros HQ [[[[st c] fs] log] err] [[[[st' c'] fs'] log'] err'] (ev & er & Hs & -> & _) Ha. cbn in *. eauto.
Qed.

(* anything that depends only on the four maps and is monotone in the log survives syncNodeInfo *)
Definition map_pred (Q : lstate -> cat -> list event -> Prop) : Prop :=
  forall st c log st' c' log',
    l_svcs st' = l_svcs st -> l_chks st' = l_chks st -> c_svcs c' = c_svcs c -> c_chks c' = c_chks c ->
    (forall x, In x log -> In x log') -> Q st c log -> Q st' c' log'.

Lemma sync_changes_pres g (Q : lstate -> cat -> list event -> Prop) os oc st c fs :
  map_pred Q ->
  (forall st c log st' c' ev, Q st c log -> Step g st c st' c' ev -> Q st' c' (log ++ [ev])) ->
  Q st c [] -> on_acc Q (sync_changes g os oc st c fs).
Proof.
  intros HM HQ H0. unfold sync_changes.
  assert (H1 : on_acc Q (if l_node st then (st, c, fs, [], false) else sync_node_info g st c fs)).
  { destruct (l_node st); [exact H0|]. unfold sync_node_info. destruct (next fs) as [o fs1].
    destruct o; cbn; try exact H0; try (eapply HM; [..|exact H0]; cbn; auto; intros x []). }
  destruct (if l_node st then _ else _) as [[[[st1 c1] fs1] log1] stop] eqn:E.
  destruct stop; [exact H1|].
  apply fold_chk_pres; [apply stepped_on_acc; exact HQ|].
  apply fold_svc_pres; [apply stepped_on_acc; exact HQ|]. exact H1.
Qed.

Lemma wf_local_ext st st' : l_svcs st' = l_svcs st -> l_chks st' = l_chks st -> wf_local st -> wf_local st'.
Proof. unfold wf_local. intros -> ->. auto. Qed.

Lemma INV_map_pred st0 c0 : map_pred (INV st0 c0).
Proof.
  intros st c log st' c' log' Es Ec Ecs Ecc Hl [Is Ic Isg Icg If Iw Ihs Ihc].
  split; unfold holds_svc, holds_ce, holds_chk_upto in *; rewrite ?Es, ?Ec, ?Ecs, ?Ecc; auto.
  - eapply wf_local_ext; eauto.
  - intros id e d L S D F. destruct (Ihs id e d L S D F) as [?|[(x & Hx & ?)|?]]; auto.
    right; left. exists x. auto.
  - intros id e d L S D F. destruct (Ihc id e d L S D F) as [?|[(x & Hx & ?)|?]]; auto.
    right; left. exists x. auto.
Qed.

Lemma sync_changes_INV g os oc st c fs st' c' fs' log err :
  wf_local st -> sync_changes g os oc st c fs = (st', c', fs', log, err) -> INV st c st' c' log.
Proof.
  intros W E.
  pose proof (sync_changes_pres g (INV st c) os oc st c fs (INV_map_pred st c)) as H.
  rewrite E in H. apply H; [|apply INV_init; exact W].
  intros. eapply INV_step; eauto.
Qed.

Definition INVB st0 c0 st c (log : list event) : Prop := INV st0 c0 st c log /\ INV2 st0 c0 st c.

Lemma INVB_map_pred st0 c0 : map_pred (INVB st0 c0).
Proof.
  intros st c log st' c' log' Es Ec Ecs Ecc Hl [I [Jw Jb Jg Jf]]. split.
  - eapply INV_map_pred; eauto.
  - split; unfold wf_cat, bind_ok in *; rewrite ?Es, ?Ec, ?Ecs, ?Ecc; auto.
Qed.

Lemma sync_changes_INV2 g os oc st c fs st' c' fs' log err :
  wf_local st -> wf_cat c -> bind_ok st c ->
  sync_changes g os oc st c fs = (st', c', fs', log, err) -> INV2 st c st' c'.
Proof.
  intros W Wc B E.
  pose proof (sync_changes_pres g (INVB st c) os oc st c fs (INVB_map_pred st c)) as H.
  rewrite E in H. apply H.
  - intros ? ? ? ? ? ? [I J] Hs. split; [eapply INV_step; eauto|eapply INV2_step; eauto].
  - split; [apply INV_init; exact W|apply INV2_init; assumption].
Qed.

(* ------------------------------------------------------------------ C16_no_false_insync, partial sync *)

Theorem no_false_insync_changes g os oc st c fs st' c' fs' log err :
  wf_local st -> sync_changes g os oc st c fs = (st', c', fs', log, err) ->
  (forall id e d, l_svcs st' !! id = Some e -> se_sync e = true -> se_del e = false -> se_def e = Some d ->
     holds_svc c' id d \/ refused_svc log id \/ l_svcs st !! id = Some e) /\
  (forall id e d, l_chks st' !! id = Some e -> ce_sync e = true -> ce_del e = false -> ce_def e = Some d ->
     holds_ce c' id e d \/ refused_chk log id \/ l_chks st !! id = Some e).
Proof.
  intros W E. pose proof (sync_changes_INV _ _ _ _ _ _ _ _ _ _ _ W E) as I. split.
  - intros id e d L S D F. destruct (inv_hs _ _ _ _ _ I id e d L S D F) as [?|[?|[? _]]]; auto.
  - intros id e d L S D F. destruct (inv_hc _ _ _ _ _ I id e d L S D F) as [?|[?|[? _]]]; auto.
Qed.

(* ------------------------------------------------------------------ updateSyncState *)

Lemma uss_held_svc g st c id e d :
  l_svcs (uss_apply g st c) !! id = Some e -> se_sync e = true -> se_del e = false -> se_def e = Some d ->
  holds_svc c id d.
Proof.
  intros L S D F. rewrite uss_svcs_lookup in L. unfold holds_svc.
  assert (L' : uss_svc (l_svcs st !! id) (c_svcs c !! id) = Some e).
  { destruct (decide (g_consul g = id)); [|exact L]. destruct (l_svcs st !! id); [exact L|discriminate]. }
  clear L. unfold uss_svc in L'.
  destruct (l_svcs st !! id) as [e0|], (c_svcs c !! id) as [r|]; try discriminate.
  - destruct (se_del e0) eqn:D0; [injection L' as <-; congruence|].
    destruct (se_def e0) as [d0|] eqn:F0; [|injection L' as <-; congruence].
    injection L' as <-. cbn in *. apply bool_decide_eq_true in S. congruence.
  - injection L' as <-. cbn in S. discriminate.
  - injection L' as <-. cbn in D. discriminate.
Qed.

Lemma chk_isame_blank_core d r : chk_isame (chk_blank d) (chk_blank r) = true -> chk_core_upto true r = chk_core_upto true d.
Proof.
  unfold chk_isame, chk_cmp, chk_core_upto, chk_blank. cbn. intros H. apply bool_decide_eq_true in H.
  injection H as E1 E2 E4 E5 E6. rewrite E1, E2, E4. reflexivity.
Qed.

(* after the diff a live check marked in sync is held — up to its Output when a deferred-output
   timer is pending (the diff blanks the Output on both sides in that case) *)
Lemma uss_held_chk g st c id e d :
  l_chks (uss_apply g st c) !! id = Some e -> ce_sync e = true -> ce_del e = false -> ce_def e = Some d ->
  holds_ce c id e d.
Proof.
  intros L S D F. rewrite uss_chks_lookup in L. unfold holds_ce, holds_chk_upto.
  assert (L' : uss_chk (g_interval g) (l_chks st !! id) (c_chks c !! id) = Some e).
  { destruct (decide (g_serf g = id)); [|exact L]. destruct (l_chks st !! id); [exact L|discriminate]. }
  clear L. unfold uss_chk in L'.
  destruct (l_chks st !! id) as [e0|], (c_chks c !! id) as [r|]; try discriminate.
  - destruct (ce_del e0) eqn:D0; [injection L' as <-; congruence|].
    destruct (ce_def e0) as [d0|] eqn:F0; [|injection L' as <-; congruence].
    injection L' as <-. cbn in *. assert (d0 = d) by congruence. subst d0. exists r. split; [reflexivity|].
    destruct (g_interval g && ce_defer e0) eqn:B.
    + apply andb_true_iff in B as [_ B]. rewrite B. apply chk_isame_blank_core. exact S.
    + apply chk_isame_core. exact S.
  - injection L' as <-. cbn in S. discriminate.
  - injection L' as <-. cbn in D. discriminate.
Qed.

(* updateSyncState keeps every local entry, keeps it deleted if it was, keeps live definitions
   live; the entries it adds are deleted placeholders *)
Lemma uss_svcs_old g st c id e0 :
  l_svcs st !! id = Some e0 ->
  exists e, l_svcs (uss_apply g st c) !! id = Some e /\ se_del e = se_del e0 /\ se_tok e = se_tok e0 /\ se_loc e = se_loc e0 /\
            (se_del e0 = true -> se_def e = se_def e0) /\ (is_Some (se_def e0) -> is_Some (se_def e)).
Proof.
  intros L. rewrite uss_svcs_lookup, L.
  assert (X : exists e, uss_svc (Some e0) (c_svcs c !! id) = Some e /\ se_del e = se_del e0 /\ se_tok e = se_tok e0 /\ se_loc e = se_loc e0 /\
            (se_del e0 = true -> se_def e = se_def e0) /\ (is_Some (se_def e0) -> is_Some (se_def e))).
  { unfold uss_svc. destruct (c_svcs c !! id) as [r|].
    - destruct (se_del e0) eqn:D0; [exists e0; auto 10|].
      destruct (se_def e0) as [d0|] eqn:F0; [|exists e0; rewrite F0; auto 10].
      eexists. split; [reflexivity|]. cbn. repeat split; auto; try congruence; eauto.
    - exists (se_set_sync false e0). cbn. auto 10. }
  destruct (decide (g_consul g = id)); exact X.
Qed.

Lemma uss_svcs_new g st c id e :
  l_svcs (uss_apply g st c) !! id = Some e -> l_svcs st !! id = None ->
  se_del e = true /\ se_def e = None /\ is_Some (c_svcs c !! id).
Proof.
  intros L N. rewrite uss_svcs_lookup, N in L.
  destruct (decide (g_consul g = id)); [discriminate|]. unfold uss_svc in L.
  destruct (c_svcs c !! id); [|discriminate]. injection L as <-. cbn. eauto.
Qed.

Lemma uss_chks_old g st c id e0 :
  l_chks st !! id = Some e0 ->
  exists e, l_chks (uss_apply g st c) !! id = Some e /\ ce_del e = ce_del e0 /\ ce_def e = ce_def e0 /\
            ce_tok e = ce_tok e0 /\ ce_loc e = ce_loc e0.
Proof.
  intros L. rewrite uss_chks_lookup, L.
  assert (X : exists e, uss_chk (g_interval g) (Some e0) (c_chks c !! id) = Some e /\ ce_del e = ce_del e0 /\ ce_def e = ce_def e0 /\
            ce_tok e = ce_tok e0 /\ ce_loc e = ce_loc e0).
  { unfold uss_chk. destruct (c_chks c !! id) as [r|].
    - destruct (ce_del e0) eqn:D0; [exists e0; auto|].
      destruct (ce_def e0) as [d0|] eqn:F0; [|exists e0; auto].
      eexists. split; [reflexivity|]. cbn. auto.
    - exists (ce_set_sync false e0). cbn. auto. }
  destruct (decide (g_serf g = id)); exact X.
Qed.

Lemma uss_chks_new g st c id e :
  l_chks (uss_apply g st c) !! id = Some e -> l_chks st !! id = None ->
  ce_del e = true /\ ce_def e = None /\ is_Some (c_chks c !! id).
Proof.
  intros L N. rewrite uss_chks_lookup, N in L.
  destruct (decide (g_serf g = id)); [discriminate|]. unfold uss_chk in L.
  destruct (c_chks c !! id); [|discriminate]. injection L as <-. cbn. eauto.
Qed.

Lemma uss_wf_local g st c : wf_local st -> c_svcs c !! 0%N = None -> wf_local (uss_apply g st c).
Proof.
  intros (W1 & W2 & W3) C0. split; [|split].
  - intros id e L D. destruct (l_svcs st !! id) as [e0|] eqn:L0.
    + destruct (uss_svcs_old g st c id e0 L0) as (e' & L' & Dl & _ & _ & _ & Fs). rewrite L in L'. injection L' as <-.
      apply Fs. apply (W1 id e0 L0). congruence.
    + destruct (uss_svcs_new _ _ _ _ _ L L0) as (D' & _). congruence.
  - intros id e L D. destruct (l_chks st !! id) as [e0|] eqn:L0.
    + destruct (uss_chks_old g st c id e0 L0) as (e' & L' & Dl & Fd & _). rewrite L in L'. injection L' as <-.
      destruct (W2 id e0 L0) as (d & Hd & Hs); [congruence|]. exists d. split; [congruence|].
      destruct Hs as [?|(s & Ls & Ds)]; [auto|]. right.
      destruct (uss_svcs_old g st c _ s Ls) as (s' & Ls' & Dl' & _). exists s'. split; [exact Ls'|congruence].
    + destruct (uss_chks_new _ _ _ _ _ L L0) as (D' & _). congruence.
  - rewrite uss_svcs_lookup, W3, C0. destruct (decide (g_consul g = 0%N)); reflexivity.
Qed.

Lemma uss_bind_ok g st c : bind_ok st c -> bind_ok (uss_apply g st c) c.
Proof.
  intros B id e d r L D F Lr. destruct (l_chks st !! id) as [e0|] eqn:L0.
  - destruct (uss_chks_old g st c id e0 L0) as (e' & L' & Dl & Fd & _). rewrite L in L'. injection L' as <-.
    apply (B id e0 d r L0); congruence.
  - destruct (uss_chks_new _ _ _ _ _ L L0) as (_ & F' & _). congruence.
Qed.

(* the shape of SyncFull *)
Lemma sync_full_cases g os oc st c fs st' c' fs' log err :
  sync_full g os oc st c fs = (st', c', fs', log, err) ->
  (st' = st /\ c' = c /\ err = true /\ (forall ev, In ev log -> e_kind ev = KListSvcs \/ e_kind ev = KListChks)) \/
  (exists fs1 la lb, update_sync_state g st c fs = (uss_apply g st c, fs1, la, false) /\
                     (forall ev, In ev la -> e_kind ev = KListSvcs \/ e_kind ev = KListChks) /\
                     sync_changes g os oc (uss_apply g st c) c fs1 = (st', c', fs', lb, err) /\ log = la ++ lb).
Proof.
  unfold sync_full, update_sync_state.
  destruct (next fs) as [o1 fs1]. destruct o1; try (intros [= <- <- <- <- <-]; left; repeat split; auto;
    intros ev [<-|[]]; cbn; auto).
  destruct (next fs1) as [o2 fs2]. destruct o2; try (intros [= <- <- <- <- <-]; left; repeat split; auto;
    intros ev [<-|[<-|[]]]; cbn; auto).
  destruct (sync_changes g os oc (uss_apply g st c) c fs2) as [[[[st2 c2] fs3] lb] e2] eqn:E.
  intros [= <- <- <- <- <-]. right. eexists fs2, _, lb. repeat split; auto.
  intros ev [<-|[<-|[]]]; cbn; auto.
Qed.

(* ------------------------------------------------------------------ C16_no_false_insync, full sync *)

Theorem no_false_insync_full g os oc st c fs st' c' fs' log err :
  wf_local st -> c_svcs c !! 0%N = None ->
  sync_full g os oc st c fs = (st', c', fs', log, err) ->
  (st' = st /\ c' = c /\ err = true) \/
  ((forall id e d, l_svcs st' !! id = Some e -> se_sync e = true -> se_del e = false -> se_def e = Some d ->
      holds_svc c' id d \/ refused_svc log id) /\
   (forall id e d, l_chks st' !! id = Some e -> ce_sync e = true -> ce_del e = false -> ce_def e = Some d ->
      holds_ce c' id e d \/ refused_chk log id)).
Proof.
  intros W C0 E. apply sync_full_cases in E as [(-> & -> & -> & _)|(fs1 & la & lb & _ & _ & E & ->)]; [auto|]. right.
  pose proof (sync_changes_INV _ _ _ _ _ _ _ _ _ _ _ (uss_wf_local g st c W C0) E) as I. split.
  - intros id e d L S D F. destruct (inv_hs _ _ _ _ _ I id e d L S D F) as [?|[?|[L1 N]]]; auto.
    + right. apply refused_svc_app. auto.
    + exfalso. apply N. eapply uss_held_svc; eauto.
  - intros id e d L S D F. destruct (inv_hc _ _ _ _ _ I id e d L S D F) as [?|[?|[L1 N]]]; auto.
    + right. apply refused_chk_app. auto.
    + exfalso. apply N. eapply uss_held_chk; eauto.
Qed.

(* ------------------------------------------------------------------ C16_deletes_remembered *)

Theorem deletes_remembered_changes g os oc st c fs st' c' fs' log err :
  wf_local st -> sync_changes g os oc st c fs = (st', c', fs', log, err) ->
  (forall id e, l_svcs st !! id = Some e -> se_del e = true ->
     (exists e', l_svcs st' !! id = Some e' /\ se_del e' = true) \/ c_svcs c' !! id = None) /\
  (wf_cat c -> bind_ok st c ->
   forall id e, l_chks st !! id = Some e -> ce_del e = true ->
     (exists e', l_chks st' !! id = Some e' /\ ce_del e' = true) \/ c_chks c' !! id = None).
Proof.
  intros W E. pose proof (sync_changes_INV _ _ _ _ _ _ _ _ _ _ _ W E) as I. split.
  - intros id e L D. destruct (l_svcs st' !! id) as [e'|] eqn:L'.
    + left. exists e'. split; [reflexivity|].
      destruct (inv_svcs _ _ _ _ _ I id e' L') as (e0 & L0 & S0). apply sle_def in S0 as (_ & Sl & _). congruence.
    + right. exact (proj2 (inv_sgone _ _ _ _ _ I id e L L')).
  - intros Wc B id e L D.
    pose proof (sync_changes_INV2 _ _ _ _ _ _ _ _ _ _ _ W Wc B E) as J.
    destruct (l_chks st' !! id) as [e'|] eqn:L'.
    + left. exists e'. split; [reflexivity|].
      destruct (inv_chks _ _ _ _ _ I id e' L') as (e0 & L0 & S0). apply cle_def in S0 as (_ & Sl & _). congruence.
    + right. exact (inv2_cgone _ _ _ _ J id e L L').
Qed.

Theorem deletes_remembered_full g os oc st c fs st' c' fs' log err :
  wf_local st -> wf_cat c ->
  sync_full g os oc st c fs = (st', c', fs', log, err) ->
  (forall id e, l_svcs st !! id = Some e -> se_del e = true ->
     (exists e', l_svcs st' !! id = Some e' /\ se_del e' = true) \/ c_svcs c' !! id = None) /\
  (bind_ok st c ->
   forall id e, l_chks st !! id = Some e -> ce_del e = true ->
     (exists e', l_chks st' !! id = Some e' /\ ce_del e' = true) \/ c_chks c' !! id = None).
Proof.
  intros W Wc E. apply sync_full_cases in E as [(-> & -> & -> & _)|(fs1 & la & lb & _ & _ & E & ->)].
  - split; [|intros _]; intros id e L D; left; eauto.
  - pose proof (uss_wf_local g st c W (proj2 Wc)) as W1.
    destruct (deletes_remembered_changes _ _ _ _ _ _ _ _ _ _ _ W1 E) as [Hs Hc]. split.
    + intros id e L D. destruct (uss_svcs_old g st c id e L) as (e1 & L1 & Dl & _).
      apply (Hs id e1 L1). congruence.
    + intros B id e L D. destruct (uss_chks_old g st c id e L) as (e1 & L1 & Dl & _).
      apply (Hc Wc (uss_bind_ok g st c B) id e1 L1). congruence.
Qed.
