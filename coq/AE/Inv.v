(* C16 — the invariants of one SyncChanges pass, for every fault list and visiting order. *)
From Verif Require Import Base.Prelude AE.Model AE.Basics AE.Steps.
From stdpp Require Import gmap.

(* ------------------------------------------------------------------ vocabulary *)

(* the catalog holds a service definition exactly; it holds a check definition up to the two
   fields it copies from its own service row (ServiceName, ServiceTags) *)
Definition holds_svc (c : cat) (id : N) (d : svc) : Prop := c_svcs c !! id = Some d.
Definition holds_chk_upto (blank : bool) (c : cat) (id : N) (d : chk) : Prop :=
  exists r, c_chks c !! id = Some r /\ chk_core_upto blank r = chk_core_upto blank d.
Definition holds_chk (c : cat) (id : N) (d : chk) : Prop := holds_chk_upto false c id d.
(* what can be said of a local entry: held, up to the Output while its deferred-output timer is
   pending (UpdateCheck with CheckUpdateInterval > 0 changes the local Output without a push) *)
Definition holds_ce (c : cat) (id : N) (e : centry) (d : chk) : Prop := holds_chk_upto (ce_defer e) c id d.

Lemma holds_chk_weaken b c id d : holds_chk c id d -> holds_chk_upto b c id d.
Proof. intros (r & L & E). exists r. split; [exact L|apply chk_core_weaken; exact E]. Qed.

(* the registration of the entry was refused by ACLs (permission denied / ACL not found) in
   this log: for a check either its own registration, or the service registration it rode on *)
Definition refused_svc (log : list event) (id : N) : Prop :=
  exists ev, In ev log /\ refusal (e_out ev) = true /\ e_kind ev = KSyncSvc /\ e_id ev = id.
Definition refused_chk (log : list event) (id : N) : Prop :=
  exists ev, In ev log /\ refusal (e_out ev) = true /\
             ((e_kind ev = KSyncChk /\ e_id ev = id) \/ (e_kind ev = KSyncSvc /\ In id (e_pig ev))).

(* agent-style local state: live entries have definitions; a live check is a node check or
   belongs to a live service ("a service is removed together with its checks") *)
Definition wf_local (st : lstate) : Prop :=
  (forall id e, l_svcs st !! id = Some e -> se_del e = false -> is_Some (se_def e)) /\
  (forall id e, l_chks st !! id = Some e -> ce_del e = false ->
     exists d, ce_def e = Some d /\
               (ck_sid d = 0%N \/ exists s, l_svcs st !! ck_sid d = Some s /\ se_del s = false)) /\
  l_svcs st !! 0%N = None.

(* what the state store guarantees (C07): no check without its service *)
Definition wf_cat (c : cat) : Prop :=
  (forall id r, c_chks c !! id = Some r -> ck_sid r = 0%N \/ is_Some (c_svcs c !! ck_sid r)) /\
  c_svcs c !! 0%N = None.

(* a locally removed check that the catalog still holds is bound there to the same service *)
Definition bind_ok (st : lstate) (c : cat) : Prop :=
  forall id e d r, l_chks st !! id = Some e -> ce_del e = true -> ce_def e = Some d ->
                   c_chks c !! id = Some r -> ck_sid r = ck_sid d.

Definition sle (e e0 : sentry) : Prop := e = e0 \/ e = se_set_sync true e0.
(* a check entry after some sync steps: untouched, or it was out of sync and only its InSync flag
   and its deferred-output timer may have changed *)
Definition cle (e e0 : centry) : Prop :=
  e = e0 \/ (ce_sync e0 = false /\ ce_def e = ce_def e0 /\ ce_del e = ce_del e0 /\ ce_tok e = ce_tok e0 /\ ce_loc e = ce_loc e0 /\
              (ce_defer e = true -> ce_defer e0 = true)).

Lemma sle_refl e : sle e e. Proof. left; reflexivity. Qed.
Lemma cle_refl e : cle e e. Proof. left; reflexivity. Qed.
Lemma sle_mark e e0 : sle e e0 -> sle (se_set_sync true e) e0.
Proof. intros [->| ->]; right; reflexivity. Qed.
Lemma ce_set_sync_id e : ce_sync e = true -> ce_set_sync true e = e.
Proof. destruct e; cbn; intros ->; reflexivity. Qed.
Lemma cle_mark e : cle (ce_set_sync true e) e.
Proof. destruct (ce_sync e) eqn:S; [left; apply ce_set_sync_id; exact S|right; cbn; auto 10]. Qed.
Lemma cle_clear e : ce_sync e = false -> cle (ce_clear_defer e) e.
Proof. intros S. right. cbn. repeat split; auto; discriminate. Qed.
Lemma cle_mark_clear e : ce_sync e = false -> cle (ce_set_sync true (ce_clear_defer e)) e.
Proof. intros S. right. cbn. repeat split; auto; discriminate. Qed.
Lemma cle_defer e e0 : cle e e0 -> ce_defer e = true -> ce_defer e0 = true.
Proof. intros [->|(_ & _ & _ & _ & _ & H)]; auto. Qed.
Lemma cle_sync e e0 : cle e e0 -> ce_sync e0 = true -> e = e0.
Proof. intros [->|(S & _)] H; [reflexivity|congruence]. Qed.
Lemma sle_def e e0 : sle e e0 -> se_def e = se_def e0 /\ se_del e = se_del e0 /\ se_tok e = se_tok e0 /\ se_loc e = se_loc e0.
Proof. intros [->| ->]; auto. Qed.
Lemma cle_def e e0 : cle e e0 -> ce_def e = ce_def e0 /\ ce_del e = ce_del e0 /\ ce_tok e = ce_tok e0 /\ ce_loc e = ce_loc e0.
Proof. intros [->|(_ & H1 & H2 & H3 & H4 & _)]; auto. Qed.

Lemma refused_svc_mono log ev id : refused_svc log id -> refused_svc (log ++ [ev]) id.
Proof. intros [x [Hin H]]. exists x. split; [apply in_or_app; auto|exact H]. Qed.
Lemma refused_chk_mono log ev id : refused_chk log id -> refused_chk (log ++ [ev]) id.
Proof. intros [x [Hin H]]. exists x. split; [apply in_or_app; auto|exact H]. Qed.
Lemma refused_svc_app log log' id : refused_svc log id \/ refused_svc log' id -> refused_svc (log ++ log') id.
Proof. intros [[x [Hin H]]|[x [Hin H]]]; exists x; (split; [apply in_or_app; auto|exact H]). Qed.
Lemma refused_chk_app log log' id : refused_chk log id \/ refused_chk log' id -> refused_chk (log ++ log') id.
Proof. intros [[x [Hin H]]|[x [Hin H]]]; exists x; (split; [apply in_or_app; auto|exact H]). Qed.

Global Instance holds_svc_dec c id d : Decision (holds_svc c id d).
Proof. unfold holds_svc. apply _. Defined.

Lemma holds_chk_dec b c id d : holds_chk_upto b c id d \/ ~ holds_chk_upto b c id d.
Proof.
  unfold holds_chk_upto. destruct (c_chks c !! id) as [r|] eqn:L.
  - destruct (decide (chk_core_upto b r = chk_core_upto b d)) as [E|E].
    + left. eauto.
    + right. intros [r' [[= <-] H]]. contradiction.
  - right. intros [r' [H _]]. discriminate.
Qed.

(* ------------------------------------------------------------------ shapes of a step *)

Lemma step_svcs_shape g st c st' c' ev :
  Step g st c st' c' ev ->
  l_svcs st' = l_svcs st \/
  (exists id e, l_svcs st !! id = Some e /\ l_svcs st' = <[id := se_set_sync true e]> (l_svcs st)) \/
  (exists id e, l_svcs st !! id = Some e /\ se_del e = true /\ l_svcs st' = delete id (l_svcs st)).
Proof. intros H. inversion H; subst; cbn; eauto 8. Qed.

Lemma step_chks_shape g st c st' c' ev :
  Step g st c st' c' ev ->
  l_chks st' = l_chks st \/
  (exists id e e', l_chks st !! id = Some e /\ cle e' e /\ l_chks st' = <[id := e']> (l_chks st)) \/
  (exists id e, l_chks st !! id = Some e /\ ce_del e = true /\ l_chks st' = delete id (l_chks st)) \/
  (exists id tok, l_chks st' = mark_pig g id tok (l_chks st)) \/
  (exists id e, l_svcs st !! id = Some e /\ se_del e = true /\ l_chks st' = prune_chks id (l_chks st)).
Proof.
  intros H. inversion H; subst; cbn; eauto 10;
    right; left; eexists _, _, _; (split; [eassumption|split; [|reflexivity]]);
    auto using cle_mark, cle_clear, cle_mark_clear.
Qed.

(* every entry after a step is an entry before the step, possibly marked in sync *)
Lemma step_svcs_back g st c st' c' ev id e :
  Step g st c st' c' ev -> l_svcs st' !! id = Some e ->
  exists e1, l_svcs st !! id = Some e1 /\ sle e e1.
Proof.
  intros H L. apply step_svcs_shape in H as [E|[(i & x & Lx & E)|(i & x & Lx & Dx & E)]]; rewrite E in L.
  - eauto using sle_refl.
  - apply lookup_insert_Some in L as [[<- <-]|[_ L]]; [exists x; split; [exact Lx|right; reflexivity]|eauto using sle_refl].
  - apply lookup_delete_Some in L as [_ L]. eauto using sle_refl.
Qed.

Lemma step_chks_back g st c st' c' ev id e :
  Step g st c st' c' ev -> l_chks st' !! id = Some e ->
  exists e1, l_chks st !! id = Some e1 /\ cle e e1.
Proof.
  intros H L.
  apply step_chks_shape in H as [E|[(i & x & x' & Lx & Cx & E)|[(i & x & Lx & Dx & E)|[(i & tok & E)|(i & x & Lx & Dx & E)]]]]; rewrite E in L.
  - eauto using cle_refl.
  - apply lookup_insert_Some in L as [[<- <-]|[_ L]]; [exists x; split; [exact Lx|exact Cx]|eauto using cle_refl].
  - apply lookup_delete_Some in L as [_ L]. eauto using cle_refl.
  - rewrite mark_pig_lookup in L. destruct (l_chks st !! id) as [e1|]; [|discriminate].
    exists e1. split; [reflexivity|]. injection L as <-. destruct (is_pig g i tok e1); [apply cle_mark|apply cle_refl].
  - apply prune_lookup_Some in L as [L _]. eauto using cle_refl.
Qed.

(* an entry disappears only when it was marked deleted *)
Lemma step_svcs_gone g st c st' c' ev id e :
  Step g st c st' c' ev -> l_svcs st !! id = Some e -> l_svcs st' !! id = None -> se_del e = true.
Proof.
  intros H L N. apply step_svcs_shape in H as [E|[(i & x & Lx & E)|(i & x & Lx & Dx & E)]]; rewrite E in N.
  - congruence.
  - destruct (decide (i = id)) as [->|Hne]; [rewrite lookup_insert in N; discriminate|].
    rewrite lookup_insert_ne in N by exact Hne. congruence.
  - destruct (decide (i = id)) as [->|Hne]; [congruence|]. rewrite lookup_delete_ne in N by exact Hne. congruence.
Qed.

Lemma step_chks_gone g st c st' c' ev id e :
  Step g st c st' c' ev -> l_chks st !! id = Some e -> l_chks st' !! id = None -> ce_del e = true.
Proof.
  intros H L N.
  apply step_chks_shape in H as [E|[(i & x & x' & Lx & Cx & E)|[(i & x & Lx & Dx & E)|[(i & tok & E)|(i & x & Lx & Dx & E)]]]]; rewrite E in N.
  - congruence.
  - destruct (decide (i = id)) as [->|Hne]; [rewrite lookup_insert in N; discriminate|].
    rewrite lookup_insert_ne in N by exact Hne. congruence.
  - destruct (decide (i = id)) as [->|Hne]; [congruence|]. rewrite lookup_delete_ne in N by exact Hne. congruence.
  - rewrite mark_pig_lookup, L in N. discriminate.
  - apply prune_lookup_None in N as [N|[e' [L' P]]]; [congruence|].
    rewrite L in L'. injection L' as <-. apply prunable_spec in P as [P _]. exact P.
Qed.

(* ------------------------------------------------------------------ wf_local is preserved *)

Lemma step_wf_local g st c st' c' ev : Step g st c st' c' ev -> wf_local st -> wf_local st'.
Proof.
  intros H (W1 & W2 & W3). split; [|split].
  - intros id e L D. destruct (step_svcs_back _ _ _ _ _ _ _ _ H L) as (e1 & L1 & S).
    apply sle_def in S as (Sd & Sl & _). rewrite Sd. apply (W1 id e1 L1). congruence.
  - intros id e L D. destruct (step_chks_back _ _ _ _ _ _ _ _ H L) as (e1 & L1 & S).
    apply cle_def in S as (Sd & Sl & _). rewrite Sd.
    destruct (W2 id e1 L1) as (d & Hd & Hs); [congruence|]. exists d. split; [exact Hd|].
    destruct Hs as [Hs|(s & Ls & Ds)]; [auto|]. right.
    destruct (l_svcs st' !! ck_sid d) as [s'|] eqn:L'.
    + destruct (step_svcs_back _ _ _ _ _ _ _ _ H L') as (s1 & Ls1 & S1).
      apply sle_def in S1 as (_ & Sl1 & _). exists s'. split; [reflexivity|]. congruence.
    + pose proof (step_svcs_gone _ _ _ _ _ _ _ _ H Ls L'). congruence.
  - destruct (l_svcs st' !! 0%N) as [e|] eqn:L; [|reflexivity].
    destruct (step_svcs_back _ _ _ _ _ _ _ _ H L) as (e1 & L1 & _). congruence.
Qed.

(* ------------------------------------------------------------------ what a step does to the catalog *)

Lemma sync_sv_Some st d sid sd :
  sync_sv st d = Some (sid, sd) ->
  sid = ck_sid d /\ exists s, l_svcs st !! sid = Some s /\ se_del s = false /\ se_def s = Some sd.
Proof.
  unfold sync_sv. destruct (l_svcs st !! ck_sid d) as [s|] eqn:L; [|discriminate].
  destruct (se_del s) eqn:D; [discriminate|]. destruct (se_def s) as [x|] eqn:F; [|discriminate].
  intros [= <- <-]. eauto.
Qed.

(* a service row of the catalog is untouched, or overwritten with the definition of the live
   local entry of the same id, or removed together with the local (deleted) entry *)
Lemma step_csvcs g st c st' c' ev id :
  Step g st c st' c' ev ->
  c_svcs c' !! id = c_svcs c !! id \/
  (exists e d, l_svcs st !! id = Some e /\ se_del e = false /\ se_def e = Some d /\ c_svcs c' !! id = Some d) \/
  (exists e, l_svcs st !! id = Some e /\ se_del e = true /\ l_svcs st' !! id = None /\ c_svcs c' !! id = None).
Proof.
  intros H. inversion H; subst; cbn; auto.
  - (* svc_ok *) apply cat_register_Some in H5 as (_ & Hs & _). rewrite Hs, reg_svcs_lookup.
    destruct (decide (id0 = id)) as [->|Hne]; [right; left; exists e, d; auto|auto].
  - (* delsvc_ok *) rewrite dereg_svc_svcs. destruct (decide (id0 = id)) as [->|Hne]; [|auto].
    right; right. exists e. rewrite lookup_delete. auto.
  - (* chk_ok *) apply cat_register_Some in H5 as (_ & Hs & _). rewrite Hs, reg_svcs_lookup.
    destruct (sync_sv st d) as [[sid sd]|] eqn:SV; [|auto].
    destruct (decide (sid = id)) as [->|Hne]; [|auto].
    apply sync_sv_Some in SV as (_ & s & Ls & Ds & Fs). right; left. exists s, sd. auto.
Qed.

Lemma step_svcs_gone_cat g st c st' c' ev id e :
  Step g st c st' c' ev -> l_svcs st !! id = Some e -> l_svcs st' !! id = None -> c_svcs c' !! id = None.
Proof.
  intros H L N. inversion H; subst; cbn in *; try congruence.
  - destruct (decide (id0 = id)) as [->|Hne]; [rewrite lookup_insert in N; discriminate|].
    rewrite lookup_insert_ne in N by exact Hne. congruence.
  - destruct (decide (id0 = id)) as [->|Hne]; [rewrite lookup_insert in N; discriminate|].
    rewrite lookup_insert_ne in N by exact Hne. congruence.
  - rewrite dereg_svc_svcs. destruct (decide (id0 = id)) as [->|Hne]; [reflexivity|].
    rewrite lookup_delete_ne in N by exact Hne. congruence.
  - destruct (decide (id0 = id)) as [->|Hne]; [assumption|].
    rewrite lookup_delete_ne in N by exact Hne. congruence.
  - destruct (decide (id0 = id)) as [->|Hne]; [rewrite lookup_insert in N; discriminate|].
    rewrite lookup_insert_ne in N by exact Hne. congruence.
Qed.

(* a check row of the catalog is untouched, or overwritten with (the stamped form of) the
   definition of the live local entry of the same id, which is thereby marked in sync, or
   removed: by its own deregistration, or by the cascade of a service deregistration *)
Lemma step_cchks g st c st' c' ev id :
  Step g st c st' c' ev ->
  c_chks c' !! id = c_chks c !! id \/
  (exists e d r, l_chks st !! id = Some e /\ ce_del e = false /\ ce_def e = Some d /\
                 c_chks c' !! id = Some r /\ chk_core r = chk_core d) \/
  (c_chks c' !! id = None /\
   ((exists e, l_chks st !! id = Some e /\ ce_del e = true /\ l_chks st' !! id = None) \/
    (exists sid e r, l_svcs st !! sid = Some e /\ se_del e = true /\ c_chks c !! id = Some r /\ ck_sid r = sid))).
Proof.
  intros H. inversion H; subst; cbn; auto.
  - (* svc_ok *) apply cat_register_Some in H5 as (_ & _ & Hc & Hall). rewrite Hc, reg_chks_lookup, pig_of_lookup.
    destruct (l_chks st !! id) as [x|] eqn:Lx; [|auto].
    destruct (is_pig g id0 (reg_token g (se_tok e) (se_loc e)) x) eqn:P; [|auto].
    destruct (is_pig_spec _ _ _ _ P) as (dx & Fx & Dx & Sx & Bx). rewrite Fx.
    destruct (Hall id dx) as [r Hr]; [rewrite pig_of_lookup, Lx, P; exact Fx|]. rewrite Hr.
    right; left. exists x, dx, (keep_same (c_chks c !! id) r). repeat split; auto.
    rewrite (proj1 (keep_same_core _ _)). apply stamp_Some in Hr as [Hr _]. exact Hr.
  - (* delsvc_ok *) rewrite dereg_svc_chks. destruct (c_svcs c !! id0) eqn:Ls; [|auto].
    destruct (c_chks c !! id) as [r|] eqn:Lr; [|auto].
    destruct (decide (ck_sid r = id0)) as [E|E]; [|auto].
    right; right. split; [reflexivity|]. right. exists id0, e, r. auto.
  - (* chk_ok *) apply cat_register_Some in H5 as (_ & _ & Hc & Hall). rewrite Hc, reg_chks_lookup.
    destruct (decide (id0 = id)) as [->|Hne].
    + rewrite lookup_singleton. destruct (Hall id d) as [r Hr]; [apply lookup_singleton|]. rewrite Hr.
      right; left. exists e, d, (keep_same (c_chks c !! id) r). repeat split; auto.
      rewrite (proj1 (keep_same_core _ _)). apply stamp_Some in Hr as [Hr _]. exact Hr.
    + rewrite lookup_singleton_ne by exact Hne. auto.
  - (* delchk_ok *) destruct (decide (id0 = id)) as [->|Hne].
    + right; right. rewrite !lookup_delete. split; [reflexivity|]. left. eauto.
    + rewrite lookup_delete_ne by exact Hne. auto.
Qed.

(* ------------------------------------------------------------------ an entry is marked in sync only with cause *)

Lemma step_mark_svc g st c st' c' ev id e e' :
  Step g st c st' c' ev -> l_svcs st !! id = Some e -> l_svcs st' !! id = Some e' ->
  se_sync e = false -> se_sync e' = true -> se_del e = false ->
  exists d, se_def e = Some d /\
            (holds_svc c' id d \/ (refusal (e_out ev) = true /\ e_kind ev = KSyncSvc /\ e_id ev = id)).
Proof.
  intros H L L' S S' D. unfold holds_svc.
  inversion H; subst; cbn in *; try congruence.
  - destruct (decide (id0 = id)) as [->|Hne].
    + exists d. split; [congruence|]. left. apply cat_register_Some in H5 as (_ & Hs & _).
      rewrite Hs, reg_svcs_lookup. destruct (decide (id = id)); [reflexivity|contradiction].
    + rewrite lookup_insert_ne in L' by exact Hne. congruence.
  - destruct (decide (id0 = id)) as [->|Hne].
    + exists d. split; [congruence|]. right. auto.
    + rewrite lookup_insert_ne in L' by exact Hne. congruence.
  - apply lookup_delete_Some in L' as [_ L']. congruence.
  - apply lookup_delete_Some in L' as [_ L']. congruence.
  - destruct (decide (id0 = id)) as [->|Hne]; [congruence|].
    rewrite lookup_insert_ne in L' by exact Hne. congruence.
Qed.

Lemma step_mark_chk g st c st' c' ev id e e' :
  Step g st c st' c' ev -> l_chks st !! id = Some e -> l_chks st' !! id = Some e' ->
  ce_sync e = false -> ce_sync e' = true -> ce_del e = false ->
  exists d, ce_def e = Some d /\
            (holds_chk c' id d \/
             (refusal (e_out ev) = true /\
              ((e_kind ev = KSyncChk /\ e_id ev = id) \/ (e_kind ev = KSyncSvc /\ In id (e_pig ev))))).
Proof.
  intros H L L' S S' D. unfold holds_chk, holds_chk_upto.
  inversion H; subst; cbn in *; try congruence.
  - (* svc_ok *) rewrite mark_pig_lookup, L in L'. injection L' as <-.
    destruct (is_pig g id0 (reg_token g (se_tok e0) (se_loc e0)) e) eqn:P; [|congruence].
    destruct (is_pig_spec _ _ _ _ P) as (dx & Fx & _). exists dx. split; [exact Fx|]. left.
    apply cat_register_Some in H5 as (_ & _ & Hc & Hall). rewrite Hc, reg_chks_lookup, pig_of_lookup, L, P, Fx.
    destruct (Hall id dx) as [r Hr]; [rewrite pig_of_lookup, L, P; exact Fx|]. rewrite Hr.
    eexists. split; [reflexivity|]. fold (chk_core (keep_same (c_chks c !! id) r)). rewrite (proj1 (keep_same_core _ _)). apply stamp_Some in Hr as [Hr _]. exact Hr.
  - (* svc_refused *) rewrite mark_pig_lookup, L in L'. injection L' as <-.
    destruct (is_pig g id0 (reg_token g (se_tok e0) (se_loc e0)) e) eqn:P; [|congruence].
    destruct (is_pig_spec _ _ _ _ P) as (dx & Fx & _). exists dx. split; [exact Fx|]. right.
    split; [assumption|]. right. split; [reflexivity|]. apply In_keys. rewrite pig_of_lookup, L, P, Fx. eauto.
  - apply prune_lookup_Some in L' as [L' _]. congruence.
  - apply prune_lookup_Some in L' as [L' _]. congruence.
  - (* chk_ok *) destruct (decide (id0 = id)) as [->|Hne].
    + exists d. split; [congruence|]. left.
      apply cat_register_Some in H5 as (_ & _ & Hc & Hall). rewrite Hc, reg_chks_lookup, lookup_singleton.
      destruct (Hall id d) as [r Hr]; [apply lookup_singleton|]. rewrite Hr.
      eexists. split; [reflexivity|]. fold (chk_core (keep_same (c_chks c !! id) r)). rewrite (proj1 (keep_same_core _ _)). apply stamp_Some in Hr as [Hr _]. exact Hr.
    + rewrite lookup_insert_ne in L' by exact Hne. congruence.
  - (* chk_fail *) destruct (decide (id0 = id)) as [->|Hne].
    + rewrite lookup_insert in L'. injection L' as <-. cbn in S'. congruence.
    + rewrite lookup_insert_ne in L' by exact Hne. congruence.
  - destruct (decide (id0 = id)) as [->|Hne].
    + exists d. split; [congruence|]. right. auto.
    + rewrite lookup_insert_ne in L' by exact Hne. congruence.
  - apply lookup_delete_Some in L' as [_ L']. congruence.
  - apply lookup_delete_Some in L' as [_ L']. congruence.
  - destruct (decide (id0 = id)) as [->|Hne]; [congruence|].
    rewrite lookup_insert_ne in L' by exact Hne. congruence.
Qed.

(* ------------------------------------------------------------------ what the catalog holds stays held *)

Lemma step_keep_svc g st c st' c' ev id e' d :
  Step g st c st' c' ev -> l_svcs st' !! id = Some e' -> se_def e' = Some d ->
  holds_svc c id d -> holds_svc c' id d.
Proof.
  intros H L' F Hh. unfold holds_svc in *.
  destruct (step_svcs_back _ _ _ _ _ _ _ _ H L') as (e1 & L1 & S1). apply sle_def in S1 as (Sd & _).
  destruct (step_csvcs _ _ _ _ _ _ id H) as [E|[(e & dx & Le & De & Fe & E)|(e & Le & De & N & E)]].
  - congruence.
  - rewrite E. congruence.
  - congruence.
Qed.

Lemma step_keep_chk b g st c st' c' ev id e' d :
  Step g st c st' c' ev -> wf_local st -> l_chks st' !! id = Some e' -> ce_del e' = false -> ce_def e' = Some d ->
  holds_chk_upto b c id d -> holds_chk_upto b c' id d.
Proof.
  intros H (W1 & W2 & W3) L' D F (r & Lr & Cr). unfold holds_chk_upto.
  destruct (step_chks_back _ _ _ _ _ _ _ _ H L') as (e1 & L1 & S1). apply cle_def in S1 as (Sd & Sl & _).
  destruct (step_cchks _ _ _ _ _ _ id H) as [E|[(e & dx & rx & Le & De & Fe & E & Cx)|(E & [(e & Le & De & N)|(sid & e & rx & Le & De & Lx & Bx)])]].
  - exists r. split; congruence.
  - exists rx. split; [exact E|]. apply chk_core_weaken. congruence.
  - congruence.
  - exfalso. rewrite Lr in Lx. injection Lx as <-.
    destruct (W2 id e1 L1) as (d1 & F1 & Hs); [congruence|].
    assert (d1 = d) by congruence. subst d1.
    assert (Hsid : ck_sid d = sid) by (unfold chk_core_upto in Cr; congruence).
    destruct Hs as [Hs|(s & Ls & Ds)]; [congruence|]. congruence.
Qed.

(* ------------------------------------------------------------------ the catalog stays well-formed *)

Lemma cat_register_wf ni skip sv chks c c' :
  wf_cat c -> (forall id d, sv = Some (id, d) -> id <> 0%N) ->
  cat_register ni skip sv chks c = Some c' -> wf_cat c'.
Proof.
  intros (W1 & W2) Hsv R. apply cat_register_Some in R as (_ & Hs & Hc & Hall). split.
  - intros id r L. rewrite Hc, reg_chks_lookup in L. rewrite Hs.
    destruct (chks !! id) as [d|] eqn:Ld.
    + destruct (Hall id d Ld) as [r' Hr']. rewrite Hr' in L. injection L as <-.
      pose proof (stamp_sid _ _ _ Hr') as E. apply stamp_Some in Hr' as [_ Hr'].
      rewrite (proj2 (keep_same_core _ _)), E. exact Hr'.
    + destruct (W1 id r L) as [?|?]; [auto|right; apply reg_svcs_mono; assumption].
  - rewrite Hs, reg_svcs_lookup. destruct sv as [[id d]|]; [|exact W2].
    destruct (decide (id = 0%N)) as [E|E]; [exfalso; exact (Hsv id d eq_refl E)|exact W2].
Qed.

Lemma dereg_svc_wf id c : wf_cat c -> wf_cat (cat_dereg_svc id c).
Proof.
  intros (W1 & W2). split.
  - intros k r L. rewrite dereg_svc_chks in L. rewrite dereg_svc_svcs.
    destruct (c_svcs c !! id) eqn:Ls.
    + destruct (c_chks c !! k) as [r'|] eqn:Lr; [|discriminate].
      destruct (decide (ck_sid r' = id)) as [E|E]; [discriminate|]. injection L as <-.
      destruct (decide (id = ck_sid r')) as [E'|E']; [congruence|]. exact (W1 k r' Lr).
    + destruct (decide (id = ck_sid r)) as [E'|E']; [|exact (W1 k r L)].
      destruct (W1 k r L) as [?|[s Hs]]; [auto|]. congruence.
  - rewrite dereg_svc_svcs. destruct (decide (id = 0%N)); [reflexivity|exact W2].
Qed.

Lemma dereg_chk_wf id c : wf_cat c -> wf_cat (cat_dereg_chk id c).
Proof.
  intros (W1 & W2). split; [|exact W2]. intros k r L. cbn in *.
  apply lookup_delete_Some in L as [_ L]. exact (W1 k r L).
Qed.

Lemma step_wf_cat g st c st' c' ev : Step g st c st' c' ev -> wf_local st -> wf_cat c -> wf_cat c'.
Proof.
  intros H (W1 & W2 & W3) Wc. inversion H; subst; auto using dereg_svc_wf, dereg_chk_wf.
  - eapply cat_register_wf; [exact Wc| |eassumption]. intros i x [= <- <-] ->. congruence.
  - eapply cat_register_wf; [exact Wc| |eassumption]. intros i x SV ->.
    apply sync_sv_Some in SV as (_ & s & Ls & _). congruence.
Qed.

(* a check entry disappears only when the catalog does not hold the check (given that removed
   checks are bound in the catalog to the service they were bound to locally) *)
Lemma step_chks_gone_cat g st c st' c' ev id e :
  Step g st c st' c' ev -> wf_local st -> wf_cat c -> bind_ok st c ->
  l_chks st !! id = Some e -> l_chks st' !! id = None -> c_chks c' !! id = None.
Proof.
  intros H (W1 & W2 & W3) (C1 & C2) B L N.
  assert (Prune : forall id0 e0, l_svcs st !! id0 = Some e0 -> prune_chks id0 (l_chks st) !! id = None ->
                  forall r, c_chks c !! id = Some r -> ck_sid r = id0 /\ id0 <> 0%N).
  { intros id0 e0 L0 P r Lr. apply prune_lookup_None in P as [P|(x & Lx & P)]; [congruence|].
    rewrite L in Lx. injection Lx as <-. apply prunable_spec in P as (De & d & Fe & Sd).
    split; [rewrite (B id e d r L De Fe Lr); exact Sd|congruence]. }
  inversion H; subst; cbn in *; try congruence.
  - rewrite mark_pig_lookup, L in N. discriminate.
  - rewrite mark_pig_lookup, L in N. discriminate.
  - (* delsvc_ok *) rewrite dereg_svc_chks. destruct (c_chks c !! id) as [r|] eqn:Lr.
    + destruct (Prune id0 e0 H0 N r eq_refl) as [E Z].
      destruct (c_svcs c !! id0) eqn:Ls.
      * destruct (decide (ck_sid r = id0)); [reflexivity|contradiction].
      * destruct (C1 id r Lr) as [?|[s Hs]]; congruence.
    + destruct (c_svcs c !! id0); reflexivity.
  - (* delsvc_unknown *) destruct (c_chks c' !! id) as [r|] eqn:Lr; [|reflexivity].
    destruct (Prune id0 e0 H0 N r eq_refl) as [E Z].
    destruct (C1 id r Lr) as [?|[s Hs]]; congruence.
  - destruct (decide (id0 = id)) as [->|Hne]; [rewrite lookup_insert in N; discriminate|].
    rewrite lookup_insert_ne in N by exact Hne. congruence.
  - destruct (decide (id0 = id)) as [->|Hne]; [rewrite lookup_insert in N; discriminate|].
    rewrite lookup_insert_ne in N by exact Hne. congruence.
  - destruct (decide (id0 = id)) as [->|Hne]; [rewrite lookup_insert in N; discriminate|].
    rewrite lookup_insert_ne in N by exact Hne. congruence.
  - destruct (decide (id0 = id)) as [->|Hne]; [apply lookup_delete|].
    rewrite lookup_delete_ne in N by exact Hne. congruence.
  - destruct (decide (id0 = id)) as [->|Hne]; [assumption|].
    rewrite lookup_delete_ne in N by exact Hne. congruence.
  - destruct (decide (id0 = id)) as [->|Hne]; [rewrite lookup_insert in N; discriminate|].
    rewrite lookup_insert_ne in N by exact Hne. congruence.
Qed.

Lemma step_bind_ok g st c st' c' ev : Step g st c st' c' ev -> bind_ok st c -> bind_ok st' c'.
Proof.
  intros H B id e' d r L' D F Lr.
  destruct (step_chks_back _ _ _ _ _ _ _ _ H L') as (e1 & L1 & S1). apply cle_def in S1 as (Sd & Sl & _).
  destruct (step_cchks _ _ _ _ _ _ id H) as [E|[(e & dx & rx & Le & De & _)|(E & _)]].
  - apply (B id e1 d r L1); congruence.
  - congruence.
  - congruence.
Qed.

(* ------------------------------------------------------------------ the invariant of a pass *)

Lemma se_set_sync_id e : se_sync e = true -> se_set_sync true e = e.
Proof. destruct e; cbn; intros ->; reflexivity. Qed.

Lemma sle_trans e e1 e0 : sle e e1 -> sle e1 e0 -> sle e e0.
Proof. intros [->| ->] [->| ->]; unfold sle; auto. Qed.
Lemma cle_trans e e1 e0 : cle e e1 -> cle e1 e0 -> cle e e0.
Proof.
  intros [->|(S1 & A1 & B1 & C1 & D1 & F1)] H; [exact H|]. destruct H as [->|(S0 & A0 & B0 & C0 & D0 & F0)].
  - right. auto 10.
  - right. repeat split; try congruence. auto.
Qed.

Record INV (st0 : lstate) (c0 : cat) (st : lstate) (c : cat) (log : list event) : Prop := {
  inv_svcs : forall id e, l_svcs st !! id = Some e -> exists e0, l_svcs st0 !! id = Some e0 /\ sle e e0;
  inv_chks : forall id e, l_chks st !! id = Some e -> exists e0, l_chks st0 !! id = Some e0 /\ cle e e0;
  inv_sgone : forall id e0, l_svcs st0 !! id = Some e0 -> l_svcs st !! id = None ->
                            se_del e0 = true /\ c_svcs c !! id = None;
  inv_cgone : forall id e0, l_chks st0 !! id = Some e0 -> l_chks st !! id = None -> ce_del e0 = true;
  inv_foreign : forall id, l_svcs st0 !! id = None -> c_svcs c !! id = c_svcs c0 !! id;
  inv_wf : wf_local st;
  inv_hs : forall id e d, l_svcs st !! id = Some e -> se_sync e = true -> se_del e = false -> se_def e = Some d ->
             holds_svc c id d \/ refused_svc log id \/ (l_svcs st0 !! id = Some e /\ ~ holds_svc c0 id d);
  inv_hc : forall id e d, l_chks st !! id = Some e -> ce_sync e = true -> ce_del e = false -> ce_def e = Some d ->
             holds_ce c id e d \/ refused_chk log id \/ (l_chks st0 !! id = Some e /\ ~ holds_ce c0 id e d)
}.

Lemma INV_init st0 c0 : wf_local st0 -> INV st0 c0 st0 c0 [].
Proof.
  intros W. split; eauto using sle_refl, cle_refl; try congruence.
  - intros id e d L S D F. destruct (decide (holds_svc c0 id d)); auto.
  - intros id e d L S D F. destruct (holds_chk_dec (ce_defer e) c0 id d); auto.
Qed.

Lemma INV_step g st0 c0 st c log st' c' ev :
  INV st0 c0 st c log -> Step g st c st' c' ev -> INV st0 c0 st' c' (log ++ [ev]).
Proof.
  intros I H. destruct I as [Is Ic Isg Icg If Iw Ihs Ihc]. split.
  - intros id e L. destruct (step_svcs_back _ _ _ _ _ _ _ _ H L) as (e1 & L1 & S1).
    destruct (Is id e1 L1) as (e0 & L0 & S0). eauto using sle_trans.
  - intros id e L. destruct (step_chks_back _ _ _ _ _ _ _ _ H L) as (e1 & L1 & S1).
    destruct (Ic id e1 L1) as (e0 & L0 & S0). eauto using cle_trans.
  - intros id e0 L0 N. destruct (l_svcs st !! id) as [e|] eqn:L.
    + split; [|eapply step_svcs_gone_cat; eauto].
      destruct (Is id e L) as (e0' & L0' & S0). apply sle_def in S0 as (_ & Sl & _).
      pose proof (step_svcs_gone _ _ _ _ _ _ _ _ H L N). congruence.
    + destruct (Isg id e0 L0 L) as [D Cn]. split; [exact D|].
      destruct (step_csvcs _ _ _ _ _ _ id H) as [E|[(e & dx & Le & _)|(e & Le & _)]]; congruence.
  - intros id e0 L0 N. destruct (l_chks st !! id) as [e|] eqn:L.
    + destruct (Ic id e L) as (e0' & L0' & S0). apply cle_def in S0 as (_ & Sl & _).
      pose proof (step_chks_gone _ _ _ _ _ _ _ _ H L N). congruence.
    + eauto.
  - intros id L0. rewrite <- (If id L0).
    destruct (step_csvcs _ _ _ _ _ _ id H) as [E|[(e & dx & Le & _)|(e & Le & _)]]; [exact E| |];
      destruct (Is id e Le) as (e0 & L0' & _); congruence.
  - eapply step_wf_local; eauto.
  - intros id e' d L' S' D' F'.
    destruct (step_svcs_back _ _ _ _ _ _ _ _ H L') as (e1 & L1 & S1).
    pose proof (sle_def _ _ S1) as (Sd & Sl & _).
    destruct (se_sync e1) eqn:Sy1.
    + assert (e' = e1) as -> by (destruct S1 as [->| ->]; [reflexivity|apply se_set_sync_id; exact Sy1]).
      destruct (Ihs id e1 d L1 Sy1 D' F') as [Hh|[Hr|Ho]].
      * left. eapply step_keep_svc; eauto.
      * right; left. apply refused_svc_mono. exact Hr.
      * auto.
    + destruct (step_mark_svc _ _ _ _ _ _ _ _ _ H L1 L' Sy1 S') as (dx & Fx & [Hh|(R1 & R2 & R3)]); [congruence| |].
      * left. congruence.
      * right; left. exists ev. split; [apply in_or_app; right; left; reflexivity|auto].
  - intros id e' d L' S' D' F'.
    destruct (step_chks_back _ _ _ _ _ _ _ _ H L') as (e1 & L1 & S1).
    pose proof (cle_def _ _ S1) as (Sd & Sl & _).
    destruct (ce_sync e1) eqn:Sy1.
    + assert (e' = e1) as -> by (apply cle_sync; assumption).
      destruct (Ihc id e1 d L1 Sy1 D' F') as [Hh|[Hr|Ho]].
      * left. unfold holds_ce in *. eapply step_keep_chk; eauto.
      * right; left. apply refused_chk_mono. exact Hr.
      * auto.
    + destruct (step_mark_chk _ _ _ _ _ _ _ _ _ H L1 L' Sy1 S') as (dx & Fx & [Hh|(R1 & R2)]); [congruence| |].
      * left. apply holds_chk_weaken. congruence.
      * right; left. exists ev. split; [apply in_or_app; right; left; reflexivity|auto].
Qed.

(* the part that needs the catalog-side hypotheses *)
Record INV2 (st0 : lstate) (c0 : cat) (st : lstate) (c : cat) : Prop := {
  inv2_wf : wf_cat c;
  inv2_bind : bind_ok st c;
  inv2_cgone : forall id e0, l_chks st0 !! id = Some e0 -> l_chks st !! id = None -> c_chks c !! id = None;
  inv2_foreign : forall id, l_chks st0 !! id = None -> c_chks c !! id = c_chks c0 !! id \/ c_chks c !! id = None
}.

Lemma INV2_init st0 c0 : wf_cat c0 -> bind_ok st0 c0 -> INV2 st0 c0 st0 c0.
Proof. intros W B. split; auto; congruence. Qed.

Lemma INV2_step g st0 c0 st c log st' c' ev :
  INV st0 c0 st c log -> INV2 st0 c0 st c -> Step g st c st' c' ev -> INV2 st0 c0 st' c'.
Proof.
  intros I [Jw Jb Jg Jf] H. split.
  - eapply step_wf_cat; eauto using inv_wf.
  - eapply step_bind_ok; eauto.
  - intros id e0 L0 N. destruct (l_chks st !! id) as [e|] eqn:L.
    + eapply step_chks_gone_cat; eauto using inv_wf.
    + pose proof (Jg id e0 L0 L) as Cn.
      destruct (step_cchks _ _ _ _ _ _ id H) as [E|[(e & dx & rx & Le & _)|(E & _)]]; congruence.
  - intros id L0.
    assert (L : l_chks st !! id = None).
    { destruct (l_chks st !! id) as [e|] eqn:L; [|reflexivity].
      destruct (inv_chks _ _ _ _ _ I id e L) as (e0 & L0' & _). congruence. }
    destruct (step_cchks _ _ _ _ _ _ id H) as [E|[(e & dx & rx & Le & _)|(E & _)]]; [|congruence|auto].
    rewrite E. apply Jf. exact L0.
Qed.
