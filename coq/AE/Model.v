(* C16 — anti-entropy.  Model of agent/local/state.go (the bookkeeping part) and of what the
   catalog does with the requests it receives (Catalog.Register -> state.EnsureRegistration,
   Catalog.Deregister -> state.DeleteService / DeleteCheck).

   Shaped like the code: the same functions (updateSyncState, SyncChanges, SyncFull, syncNodeInfo,
   syncService, syncCheck, deleteService, deleteCheck, setServiceStateLocked, ...), the flags
   flipped where the code flips them.  No proofs here.

   Go's map iteration order is an input: [sync_changes] receives the order in which the two
   maps are visited.  The RPC fault oracle is an explicit list of outcomes, one consumed per RPC
   (an exhausted list answers OOk).

   Definitions are projections of structs.NodeService / structs.HealthCheck onto the fields
   IsSame compares and the sync logic inspects; everything else is carried in [sv_rest] / [ck_rest]. *)
From Verif Require Import Base.Prelude.
From stdpp Require Import gmap.

(* ------------------------------------------------------------------ definitions *)

Record svc := Svc {
  sv_name : N;                 (* Service *)
  sv_tags : N;                 (* Tags (interned) *)
  sv_eto  : bool;              (* EnableTagOverride *)
  sv_rest : N;                 (* Port, Meta, Weights, ... *)
  sv_tanil : bool;             (* TaggedAddresses == nil (reflect.DeepEqual tells nil from empty) *)
  sv_tau  : list (N * N);      (* TaggedAddresses, user keys   (sorted by key) *)
  sv_tar  : list (N * N)       (* TaggedAddresses, "consul-" prefixed keys (sorted by key) *)
}.

Record chk := Chk {
  ck_sid    : N;               (* ServiceID; 0 = "" = node-level check *)
  ck_status : N;
  ck_out    : N;               (* Output *)
  ck_rest   : N;               (* Name, Notes, Definition, ... *)
  ck_sname  : N;               (* ServiceName  (the catalog copies it from its service) *)
  ck_stags  : N;               (* ServiceTags  (the catalog copies it from its service) *)
  ck_aux    : N                (* Type, Interval, Timeout, ExposedPort: HealthCheck.IsSame does NOT compare them *)
}.

(* HealthCheck.IsSame: every modelled field except [ck_aux] *)
Definition chk_cmp (d : chk) : N * N * N * N * N * N :=
  (ck_sid d, ck_status d, ck_out d, ck_rest d, ck_sname d, ck_stags d).
Definition chk_isame (a b : chk) : bool := bool_decide (chk_cmp a = chk_cmp b).
Definition chk_blank (d : chk) : chk :=
  Chk (ck_sid d) (ck_status d) 0 (ck_rest d) (ck_sname d) (ck_stags d) (ck_aux d).

Global Instance svc_eq_dec : EqDecision svc.
Proof. solve_decision. Defined.
Global Instance chk_eq_dec : EqDecision chk.
Proof. solve_decision. Defined.

(* ServiceState / CheckState.  [se_def = None] is the placeholder updateSyncState creates for a
   catalog entry that has no local counterpart: &ServiceState{Deleted: true}. *)
Record sentry := SE { se_def : option svc; se_tok : N; se_sync : bool; se_del : bool; se_loc : bool }.
(* [ce_defer]: a deferred-output timer is pending (CheckState.DeferCheck != nil) *)
Record centry := CE { ce_def : option chk; ce_tok : N; ce_sync : bool; ce_del : bool; ce_loc : bool;
                      ce_defer : bool }.

Record lstate := LS {
  l_node : bool;               (* nodeInfoInSync *)
  l_svcs : gmap N sentry;
  l_chks : gmap N centry
}.

(* the node's rows in the catalog *)
Record cat := Cat {
  c_node : option N;           (* the node row: its ID/TaggedAddresses/Meta as one number *)
  c_svcs : gmap N svc;
  c_chks : gmap N chk
}.

(* local.Config and the token store *)
Record cfg := Cfg {
  t_user : N; t_agent : N; t_cfg : N;   (* tokens; 0 = "" *)
  g_ni : N;                             (* the agent's own node info *)
  g_consul : N;                         (* id of the service "consul" *)
  g_serf : N;                           (* id of the check "serfHealth" *)
  g_interval : bool                     (* CheckUpdateInterval > 0 (the agent's default is 5m) *)
}.

Definition se_set_sync (b : bool) (e : sentry) : sentry := SE (se_def e) (se_tok e) b (se_del e) (se_loc e).
Definition ce_set_sync (b : bool) (e : centry) : centry :=
  CE (ce_def e) (ce_tok e) b (ce_del e) (ce_loc e) (ce_defer e).
Definition ce_clear_defer (e : centry) : centry :=
  CE (ce_def e) (ce_tok e) (ce_sync e) (ce_del e) (ce_loc e) false.
Definition se_set_def (d : svc) (e : sentry) : sentry := SE (Some d) (se_tok e) (se_sync e) (se_del e) (se_loc e).

(* ------------------------------------------------------------------ RPCs *)

Inductive outcome := OOk | OFail | ODenied | ONotFound | OUnknown.
(* OUnknown is never injected: it is the "Unknown service/check ID" answer a Deregister gets
   from vetDeregisterWithACL when permission is lacking and the target does not exist. *)

Inductive rkind := KListSvcs | KListChks | KNodeInfo | KSyncSvc | KSyncChk | KDelSvc | KDelChk.

Record event := Ev {
  e_kind : rkind; e_id : N; e_tok : N;
  e_skip : bool;               (* SkipNodeUpdate *)
  e_withsvc : bool;            (* a check sync that carries its service *)
  e_out : outcome;             (* what the agent got back *)
  e_pig : list N               (* checks riding on a service sync *)
}.

Definition next (fs : list outcome) : outcome * list outcome :=
  match fs with [] => (OOk, []) | o :: r => (o, r) end.

Definition refusal (o : outcome) : bool :=
  match o with ODenied | ONotFound => true | _ => false end.

(* ------------------------------------------------------------------ the catalog *)

(* ensureRegistrationTxn: the node row is written when it is missing, or when the request does
   not say SkipNodeUpdate (RegisterRequest.ChangesNode) *)
Definition reg_node (ni : N) (skip : bool) (n : option N) : option N :=
  match n with
  | None => Some ni
  | Some o => if skip then Some o else Some ni
  end.

(* ensureCheckTxn: a service check needs its service (ErrMissingService) and gets the
   service's name and tags copied in *)
(* "Use the default check status if none was provided": "" becomes critical (status codes:
   0 = "", 1 = passing, 2 = warning, 3 = critical) *)
Definition status_default (s : N) : N := if N.eqb s 0 then 3%N else s.

Definition stamp (svcs : gmap N svc) (c : chk) : option chk :=
  if N.eqb (ck_sid c) 0 then Some (Chk (ck_sid c) (status_default (ck_status c)) (ck_out c) (ck_rest c) (ck_sname c) (ck_stags c) (ck_aux c))
  else match svcs !! ck_sid c with
       | Some s => Some (Chk (ck_sid c) (status_default (ck_status c)) (ck_out c) (ck_rest c) (sv_name s) (sv_tags s) (ck_aux c))
       | None => None
       end.

Definition is_some {A} (o : option A) : bool := match o with Some _ => true | None => false end.

(* ensureCheckTxn: "if existing != nil && existing.IsSame(hc) { modified = false }" — a check
   that IsSame as the stored row is NOT written, so a registration that differs only in the fields
   IsSame ignores is dropped by the servers as well *)
Definition keep_same (old : option chk) (r : chk) : chk :=
  match old with Some o => if chk_isame o r then o else r | None => r end.

Definition reg_chk (svcs : gmap N svc) (onew : option chk) (oold : option chk) : option chk :=
  match onew with
  | Some d => match stamp svcs d with Some r => Some (keep_same oold r) | None => oold end
  | None => oold
  end.

(* Catalog.Register applied: node, then service, then checks, in ONE transaction (an error
   aborts everything) *)
Definition reg_svcs (sv : option (N * svc)) (m : gmap N svc) : gmap N svc :=
  match sv with Some (id, d) => <[id := d]> m | None => m end.

Definition cat_register (ni : N) (skip : bool) (sv : option (N * svc)) (chks : gmap N chk) (c : cat)
  : option cat :=
  let svcs' := reg_svcs sv (c_svcs c) in
  if forallb (fun kc : N * chk => is_some (stamp svcs' (snd kc))) (map_to_list chks)
  then Some (Cat (reg_node ni skip (c_node c)) svcs' (merge (reg_chk svcs') chks (c_chks c)))
  else None.

(* state.DeleteService: nothing when the service is absent, else its checks go with it *)
Definition cat_dereg_svc (id : N) (c : cat) : cat :=
  match c_svcs c !! id with
  | None => c
  | Some _ => Cat (c_node c) (delete id (c_svcs c))
                  (filter (fun kc : N * chk => ck_sid (snd kc) ≠ id) (c_chks c))
  end.

Definition cat_dereg_chk (id : N) (c : cat) : cat :=
  Cat (c_node c) (c_svcs c) (delete id (c_chks c)).

Definition cat_dereg_node (c : cat) : cat := Cat None ∅ ∅.

(* ------------------------------------------------------------------ tokens *)

(* token.Store.AgentToken *)
Definition agent_token (g : cfg) : N := if N.eqb (t_agent g) 0 then t_user g else t_agent g.

(* aclTokenForServiceSync / aclTokenForCheckSync with the registration-token fallback and UserToken *)
Definition reg_token (g : cfg) (tok : N) (loc : bool) : N :=
  if negb (N.eqb tok 0) then tok
  else if loc && negb (N.eqb (t_cfg g) 0) then t_cfg g
  else t_user g.

(* ------------------------------------------------------------------ updateSyncState *)

Fixpoint upsert (k v : N) (l : list (N * N)) : list (N * N) :=
  match l with
  | [] => [(k, v)]
  | (k', v') :: r => if N.ltb k k' then (k, v) :: l
                     else if N.eqb k k' then (k, v) :: r
                     else (k', v') :: upsert k v r
  end.

Definition merge_res (loc rem : list (N * N)) : list (N * N) :=
  fold_right (fun kv acc => upsert (fst kv) (snd kv) acc) loc rem.

(* the local definition after looking at the remote one: tags are the server's under
   EnableTagOverride; reserved tagged addresses of the server are merged in *)
Definition adopt (d r : svc) : svc :=
  let d1 := if sv_eto d then Svc (sv_name d) (sv_tags r) (sv_eto d) (sv_rest d) (sv_tanil d) (sv_tau d) (sv_tar d) else d in
  if bool_decide (sv_tanil d1 = sv_tanil r ∧ sv_tau d1 = sv_tau r ∧ sv_tar d1 = sv_tar r) then d1
  else Svc (sv_name d1) (sv_tags d1) (sv_eto d1) (sv_rest d1) false (sv_tau d1) (merge_res (sv_tar d1) (sv_tar r)).

Definition uss_svc (ol : option sentry) (orr : option svc) : option sentry :=
  match ol, orr with
  | None, None => None
  | Some e, None => Some (se_set_sync false e)                (* not in the catalog: push it *)
  | None, Some _ => Some (SE None 0 false true false)         (* foreign: schedule its removal *)
  | Some e, Some r =>
      if se_del e then Some e                                 (* already scheduled for removal *)
      else match se_def e with
           | Some d => let d' := adopt d r in
                       Some (SE (Some d') (se_tok e) (bool_decide (d' = r)) false (se_loc e))
           | None => Some e
           end
  end.

(* with CheckUpdateInterval > 0 and a deferred-output timer pending the Output is blanked on
   both sides before the comparison ("the timer will mark the check out of sync for us") *)
Definition uss_chk (interval : bool) (ol : option centry) (orr : option chk) : option centry :=
  match ol, orr with
  | None, None => None
  | Some e, None => Some (ce_set_sync false e)
  | None, Some _ => Some (CE None 0 false true false false)
  | Some e, Some r =>
      if ce_del e then Some e
      else match ce_def e with
           | Some d => Some (ce_set_sync (if interval && ce_defer e then chk_isame (chk_blank d) (chk_blank r)
                                          else chk_isame d r) e)
           | None => Some e
           end
  end.

(* the "consul" service and the "serfHealth" check are left alone when they are not local *)
Definition exempt {A} (id : N) (loc : gmap N A) (m : gmap N A) : gmap N A :=
  match loc !! id with None => delete id m | Some _ => m end.

Definition uss_apply (g : cfg) (st : lstate) (c : cat) : lstate :=
  LS (if bool_decide (c_node c = Some (g_ni g)) then l_node st else false)
     (exempt (g_consul g) (l_svcs st) (merge uss_svc (l_svcs st) (c_svcs c)))
     (exempt (g_serf g) (l_chks st) (merge (uss_chk (g_interval g)) (l_chks st) (c_chks c))).

(* result: state, remaining faults, log, failed? *)
Definition update_sync_state (g : cfg) (st : lstate) (c : cat) (fs : list outcome)
  : lstate * list outcome * list event * bool :=
  let tok := agent_token g in
  let '(o1, fs1) := next fs in
  let ev1 := Ev KListSvcs 0 tok false false o1 [] in
  match o1 with
  | OOk =>
      let '(o2, fs2) := next fs1 in
      let ev2 := Ev KListChks 0 tok false false o2 [] in
      match o2 with
      | OOk => (uss_apply g st c, fs2, [ev1; ev2], false)
      | _ => (st, fs2, [ev1; ev2], true)
      end
  | _ => (st, fs1, [ev1], true)
  end.

(* ------------------------------------------------------------------ SyncChanges and helpers *)

Definition acc := (lstate * cat * list outcome * list event * bool)%type.

(* syncNodeInfo; the last component says "SyncChanges returns here" *)
Definition sync_node_info (g : cfg) (st : lstate) (c : cat) (fs : list outcome) : acc :=
  let '(o, fs') := next fs in
  let ev o' := Ev KNodeInfo 0 (agent_token g) false false o' [] in
  match o with
  | OOk => (LS true (l_svcs st) (l_chks st),
            Cat (reg_node (g_ni g) false (c_node c)) (c_svcs c) (c_chks c), fs', [ev OOk], false)
  | ODenied | ONotFound => (LS true (l_svcs st) (l_chks st), c, fs', [ev o], false)
  | _ => (st, c, fs', [ev OFail], true)
  end.

(* the checks that ride on the registration of service [id]: out of sync, not deleted, bound
   to the service, and registered with the same token *)
Definition is_pig (g : cfg) (id tok : N) (e : centry) : bool :=
  match ce_def e with
  | Some d => negb (ce_del e) && negb (ce_sync e) && N.eqb (ck_sid d) id
              && N.eqb (reg_token g (ce_tok e) (ce_loc e)) tok
  | None => false
  end.

Definition pig_of (g : cfg) (id tok : N) (chks : gmap N centry) : gmap N chk :=
  omap (fun e => if is_pig g id tok e then ce_def e else None) chks.

Definition mark_pig (g : cfg) (id tok : N) (chks : gmap N centry) : gmap N centry :=
  (fun e => if is_pig g id tok e then ce_set_sync true e else e) <$> chks.

Definition keys {A} (m : gmap N A) : list N := fst <$> map_to_list m.

(* syncService; result: state, catalog, faults, event, error? *)
Definition sync_service (g : cfg) (id : N) (e : sentry) (d : svc) (st : lstate) (c : cat)
           (fs : list outcome) : lstate * cat * list outcome * event * bool :=
  let tok := reg_token g (se_tok e) (se_loc e) in
  let pig := pig_of g id tok (l_chks st) in
  let ev o := Ev KSyncSvc id tok (l_node st) false o (keys pig) in
  let '(o, fs') := next fs in
  let marked node := LS node (<[id := se_set_sync true e]> (l_svcs st)) (mark_pig g id tok (l_chks st)) in
  match o with
  | OOk => match cat_register (g_ni g) (l_node st) (Some (id, d)) pig c with
           | Some c' => (marked true, c', fs', ev OOk, false)
           | None => (st, c, fs', ev OFail, true)
           end
  | ODenied | ONotFound => (marked (l_node st), c, fs', ev o, false)
  | _ => (st, c, fs', ev OFail, true)
  end.

(* syncCheck: carries the check's service when that is a live local service *)
Definition sync_check (g : cfg) (id : N) (e : centry) (d : chk) (st : lstate) (c : cat)
           (fs : list outcome) : lstate * cat * list outcome * event * bool :=
  let tok := reg_token g (ce_tok e) (ce_loc e) in
  let sv := match l_svcs st !! ck_sid d with
            | Some s => if se_del s then None
                        else match se_def s with Some sd => Some (ck_sid d, sd) | None => None end
            | None => None
            end in
  let ev o := Ev KSyncChk id tok (l_node st) (is_some sv) o [] in
  let '(o, fs') := next fs in
  (* SyncChanges stops and forgets a pending deferred-output timer before it calls syncCheck *)
  let e1 := ce_clear_defer e in
  let marked node := LS node (l_svcs st) (<[id := ce_set_sync true e1]> (l_chks st)) in
  let failed := LS (l_node st) (l_svcs st) (<[id := e1]> (l_chks st)) in
  match o with
  | OOk => match cat_register (g_ni g) (l_node st) sv {[id := d]} c with
           | Some c' => (marked true, c', fs', ev OOk, false)
           | None => (failed, c, fs', ev OFail, true)
           end
  | ODenied | ONotFound => (marked (l_node st), c, fs', ev o, false)
  | _ => (failed, c, fs', ev OFail, true)
  end.

(* deleteService prunes the local checks that are marked deleted and bound to the service *)
Definition prunable (id : N) (e : centry) : bool :=
  ce_del e && match ce_def e with Some d => N.eqb (ck_sid d) id | None => false end.

Definition prune_chks (id : N) (chks : gmap N centry) : gmap N centry :=
  filter (fun kc : N * centry => prunable id (snd kc) = false) chks.

Definition delete_service (g : cfg) (id : N) (e : sentry) (st : lstate) (c : cat)
           (fs : list outcome) : lstate * cat * list outcome * event * bool :=
  let ev o := Ev KDelSvc id (agent_token g) false false o [] in
  let '(o, fs') := next fs in
  let gone := LS (l_node st) (delete id (l_svcs st)) (prune_chks id (l_chks st)) in
  let mark := LS (l_node st) (<[id := se_set_sync true e]> (l_svcs st)) (l_chks st) in
  match o with
  | OOk => (gone, cat_dereg_svc id c, fs', ev OOk, false)
  | ODenied => match c_svcs c !! id with
               | None => (gone, c, fs', ev OUnknown, false)      (* "Unknown service ID": treated as done *)
               | Some _ => (mark, c, fs', ev ODenied, false)
               end
  | ONotFound => (mark, c, fs', ev ONotFound, false)
  | _ => (st, c, fs', ev OFail, true)
  end.

Definition delete_check (g : cfg) (id : N) (e : centry) (st : lstate) (c : cat)
           (fs : list outcome) : lstate * cat * list outcome * event * bool :=
  let ev o := Ev KDelChk id (agent_token g) false false o [] in
  let '(o, fs') := next fs in
  let gone := LS (l_node st) (l_svcs st) (delete id (l_chks st)) in
  let mark := LS (l_node st) (l_svcs st) (<[id := ce_set_sync true e]> (l_chks st)) in
  match o with
  | OOk => (gone, cat_dereg_chk id c, fs', ev OOk, false)
  | ODenied => match c_chks c !! id with
               | None => (gone, c, fs', ev OUnknown, false)
               | Some _ => (mark, c, fs', ev ODenied, false)
               end
  | ONotFound => (mark, c, fs', ev ONotFound, false)
  | _ => (st, c, fs', ev OFail, true)
  end.

Definition push (a : acc) (r : lstate * cat * list outcome * event * bool) : acc :=
  let '(_, _, _, log, err) := a in
  let '(st', c', fs', ev, er) := r in
  (st', c', fs', log ++ [ev], err || er).

(* one iteration of "for id, s := range l.services" *)
Definition step_svc (g : cfg) (a : acc) (id : N) : acc :=
  let '(st, c, fs, _, _) := a in
  match l_svcs st !! id with
  | None => a
  | Some e =>
      if se_del e then push a (delete_service g id e st c fs)
      else if se_sync e then a
      else match se_def e with
           | Some d => push a (sync_service g id e d st c fs)
           | None => a
           end
  end.

(* one iteration of "for id, c := range l.checks" *)
Definition step_chk (g : cfg) (a : acc) (id : N) : acc :=
  let '(st, c, fs, _, _) := a in
  match l_chks st !! id with
  | None => a
  | Some e =>
      if ce_del e then push a (delete_check g id e st c fs)
      else if ce_sync e then a
      else match ce_def e with
           | Some d => push a (sync_check g id e d st c fs)
           | None => a
           end
  end.

(* SyncChanges: node info first (its failure aborts), then the services, then the checks.
   [os] / [oc]: the order in which Go's map iteration visits the two maps. *)
Definition sync_changes (g : cfg) (os oc : list N) (st : lstate) (c : cat) (fs : list outcome) : acc :=
  let a1 := if l_node st then (st, c, fs, [], false) else sync_node_info g st c fs in
  let '(_, _, _, _, stop) := a1 in
  if stop then a1
  else fold_left (step_chk g) oc (fold_left (step_svc g) os a1).

(* SyncFull *)
Definition sync_full (g : cfg) (os oc : list N) (st : lstate) (c : cat) (fs : list outcome) : acc :=
  let '(st1, fs1, la, failed) := update_sync_state g st c fs in
  if failed then (st1, c, fs1, la, true)
  else let '(st2, c2, fs2, lb, err) := sync_changes g os oc st1 c fs1 in
       (st2, c2, fs2, la ++ lb, err).

(* ------------------------------------------------------------------ local changes *)

(* RPanic: the implementation panicked. No model function returns it (the nil dereference on
   placeholders was repaired in 9a2a9bf); a panic of the implementation is therefore a mismatch. *)
Inductive res := ROk | RErr | RPanic.

(* setServiceStateLocked (through addServiceLocked): the new entry is in sync only when it
   replaces an entry that was itself in sync and not marked deleted, by the same definition.
   A placeholder (definition nil) is never "the same". *)
Definition same_svc (d : svc) (old : sentry) : bool :=
  match se_def old with Some od => bool_decide (d = od) | None => false end.

Definition add_service (id : N) (d : svc) (tok : N) (loc : bool) (st : lstate) : lstate * res :=
  match l_svcs st !! id with
  | Some old =>
      (LS (l_node st)
          (<[id := SE (Some d) tok (se_sync old && negb (se_del old) && same_svc d old) false loc]> (l_svcs st))
          (l_chks st), ROk)
  | None => (LS (l_node st) (<[id := SE (Some d) tok false false loc]> (l_svcs st)) (l_chks st), ROk)
  end.

(* addCheckLocked + setCheckStateLocked.  "service exists" looks at the map, deleted or not. *)
Definition same_chk (d : chk) (old : centry) : bool :=
  match ce_def old with Some od => chk_isame d od | None => false end.

Definition add_check (id : N) (d : chk) (tok : N) (loc : bool) (st : lstate) : lstate * res :=
  if negb (N.eqb (ck_sid d) 0) && negb (is_some (l_svcs st !! ck_sid d)) then (st, RErr)
  else match l_chks st !! id with
       | Some old =>
           (LS (l_node st) (l_svcs st)
               (* a pending deferred-output timer is carried over and forces out-of-sync *)
               (<[id := CE (Some d) tok (negb (ce_defer old) && (ce_sync old && negb (ce_del old) && same_chk d old))
                           false loc (ce_defer old)]> (l_chks st)), ROk)
       | None => (LS (l_node st) (l_svcs st) (<[id := CE (Some d) tok false false loc false]> (l_chks st)), ROk)
       end.

(* agent.addCheckLocked refuses a check for a service that State.Service does not return
   (absent, or marked deleted) before it reaches State.AddCheck *)
Definition add_check_agent (id : N) (d : chk) (tok : N) (loc : bool) (st : lstate) : lstate * res :=
  if N.eqb (ck_sid d) 0 then add_check id d tok loc st
  else match l_svcs st !! ck_sid d with
       | Some s => if se_del s then (st, RErr) else add_check id d tok loc st
       | None => (st, RErr)
       end.

Fixpoint add_checks (cs : list (N * chk)) (tok : N) (loc : bool) (st : lstate) : lstate * res :=
  match cs with
  | [] => (st, ROk)
  | (id, d) :: r => match add_check id d tok loc st with
                    | (st', ROk) => add_checks r tok loc st'
                    | bad => bad
                    end
  end.

(* AddServiceWithChecks *)
Definition add_service_with_checks (id : N) (d : svc) (tok : N) (loc : bool) (cs : list (N * chk))
           (st : lstate) : lstate * res :=
  match add_service id d tok loc st with
  | (st', ROk) => add_checks cs tok loc st'
  | bad => bad
  end.

(* removeServiceLocked *)
Definition remove_service (id : N) (st : lstate) : lstate * res :=
  match l_svcs st !! id with
  | Some e => if se_del e then (st, RErr)
              else (LS (l_node st) (<[id := SE (se_def e) (se_tok e) false true (se_loc e)]> (l_svcs st)) (l_chks st), ROk)
  | None => (st, RErr)
  end.

(* removeCheckLocked *)
Definition remove_check (id : N) (st : lstate) : lstate * res :=
  match l_chks st !! id with
  | Some e => if ce_del e then (st, RErr)
              else (LS (l_node st) (l_svcs st) (<[id := CE (ce_def e) (ce_tok e) false true (ce_loc e) (ce_defer e)]> (l_chks st)), ROk)
  | None => (st, RErr)
  end.

Fixpoint remove_checks (ids : list N) (st : lstate) : lstate * res :=
  match ids with
  | [] => (st, ROk)
  | id :: r => match remove_check id st with
               | (st', ROk) => remove_checks r st'
               | bad => bad
               end
  end.

(* RemoveServiceWithChecks *)
Definition remove_service_with_checks (id : N) (cids : list N) (st : lstate) : lstate * res :=
  match remove_service id st with
  | (st', ROk) => remove_checks cids st'
  | bad => bad
  end.

(* what agent.removeServiceLocked passes: the live checks bound to the service *)
Definition live_of (id : N) (e : centry) : bool :=
  negb (ce_del e) && match ce_def e with Some d => N.eqb (ck_sid d) id | None => false end.

Definition live_checks_of (id : N) (st : lstate) : list N :=
  keys (filter (fun kc : N * centry => live_of id (snd kc) = true) (l_chks st)).

Definition remove_service_agent (id : N) (st : lstate) : lstate * res :=
  remove_service_with_checks id (live_checks_of id st) st.

(* UpdateCheck.  With CheckUpdateInterval > 0 an update that changes only the Output is
   deferred: the local definition changes, InSync does not, a timer is started. *)
Definition update_check (interval : bool) (id status out : N) (st : lstate) : lstate :=
  match l_chks st !! id with
  | Some e =>
      if ce_del e then st
      else match ce_def e with
           | Some d =>
               if N.eqb (ck_status d) status && N.eqb (ck_out d) out then st
               else if interval && N.eqb (ck_status d) status then
                 LS (l_node st) (l_svcs st)
                    (<[id := CE (Some (Chk (ck_sid d) status out (ck_rest d) (ck_sname d) (ck_stags d) (ck_aux d)))
                                (ce_tok e) (ce_sync e) false (ce_loc e) true]> (l_chks st))
               else LS (l_node st) (l_svcs st)
                       (<[id := CE (Some (Chk (ck_sid d) status out (ck_rest d) (ck_sname d) (ck_stags d) (ck_aux d)))
                                   (ce_tok e) false false (ce_loc e) (ce_defer e)]> (l_chks st))
           | None => st
           end
  | None => st
  end.

(* the deferred-output timer fires: the timer is forgotten and, unless the entry is marked
   deleted, the check is marked out of sync.  No-op when no timer is pending. *)
Definition timer_fires (id : N) (st : lstate) : lstate :=
  match l_chks st !! id with
  | Some e =>
      if ce_defer e then
        LS (l_node st) (l_svcs st)
           (<[id := CE (ce_def e) (ce_tok e) (if ce_del e then ce_sync e else false) (ce_del e) (ce_loc e) false]> (l_chks st))
      else st
  | None => st
  end.

(* ------------------------------------------------------------------ histories *)

Inductive step :=
| SAddSvc (id : N) (d : svc) (tok : N) (loc : bool) (cs : list (N * chk))
| SRemoveSvc (id : N)                         (* the agent's way: with its live checks *)
| SRemoveSvcRaw (id : N) (cids : list N)
| SAddChk (id : N) (d : chk) (tok : N) (loc : bool)          (* State.AddCheck *)
| SAddChkAgent (id : N) (d : chk) (tok : N) (loc : bool)     (* through the agent's guard *)
| SRemoveChk (id : N)
| SUpdChk (id status out : N)
| STimer (id : N)                             (* the deferred-output timer of a check fires *)
| SUpdateSyncState
| SSyncChanges (os oc : list N)
| SSyncFull (os oc : list N)
(* the catalog changes behind the agent's back *)
| DReg (ni : N) (skip : bool) (sv : option (N * svc)) (cs : list (N * chk))
| DDelSvc (id : N)
| DDelChk (id : N)
| DDelNode.

Definition res_of_err (b : bool) : res := if b then RErr else ROk.

(* one step of a history: new local state, new catalog, remaining faults, RPC log, result *)
Definition do_step (g : cfg) (s : step) (st : lstate) (c : cat) (fs : list outcome)
  : lstate * cat * list outcome * list event * res :=
  match s with
  | SAddSvc id d tok loc cs => let '(st', r) := add_service_with_checks id d tok loc cs st in (st', c, fs, [], r)
  | SRemoveSvc id => let '(st', r) := remove_service_agent id st in (st', c, fs, [], r)
  | SRemoveSvcRaw id cids => let '(st', r) := remove_service_with_checks id cids st in (st', c, fs, [], r)
  | SAddChk id d tok loc => let '(st', r) := add_check id d tok loc st in (st', c, fs, [], r)
  | SAddChkAgent id d tok loc => let '(st', r) := add_check_agent id d tok loc st in (st', c, fs, [], r)
  | SRemoveChk id => let '(st', r) := remove_check id st in (st', c, fs, [], r)
  | SUpdChk id status out => (update_check (g_interval g) id status out st, c, fs, [], ROk)
  | STimer id => (timer_fires id st, c, fs, [], ROk)
  | SUpdateSyncState => let '(st', fs', log, failed) := update_sync_state g st c fs in (st', c, fs', log, res_of_err failed)
  | SSyncChanges os oc => let '(st', c', fs', log, err) := sync_changes g os oc st c fs in (st', c', fs', log, res_of_err err)
  | SSyncFull os oc => let '(st', c', fs', log, err) := sync_full g os oc st c fs in (st', c', fs', log, res_of_err err)
  | DReg ni skip sv cs =>
      match cat_register ni skip sv (list_to_map cs) c with
      | Some c' => (st, c', fs, [], ROk)
      | None => (st, c, fs, [], RErr)
      end
  | DDelSvc id => (st, cat_dereg_svc id c, fs, [], ROk)
  | DDelChk id => (st, cat_dereg_chk id c, fs, [], ROk)
  | DDelNode => (st, cat_dereg_node c, fs, [], ROk)
  end.

Definition lstate0 : lstate := LS false ∅ ∅.
Definition cat0 : cat := Cat None ∅ ∅.
