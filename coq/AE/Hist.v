(* C16 — local changes and whole histories: which operations may mark an entry in sync, the
   panic on placeholders, agent-style histories keep the hypotheses of the sync theorems true,
   and the concrete witnesses that refute the unrestricted statements. *)
From Verif Require Import Base.Prelude AE.Model AE.Basics AE.Steps AE.Inv AE.Proofs AE.Conv.
From stdpp Require Import gmap.

(* ------------------------------------------------------------------ local changes and the in-sync flag *)

(* every live entry marked in sync is held by the catalog (a check up to its Output while its
   deferred-output timer is pending) *)
Definition honest (st : lstate) (c : cat) : Prop :=
  (forall id e d, l_svcs st !! id = Some e -> se_sync e = true -> se_del e = false -> se_def e = Some d -> holds_svc c id d) /\
  (forall id e d, l_chks st !! id = Some e -> ce_sync e = true -> ce_del e = false -> ce_def e = Some d -> holds_ce c id e d).

Lemma holds_upto_true b c id d : holds_chk_upto b c id d -> holds_chk_upto true c id d.
Proof.
  intros (r & L & E). exists r. split; [exact L|]. unfold chk_core_upto in *. destruct b; congruence.
Qed.

(* setServiceStateLocked: the new entry is in sync only when it replaces a live, in-sync entry
   that carried the same definition *)
Lemma add_service_flag id d tok loc st st' r k e' :
  add_service id d tok loc st = (st', r) -> l_svcs st' !! k = Some e' -> se_sync e' = true ->
  l_svcs st !! k = Some e' \/
  (k = id /\ se_def e' = Some d /\ se_del e' = false /\
   exists old, l_svcs st !! id = Some old /\ se_def old = Some d /\ se_sync old = true /\ se_del old = false).
Proof.
  unfold add_service. destruct (l_svcs st !! id) as [old|] eqn:L.
  - intros [= <- _]. cbn. intros L' S. apply lookup_insert_Some in L' as [[<- <-]|[_ L']]; [|auto].
    right. cbn in *. apply andb_true_iff in S as [S Sm]. apply andb_true_iff in S as [So Sd].
    apply negb_true_iff in Sd. unfold same_svc in Sm. destruct (se_def old) as [od|] eqn:F; [|discriminate].
    apply bool_decide_eq_true in Sm. subst od. eauto 10.
  - intros [= <- _]. cbn. intros L' S. apply lookup_insert_Some in L' as [[<- <-]|[_ L']]; [discriminate|auto].
Qed.

Lemma add_check_flag id d tok loc st st' r k e' :
  add_check id d tok loc st = (st', r) -> l_chks st' !! k = Some e' -> ce_sync e' = true ->
  l_chks st !! k = Some e' \/
  (k = id /\ ce_def e' = Some d /\ ce_del e' = false /\ ce_defer e' = false /\
   exists old od, l_chks st !! id = Some old /\ ce_def old = Some od /\ chk_isame d od = true /\
                  ce_sync old = true /\ ce_del old = false /\ ce_defer old = false).
Proof.
  unfold add_check. destruct (negb (N.eqb (ck_sid d) 0) && negb (is_some (l_svcs st !! ck_sid d))); [intros [= <- _]; auto|].
  destruct (l_chks st !! id) as [old|] eqn:L.
  - intros [= <- _]. cbn. intros L' S. apply lookup_insert_Some in L' as [[<- <-]|[_ L']]; [|auto].
    right. cbn in *. apply andb_true_iff in S as [Sf S]. apply negb_true_iff in Sf.
    apply andb_true_iff in S as [S Sm]. apply andb_true_iff in S as [So Sd].
    apply negb_true_iff in Sd. unfold same_chk in Sm. destruct (ce_def old) as [od|] eqn:F; [|discriminate].
    repeat split; auto. exists old, od. auto 10.
  - intros [= <- _]. cbn. intros L' S. apply lookup_insert_Some in L' as [[<- <-]|[_ L']]; [discriminate|auto].
Qed.

Lemma add_service_chks id d tok loc st st' r : add_service id d tok loc st = (st', r) -> l_chks st' = l_chks st.
Proof. unfold add_service. destruct (l_svcs st !! id) as [old|]; intros [= <- _]; reflexivity. Qed.
Lemma add_check_svcs id d tok loc st st' r : add_check id d tok loc st = (st', r) -> l_svcs st' = l_svcs st.
Proof.
  unfold add_check. destruct (_ && _); [intros [= <- _]; reflexivity|].
  destruct (l_chks st !! id) as [old|]; intros [= <- _]; reflexivity.
Qed.

(* no local add marks in sync an entry the catalog does not hold *)
Theorem add_service_honest id d tok loc st st' r c :
  add_service id d tok loc st = (st', r) -> honest st c -> honest st' c.
Proof.
  intros A [Hs Hc]. split.
  - intros k e' dk L' S D F.
    destruct (add_service_flag _ _ _ _ _ _ _ _ _ A L' S) as [L|(-> & F' & _ & old & Lo & Fo & So & Do)]; [eauto|].
    assert (dk = d) by congruence. subst dk. eauto.
  - rewrite (add_service_chks _ _ _ _ _ _ _ A). exact Hc.
Qed.

Theorem add_check_honest id d tok loc st st' r c :
  add_check id d tok loc st = (st', r) -> honest st c -> honest st' c.
Proof.
  intros A [Hs Hc]. split.
  - rewrite (add_check_svcs _ _ _ _ _ _ _ A). exact Hs.
  - intros k e' dk L' S D F.
    destruct (add_check_flag _ _ _ _ _ _ _ _ _ A L' S) as [L|(-> & F' & _ & Df & old & od & Lo & Fo & Sm & So & Do & Dfo)]; [eauto|].
    assert (dk = d) by congruence. subst dk. unfold holds_ce. rewrite Df.
    destruct (Hc id old od Lo So Do Fo) as (rr & Lr & Er). unfold holds_ce in *. rewrite Dfo in Er.
    exists rr. split; [exact Lr|]. rewrite Er. apply chk_isame_core. exact Sm.
Qed.

(* the other mutators only ever clear the flag *)
Theorem remove_service_honest id st st' r c : remove_service id st = (st', r) -> honest st c -> honest st' c.
Proof.
  unfold remove_service. intros A [Hs Hc].
  destruct (l_svcs st !! id) as [e|] eqn:L; [destruct (se_del e)|]; injection A as <- _; try (split; assumption).
  split; [|exact Hc]. cbn. intros k e' d L' S D F.
  apply lookup_insert_Some in L' as [[<- <-]|[_ L']]; [discriminate|eauto].
Qed.

Theorem remove_check_honest id st st' r c : remove_check id st = (st', r) -> honest st c -> honest st' c.
Proof.
  unfold remove_check. intros A [Hs Hc].
  destruct (l_chks st !! id) as [e|] eqn:L; [destruct (ce_del e)|]; injection A as <- _; try (split; assumption).
  split; [exact Hs|]. cbn. intros k e' d L' S D F.
  apply lookup_insert_Some in L' as [[<- <-]|[_ L']]; [discriminate|eauto].
Qed.

Theorem update_check_honest interval id status out st c :
  honest st c -> honest (update_check interval id status out st) c.
Proof.
  unfold update_check. intros [Hs Hc].
  destruct (l_chks st !! id) as [e|] eqn:L; [|split; assumption].
  destruct (ce_del e) eqn:D; [split; assumption|]. destruct (ce_def e) as [d|] eqn:F; [|split; assumption].
  destruct (N.eqb (ck_status d) status && N.eqb (ck_out d) out); [split; assumption|].
  destruct (interval && N.eqb (ck_status d) status) eqn:B.
  - (* deferred: only the Output changes, the flag stays, a timer is pending *)
    split; [exact Hs|]. cbn. intros k e' dk L' S' D' F'.
    apply lookup_insert_Some in L' as [[<- <-]|[_ L']]; [|eauto]. cbn in *.
    apply andb_true_iff in B as [_ B]. apply N.eqb_eq in B.
    injection F' as <-. unfold holds_ce. cbn.
    destruct (holds_upto_true _ _ _ _ (Hc id e d L S' D F)) as (r & Lr & Er).
    exists r. split; [exact Lr|]. rewrite Er. unfold chk_core_upto. cbn. rewrite B. reflexivity.
  - split; [exact Hs|]. cbn. intros k e' dk L' S D' F'.
    apply lookup_insert_Some in L' as [[<- <-]|[_ L']]; [discriminate|eauto].
Qed.

(* the deferred-output timer only ever clears the flag *)
Theorem timer_fires_honest id st c : honest st c -> honest (timer_fires id st) c.
Proof.
  unfold timer_fires. intros [Hs Hc].
  destruct (l_chks st !! id) as [e|] eqn:L; [|split; assumption].
  destruct (ce_defer e) eqn:Df; [|split; assumption].
  split; [exact Hs|]. cbn. intros k e' dk L' S D' F'.
  apply lookup_insert_Some in L' as [[<- <-]|[_ L']]; [|eauto]. cbn in *.
  destruct (ce_del e); [discriminate|discriminate].
Qed.

(* a local add over a placeholder (definition nil) replaces it by a live entry that is out of
   sync (before 9a2a9bf this was a nil dereference in IsSame) *)
Theorem add_service_over_placeholder id d tok loc st e :
  l_svcs st !! id = Some e -> se_def e = None ->
  add_service id d tok loc st =
  (LS (l_node st) (<[id := SE (Some d) tok false false loc]> (l_svcs st)) (l_chks st), ROk).
Proof.
  intros L F. unfold add_service, same_svc. rewrite L, F. rewrite !andb_false_r. reflexivity.
Qed.

Theorem add_check_over_placeholder id d tok loc st e :
  ck_sid d = 0%N -> l_chks st !! id = Some e -> ce_def e = None ->
  add_check id d tok loc st =
  (LS (l_node st) (l_svcs st) (<[id := CE (Some d) tok false false loc (ce_defer e)]> (l_chks st)), ROk).
Proof.
  intros Z L F. unfold add_check, same_chk. rewrite Z, L, F. cbn. rewrite !andb_false_r. reflexivity.
Qed.

(* ------------------------------------------------------------------ agent-style histories keep the hypotheses true *)

Lemma sync_changes_wf g os oc st c fs st' c' fs' log err :
  wf_local st -> wf_cat c -> sync_changes g os oc st c fs = (st', c', fs', log, err) -> wf_local st' /\ wf_cat c'.
Proof.
  intros W Wc E.
  pose proof (sync_changes_pres g (fun st c _ => wf_local st /\ wf_cat c) os oc st c fs) as H.
  rewrite E in H. cbn in H. apply H; [| |auto].
  - intros s k l s' k' l' Es Ec Ecs Ecc _ [Hw Hk]. split; [eapply wf_local_ext; eauto|].
    unfold wf_cat in *. rewrite Ecs, Ecc. exact Hk.
  - intros s k l s' k' ev [Hw Hk] Hs. split; [eapply step_wf_local; eauto|eapply step_wf_cat; eauto].
Qed.

Lemma sync_full_wf g os oc st c fs st' c' fs' log err :
  wf_local st -> wf_cat c -> sync_full g os oc st c fs = (st', c', fs', log, err) -> wf_local st' /\ wf_cat c'.
Proof.
  intros W Wc E. apply sync_full_cases in E as [(-> & -> & _)|(fs1 & la & lb & _ & _ & E & _)]; [auto|].
  eapply sync_changes_wf; [apply uss_wf_local; [exact W|exact (proj2 Wc)]|exact Wc|exact E].
Qed.

Lemma add_service_wf id d tok loc st st' r :
  id <> 0%N -> wf_local st -> add_service id d tok loc st = (st', r) ->
  wf_local st' /\ (r = ROk -> exists s, l_svcs st' !! id = Some s /\ se_del s = false).
Proof.
  intros Z (W1 & W2 & W3). unfold add_service.
  assert (G : forall e, se_del e = false -> is_Some (se_def e) ->
              wf_local (LS (l_node st) (<[id := e]> (l_svcs st)) (l_chks st)) /\
              (ROk = ROk -> exists s, <[id := e]> (l_svcs st) !! id = Some s /\ se_del s = false)).
  { intros e De Fe. split; [|intros _; exists e; rewrite lookup_insert; auto]. split; [|split]; cbn.
    - intros k x L D. apply lookup_insert_Some in L as [[<- <-]|[_ L]]; eauto.
    - intros k x L D. destruct (W2 k x L D) as (dk & Fk & Hs). exists dk. split; [exact Fk|].
      destruct Hs as [?|(s & Ls & Ds)]; [auto|]. right.
      destruct (decide (id = ck_sid dk)) as [<-|Hne]; [exists e; rewrite lookup_insert; auto|].
      exists s. rewrite lookup_insert_ne by exact Hne. auto.
    - rewrite lookup_insert_ne by exact Z. exact W3. }
  destruct (l_svcs st !! id) as [old|] eqn:L; intros [= <- <-]; apply G; cbn; eauto.
Qed.

Lemma add_check_wf id d tok loc st st' r :
  (ck_sid d = 0%N \/ exists s, l_svcs st !! ck_sid d = Some s /\ se_del s = false) ->
  wf_local st -> add_check id d tok loc st = (st', r) -> wf_local st' /\ l_svcs st' = l_svcs st.
Proof.
  intros Hb (W1 & W2 & W3). unfold add_check.
  assert (G : forall e, ce_def e = Some d ->
              wf_local (LS (l_node st) (l_svcs st) (<[id := e]> (l_chks st)))).
  { intros e Fe. split; [exact W1|split; [|exact W3]]. cbn.
    intros k x L D. apply lookup_insert_Some in L as [[<- <-]|[_ L]]; eauto. }
  destruct (_ && _); [intros [= <- <-]; split; [repeat split; assumption|reflexivity]|].
  destruct (l_chks st !! id) as [old|] eqn:L; intros [= <- <-]; (split; [apply G; reflexivity|reflexivity]).
Qed.

Lemma add_checks_wf cs tok loc st st' r id :
  (forall k d, In (k, d) cs -> ck_sid d = id) ->
  (exists s, l_svcs st !! id = Some s /\ se_del s = false) ->
  wf_local st -> add_checks cs tok loc st = (st', r) -> wf_local st'.
Proof.
  revert st. induction cs as [|[k d] cs IH]; intros st Hb Hs W; cbn [add_checks]; [intros [= <- _]; exact W|].
  destruct (add_check k d tok loc st) as [st1 r1] eqn:A.
  assert (Hk : ck_sid d = id) by (apply (Hb k d); left; reflexivity).
  destruct (add_check_wf _ _ _ _ _ _ _ (or_intror (eq_ind_r (fun x => exists s, l_svcs st !! x = Some s /\ se_del s = false) Hs Hk)) W A) as [W1 Es].
  destruct r1; try (intros [= <- _]; exact W1).
  apply IH; [intros k' d' Hin; apply (Hb k' d'); right; exact Hin|rewrite Es; exact Hs|exact W1].
Qed.

Lemma remove_check_spec id st st' r :
  remove_check id st = (st', r) ->
  l_svcs st' = l_svcs st /\
  ((r = ROk /\ exists e, l_chks st !! id = Some e /\ ce_del e = false /\
                         l_chks st' = <[id := CE (ce_def e) (ce_tok e) false true (ce_loc e) (ce_defer e)]> (l_chks st)) \/
   (r = RErr /\ st' = st)).
Proof.
  unfold remove_check. destruct (l_chks st !! id) as [e|] eqn:L; [destruct (ce_del e) eqn:D|];
    intros [= <- <-]; split; auto. left. split; [reflexivity|]. exists e. auto.
Qed.

Lemma remove_checks_all ids st :
  NoDup ids -> (forall k, In k ids -> exists e, l_chks st !! k = Some e /\ ce_del e = false) ->
  exists st', remove_checks ids st = (st', ROk) /\ l_svcs st' = l_svcs st /\
    (forall k e', l_chks st' !! k = Some e' ->
       exists e, l_chks st !! k = Some e /\ ce_def e' = ce_def e /\ (ce_del e' = false -> ce_del e = false /\ ~ In k ids)).
Proof.
  revert st. induction ids as [|id ids IH]; intros st ND Hl; cbn [remove_checks].
  - exists st. repeat split; auto. intros k e' L. exists e'. repeat split; auto.
  - apply NoDup_cons in ND as [Nin ND]. rewrite elem_of_list_In in Nin.
    destruct (Hl id (or_introl eq_refl)) as (e & L & D).
    destruct (remove_check id st) as [st1 r1] eqn:R. pose proof (remove_check_spec _ _ _ _ R) as (Es & [(-> & e1 & L1 & D1 & Ec)|(-> & ->)]).
    + assert (e1 = e) by congruence. subst e1.
      destruct (IH st1 ND) as (st' & R' & Es' & Hc').
      { intros k Hk. destruct (Hl k (or_intror Hk)) as (ek & Lk & Dk). exists ek. split; [|exact Dk].
        rewrite Ec. rewrite lookup_insert_ne; [exact Lk|]. intros <-. contradiction. }
      exists st'. split; [exact R'|]. split; [congruence|].
      intros k e' L'. destruct (Hc' k e' L') as (x & Lx & Fx & Hx). rewrite Ec in Lx.
      apply lookup_insert_Some in Lx as [[<- <-]|[Hne Lx]].
      * exists e. cbn in *. split; [exact L|]. split; [exact Fx|]. intros D'. destruct (Hx D'). discriminate.
      * exists x. split; [exact Lx|]. split; [exact Fx|]. intros D'. destruct (Hx D') as [? ?]. split; [assumption|].
        intros [?|?]; [congruence|contradiction].
    + unfold remove_check in R. rewrite L, D in R. discriminate.
Qed.

Lemma live_checks_of_spec id st k :
  In k (live_checks_of id st) <-> exists e, l_chks st !! k = Some e /\ live_of id e = true.
Proof.
  unfold live_checks_of. rewrite In_keys. split.
  - intros [e H]. apply map_filter_lookup_Some in H as [L P]. eauto.
  - intros (e & L & P). exists e. apply map_filter_lookup_Some. auto.
Qed.

Lemma live_checks_of_NoDup id st : NoDup (live_checks_of id st).
Proof. unfold live_checks_of, keys. apply NoDup_fst_map_to_list. Qed.

Lemma remove_service_agent_wf id st st' r :
  wf_local st -> remove_service_agent id st = (st', r) -> wf_local st'.
Proof.
  intros W. pose proof W as (W1 & W2 & W3). unfold remove_service_agent, remove_service_with_checks, remove_service.
  destruct (l_svcs st !! id) as [e|] eqn:L; [|intros [= <- _]; exact W].
  destruct (se_del e) eqn:D; [intros [= <- _]; exact W|].
  set (st1 := LS (l_node st) (<[id := SE (se_def e) (se_tok e) false true (se_loc e)]> (l_svcs st)) (l_chks st)).
  destruct (remove_checks_all (live_checks_of id st) st1 (live_checks_of_NoDup id st)) as (st2 & R & Es & Hc).
  { intros k Hk. apply live_checks_of_spec in Hk as (x & Lx & P). exists x. split; [exact Lx|].
    unfold live_of in P. apply andb_true_iff in P as [P _]. apply negb_true_iff in P. exact P. }
  rewrite R. intros [= <- _]. split; [|split].
  - intros k x Lx Dx. rewrite Es in Lx. cbn in Lx. apply lookup_insert_Some in Lx as [[<- <-]|[_ Lx]]; [discriminate|eauto].
  - intros k x Lx Dx. destruct (Hc k x Lx) as (x0 & L0 & F0 & H0). destruct (H0 Dx) as [D0 Nin]. cbn in L0.
    destruct (W2 k x0 L0 D0) as (dk & Fk & Hs). exists dk. split; [congruence|].
    destruct Hs as [?|(s & Ls & Ds)]; [auto|]. right. rewrite Es. cbn.
    assert (Hne : id <> ck_sid dk).
    { intros E. apply Nin. apply live_checks_of_spec. exists x0. split; [exact L0|].
      unfold live_of. rewrite D0, Fk, <- E. cbn. apply N.eqb_refl. }
    exists s. rewrite lookup_insert_ne by exact Hne. auto.
  - rewrite Es. cbn. rewrite lookup_insert_ne; [exact W3|]. intros E. congruence.
Qed.

Lemma remove_check_wf id st st' r : wf_local st -> remove_check id st = (st', r) -> wf_local st'.
Proof.
  intros (W1 & W2 & W3) R. apply remove_check_spec in R as (Es & [(-> & e & L & D & Ec)|(-> & ->)]); [|repeat split; assumption].
  split; [|split]; rewrite ?Es; auto. rewrite Ec. intros k x Lx Dx.
  apply lookup_insert_Some in Lx as [[<- <-]|[_ Lx]]; [discriminate|eauto].
Qed.

Lemma update_check_wf interval id status out st : wf_local st -> wf_local (update_check interval id status out st).
Proof.
  intros (W1 & W2 & W3). unfold update_check.
  destruct (l_chks st !! id) as [e|] eqn:L; [|repeat split; assumption].
  destruct (ce_del e) eqn:D; [repeat split; assumption|]. destruct (ce_def e) as [d|] eqn:F; [|repeat split; assumption].
  destruct (N.eqb (ck_status d) status && N.eqb (ck_out d) out); [repeat split; assumption|].
  destruct (W2 id e L D) as (d0 & F0 & Hs). assert (d0 = d) by congruence. subst d0.
  destruct (interval && N.eqb (ck_status d) status);
    (split; [exact W1|split; [|exact W3]]; cbn;
     intros k x Lx Dx; apply lookup_insert_Some in Lx as [[<- <-]|[_ Lx]]; [|eauto];
     eexists; split; [reflexivity|]; exact Hs).
Qed.

Lemma timer_fires_wf id st : wf_local st -> wf_local (timer_fires id st).
Proof.
  intros (W1 & W2 & W3). unfold timer_fires.
  destruct (l_chks st !! id) as [e|] eqn:L; [|repeat split; assumption].
  destruct (ce_defer e); [|repeat split; assumption].
  split; [exact W1|split; [|exact W3]]. cbn.
  intros k x Lx Dx. apply lookup_insert_Some in Lx as [[<- <-]|[_ Lx]]; [|eauto]. cbn in *. eauto.
Qed.

(* the side conditions under which a step is something the agent layer (or the servers) does *)
Definition agent_step (st : lstate) (s : step) : Prop :=
  match s with
  | SAddSvc id _ _ _ cs => id <> 0%N /\ forall k d, In (k, d) cs -> ck_sid d = id
  | SAddChk _ d _ _ => ck_sid d = 0%N \/ exists s, l_svcs st !! ck_sid d = Some s /\ se_del s = false
  | SRemoveSvcRaw _ _ => False
  | DReg _ _ sv _ => forall id d, sv = Some (id, d) -> id <> 0%N
  | _ => True
  end.

Theorem wf_step g s st c fs st' c' fs' log r :
  wf_local st -> wf_cat c -> agent_step st s -> do_step g s st c fs = (st', c', fs', log, r) ->
  wf_local st' /\ wf_cat c'.
Proof.
  intros W Wc A. destruct s; cbn [do_step agent_step] in *.
  - destruct A as [Z Hb]. unfold add_service_with_checks.
    destruct (add_service id d tok loc st) as [st1 r1] eqn:E1.
    destruct (add_service_wf _ _ _ _ _ _ _ Z W E1) as [W1 Hl].
    destruct r1.
    + destruct (add_checks cs tok loc st1) as [st2 r2] eqn:E2. intros [= <- <- _ _ _].
      split; [|exact Wc]. eapply add_checks_wf; eauto.
    + intros [= <- <- _ _ _]. auto.
    + intros [= <- <- _ _ _]. auto.
  - destruct (remove_service_agent id st) as [st1 r1] eqn:E1. intros [= <- <- _ _ _].
    split; [eapply remove_service_agent_wf; eauto|exact Wc].
  - destruct A.
  - destruct (add_check id d tok loc st) as [st1 r1] eqn:E1. intros [= <- <- _ _ _].
    split; [eapply add_check_wf; eauto|exact Wc].
  - unfold add_check_agent. destruct (N.eqb_spec (ck_sid d) 0) as [Z|Z].
    + destruct (add_check id d tok loc st) as [st1 r1] eqn:E1. intros [= <- <- _ _ _].
      split; [eapply add_check_wf; eauto|exact Wc].
    + destruct (l_svcs st !! ck_sid d) as [s|] eqn:Ls; [|intros [= <- <- _ _ _]; auto].
      destruct (se_del s) eqn:Ds; [intros [= <- <- _ _ _]; auto|].
      destruct (add_check id d tok loc st) as [st1 r1] eqn:E1. intros [= <- <- _ _ _].
      split; [eapply add_check_wf; eauto|exact Wc].
  - destruct (remove_check id st) as [st1 r1] eqn:E1. intros [= <- <- _ _ _].
    split; [eapply remove_check_wf; eauto|exact Wc].
  - intros [= <- <- _ _ _]. split; [apply update_check_wf; exact W|exact Wc].
  - intros [= <- <- _ _ _]. split; [apply timer_fires_wf; exact W|exact Wc].
  - destruct (update_sync_state g st c fs) as [[[st1 fs1] l1] f1] eqn:E1. intros [= <- <- _ _ _].
    split; [|exact Wc]. unfold update_sync_state in E1. destruct (next fs) as [o1 fx]. destruct o1; try (injection E1 as <- _ _ _; exact W).
    destruct (next fx) as [o2 fy]. destruct o2; injection E1 as <- _ _ _; try exact W. apply uss_wf_local; [exact W|exact (proj2 Wc)].
  - destruct (sync_changes g os oc st c fs) as [[[[st1 c1] fs1] l1] e1] eqn:E1. intros [= <- <- _ _ _].
    eapply sync_changes_wf; eauto.
  - destruct (sync_full g os oc st c fs) as [[[[st1 c1] fs1] l1] e1] eqn:E1. intros [= <- <- _ _ _].
    eapply sync_full_wf; eauto.
  - destruct (cat_register ni skip sv (list_to_map cs) c) as [c1|] eqn:E1; intros [= <- <- _ _ _]; [|auto].
    split; [exact W|]. eapply cat_register_wf; eauto.
  - intros [= <- <- _ _ _]. split; [exact W|apply dereg_svc_wf; exact Wc].
  - intros [= <- <- _ _ _]. split; [exact W|apply dereg_chk_wf; exact Wc].
  - intros [= <- <- _ _ _]. split; [exact W|]. split; [intros id r0 L; cbn in L; rewrite lookup_empty in L; discriminate|reflexivity].
Qed.

(* running a whole history *)
Fixpoint run_hist (g : cfg) (ss : list step) (st : lstate) (c : cat) (fs : list outcome) : lstate * cat * list outcome :=
  match ss with
  | [] => (st, c, fs)
  | s :: r => let '(st', c', fs', _, _) := do_step g s st c fs in run_hist g r st' c' fs'
  end.

Fixpoint agent_hist (g : cfg) (ss : list step) (st : lstate) (c : cat) (fs : list outcome) : Prop :=
  match ss with
  | [] => True
  | s :: r => agent_step st s /\ let '(st', c', fs', _, _) := do_step g s st c fs in agent_hist g r st' c' fs'
  end.

Lemma wf_local0 : wf_local lstate0.
Proof. split; [|split]; cbn; intros; try rewrite lookup_empty in *; try discriminate; reflexivity. Qed.
Lemma wf_cat0 : wf_cat cat0.
Proof. split; cbn; intros; try rewrite lookup_empty in *; try discriminate; reflexivity. Qed.

(* every state an agent-style history reaches, under every fault list, satisfies the
   hypotheses [wf_local] and [wf_cat] of the sync theorems *)
Theorem wf_reachable g ss fs st c fs' :
  agent_hist g ss lstate0 cat0 fs -> run_hist g ss lstate0 cat0 fs = (st, c, fs') -> wf_local st /\ wf_cat c.
Proof.
  generalize wf_local0 wf_cat0. generalize lstate0 cat0. revert fs.
  induction ss as [|s ss IH]; intros fs st0 c0 W Wc A R; cbn in *.
  - injection R as <- <- _. auto.
  - destruct A as [A1 A2]. destruct (do_step g s st0 c0 fs) as [[[[st1 c1] fs1] l1] r1] eqn:E.
    destruct (wf_step _ _ _ _ _ _ _ _ _ _ W Wc A1 E) as [W1 Wc1]. eapply IH; eauto.
Qed.

(* side conditions that do not depend on the state (no check added to a service) *)
Definition static_ok (s : step) : Prop :=
  match s with
  | SAddSvc id _ _ _ cs => id <> 0%N /\ forall k d, In (k, d) cs -> ck_sid d = id
  | SAddChk _ d _ _ => ck_sid d = 0%N
  | SRemoveSvcRaw _ _ => False
  | DReg _ _ sv _ => forall id d, sv = Some (id, d) -> id <> 0%N
  | _ => True
  end.

Lemma static_agent_hist g ss st c fs : List.Forall static_ok ss -> agent_hist g ss st c fs.
Proof.
  intros H. revert st c fs. induction H as [|s ss Hs _ IH]; intros st c fs; cbn [agent_hist]; [exact I|].
  split.
  - destruct s; cbn in *; auto.
  - destruct (do_step g s st c fs) as [[[[st' c'] fs'] l'] r']. apply IH.
Qed.
