(* C16 — concrete reachable states: witnesses that refute the unrestricted statements, and
   non-trivial states on which the hypotheses of the theorems hold. *)
From Verif Require Import Base.Prelude AE.Model AE.Basics AE.Steps AE.Inv AE.Proofs AE.Conv AE.Hist.
From stdpp Require Import gmap.

(* ------------------------------------------------------------------ boolean checkers for concrete states *)

Definition forallb_kv {A} (f : N -> A -> bool) (m : gmap N A) : bool :=
  forallb (fun kv : N * A => f (fst kv) (snd kv)) (map_to_list m).

Lemma forallb_kv_spec {A} (f : N -> A -> bool) (m : gmap N A) :
  forallb_kv f m = true <-> (forall k v, m !! k = Some v -> f k v = true).
Proof.
  unfold forallb_kv. rewrite forallb_forall. split.
  - intros H k v Hk. apply (H (k, v)). apply elem_of_list_In, elem_of_map_to_list. exact Hk.
  - intros H [k v] Hin. apply elem_of_list_In, elem_of_map_to_list in Hin. exact (H k v Hin).
Qed.

Definition bind_okb (st : lstate) (c : cat) : bool :=
  forallb_kv (fun id e => negb (ce_del e) ||
                          match ce_def e, c_chks c !! id with
                          | Some d, Some r => N.eqb (ck_sid r) (ck_sid d)
                          | _, _ => true
                          end) (l_chks st).

Lemma bind_okb_ok st c : bind_okb st c = true -> bind_ok st c.
Proof.
  intros H id e d r L D F Lr. apply (proj1 (forallb_kv_spec _ _)) with (k := id) (v := e) in H; [|exact L].
  rewrite D, F, Lr in H. cbn in H. apply N.eqb_eq. exact H.
Qed.

Definition coversb {A} (m : gmap N A) (l : list N) : bool := forallb_kv (fun k _ => existsb (N.eqb k) l) m.

Lemma coversb_ok {A} (m : gmap N A) l : coversb m l = true -> covers m l.
Proof.
  intros H id [v L]. apply (proj1 (forallb_kv_spec _ _)) with (k := id) (v := v) in H; [|exact L].
  apply existsb_exists in H as (x & Hx & E). apply N.eqb_eq in E. subst x. exact Hx.
Qed.

Definition chk_core_eqb (blank : bool) (a b : chk) : bool := bool_decide (chk_core_upto blank a = chk_core_upto blank b).

Definition honestb (st : lstate) (c : cat) : bool :=
  forallb_kv (fun id e => negb (se_sync e) || se_del e ||
                          match se_def e with Some d => bool_decide (c_svcs c !! id = Some d) | None => true end) (l_svcs st)
  && forallb_kv (fun id e => negb (ce_sync e) || ce_del e ||
                             match ce_def e, c_chks c !! id with
                             | Some d, Some r => chk_core_eqb (ce_defer e) r d
                             | Some _, None => false
                             | None, _ => true
                             end) (l_chks st).

Lemma honestb_ok st c : honestb st c = true -> honest st c.
Proof.
  intros H. apply andb_true_iff in H as [H1 H2]. split.
  - intros id e d L S D F. apply (proj1 (forallb_kv_spec _ _)) with (k := id) (v := e) in H1; [|exact L].
    rewrite S, D, F in H1. cbn in H1. apply bool_decide_eq_true in H1. exact H1.
  - intros id e d L S D F. apply (proj1 (forallb_kv_spec _ _)) with (k := id) (v := e) in H2; [|exact L].
    rewrite S, D, F in H2. cbn in H2. destruct (c_chks c !! id) as [r|] eqn:Lr; [|discriminate].
    apply bool_decide_eq_true in H2. exists r. auto.
Qed.

(* ------------------------------------------------------------------ the cast *)

Definition g0 : cfg := Cfg 1 0 0 1 9 9 false.
Definition g0d : cfg := Cfg 1 0 0 1 9 9 true.   (* CheckUpdateInterval > 0 *)
Definition web : svc := Svc 1 1 false 0 true [] [].
Definition web_eto : svc := Svc 1 1 true 0 true [] [].
Definition web_drift : svc := Svc 1 2 false 1 false [] [(11, 1)]%N.
Definition db : svc := Svc 2 0 false 0 false [(1, 1)]%N [].
Definition chk_web : chk := Chk 1 1 0 0 1 1 0.
Definition chk_db : chk := Chk 2 1 0 0 2 0 0.
Definition all_s : list N := [1; 2; 3; 4; 9]%N.
Definition all_c : list N := [1; 2; 3; 4; 5; 6; 9]%N.

Definition state_of (h : list step) (fs : list outcome) : lstate * cat :=
  let '(st, c, _) := run_hist g0 h lstate0 cat0 fs in (st, c).

Ltac static1 :=
  cbn;
  first [ exact I
        | split; [discriminate|];
          let k := fresh in let d := fresh in let Hin := fresh in
          intros k d Hin; cbn in Hin;
          repeat (destruct Hin as [Hin|Hin]; [inversion Hin; reflexivity|]); destruct Hin
        | let H := fresh in intros ? ? H; inversion H; subst; discriminate
        | let H := fresh in intros ? ? H; discriminate H ].
Ltac static_tac := repeat (apply List.Forall_cons; [static1|]); apply List.Forall_nil.
Ltac agent_hist_tac := apply static_agent_hist; static_tac.

(* ------------------------------------------------------------------ a check bound elsewhere in the catalog *)

(* web(1) with check 1 and db(2) are registered and synced; then somebody re-registers check 1
   in the catalog under db; then the agent removes web together with its check 1 *)
Definition h_rebound : list step :=
  [SAddSvc 1 web 0 false [(1%N, chk_web)]; SAddSvc 2 db 0 false []; SSyncFull all_s all_c;
   DReg 1 true None [(1%N, chk_db)]; SRemoveSvc 1].

Lemma h_rebound_agent : agent_hist g0 h_rebound lstate0 cat0 [].
Proof. agent_hist_tac. Qed.

Lemma rebound_wf : wf_local (fst (state_of h_rebound [])) /\ wf_cat (snd (state_of h_rebound [])).
Proof.
  unfold state_of. destruct (run_hist g0 h_rebound lstate0 cat0 []) as [[st c] fs'] eqn:E.
  exact (wf_reachable _ _ _ _ _ _ h_rebound_agent E).
Qed.

(* the full sync deregisters web, which prunes the local (deleted) entry of check 1; the
   catalog keeps check 1, under db *)
Theorem deletes_remembered_rebound_refuted :
  exists g os oc st c id e,
    wf_local st /\ wf_cat c /\ l_chks st !! id = Some e /\ ce_del e = true /\
    let '(st', c', _, _, _) := sync_full g os oc st c [] in
    l_chks st' !! id = None /\ is_Some (c_chks c' !! id).
Proof.
  exists g0, all_s, all_c, (fst (state_of h_rebound [])), (snd (state_of h_rebound [])), 1%N.
  eexists. split; [exact (proj1 rebound_wf)|]. split; [exact (proj2 rebound_wf)|].
  split; [vm_compute; reflexivity|]. split; [reflexivity|].
  vm_compute. split; [reflexivity|eauto].
Qed.

Definition r_rebound : acc :=
  sync_full g0 all_s all_c (fst (state_of h_rebound [])) (snd (state_of h_rebound [])) [].

Theorem converges_rebound_refuted :
  exists g os oc st c st' c' fs' log err,
    wf_local st /\ wf_cat c /\
    covers (l_svcs st) os /\ covers (c_svcs c) os /\ covers (l_chks st) oc /\ covers (c_chks c) oc /\
    sync_full g os oc st c [] = (st', c', fs', log, err) /\ ~ converged g st c st' c'.
Proof.
  exists g0, all_s, all_c, (fst (state_of h_rebound [])), (snd (state_of h_rebound [])).
  exists (fst (fst (fst (fst r_rebound)))), (snd (fst (fst (fst r_rebound)))), (snd (fst (fst r_rebound))),
         (snd (fst r_rebound)), (snd r_rebound).
  split; [exact (proj1 rebound_wf)|]. split; [exact (proj2 rebound_wf)|].
  repeat (split; [apply coversb_ok; vm_compute; reflexivity|]).
  split; [fold r_rebound; destruct r_rebound as [[[[? ?] ?] ?] ?]; reflexivity|]. intros Cv.
  assert (H : c_chks (snd (fst (fst (fst r_rebound)))) !! 1%N = None).
  { apply (cv_cat_nochk _ _ _ _ _ Cv 1%N); [vm_compute; reflexivity|discriminate]. }
  vm_compute in H. discriminate.
Qed.

(* ------------------------------------------------------------------ re-adding an identical definition *)

(* web is registered, the push fails (any error), web is registered again with the same definition *)
Definition h_readd : list step := [SAddSvc 1 web 0 false []; SSyncChanges all_s all_c].

(* Regression examples for the two defects repaired in 9a2a9bf (about the CURRENT behaviour):
   the re-registered entry stays out of sync, and honest is preserved on that very state. *)
Theorem readd_stays_unsynced :
  let st := fst (state_of h_readd [OFail]) in
  let c := snd (state_of h_readd [OFail]) in
  honest st c /\
  (exists e, l_svcs (fst (add_service 1 web 0 false st)) !! 1%N = Some e /\ se_sync e = false /\ se_del e = false) /\
  c_svcs c !! 1%N = None.
Proof.
  cbn zeta. split; [apply honestb_ok; vm_compute; reflexivity|]. split; [|vm_compute; reflexivity].
  eexists. vm_compute. split; [reflexivity|split; reflexivity].
Qed.

(* a placeholder is reachable (foreign catalog entry, then the diff alone); adding over it is an
   ordinary registration now *)
Definition h_placeholder : list step := [DReg 1 false (Some (1%N, web)) []; SUpdateSyncState].

Theorem placeholder_add_ok :
  let st := fst (state_of h_placeholder []) in
  (exists e, l_svcs st !! 1%N = Some e /\ se_def e = None /\ se_del e = true) /\
  snd (add_service 1 web 0 false st) = ROk /\
  (exists e, l_svcs (fst (add_service 1 web 0 false st)) !! 1%N = Some e /\ se_sync e = false /\ se_del e = false).
Proof.
  cbn zeta. split; [eexists; vm_compute; repeat split; reflexivity|]. split; [vm_compute; reflexivity|].
  eexists. vm_compute. repeat split; reflexivity.
Qed.

(* ------------------------------------------------------------------ non-vacuity *)

(* a drifted catalog (a foreign service with its check, an altered "web" with a reserved tagged
   address), a local "web" with tag override and a check, a full sync, a status change, a partial
   sync, then "web" is removed locally: deleted entries, server-owned fields, all present *)
Definition h_rich : list step :=
  [DReg 2 false (Some (2%N, db)) [(3%N, chk_db)]; DReg 2 true (Some (1%N, web_drift)) [];
   SAddSvc 1 web_eto 0 false [(1%N, chk_web)]; SAddSvc 3 db 4 true [];
   SSyncFull all_s all_c; SUpdChk 1 3 2; SSyncChanges all_s all_c; SRemoveSvc 1].

Lemma h_rich_agent fs : agent_hist g0 h_rich lstate0 cat0 fs.
Proof. agent_hist_tac. Qed.

Lemma rich_wf fs : wf_local (fst (state_of h_rich fs)) /\ wf_cat (snd (state_of h_rich fs)).
Proof.
  unfold state_of. destruct (run_hist g0 h_rich lstate0 cat0 fs) as [[st c] fs'] eqn:E.
  exact (wf_reachable _ _ _ _ _ _ (h_rich_agent fs) E).
Qed.

(* the hypotheses of C16_converges hold of a reachable state with a deleted entry and a
   non-empty catalog *)
Theorem converges_hypotheses_met :
  exists os oc st c,
    wf_local st /\ wf_cat c /\ bind_ok st c /\
    covers (l_svcs st) os /\ covers (c_svcs c) os /\ covers (l_chks st) oc /\ covers (c_chks c) oc /\
    (exists e, l_svcs st !! 1%N = Some e /\ se_del e = true) /\ is_Some (c_svcs c !! 1%N) /\ is_Some (c_chks c !! 1%N).
Proof.
  exists all_s, all_c, (fst (state_of h_rich [])), (snd (state_of h_rich [])).
  split; [exact (proj1 (rich_wf []))|]. split; [exact (proj2 (rich_wf []))|].
  split; [apply bind_okb_ok; vm_compute; reflexivity|].
  repeat (split; [apply coversb_ok; vm_compute; reflexivity|]).
  split; [eexists; split; vm_compute; reflexivity|]. split; vm_compute; eauto.
Qed.

(* the same history under faults: wf_local / wf_cat hold whatever the fault list; here with a
   refusal and an error, the state has an entry marked in sync by an ACL refusal *)
Theorem faulty_state_wf :
  let st := fst (state_of h_rich [OOk; OOk; OOk; OOk; OOk; ODenied; OFail]) in
  let c := snd (state_of h_rich [OOk; OOk; OOk; OOk; OOk; ODenied; OFail]) in
  wf_local st /\ wf_cat c /\ ~ honest st c.
Proof.
  cbn zeta. split; [exact (proj1 (rich_wf _))|]. split; [exact (proj2 (rich_wf _))|].
  intros [Hs _]. specialize (Hs 3%N (SE (Some db) 4 true false true) db).
  assert (X : holds_svc (snd (state_of h_rich [OOk; OOk; OOk; OOk; OOk; ODenied; OFail])) 3 db) by (apply Hs; vm_compute; reflexivity).
  vm_compute in X. discriminate.
Qed.

(* ------------------------------------------------------------------ the two exceptions to "the catalog equals the local state" *)

Definition chk_web_out2 : chk := Chk 1 1 2 0 1 1 0.
Definition chk_web_aux1 : chk := Chk 1 1 0 0 1 1 1.

(* CheckUpdateInterval > 0 (the agent's default): "web" with a check is synced, then the check's
   Output changes (status unchanged): UpdateCheck defers the push and starts a timer *)
Definition h_defer : list step :=
  [SAddSvc 1 web 0 false [(1%N, chk_web)]; SSyncFull all_s all_c; SUpdChk 1 1 2].
(* a check is re-registered with only its Type/Interval/Timeout/ExposedPort changed *)
Definition h_aux : list step :=
  [SAddSvc 1 web 0 false [(1%N, chk_web)]; SSyncFull all_s all_c; SAddChkAgent 1 chk_web_aux1 0 false].

Definition state_of_g (g : cfg) (h : list step) (fs : list outcome) : lstate * cat :=
  let '(st, c, _) := run_hist g h lstate0 cat0 fs in (st, c).

Lemma state_of_g_wf g h fs : List.Forall static_ok h -> wf_local (fst (state_of_g g h fs)) /\ wf_cat (snd (state_of_g g h fs)).
Proof.
  intros H. unfold state_of_g. destruct (run_hist g h lstate0 cat0 fs) as [[st c] fs'] eqn:E.
  exact (wf_reachable _ _ _ _ _ _ (static_agent_hist g h _ _ fs H) E).
Qed.

(* a fault-free full sync then "converges" while the catalog's Output differs from the local one:
   the check is in sync, a timer is pending, and the catalog does not hold the definition exactly *)
Theorem deferred_output_refuted :
  exists g os oc st c st' c' fs' log err,
    wf_local st /\ wf_cat c /\ bind_ok st c /\
    covers (l_svcs st) os /\ covers (c_svcs c) os /\ covers (l_chks st) oc /\ covers (c_chks c) oc /\
    sync_full g os oc st c [] = (st', c', fs', log, err) /\ err = false /\
    exists id e d, l_chks st' !! id = Some e /\ ce_def e = Some d /\ ce_sync e = true /\ ce_del e = false /\
                   ce_defer e = true /\ ~ holds_chk c' id d.
Proof.
  set (r := sync_full g0d all_s all_c (fst (state_of_g g0d h_defer [])) (snd (state_of_g g0d h_defer [])) []).
  exists g0d, all_s, all_c, (fst (state_of_g g0d h_defer [])), (snd (state_of_g g0d h_defer [])).
  exists (fst (fst (fst (fst r)))), (snd (fst (fst (fst r)))), (snd (fst (fst r))), (snd (fst r)), (snd r).
  assert (S : List.Forall static_ok h_defer) by static_tac.
  split; [exact (proj1 (state_of_g_wf _ _ _ S))|]. split; [exact (proj2 (state_of_g_wf _ _ _ S))|].
  split; [apply bind_okb_ok; vm_compute; reflexivity|].
  repeat (split; [apply coversb_ok; vm_compute; reflexivity|]).
  split; [fold r; destruct r as [[[[? ?] ?] ?] ?]; reflexivity|]. split; [vm_compute; reflexivity|].
  exists 1%N, (CE (Some chk_web_out2) 0 true false false true), chk_web_out2.
  split; [vm_compute; reflexivity|]. repeat (split; [reflexivity|]).
  intros (x & Lx & Ex). vm_compute in Lx. injection Lx as <-. vm_compute in Ex. discriminate.
Qed.

(* the same for the fields HealthCheck.IsSame does not compare: after a fault-free full sync the
   entry is in sync, no timer is pending, and the catalog row carries the OLD Type/Interval/... *)
Theorem ignored_fields_refuted :
  exists g os oc st c st' c' fs' log err,
    wf_local st /\ wf_cat c /\ bind_ok st c /\
    covers (l_svcs st) os /\ covers (c_svcs c) os /\ covers (l_chks st) oc /\ covers (c_chks c) oc /\
    sync_full g os oc st c [] = (st', c', fs', log, err) /\ err = false /\
    exists id e d r, l_chks st' !! id = Some e /\ ce_def e = Some d /\ ce_sync e = true /\ ce_del e = false /\
                     ce_defer e = false /\ c_chks c' !! id = Some r /\ ck_aux r <> ck_aux d.
Proof.
  set (r := sync_full g0 all_s all_c (fst (state_of_g g0 h_aux [])) (snd (state_of_g g0 h_aux [])) []).
  exists g0, all_s, all_c, (fst (state_of_g g0 h_aux [])), (snd (state_of_g g0 h_aux [])).
  exists (fst (fst (fst (fst r)))), (snd (fst (fst (fst r)))), (snd (fst (fst r))), (snd (fst r)), (snd r).
  assert (S : List.Forall static_ok h_aux) by static_tac.
  split; [exact (proj1 (state_of_g_wf _ _ _ S))|]. split; [exact (proj2 (state_of_g_wf _ _ _ S))|].
  split; [apply bind_okb_ok; vm_compute; reflexivity|].
  repeat (split; [apply coversb_ok; vm_compute; reflexivity|]).
  split; [fold r; destruct r as [[[[? ?] ?] ?] ?]; reflexivity|]. split; [vm_compute; reflexivity|].
  exists 1%N, (CE (Some chk_web_aux1) 0 true false false false), chk_web_aux1, chk_web.
  split; [vm_compute; reflexivity|]. do 4 (split; [reflexivity|]).
  split; [vm_compute; reflexivity|]. vm_compute. discriminate.
Qed.

(* once the timer has fired, a fault-free partial sync pushes the Output and the catalog holds
   the definition exactly *)
Theorem deferred_output_after_timer :
  let st := fst (state_of_g g0d (h_defer ++ [STimer 1; SSyncChanges all_s all_c]) []) in
  let c := snd (state_of_g g0d (h_defer ++ [STimer 1; SSyncChanges all_s all_c]) []) in
  exists e, l_chks st !! 1%N = Some e /\ ce_sync e = true /\ ce_defer e = false /\ holds_chk c 1 chk_web_out2.
Proof.
  cbn zeta. exists (CE (Some chk_web_out2) 0 true false false false).
  split; [vm_compute; reflexivity|]. split; [reflexivity|]. split; [reflexivity|].
  exists chk_web_out2. split; [vm_compute; reflexivity|]. vm_compute. reflexivity.
Qed.
