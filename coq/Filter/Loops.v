(* C09 — the loop shapes of the ACL filters compute List.filter (for every predicate, every
   list): the in-place deletion walk, the range/append loop, the span compaction of
   FilterEntries, and the map loops (for every visiting order). *)
From Verif Require Import Base.Prelude.
From Verif Require Import Filter.Model.
From Coq Require Import Permutation.

(* ------------------------------------------------------------------------------------ *)
Section ListFacts.
  Context {A : Type}.

  Lemma nth_error_skipn_cons : forall (s : list A) i x,
    nth_error s i = Some x -> skipn i s = x :: skipn (S i) s.
  Proof.
    induction s as [|y s IH]; intros [|i] x H; cbn in *; try discriminate.
    - injection H as ->. reflexivity.
    - apply IH in H. destruct s; exact H.
  Qed.

  Lemma nth_error_firstn_snoc : forall (s : list A) i x,
    nth_error s i = Some x -> firstn (S i) s = firstn i s ++ [x].
  Proof.
    induction s as [|y s IH]; intros [|i] x H; cbn in *; try discriminate.
    - injection H as ->. reflexivity.
    - f_equal. apply IH. exact H.
  Qed.

  Lemma nth_error_None_ge : forall (s : list A) i, nth_error s i = None -> List.length s <= i.
  Proof. intros s i H. apply nth_error_None. exact H. Qed.

  Lemma nth_error_Some_lt : forall (s : list A) i x, nth_error s i = Some x -> i < List.length s.
  Proof. intros s i x H. apply nth_error_Some. congruence. Qed.

  Lemma firstn_ge_all : forall (s : list A) i, List.length s <= i -> firstn i s = s.
  Proof. intros. apply firstn_all2. assumption. Qed.

  Lemma skipn_ge_nil : forall (s : list A) i, List.length s <= i -> skipn i s = [].
  Proof. intros. apply skipn_all2. assumption. Qed.

  Lemma firstn_add : forall (l : list A) i k, firstn (i + k) l = firstn i l ++ firstn k (skipn i l).
  Proof.
    induction l as [|x l IH]; intros [|i] k; cbn; try reflexivity.
    - destruct k; reflexivity.
    - f_equal. apply IH.
  Qed.

  Lemma nth_error_skipn_shift : forall (l : list A) k i, nth_error (skipn k l) i = nth_error l (k + i).
  Proof.
    induction l as [|x l IH]; intros [|k] i; cbn; try reflexivity.
    - destruct i; reflexivity.
    - apply IH.
  Qed.

  Lemma skipn_skipn : forall (x y : nat) (l : list A), skipn x (skipn y l) = skipn (x + y) l.
  Proof.
    intros x y; revert x. induction y as [|y IH]; intros x l.
    - rewrite Nat.add_0_r. reflexivity.
    - rewrite Nat.add_succ_r. destruct l as [|a l]; [destruct x; reflexivity|]. cbn. apply IH.
  Qed.

  Lemma flat_map_ext_in {B : Type} (f g : A -> list B) : forall l,
    (forall x, In x l -> f x = g x) -> flat_map f l = flat_map g l.
  Proof.
    induction l as [|x l IH]; intros H; cbn; [reflexivity|].
    rewrite (H x (or_introl eq_refl)), IH; [reflexivity|]. intros y Hy. apply H. right. exact Hy.
  Qed.

  Lemma filter_filter : forall (p q : A -> bool) l,
    filter p (filter q l) = filter (fun x => q x && p x) l.
  Proof.
    induction l as [|x l IH]; cbn; [reflexivity|].
    destruct (q x); cbn; [destruct (p x)|]; rewrite IH; reflexivity.
  Qed.

  Lemma forallb_filter_id : forall (p : A -> bool) l, forallb p l = true -> filter p l = l.
  Proof.
    induction l as [|x l IH]; cbn; [reflexivity|]. intros H.
    apply andb_true_iff in H as [-> H]. f_equal. auto.
  Qed.

  Lemma existsb_negb_forallb : forall (p : A -> bool) l, existsb (fun x => negb (p x)) l = negb (forallb p l).
  Proof. induction l as [|x l IH]; cbn; [reflexivity|]. rewrite IH. destruct (p x); reflexivity. Qed.
End ListFacts.

(* ------------------------------------------------------------------------------------ *)
(* The in-place deletion walk                                                            *)
(* ------------------------------------------------------------------------------------ *)
Section Inplace.
  Context {A : Type}.

  Lemma delete_at_length : forall (s : list A) i, i < List.length s ->
    List.length (delete_at i s) = List.length s - 1.
  Proof.
    intros s i H. unfold delete_at. rewrite app_length, firstn_length, skipn_length. lia.
  Qed.

  Lemma delete_at_firstn : forall (s : list A) i, i < List.length s -> firstn i (delete_at i s) = firstn i s.
  Proof.
    intros s i H. unfold delete_at.
    rewrite firstn_app, firstn_firstn, firstn_length.
    replace (Nat.min i i) with i by lia. replace (i - Nat.min i (List.length s)) with 0 by lia.
    cbn. apply app_nil_r.
  Qed.

  Lemma delete_at_skipn : forall (s : list A) i, i < List.length s -> skipn i (delete_at i s) = skipn (S i) s.
  Proof.
    intros s i H. unfold delete_at.
    rewrite skipn_app, firstn_length. replace (i - Nat.min i (List.length s)) with 0 by lia.
    rewrite skipn_all2 by (rewrite firstn_length; lia). reflexivity.
  Qed.

  Lemma set_at_length : forall (s : list A) i x, i < List.length s -> List.length (set_at i x s) = List.length s.
  Proof.
    intros s i x H. unfold set_at. rewrite app_length, firstn_length. cbn [List.length]. rewrite skipn_length. lia.
  Qed.

  Lemma set_at_firstn_S : forall (s : list A) i x, i < List.length s -> firstn (S i) (set_at i x s) = firstn i s ++ [x].
  Proof.
    intros s i x H. unfold set_at.
    rewrite firstn_app, firstn_length. replace (S i - Nat.min i (List.length s)) with 1 by lia.
    rewrite firstn_firstn. replace (Nat.min (S i) i) with i by lia. reflexivity.
  Qed.

  Lemma set_at_skipn_S : forall (s : list A) i x, i < List.length s -> skipn (S i) (set_at i x s) = skipn (S i) s.
  Proof.
    intros s i x H. unfold set_at.
    rewrite skipn_app, firstn_length. replace (S i - Nat.min i (List.length s)) with 1 by lia.
    rewrite skipn_all2 by (rewrite firstn_length; lia). reflexivity.
  Qed.

  (* Invariant of the walk at index i: the prefix before i is final, the suffix from i on is
     still to be filtered.  Holds for every fuel that covers the remaining suffix. *)
  Lemma inplace_loop_inv (keep : A -> bool) : forall fuel i s r,
    List.length s - i <= fuel ->
    inplace_loop keep fuel i s r
    = (firstn i s ++ filter keep (skipn i s), r || negb (forallb keep (skipn i s))).
  Proof.
    induction fuel as [|fuel IH]; intros i s r Hf.
    - cbn [inplace_loop]. rewrite skipn_ge_nil, firstn_ge_all by lia. cbn.
      rewrite app_nil_r, orb_false_r. reflexivity.
    - cbn [inplace_loop]. destruct (nth_error s i) as [x|] eqn:E.
      + pose proof (nth_error_Some_lt _ _ _ E) as Hlt.
        rewrite (nth_error_skipn_cons _ _ _ E). cbn [filter forallb].
        destruct (keep x) eqn:K.
        * rewrite IH by lia. rewrite (nth_error_firstn_snoc _ _ _ E), <- app_assoc. reflexivity.
        * rewrite IH by (rewrite delete_at_length by assumption; lia).
          rewrite delete_at_firstn, delete_at_skipn by assumption.
          cbn. rewrite orb_true_r. reflexivity.
      + apply nth_error_None_ge in E.
        rewrite skipn_ge_nil, firstn_ge_all by lia. cbn. rewrite app_nil_r, orb_false_r. reflexivity.
  Qed.

  Theorem loop_is_filter (keep : A -> bool) : forall fuel s,
    List.length s <= fuel ->
    inplace_loop keep fuel 0 s false = (filter keep s, negb (forallb keep s)).
  Proof. intros fuel s H. rewrite inplace_loop_inv by lia. reflexivity. Qed.

  Corollary inplace_filter_spec (keep : A -> bool) (s : list A) :
    inplace_filter keep s = (filter keep s, negb (forallb keep s)).
  Proof. apply loop_is_filter. lia. Qed.

  (* the walk that may rewrite the kept element *)
  Definition walk_list (visit : A -> option A * bool) (l : list A) : list A :=
    flat_map (fun x => match fst (visit x) with Some y => [y] | None => [] end) l.
  Definition walk_flag (visit : A -> option A * bool) (l : list A) : bool :=
    existsb (fun x => match visit x with (None, _) => true | (Some _, r) => r end) l.

  Lemma inplace_walk_inv (visit : A -> option A * bool) : forall fuel i s r,
    List.length s - i <= fuel ->
    inplace_walk visit fuel i s r
    = (firstn i s ++ walk_list visit (skipn i s), r || walk_flag visit (skipn i s)).
  Proof.
    induction fuel as [|fuel IH]; intros i s r Hf.
    - cbn [inplace_walk]. rewrite skipn_ge_nil, firstn_ge_all by lia. cbn.
      rewrite app_nil_r, orb_false_r. reflexivity.
    - cbn [inplace_walk]. destruct (nth_error s i) as [x|] eqn:E.
      + pose proof (nth_error_Some_lt _ _ _ E) as Hlt.
        rewrite (nth_error_skipn_cons _ _ _ E).
        unfold walk_list, walk_flag. cbn [flat_map existsb].
        destruct (visit x) as [[x'|] rx] eqn:V; cbn [fst].
        * rewrite IH by (rewrite set_at_length by assumption; lia).
          rewrite set_at_firstn_S, set_at_skipn_S by assumption.
          unfold walk_list, walk_flag. rewrite <- app_assoc, orb_assoc. reflexivity.
        * rewrite IH by (rewrite delete_at_length by assumption; lia).
          rewrite delete_at_firstn, delete_at_skipn by assumption.
          unfold walk_list, walk_flag. cbn. rewrite orb_true_r. reflexivity.
      + apply nth_error_None_ge in E.
        rewrite skipn_ge_nil, firstn_ge_all by lia. cbn. rewrite app_nil_r, orb_false_r. reflexivity.
  Qed.

  Corollary inplace_walk_spec (visit : A -> option A * bool) (s : list A) :
    inplace_walk visit (List.length s) 0 s false = (walk_list visit s, walk_flag visit s).
  Proof. rewrite inplace_walk_inv by lia. reflexivity. Qed.

  (* range / append loops *)
  Lemma range_loop_spec (keep : A -> bool) : forall l ret r,
    range_loop keep l ret r = (ret ++ filter keep l, r || negb (forallb keep l)).
  Proof.
    induction l as [|x l IH]; intros ret r; cbn.
    - rewrite app_nil_r, orb_false_r. reflexivity.
    - destruct (keep x); rewrite IH; cbn.
      + rewrite <- app_assoc. reflexivity.
      + rewrite orb_true_r. reflexivity.
  Qed.

  Corollary range_filter_spec (keep : A -> bool) (l : list A) :
    range_filter keep l = (filter keep l, negb (forallb keep l)).
  Proof. apply range_loop_spec. Qed.

  Definition opt_list (f : A -> option A) (l : list A) : list A :=
    flat_map (fun x => match f x with Some y => [y] | None => [] end) l.

  Lemma range_opt_loop_spec (f : A -> option A) : forall l ret,
    range_opt_loop f l ret = ret ++ opt_list f l.
  Proof.
    induction l as [|x l IH]; intros ret; cbn.
    - rewrite app_nil_r. reflexivity.
    - destruct (f x); rewrite IH; cbn; [rewrite <- app_assoc|]; reflexivity.
  Qed.

  Corollary range_opt_spec (f : A -> option A) (l : list A) : range_opt f l = opt_list f l.
  Proof. apply range_opt_loop_spec. Qed.
End Inplace.

(* ------------------------------------------------------------------------------------ *)
(* FilterEntries: span compaction                                                        *)
(* ------------------------------------------------------------------------------------ *)
Section CompactProofs.
  Context {A : Type}.
  Variable filtered : A -> bool.
  Let keep (x : A) : bool := negb (filtered x).

  Lemma scan_spec (p : nat -> bool) : forall fuel i n,
    i <= n -> n - i <= fuel ->
    i <= scan p fuel i n <= n
    /\ (forall k, i <= k < scan p fuel i n -> p k = true)
    /\ (scan p fuel i n < n -> p (scan p fuel i n) = false).
  Proof.
    induction fuel as [|fuel IH]; intros i n Hi Hf; cbn [scan].
    - assert (i = n) by lia. subst. repeat split; intros; lia.
    - destruct (i <? n) eqn:L; cbn [andb].
      + apply Nat.ltb_lt in L. destruct (p i) eqn:P.
        * destruct (IH (S i) n) as (H1 & H2 & H3); [lia|lia|].
          repeat split; try lia; [|exact H3].
          intros k Hk. destruct (Nat.eq_dec k i) as [->|]; [exact P|]. apply H2. lia.
        * repeat split; intros; try lia. exact P.
      + apply Nat.ltb_ge in L. repeat split; intros; lia.
  Qed.

  Lemma filt_at_agree : forall (a a0 : list A) src i,
    skipn src a = skipn src a0 -> src <= i -> filt_at filtered a i = filt_at filtered a0 i.
  Proof.
    intros a a0 src i H Hi. unfold filt_at.
    replace i with (src + (i - src)) by lia.
    rewrite <- !nth_error_skipn_shift, H. reflexivity.
  Qed.

  (* a0[i..j) all dropped *)
  Lemma seg_all_filtered : forall (a0 : list A) d i,
    (forall k, i <= k < i + d -> filt_at filtered a0 k = true) ->
    filter keep (firstn d (skipn i a0)) = [].
  Proof.
    intros a0 d. induction d as [|d IH]; intros i H; [reflexivity|].
    destruct (nth_error a0 i) as [x|] eqn:E.
    - rewrite (nth_error_skipn_cons _ _ _ E). cbn [firstn filter].
      assert (Hx : filt_at filtered a0 i = true) by (apply H; lia).
      unfold filt_at in Hx. rewrite E in Hx. unfold keep. rewrite Hx. cbn [negb].
      apply (IH (S i)). intros k Hk. apply H. lia.
    - apply nth_error_None_ge in E. rewrite skipn_ge_nil by lia. destruct d; reflexivity.
  Qed.

  (* a0[i..j) all kept *)
  Lemma seg_all_kept : forall (a0 : list A) d i,
    (forall k, i <= k < i + d -> filt_at filtered a0 k = false) ->
    filter keep (firstn d (skipn i a0)) = firstn d (skipn i a0).
  Proof.
    intros a0 d. induction d as [|d IH]; intros i H; [reflexivity|].
    destruct (nth_error a0 i) as [x|] eqn:E.
    - rewrite (nth_error_skipn_cons _ _ _ E). cbn [firstn filter].
      assert (Hx : filt_at filtered a0 i = false) by (apply H; lia).
      unfold filt_at in Hx. rewrite E in Hx. unfold keep. rewrite Hx. cbn [negb].
      f_equal. apply (IH (S i)). intros k Hk. apply H. lia.
    - apply nth_error_None_ge in E. rewrite skipn_ge_nil by lia. destruct d; reflexivity.
  Qed.

  Lemma move_length : forall (a : list A) dst src span,
    dst <= src -> src + span <= List.length a -> List.length (move a dst src span) = List.length a.
  Proof.
    intros a dst src span H1 H2. unfold move.
    rewrite !app_length, !firstn_length, !skipn_length. lia.
  Qed.

  Lemma move_firstn : forall (a : list A) dst src span,
    dst <= src -> src + span <= List.length a ->
    firstn (dst + span) (move a dst src span) = firstn dst a ++ firstn span (skipn src a).
  Proof.
    intros a dst src span H1 H2. unfold move. rewrite app_assoc.
    rewrite firstn_app. rewrite app_length, !firstn_length, skipn_length.
    replace (dst + span - (Nat.min dst (List.length a) + Nat.min span (List.length a - src))) with 0 by lia.
    cbn. rewrite app_nil_r. apply firstn_all2.
    rewrite app_length, !firstn_length, skipn_length. lia.
  Qed.

  Lemma move_skipn : forall (a : list A) dst src span e,
    dst <= src -> src + span <= List.length a -> dst + span <= e ->
    skipn e (move a dst src span) = skipn e a.
  Proof.
    intros a dst src span e H1 H2 H3. unfold move. rewrite app_assoc.
    rewrite skipn_app. rewrite app_length, !firstn_length, skipn_length.
    rewrite skipn_all2 by (rewrite app_length, !firstn_length, skipn_length; lia).
    cbn. replace (Nat.min dst (List.length a) + Nat.min span (List.length a - src)) with (dst + span) by lia.
    rewrite skipn_skipn. f_equal. lia.
  Qed.

  Lemma compact_inv (a0 : list A) : forall fuel a dst src,
    List.length a = List.length a0 -> dst <= src -> src <= List.length a0 ->
    skipn src a = skipn src a0 ->
    firstn dst a = filter keep (firstn src a0) ->
    List.length a0 - src < fuel ->
    firstn (fst (compact filtered fuel a (List.length a0) dst src))
           (snd (compact filtered fuel a (List.length a0) dst src)) = filter keep a0.
  Proof.
    set (n := List.length a0).
    induction fuel as [|fuel IH]; intros a dst src Hlen Hds Hsn Hsk Hfi Hfuel; [lia|].
    cbn [compact].
    destruct (dst <? n) eqn:Ldst.
    2:{ apply Nat.ltb_ge in Ldst. assert (src = n) by lia. subst src. cbn [fst snd].
        rewrite Hfi. unfold n. rewrite firstn_all. reflexivity. }
    apply Nat.ltb_lt in Ldst.
    destruct (scan_spec (filt_at filtered a) n src n) as (S1 & S2 & S3); [lia|lia|].
    set (src1 := scan (filt_at filtered a) n src n) in *.
    (* a0[src..src1) is dropped *)
    assert (Hdrop : filter keep (firstn (src1 - src) (skipn src a0)) = []).
    { apply seg_all_filtered. intros k Hk. rewrite <- (filt_at_agree a a0 src k Hsk) by lia. apply S2. lia. }
    assert (Hpre : filter keep (firstn src1 a0) = firstn dst a).
    { replace src1 with (src + (src1 - src)) by lia. rewrite firstn_add, filter_app, Hdrop, app_nil_r. auto. }
    destruct (src1 =? n) eqn:Esrc.
    { apply Nat.eqb_eq in Esrc. cbn [fst snd]. rewrite <- Hpre, Esrc. unfold n. rewrite firstn_all. reflexivity. }
    apply Nat.eqb_neq in Esrc.
    destruct (scan_spec (fun i => negb (filt_at filtered a i)) n (S src1) n) as (E1 & E2 & E3); [lia|lia|].
    set (e := scan (fun i => negb (filt_at filtered a i)) n (S src1) n) in *.
    assert (Hspan : 0 <? e - src1 = true) by (apply Nat.ltb_lt; lia).
    rewrite Hspan.
    assert (Hsk1 : skipn src1 a = skipn src1 a0).
    { replace src1 with ((src1 - src) + src) by lia. rewrite <- !skipn_skipn, Hsk. reflexivity. }
    (* a0[src1..e) is kept *)
    assert (Hkept : filter keep (firstn (e - src1) (skipn src1 a0)) = firstn (e - src1) (skipn src1 a0)).
    { apply seg_all_kept. intros k Hk. rewrite <- (filt_at_agree a a0 src k Hsk) by lia.
      destruct (Nat.eq_dec k src1) as [->|Hne].
      - apply S3. lia.
      - specialize (E2 k). cbv beta in E2. apply negb_true_iff. apply E2. lia. }
    apply IH.
    - rewrite move_length by lia. exact Hlen.
    - lia.
    - lia.
    - replace (src1 + (e - src1)) with e by lia.
      rewrite move_skipn by lia.
      replace e with ((e - src) + src) by lia. rewrite <- !skipn_skipn, Hsk. reflexivity.
    - rewrite move_firstn by lia.
      replace (src1 + (e - src1)) with e by lia.
      replace e with (src1 + (e - src1)) at 2 by lia.
      rewrite firstn_add, filter_app, Hpre, Hkept, Hsk1. reflexivity.
    - lia.
  Qed.

  Theorem compact_is_filter (a : list A) :
    filter_slice filtered a = filter (fun x => negb (filtered x)) a.
  Proof.
    unfold filter_slice, filter_entries.
    pose proof (compact_inv a (S (List.length a)) a 0 0 eq_refl (le_n 0) (Nat.le_0_l _) eq_refl eq_refl) as H.
    destruct (compact filtered (S (List.length a)) a (List.length a) 0 0) as [k a'].
    apply H. lia.
  Qed.
End CompactProofs.

(* ------------------------------------------------------------------------------------ *)
(* Go map loops: deleting / replacing the visited key, in any visiting order             *)
(* ------------------------------------------------------------------------------------ *)
Section MapProofs.
  Context {V : Type}.
  Implicit Types m ord : amap V.

  Definition key_is (k : string) (kv : string * V) : bool := String.eqb (fst kv) k.

  Lemma nodup_keys_same : forall m k v v',
    NoDup (map fst m) -> In (k, v) m -> In (k, v') m -> v = v'.
  Proof.
    induction m as [|[k0 v0] m IH]; intros k v v' Hnd H1 H2; [contradiction|].
    cbn in Hnd. inversion Hnd as [|? ? Hnin Hnd']; subst.
    destruct H1 as [H1|H1], H2 as [H2|H2].
    - congruence.
    - injection H1 as -> ->. exfalso. apply Hnin. apply (in_map fst) in H2. exact H2.
    - injection H2 as -> ->. exfalso. apply Hnin. apply (in_map fst) in H1. exact H1.
    - eapply IH; eassumption.
  Qed.

  (* "for k, v := range m { if bad(k, v) { removed = true; delete(m, k) } }" *)
  Fixpoint del_loop (bad : string * V -> bool) (ord m : amap V) (r : bool) : amap V * bool :=
    match ord with
    | [] => (m, r)
    | kv :: ord' => if bad kv then del_loop bad ord' (map_delete (fst kv) m) true
                    else del_loop bad ord' m r
    end.

  Lemma del_loop_gen (bad : string * V -> bool) : forall ord m r,
    del_loop bad ord m r
    = (filter (fun kv => negb (existsb (fun o => bad o && key_is (fst kv) o) ord)) m,
       r || existsb bad ord).
  Proof.
    induction ord as [|o ord IH]; intros m r; cbn [del_loop existsb].
    - rewrite orb_false_r. f_equal. symmetry. apply forallb_filter_id. apply forallb_forall. reflexivity.
    - destruct (bad o) eqn:B; rewrite IH; cbn [andb].
      + unfold map_delete. rewrite filter_filter. rewrite orb_true_r. f_equal.
        apply filter_ext. intros kv. unfold key_is.
        rewrite (String.eqb_sym (fst o) (fst kv)).
        destruct (String.eqb (fst kv) (fst o)); reflexivity.
      + reflexivity.
  Qed.

  (* visiting exactly the entries of the map (unique keys): the entries with [bad] are gone *)
  Lemma del_loop_spec (bad : string * V -> bool) : forall ord m,
    NoDup (map fst m) -> (forall kv, In kv ord <-> In kv m) ->
    del_loop bad ord m false = (filter (fun kv => negb (bad kv)) m, negb (forallb (fun kv => negb (bad kv)) m)).
  Proof.
    intros ord m Hnd Hio. rewrite del_loop_gen. cbn [orb]. f_equal.
    - apply filter_ext_in. intros [k v] Hin. f_equal.
      destruct (bad (k, v)) eqn:B.
      + apply existsb_exists. exists (k, v). split; [apply Hio; exact Hin|].
        rewrite B. unfold key_is. cbn. apply String.eqb_refl.
      + apply not_true_iff_false. intros H. apply existsb_exists in H as ([k' v'] & Hin' & H).
        apply andb_true_iff in H as [Hb Hk]. unfold key_is in Hk. cbn in Hk. apply String.eqb_eq in Hk. subst k'.
        apply Hio in Hin'. rewrite (nodup_keys_same m k v' v Hnd Hin' Hin) in Hb. congruence.
    - rewrite <- existsb_negb_forallb.
      apply eq_true_iff_eq. rewrite !existsb_exists. split; intros (x & Hx & Hb); exists x; split.
      + apply Hio; exact Hx.
      + rewrite Hb; reflexivity.
      + apply Hio; exact Hx.
      + rewrite negb_involutive in Hb. exact Hb.
  Qed.

  (* "for k, v := range m { v' := tr(k, v); if gone { delete(m, k) } else { m[k] = v' } }" *)
  Fixpoint upd_loop (tr : string * V -> option V) (ord m : amap V) : amap V :=
    match ord with
    | [] => m
    | kv :: ord' => match tr kv with
                    | None => upd_loop tr ord' (map_delete (fst kv) m)
                    | Some v' => upd_loop tr ord' (map_set (fst kv) v' m)
                    end
    end.

  Definition upd_entry (tr : string * V -> option V) (ord : amap V) (e : string * V) : amap V :=
    match find (key_is (fst e)) ord with
    | Some o => match tr o with None => [] | Some v' => [(fst e, v')] end
    | None => [e]
    end.

  Lemma find_key_none : forall ord k, ~ In k (map fst ord) -> find (key_is k) ord = None.
  Proof.
    induction ord as [|[k0 v0] ord IH]; intros k H; [reflexivity|]. cbn in *.
    unfold key_is at 1. cbn. destruct (String.eqb k0 k) eqn:E.
    - apply String.eqb_eq in E. exfalso. apply H. left. exact E.
    - apply IH. intros Hin. apply H. right. exact Hin.
  Qed.

  Lemma upd_entry_cons (tr : string * V -> option V) : forall k v ord k1 v1,
    upd_entry tr ((k, v) :: ord) (k1, v1)
    = if String.eqb k k1 then match tr (k, v) with None => [] | Some v' => [(k1, v')] end
      else upd_entry tr ord (k1, v1).
  Proof.
    intros. unfold upd_entry, key_is. cbn [fst find]. destruct (String.eqb k k1); reflexivity.
  Qed.

  Lemma upd_loop_gen (tr : string * V -> option V) : forall ord m,
    NoDup (map fst ord) -> upd_loop tr ord m = flat_map (upd_entry tr ord) m.
  Proof.
    induction ord as [|[k v] ord IH]; intros m Hnd.
    - cbn. induction m as [|e m IHm]; cbn; [reflexivity|]. rewrite <- IHm. reflexivity.
    - cbn in Hnd. inversion Hnd as [|? ? Hnin Hnd']; subst. cbn [upd_loop fst].
      destruct (tr (k, v)) as [v'|] eqn:T; rewrite IH by assumption.
      + unfold map_set. rewrite flat_map_concat_map, map_map, <- flat_map_concat_map.
        apply flat_map_ext. intros [k1 v1]. rewrite upd_entry_cons, T. cbn [fst].
        rewrite (String.eqb_sym k k1).
        destruct (String.eqb k1 k) eqn:E; [|reflexivity].
        apply String.eqb_eq in E. subst k1.
        unfold upd_entry. cbn [fst]. rewrite (find_key_none ord k Hnin). reflexivity.
      + unfold map_delete.
        induction m as [|[k1 v1] m IHm]; [reflexivity|]. cbn [filter flat_map fst].
        rewrite upd_entry_cons, T, <- IHm. rewrite (String.eqb_sym k k1).
        destruct (String.eqb k1 k); reflexivity.
  Qed.

  Lemma find_key_self : forall ord k v, NoDup (map fst ord) -> In (k, v) ord -> find (key_is k) ord = Some (k, v).
  Proof.
    induction ord as [|[k0 v0] ord IH]; intros k v Hnd Hin; [contradiction|].
    cbn in Hnd. inversion Hnd as [|? ? Hnin Hnd']; subst. cbn [find]. unfold key_is at 1. cbn [fst].
    destruct Hin as [Hin|Hin].
    - injection Hin as -> ->. rewrite String.eqb_refl. reflexivity.
    - destruct (String.eqb k0 k) eqn:E.
      + apply String.eqb_eq in E. subst. exfalso. apply Hnin. apply (in_map fst) in Hin. exact Hin.
      + apply IH; assumption.
  Qed.

  Lemma upd_loop_spec (tr : string * V -> option V) : forall ord m,
    NoDup (map fst ord) -> (forall kv, In kv m -> In kv ord) ->
    upd_loop tr ord m
    = flat_map (fun e => match tr e with None => [] | Some v' => [(fst e, v')] end) m.
  Proof.
    intros ord m Hnd Hin. rewrite upd_loop_gen by assumption.
    apply flat_map_ext_in. intros [k v] He. unfold upd_entry. cbn [fst].
    rewrite (find_key_self ord k v Hnd (Hin _ He)). reflexivity.
  Qed.
End MapProofs.

