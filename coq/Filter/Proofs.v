(* C09 — every filter of the model computes exactly "keep the readable elements, in order,
   report whether one was removed", for every authorizer and every response. *)
From Verif Require Import Base.Prelude.
From Verif Require Import Filter.Model.
From Verif Require Import Filter.Loops.
From Verif Require Import Filter.Spec.
From Coq Require Import Permutation.

Lemma forallb_ext_local {A} (p q : A -> bool) l : (forall x, p x = q x) -> forallb p l = forallb q l.
Proof. intros H. induction l as [|x l IH]; cbn; [reflexivity|]. rewrite H, IH. reflexivity. Qed.

Lemma existsb_same_members {A} (p : A -> bool) l l' :
  (forall x, In x l <-> In x l') -> existsb p l = existsb p l'.
Proof.
  intros H. apply eq_true_iff_eq. rewrite !existsb_exists.
  split; intros (x & Hx & Hp); exists x; split; try apply H; assumption.
Qed.

Lemma inplace_filter_ext {A} (p q : A -> bool) l :
  (forall x, p x = q x) -> inplace_filter p l = (filter q l, negb (forallb q l)).
Proof.
  intros H. rewrite inplace_filter_spec, (filter_ext _ _ H), (forallb_ext_local _ _ l H). reflexivity.
Qed.

Lemma range_filter_ext {A} (p q : A -> bool) l :
  (forall x, p x = q x) -> range_filter p l = (filter q l, negb (forallb q l)).
Proof.
  intros H. rewrite range_filter_spec, (filter_ext _ _ H), (forallb_ext_local _ _ l H). reflexivity.
Qed.

Lemma flat_map_if_map {A B} (p : A -> bool) (f : A -> B) l :
  flat_map (fun x => if p x then [f x] else []) l = map f (filter p l).
Proof. induction l as [|x l IH]; cbn; [reflexivity|]. destruct (p x); cbn; rewrite IH; reflexivity. Qed.

Lemma removed_two_passes {A} (p q : A -> bool) l :
  negb (forallb p l) || negb (forallb q (filter p l)) = negb (forallb (fun x => p x && q x) l).
Proof.
  induction l as [|x l IH]; cbn; [reflexivity|].
  destruct (p x); cbn; [destruct (q x); cbn|]; try rewrite <- IH; try reflexivity.
  - rewrite orb_true_r. reflexivity.
Qed.

Lemma sticky_orb old r : sticky old r = old || r.
Proof. destruct old, r; reflexivity. Qed.

Section Proofs.
  Variable az : authz.

  (* ---- the predicates the code evaluates are the readability predicates of Spec ---- *)
  Lemma allow_service_ok ctx s : allow_service az ctx s = svc_ok az ctx s.
  Proof. unfold allow_service, svc_ok. destruct (str_empty s); reflexivity. Qed.

  Lemma keep_check_ok c : keep_check az c = readable_check az c.
  Proof. unfold keep_check, readable_check, allow_node. rewrite allow_service_ok. reflexivity. Qed.
  Lemma keep_snode_ok c : keep_snode az c = readable_snode az c.
  Proof. unfold keep_snode, readable_snode, allow_node. rewrite allow_service_ok. reflexivity. Qed.
  Lemma csn_can_read_ok c : csn_can_read az c = readable_csn az c.
  Proof.
    unfold csn_can_read, readable_csn.
    destruct (node_read az (c_peer c) (c_node c)), (service_read az (c_peer c) (c_svc c)); reflexivity.
  Qed.
  Lemma ixn_can_read_ok x : ixn_can_read az x = readable_intention az x.
  Proof.
    unfold ixn_can_read, readable_intention.
    destruct (negb (str_empty (ix_src x)) && str_empty (ix_src_peer x) && intention_read az (ix_src x));
      destruct (negb (str_empty (ix_dst x)) && intention_read az (ix_dst x)); reflexivity.
  Qed.
  Lemma keep_dump_service_ok n s : keep_dump_service az n s = readable_nsvc_on az n s.
  Proof. unfold keep_dump_service, readable_nsvc_on, allow_node. rewrite allow_service_ok. reflexivity. Qed.
  Lemma keep_dump_check_ok n c : keep_dump_check az n c = readable_check_on az n c.
  Proof. unfold keep_dump_check, readable_check_on, allow_node. rewrite allow_service_ok. reflexivity. Qed.
  Lemma keep_nsvc_name_ok s : keep_nsvc_name az s = readable_nsvc az s.
  Proof. unfold keep_nsvc_name, readable_nsvc. apply allow_service_ok. Qed.
  Lemma keep_svcinfo_ok s : keep_svcinfo az s = readable_svcinfo az s.
  Proof.
    unfold keep_svcinfo, readable_svcinfo, allow_gateway, allow_node, allow_service, svc_ok, local.
    destruct (str_empty (si_gateway s)), (str_empty (si_service s)); cbn;
      try destruct (service_read az EmptyString (si_gateway s)); cbn;
      try destruct (service_read az EmptyString (si_service s)); cbn;
      try reflexivity; destruct (si_node s) as [[n p]|]; reflexivity.
  Qed.
  Lemma txn_filtered_ok r : negb (txn_filtered az r) = readable_txn az r.
  Proof.
    destruct r; cbn; rewrite ?negb_involutive; try reflexivity.
    destruct (str_empty svc); cbn; rewrite negb_involutive; reflexivity.
  Qed.

  (* ---- flat lists ---- *)
  Lemma filter_health_checks_exact l :
    filter_health_checks az l = (filter (readable_check az) l, negb (forallb (readable_check az) l)).
  Proof. apply inplace_filter_ext, keep_check_ok. Qed.
  Lemma filter_service_nodes_exact l :
    filter_service_nodes az l = (filter (readable_snode az) l, negb (forallb (readable_snode az) l)).
  Proof. apply inplace_filter_ext, keep_snode_ok. Qed.
  Lemma filter_csns_exact l :
    filter_csns az l = (filter (readable_csn az) l, negb (forallb (readable_csn az) l)).
  Proof. apply inplace_filter_ext, csn_can_read_ok. Qed.
  Lemma filter_sessions_exact l :
    filter_sessions az l = (filter (readable_session az) l, negb (forallb (readable_session az) l)).
  Proof. apply inplace_filter_ext. reflexivity. Qed.
  Lemma filter_coordinates_exact l :
    filter_coordinates az l = (filter (readable_coord az) l, negb (forallb (readable_coord az) l)).
  Proof. apply inplace_filter_ext. reflexivity. Qed.
  Lemma filter_nodes_exact l :
    filter_nodes az l = (filter (readable_node az) l, negb (forallb (readable_node az) l)).
  Proof. apply inplace_filter_ext. reflexivity. Qed.
  Lemma filter_intentions_exact l :
    filter_intentions az l = (filter (readable_intention az) l, negb (forallb (readable_intention az) l)).
  Proof. apply range_filter_ext, ixn_can_read_ok. Qed.
  Lemma filter_service_dump_exact l :
    filter_service_dump az l = (filter (readable_svcinfo az) l, negb (forallb (readable_svcinfo az) l)).
  Proof. apply inplace_filter_ext, keep_svcinfo_ok. Qed.
  Lemma filter_service_list_exact l :
    filter_service_list az l = (filter (readable_svcname az) l, negb (forallb (readable_svcname az) l)).
  Proof. apply range_filter_ext. reflexivity. Qed.
  Lemma filter_gateway_services_exact l :
    filter_gateway_services az l = (filter (readable_gwsvc az) l, negb (forallb (readable_gwsvc az) l)).
  Proof. apply range_filter_ext. reflexivity. Qed.
  Lemma filter_gateways_by_gateway_exact l :
    filter_gateways_by_gateway az l
    = (filter (fun g => svc_ok az EmptyString (gs_gateway g)) l,
       negb (forallb (fun g => svc_ok az EmptyString (gs_gateway g)) l)).
  Proof. apply range_filter_ext. intros g. apply allow_service_ok. Qed.

  Lemma filter_dir_ent_exact l : filter_dir_ent az l = filter (readable_dirent az) l.
  Proof.
    unfold filter_dir_ent. rewrite compact_is_filter. apply filter_ext. intros d.
    unfold dirent_filtered, readable_dirent. apply negb_involutive.
  Qed.
  Lemma filter_txn_results_exact l : filter_txn_results az l = filter (readable_txn az) l.
  Proof. unfold filter_txn_results. rewrite compact_is_filter. apply filter_ext, txn_filtered_ok. Qed.

  Lemma filter_topology_exact u d :
    filter_topology az u d
    = ((filter (readable_csn az) u, filter (readable_csn az) d),
       negb (forallb (readable_csn az) u) || negb (forallb (readable_csn az) d)).
  Proof. unfold filter_topology. rewrite !filter_csns_exact. reflexivity. Qed.

  (* ---- intention match: all or nothing ---- *)
  Lemma ixn_match_denied_spec l :
    ixn_match_denied az l
    = negb (forallb (fun e => str_empty (snd e) || intention_read az (snd e)) l).
  Proof.
    induction l as [|[i n] l IH]; cbn; [reflexivity|]. rewrite IH.
    destruct (str_empty n), (intention_read az n); reflexivity.
  Qed.

  (* ---- node dump ---- *)
  Lemma visit_nodeinfo_spec i :
    visit_nodeinfo az i
    = if readable_nodeinfo az i
      then (Some (spec_nodeinfo az i),
            negb (forallb (readable_nsvc_on az (ni_node i)) (ni_services i))
            || negb (forallb (readable_check_on az (ni_node i)) (ni_checks i)))
      else (None, true).
  Proof.
    unfold visit_nodeinfo, readable_nodeinfo, allow_node.
    destruct (node_read az (ni_peer i) (ni_node i)); cbn [negb]; [|reflexivity].
    rewrite (inplace_filter_ext _ _ _ (keep_dump_service_ok (ni_node i))).
    rewrite (inplace_filter_ext _ _ _ (keep_dump_check_ok (ni_node i))). reflexivity.
  Qed.

  Lemma filter_node_dump_exact l :
    filter_node_dump az l
    = (map (spec_nodeinfo az) (filter (readable_nodeinfo az) l), negb (forallb (nodeinfo_intact az) l)).
  Proof.
    unfold filter_node_dump. rewrite inplace_walk_spec. f_equal.
    - unfold walk_list. rewrite <- flat_map_if_map. apply flat_map_ext. intros i.
      rewrite visit_nodeinfo_spec. destruct (readable_nodeinfo az i); reflexivity.
    - unfold walk_flag. rewrite <- existsb_negb_forallb.
      induction l as [|i l IH]; cbn [existsb]; [reflexivity|]. rewrite IH. f_equal.
      rewrite visit_nodeinfo_spec. unfold nodeinfo_intact.
      destruct (readable_nodeinfo az i); cbn; [|reflexivity].
      rewrite negb_andb. reflexivity.
  Qed.

  (* ---- node service list ---- *)
  Lemma filter_node_service_list_exact n l :
    filter_node_service_list az n l
    = match n with
      | None => ((None, l), false)
      | Some nd => if readable_node az nd
                   then ((Some nd, filter (readable_nsvc az) l), negb (forallb (readable_nsvc az) l))
                   else ((None, []), true)
      end.
  Proof.
    unfold filter_node_service_list. destruct n as [nd|]; [|reflexivity].
    unfold readable_node, allow_node. destruct (node_read az (nd_peer nd) (nd_name nd)); cbn [negb]; [|reflexivity].
    rewrite (inplace_filter_ext _ _ _ keep_nsvc_name_ok). reflexivity.
  Qed.

  (* ---- map of services (name -> tags) ---- *)
  Definition services_bad (kv : string * N) : bool := negb (svc_ok az EmptyString (fst kv)).

  Lemma filter_services_loop_del : forall ord m r,
    filter_services_loop az ord m r = del_loop services_bad ord m r.
  Proof.
    induction ord as [|[k v] ord IH]; intros m r; cbn; [reflexivity|].
    unfold services_bad at 1. cbn [fst]. rewrite allow_service_ok. unfold local.
    destruct (svc_ok az EmptyString k); cbn [negb]; apply IH.
  Qed.

  (* for EVERY visiting order of the map *)
  Lemma filter_services_ord_exact ord m :
    NoDup (map fst m) -> (forall kv, In kv ord <-> In kv m) ->
    filter_services_ord az ord m
    = (filter (fun kv => svc_ok az EmptyString (fst kv)) m,
       negb (forallb (fun kv => svc_ok az EmptyString (fst kv)) m)).
  Proof.
    intros Hnd Hio. unfold filter_services_ord. rewrite filter_services_loop_del, del_loop_spec by assumption.
    unfold services_bad. f_equal.
    - apply filter_ext. intros kv. apply negb_involutive.
    - f_equal. apply forallb_ext_local. intros kv. apply negb_involutive.
  Qed.

  (* ---- node services (map service ID -> instance) ---- *)
  Definition node_services_bad (nodename : string) (kv : string * nsvc) : bool :=
    negb (readable_nsvc_on az nodename (snd kv)).

  Lemma node_services_loop_del nodename : forall ord m r,
    node_services_loop az nodename ord m r = del_loop (node_services_bad nodename) ord m r.
  Proof.
    induction ord as [|[k v] ord IH]; intros m r; cbn; [reflexivity|].
    unfold node_services_bad at 1, readable_nsvc_on. cbn [snd]. unfold allow_node. rewrite allow_service_ok.
    destruct (node_read az (ns_peer v) nodename && svc_ok az (ns_peer v) (ns_name v)); cbn [negb]; apply IH.
  Qed.

  Lemma filter_node_services_ord_exact ord n m :
    NoDup (map fst m) -> (forall kv, In kv ord <-> In kv m) ->
    filter_node_services_ord az ord (Some (n, m))
    = if readable_node az n
      then (Some (n, filter (fun kv => readable_nsvc_on az (nd_name n) (snd kv)) m),
            negb (forallb (fun kv => readable_nsvc_on az (nd_name n) (snd kv)) m))
      else (None, true).
  Proof.
    intros Hnd Hio. unfold filter_node_services_ord, readable_node, allow_node.
    destruct (node_read az (nd_peer n) (nd_name n)); cbn [negb]; [|reflexivity].
    rewrite node_services_loop_del, del_loop_spec by assumption.
    unfold node_services_bad. f_equal; [f_equal; f_equal|f_equal].
    - apply filter_ext. intros kv. apply negb_involutive.
    - apply forallb_ext_local. intros kv. apply negb_involutive.
  Qed.

  (* ---- per-datacenter map ---- *)
  Lemma dc_loop_spec : forall ord out removed,
    dc_loop az ord out removed
    = (out ++ spec_groups (readable_csn az) ord, removed || group_removed (readable_csn az) ord).
  Proof.
    induction ord as [|[dc nodes] ord IH]; intros out removed; cbn [dc_loop].
    - cbn. rewrite app_nil_r, orb_false_r. reflexivity.
    - rewrite filter_csns_exact.
      unfold spec_groups, group_removed. cbn [flat_map existsb fst snd].
      destruct (filter (readable_csn az) nodes) as [|c l'] eqn:F; cbn [List.length Nat.ltb Nat.leb].
      + rewrite IH. unfold spec_groups, group_removed. cbn [app].
        destruct (negb (forallb (readable_csn az) nodes)); destruct removed; reflexivity.
      + change (0 <? S (List.length l')) with true. cbn iota. rewrite IH. unfold spec_groups, group_removed.
        rewrite <- app_assoc. cbn [app].
        destruct (negb (forallb (readable_csn az) nodes)); destruct removed; reflexivity.
  Qed.

  Lemma spec_groups_perm {A} (p : A -> bool) (m m' : amap (list A)) :
    Permutation m m' -> Permutation (spec_groups p m) (spec_groups p m').
  Proof.
    intros H. unfold spec_groups. induction H; cbn.
    - constructor.
    - apply Permutation_app_head. assumption.
    - rewrite !app_assoc. apply Permutation_app_tail. apply Permutation_app_comm.
    - eapply perm_trans; eassumption.
  Qed.

  (* any visiting order yields the same map (as a set of entries) and the same flag *)
  Lemma dc_loop_order_irrelevant ord m :
    Permutation ord m ->
    Permutation (fst (dc_loop az ord [] false)) (fst (filter_dc_nodes az m))
    /\ snd (dc_loop az ord [] false) = snd (filter_dc_nodes az m).
  Proof.
    intros H. unfold filter_dc_nodes. rewrite !dc_loop_spec. cbn [fst snd app orb]. split.
    - apply spec_groups_perm. assumption.
    - apply existsb_same_members. intros x. split; apply Permutation_in; [|apply Permutation_sym]; assumption.
  Qed.

  (* ---- exported services per peer ---- *)
  Definition exported_tr (kv : string * list svcname) : option (list svcname) :=
    let l := filter (readable_svcname az) (snd kv) in
    if List.length l =? 0 then None else Some l.

  Lemma exported_loop_upd : forall ord m flag,
    exported_loop az ord m flag
    = (upd_loop exported_tr ord m, flag || group_removed (readable_svcname az) ord).
  Proof.
    induction ord as [|[peer svcs] ord IH]; intros m flag; cbn [exported_loop upd_loop].
    - cbn. rewrite orb_false_r. reflexivity.
    - rewrite filter_service_list_exact. unfold exported_tr at 1. cbn [snd fst].
      unfold group_removed. cbn [existsb snd].
      destruct (List.length (filter (readable_svcname az) svcs) =? 0); rewrite IH; unfold group_removed;
        (f_equal; destruct (negb (forallb (readable_svcname az) svcs)); destruct flag; reflexivity).
  Qed.

  Lemma exported_tr_groups m :
    flat_map (fun e => match exported_tr e with None => [] | Some v' => [(fst e, v')] end) m
    = spec_groups (readable_svcname az) m.
  Proof.
    unfold spec_groups. apply flat_map_ext. intros [k l]. unfold exported_tr. cbn [fst snd].
    destruct (filter (readable_svcname az) l); reflexivity.
  Qed.

  (* for EVERY visiting order of the peers *)
  Lemma exported_loop_exact ord m flag :
    NoDup (map fst ord) -> (forall kv, In kv ord <-> In kv m) ->
    exported_loop az ord m flag
    = (spec_groups (readable_svcname az) m, flag || group_removed (readable_svcname az) m).
  Proof.
    intros Hnd Hio. rewrite exported_loop_upd.
    rewrite upd_loop_spec by (try assumption; intros kv; apply Hio).
    rewrite exported_tr_groups. f_equal. f_equal.
    unfold group_removed. apply existsb_same_members. assumption.
  Qed.

  (* ---- prepared queries ---- *)
  Lemma redact_query_spec q : redact_query az q = spec_query az q.
  Proof.
    unfold redact_query, spec_query. destruct (acl_write az); [reflexivity|].
    destruct (str_empty (pq_token q)); reflexivity.
  Qed.

  Lemma pq_loop_spec (Hw : acl_write az = false) : forall l ret nr,
    pq_loop az l ret nr
    = (ret ++ map (spec_query az) (filter (readable_query az) l),
       nr || existsb (fun q => query_named q && negb (readable_query az q)) l).
  Proof.
    assert (Hrq : forall q, readable_query az q = query_named q && query_read az (pq_name q)).
    { intros q. unfold readable_query. rewrite Hw. reflexivity. }
    induction l as [|q l IH]; intros ret nr; cbn [pq_loop filter map existsb].
    - rewrite app_nil_r, orb_false_r. reflexivity.
    - rewrite (Hrq q). change (pq_has_name q) with (query_named q).
      destruct (query_named q); cbn [andb negb].
      + destruct (query_read az (pq_name q)); cbn [negb andb orb map]; rewrite IH.
        * rewrite redact_query_spec, <- app_assoc. reflexivity.
        * rewrite orb_true_r. reflexivity.
      + rewrite IH. reflexivity.
  Qed.

  Lemma filter_prepared_queries_exact l :
    filter_prepared_queries az l
    = (map (spec_query az) (filter (readable_query az) l),
       existsb (fun q => query_named q && negb (readable_query az q)) l).
  Proof.
    unfold filter_prepared_queries. destruct (acl_write az) eqn:Hw.
    - f_equal.
      + rewrite forallb_filter_id.
        * rewrite <- (map_id l) at 1. apply map_ext. intros q. unfold spec_query. rewrite Hw. reflexivity.
        * apply forallb_forall. intros q _. unfold readable_query. rewrite Hw. reflexivity.
      + symmetry. apply not_true_iff_false. intros H. apply existsb_exists in H as (q & _ & H).
        unfold readable_query in H. rewrite Hw in H. cbn in H. rewrite andb_false_r in H. discriminate.
    - rewrite pq_loop_spec by assumption. reflexivity.
  Qed.

  (* ---- ACL objects ---- *)
  Lemma filter_token_spec t :
    filter_token az t = match t with
                        | None => None
                        | Some tk => if acl_read az then Some (spec_token az tk) else None
                        end.
  Proof.
    unfold filter_token, spec_token. destruct t as [tk|]; [|reflexivity].
    destruct (acl_read az), (acl_write az); reflexivity.
  Qed.

  Lemma filter_tokens_exact l :
    filter_tokens az l = if acl_read az then map (fun t => Some (spec_token az t)) (somes l) else [].
  Proof.
    unfold filter_tokens. rewrite range_opt_spec. unfold opt_list, somes.
    induction l as [|t l IH]; cbn [flat_map].
    - destruct (acl_read az); reflexivity.
    - rewrite IH, filter_token_spec. destruct t as [tk|]; [|reflexivity].
      destruct (acl_read az); reflexivity.
  Qed.

  Lemma filter_aclobjs_exact l :
    filter_aclobjs az l = if acl_read az then map Some (somes l) else [].
  Proof.
    unfold filter_aclobjs. rewrite range_opt_spec. unfold opt_list, somes, filter_aclobj.
    induction l as [|t l IH]; cbn [flat_map].
    - destruct (acl_read az); reflexivity.
    - rewrite IH. destruct t as [x|]; [|reflexivity]. destruct (acl_read az); reflexivity.
  Qed.
End Proofs.
