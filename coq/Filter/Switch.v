(* C09 — the whole Filter.Filter type switch refines the declarative specification
   [spec_response]; from it: soundness, completeness (order, multiplicity) and the flag law
   for every response of every type, for every authorizer. *)
From Verif Require Import Base.Prelude.
From Verif Require Import Filter.Model.
From Verif Require Import Filter.Loops.
From Verif Require Import Filter.Spec.
From Verif Require Import Filter.Proofs.
From Coq Require Import Permutation.

Section Switch.
  Variable az : authz.

  Theorem switch_exact : forall r, wf r -> filter_response az r = spec_response az r.
  Proof.
    intros r Hwf. destruct r; cbn [filter_response spec_response].
    - rewrite filter_csns_exact. reflexivity.
    - rewrite filter_csns_exact. reflexivity.
    - rewrite filter_csns_exact. reflexivity.
    - rewrite filter_topology_exact. reflexivity.
    - unfold filter_dc_nodes. rewrite dc_loop_spec. reflexivity.
    - rewrite filter_coordinates_exact. reflexivity.
    - rewrite filter_health_checks_exact. reflexivity.
    - rewrite filter_intentions_exact. reflexivity.
    - destruct entries as [l|]; cbn [filter_intention_match]; [|reflexivity].
      rewrite ixn_match_denied_spec.
      destruct (forallb (fun e => str_empty (snd e) || intention_read az (snd e)) l); reflexivity.
    - rewrite !filter_node_dump_exact, !sticky_orb. reflexivity.
    - rewrite filter_service_dump_exact. reflexivity.
    - rewrite filter_nodes_exact. reflexivity.
    - destruct ns as [[n m]|]; [|reflexivity]. unfold filter_node_services.
      rewrite filter_node_services_ord_exact by (try exact Hwf; intros; reflexivity).
      destruct (readable_node az n); reflexivity.
    - rewrite filter_node_service_list_exact. destruct n as [nd|]; [|reflexivity].
      destruct (readable_node az nd); reflexivity.
    - rewrite filter_service_nodes_exact. reflexivity.
    - unfold filter_services. rewrite filter_services_ord_exact by (try exact Hwf; intros; reflexivity).
      reflexivity.
    - rewrite filter_sessions_exact. reflexivity.
    - rewrite filter_prepared_queries_exact. reflexivity.
    - rewrite redact_query_spec. reflexivity.
    - rewrite filter_tokens_exact. reflexivity.
    - rewrite filter_token_spec. reflexivity.
    - rewrite filter_tokens_exact. reflexivity.
    - rewrite filter_token_spec. reflexivity.
    - rewrite filter_aclobjs_exact. reflexivity.
    - unfold filter_aclobj. destruct p, (acl_read az); reflexivity.
    - rewrite filter_aclobjs_exact. reflexivity.
    - unfold filter_aclobj. destruct p, (acl_read az); reflexivity.
    - rewrite filter_aclobjs_exact. reflexivity.
    - unfold filter_aclobj. destruct p, (acl_read az); reflexivity.
    - rewrite filter_aclobjs_exact. reflexivity.
    - unfold filter_aclobj. destruct p, (acl_read az); reflexivity.
    - rewrite filter_service_list_exact. reflexivity.
    - rewrite exported_loop_exact by (try exact Hwf; intros; reflexivity). reflexivity.
    - rewrite filter_gateway_services_exact. reflexivity.
    - rewrite !filter_csns_exact, filter_gateway_services_exact, filter_gateways_by_gateway_exact, !sticky_orb.
      rewrite filter_filter. unfold removed.
      rewrite <- (orb_assoc (negb (forallb (readable_csn az) nodes))).
      rewrite (removed_two_passes (readable_gwsvc az) (fun g => svc_ok az EmptyString (gs_gateway g)) gws).
      reflexivity.
    - rewrite filter_dir_ent_exact. reflexivity.
    - rewrite filter_txn_results_exact. reflexivity.
  Qed.

  (* ---- from the declarative specification to the three laws ---- *)
  Lemma ids_items_of {A} (id : A -> N) (p : A -> bool) (l : list A) :
    map id (filter p l) = map it_id (filter it_readable (items_of id p l)).
  Proof.
    unfold items_of. induction l as [|x l IH]; cbn; [reflexivity|].
    destruct (p x); cbn; rewrite IH; reflexivity.
  Qed.

  Lemma ids_items_unflagged {A} (id : A -> N) (p : A -> bool) (l : list A) :
    map id (filter p l) = map it_id (filter it_readable (items_unflagged id p l)).
  Proof.
    unfold items_unflagged. induction l as [|x l IH]; cbn; [reflexivity|].
    destruct (p x); cbn; rewrite IH; reflexivity.
  Qed.

  Lemma removed_items_of {A} (id : A -> N) (p : A -> bool) (l : list A) :
    removed p l = existsb (fun it => negb (it_readable it) && it_flagged it) (items_of id p l).
  Proof.
    unfold removed, items_of. rewrite <- existsb_negb_forallb.
    induction l as [|x l IH]; cbn; [reflexivity|]. rewrite IH, andb_true_r. reflexivity.
  Qed.

  Lemma unflagged_no_flag {A} (id : A -> N) (p : A -> bool) (l : list A) :
    existsb (fun it => negb (it_readable it) && it_flagged it) (items_unflagged id p l) = false.
  Proof.
    unfold items_unflagged. induction l as [|x l IH]; cbn; [reflexivity|]. rewrite IH, andb_false_r. reflexivity.
  Qed.

  Lemma filter_app_map {A} (p : A -> bool) l1 l2 : filter p (l1 ++ l2) = filter p l1 ++ filter p l2.
  Proof. apply filter_app. Qed.

  Lemma filter_map_false_local {B} (f : B -> N) (fl : bool) (l : list B) :
    filter it_readable (map (fun x => Item (f x) false fl) l) = [].
  Proof. induction l; cbn; auto. Qed.

  Lemma filter_const_true {A} (l : list A) : filter (fun _ => true) l = l.
  Proof. induction l; cbn; congruence. Qed.

  Lemma filter_const_false {A} (l : list A) : filter (fun _ => false) l = [].
  Proof. induction l; cbn; congruence. Qed.

  Lemma filter_andb_true {A} (p : A -> bool) l : filter (fun x => true && p x) l = filter p l.
  Proof. apply filter_ext. reflexivity. Qed.

  (* groups: a dropped (emptied) group contributes no identifiers *)
  Lemma ids_groups {A} (id : A -> N) (p : A -> bool) (m : amap (list A)) :
    flat_map (fun kv => map id (snd kv)) (spec_groups p m)
    = map it_id (filter it_readable (flat_map (fun kv => items_of id p (snd kv)) m)).
  Proof.
    unfold spec_groups. induction m as [|[k l] m IH]; cbn [flat_map snd fst]; [reflexivity|].
    rewrite filter_app, map_app, <- IH, <- ids_items_of, flat_map_app. f_equal.
    destruct (filter p l); cbn; rewrite ?app_nil_r; reflexivity.
  Qed.

  Lemma removed_groups {A} (id : A -> N) (p : A -> bool) (m : amap (list A)) :
    group_removed p m
    = existsb (fun it => negb (it_readable it) && it_flagged it) (flat_map (fun kv => items_of id p (snd kv)) m).
  Proof.
    unfold group_removed. induction m as [|[k l] m IH]; cbn [flat_map existsb snd]; [reflexivity|].
    rewrite existsb_app, <- IH, <- removed_items_of. reflexivity.
  Qed.

  (* node dumps *)
  Lemma ids_spec_nodeinfo i :
    readable_nodeinfo az i = true ->
    ids_nodeinfo (spec_nodeinfo az i) = map it_id (filter it_readable (items_nodeinfo az i)).
  Proof.
    intros Hr. unfold ids_nodeinfo, items_nodeinfo, spec_nodeinfo. cbn [ni_id ni_services ni_checks ni_node ni_peer].
    cbn [filter it_readable]. rewrite Hr. cbn [map it_id]. f_equal.
    rewrite filter_app, map_app, <- !ids_items_of.
    reflexivity.
  Qed.

  Lemma ids_unreadable_nodeinfo i :
    readable_nodeinfo az i = false -> filter it_readable (items_nodeinfo az i) = [].
  Proof.
    intros Hr. unfold items_nodeinfo. cbn [filter it_readable]. rewrite Hr.
    rewrite filter_app. unfold items_of.
    cbn [andb]. rewrite !filter_map_false_local. reflexivity.
  Qed.

  Lemma ids_node_dump l :
    flat_map ids_nodeinfo (map (spec_nodeinfo az) (filter (readable_nodeinfo az) l))
    = map it_id (filter it_readable (flat_map (items_nodeinfo az) l)).
  Proof.
    induction l as [|i l IH]; [reflexivity|]. cbn [filter flat_map].
    rewrite filter_app, map_app. destruct (readable_nodeinfo az i) eqn:Hr.
    - cbn [map flat_map]. rewrite IH, ids_spec_nodeinfo by assumption. reflexivity.
    - rewrite IH, ids_unreadable_nodeinfo by assumption. reflexivity.
  Qed.

  Definition bad_item (it : item) : bool := negb (it_readable it) && it_flagged it.

  Lemma removed_node_dump l :
    removed (nodeinfo_intact az) l = existsb bad_item (flat_map (items_nodeinfo az) l).
  Proof.
    unfold removed. rewrite <- existsb_negb_forallb.
    induction l as [|i l IH]; [reflexivity|]. cbn [existsb flat_map]. rewrite existsb_app, IH. f_equal.
    unfold nodeinfo_intact, items_nodeinfo. cbn [existsb]. rewrite existsb_app. unfold bad_item at 1. cbn [it_readable it_flagged].
    destruct (readable_nodeinfo az i); cbn [andb negb orb]; [|reflexivity].
    rewrite negb_andb.
    change (fun s => true && readable_nsvc_on az (ni_node i) s) with (readable_nsvc_on az (ni_node i)).
    change (fun c => true && readable_check_on az (ni_node i) c) with (readable_check_on az (ni_node i)).
    rewrite <- !removed_items_of. reflexivity.
  Qed.

  Lemma somes_map_some {A B} (f : A -> B) (l : list A) : somes (map (fun x => Some (f x)) l) = map f l.
  Proof. unfold somes. induction l; cbn; congruence. Qed.

  Lemma ids_queries l :
    map pq_id (map (spec_query az) (filter (readable_query az) l))
    = map it_id (filter it_readable (map (fun q => Item (pq_id q) (readable_query az q) (query_named q)) l)).
  Proof.
    induction l as [|q l IH]; [reflexivity|]. cbn [filter map it_readable].
    destruct (readable_query az q); cbn [map it_id]; rewrite IH; [|reflexivity]. f_equal.
    unfold spec_query. destruct (acl_write az); [reflexivity|]. destruct (str_empty (pq_token q)); reflexivity.
  Qed.

  Lemma pq_id_spec q : pq_id (spec_query az q) = pq_id q.
  Proof. unfold spec_query. destruct (acl_write az); [reflexivity|]. destruct (str_empty (pq_token q)); reflexivity. Qed.

  Lemma tk_id_spec t : tk_id (spec_token az t) = tk_id t.
  Proof. unfold spec_token. destruct (acl_write az); reflexivity. Qed.

  (* Completeness (which contains soundness, order and multiplicity): the identifiers present
     after filtering are exactly those of the readable elements, in the original order. *)
  Theorem spec_complete : forall r,
    ids (spec_response az r) = map it_id (filter it_readable (items az r)).
  Proof.
    destruct r; cbn [spec_response ids items].
    - apply ids_items_of.
    - apply ids_items_of.
    - apply ids_items_of.
    - rewrite filter_app, map_app, <- !ids_items_of. reflexivity.
    - apply ids_groups.
    - apply ids_items_of.
    - apply ids_items_of.
    - apply ids_items_of.
    - destruct entries as [l|]; [|reflexivity]. rewrite <- ids_items_unflagged, ixn_match_denied_spec, negb_involutive.
      destruct (forallb (fun e => str_empty (snd e) || intention_read az (snd e)) l); cbn [ids].
      + rewrite filter_const_true. reflexivity.
      + rewrite filter_const_false. reflexivity.
    - rewrite filter_app, map_app, <- !ids_node_dump. reflexivity.
    - apply ids_items_of.
    - apply ids_items_of.
    - destruct ns as [[n m]|]; [|reflexivity]. cbn [filter it_readable].
      destruct (readable_node az n); cbn [ids map it_id].
      + f_equal. apply (ids_items_of (fun kv => ns_id (snd kv))).
      + unfold items_of. cbn [andb]. rewrite filter_map_false_local. reflexivity.
    - destruct n as [n|].
      + cbn [filter it_readable]. destruct (readable_node az n); cbn [ids map it_id].
        * f_equal. apply ids_items_of.
        * unfold items_of. cbn [andb]. rewrite filter_map_false_local. reflexivity.
      + cbn [ids]. rewrite <- ids_items_of, filter_const_true. reflexivity.
    - apply ids_items_of.
    - apply (ids_items_of snd).
    - apply ids_items_of.
    - apply ids_queries.
    - cbn. rewrite pq_id_spec. reflexivity.
    - rewrite <- ids_items_unflagged. destruct (acl_read az).
      + rewrite somes_map_some, filter_const_true, map_map. apply map_ext, tk_id_spec.
      + rewrite filter_const_false. reflexivity.
    - rewrite <- ids_items_unflagged. destruct t as [t|]; destruct (acl_read az); cbn; rewrite ?tk_id_spec; reflexivity.
    - rewrite <- ids_items_unflagged. destruct (acl_read az).
      + rewrite somes_map_some, filter_const_true, map_map. apply map_ext, tk_id_spec.
      + rewrite filter_const_false. reflexivity.
    - rewrite <- ids_items_unflagged. destruct t as [t|]; destruct (acl_read az); cbn; rewrite ?tk_id_spec; reflexivity.
    - rewrite <- ids_items_unflagged. destruct (acl_read az).
      + rewrite (somes_map_some (fun x => x)), map_id, filter_const_true, map_id. reflexivity.
      + rewrite filter_const_false. reflexivity.
    - rewrite <- ids_items_unflagged. destruct p; destruct (acl_read az); reflexivity.
    - rewrite <- ids_items_unflagged. destruct (acl_read az).
      + rewrite (somes_map_some (fun x => x)), map_id, filter_const_true, map_id. reflexivity.
      + rewrite filter_const_false. reflexivity.
    - rewrite <- ids_items_unflagged. destruct p; destruct (acl_read az); reflexivity.
    - rewrite <- ids_items_unflagged. destruct (acl_read az).
      + rewrite (somes_map_some (fun x => x)), map_id, filter_const_true, map_id. reflexivity.
      + rewrite filter_const_false. reflexivity.
    - rewrite <- ids_items_unflagged. destruct p; destruct (acl_read az); reflexivity.
    - rewrite <- ids_items_unflagged. destruct (acl_read az).
      + rewrite (somes_map_some (fun x => x)), map_id, filter_const_true, map_id. reflexivity.
      + rewrite filter_const_false. reflexivity.
    - rewrite <- ids_items_unflagged. destruct p; destruct (acl_read az); reflexivity.
    - apply ids_items_of.
    - apply ids_groups.
    - apply ids_items_of.
    - rewrite !filter_app, !map_app, <- !ids_items_of. reflexivity.
    - apply ids_items_unflagged.
    - apply (ids_items_unflagged txn_id).
  Qed.

  (* The flag law: afterwards the flag is set exactly when an element whose removal has to be
     reported was removed by this run; what the flag was on entry does not matter. *)
  Theorem spec_flag : forall r,
    match flag_of (spec_response az r) with
    | Some f' => f' = existsb bad_item (items az r)
    | None => flag_of r = None
    end.
  Proof.
    destruct r; cbn [spec_response flag_of items]; try reflexivity;
      try (apply removed_items_of).
    - rewrite existsb_app, <- !removed_items_of. reflexivity.
    - apply removed_groups.
    - destruct entries as [l|]; [|reflexivity].
      destruct (forallb (fun e => str_empty (snd e) || intention_read az (snd e)) l); reflexivity.
    - rewrite existsb_app, <- !removed_node_dump. reflexivity.
    - destruct ns as [[n m]|]; [|reflexivity].
      destruct (readable_node az n) eqn:Hr; cbn [flag_of existsb]; unfold bad_item at 1; cbn [it_readable it_flagged negb andb orb].
      + apply (removed_items_of (fun kv => ns_id (snd kv))).
      + reflexivity.
    - destruct n as [n|].
      + destruct (readable_node az n) eqn:Hr; cbn [flag_of existsb]; unfold bad_item at 1; cbn [it_readable it_flagged negb andb orb].
        * apply removed_items_of.
        * reflexivity.
      + cbn [flag_of]. rewrite <- removed_items_of. unfold removed.
        rewrite (proj2 (forallb_forall _ l)); [reflexivity|]. reflexivity.
    - induction l as [|q l IH]; [reflexivity|]. cbn [existsb map]. rewrite IH.
      unfold bad_item at 2. cbn [it_readable it_flagged]. rewrite andb_comm. reflexivity.
    - apply removed_groups.
    - rewrite !existsb_app, <- !removed_items_of, !orb_assoc. reflexivity.
  Qed.

  Theorem switch_complete r :
    wf r -> ids (filter_response az r) = map it_id (filter it_readable (items az r)).
  Proof. intros H. rewrite switch_exact by assumption. apply spec_complete. Qed.

  Theorem switch_sound r : wf r -> forall i, In i (ids (filter_response az r)) ->
    exists it, In it (items az r) /\ it_id it = i /\ it_readable it = true.
  Proof.
    intros H i Hi. rewrite switch_complete in Hi by assumption.
    apply in_map_iff in Hi as (it & Hid & Hin). apply filter_In in Hin as [Hin Hr]. eauto.
  Qed.

  Theorem switch_flag r : wf r ->
    match flag_of (filter_response az r) with
    | Some f' => f' = existsb bad_item (items az r)
    | None => flag_of r = None
    end.
  Proof. intros H. rewrite switch_exact by assumption. apply spec_flag. Qed.

  Theorem switch_flag_iff r f' : wf r -> flag_of (filter_response az r) = Some f' ->
    (f' = true <-> exists it, In it (items az r) /\ it_readable it = false /\ it_flagged it = true).
  Proof.
    intros Hwf Hf. pose proof (switch_flag r Hwf) as H. rewrite Hf in H.
    subst f'. rewrite existsb_exists. unfold bad_item. split.
    - intros (it & Hin & Hb). apply andb_true_iff in Hb as [Hb1 Hb2]. apply negb_true_iff in Hb1. eauto.
    - intros (it & Hin & Hr & Hfl). exists it. rewrite Hr, Hfl. auto.
  Qed.

  (* secrets: without acl:write every token (stub) returned has its secret hidden, and so has
     every prepared query that captured a token *)
  Theorem tokens_redacted l t :
    acl_write az = false -> In (Some t) (filter_tokens az l) -> tk_secret t = redacted.
  Proof.
    intros Hw Hin. rewrite filter_tokens_exact in Hin. destruct (acl_read az); [|contradiction].
    apply in_map_iff in Hin as (t0 & Heq & _). injection Heq as <-. unfold spec_token. rewrite Hw. reflexivity.
  Qed.

  Theorem query_tokens_redacted l q :
    acl_write az = false -> In q (fst (filter_prepared_queries az l)) ->
    pq_token q = EmptyString \/ pq_token q = redacted.
  Proof.
    intros Hw Hin. rewrite filter_prepared_queries_exact in Hin. cbn [fst] in Hin.
    apply in_map_iff in Hin as (q0 & <- & _). unfold spec_query. rewrite Hw.
    destruct (str_empty (pq_token q0)) eqn:E; [left|right; reflexivity].
    destruct (pq_token q0); [reflexivity|discriminate].
  Qed.
End Switch.
