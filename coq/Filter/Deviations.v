(* C09 — ONE independent rule of readability for every element kind, stated on the authorizer
   alone, and where the filters' own predicates ([readable_*] of Spec.v, which Proofs.v shows to
   be what the code evaluates) agree with it or deviate from it.  Every deviation is named, has a
   concrete witness ([_refuted]) and the exact condition under which the rule holds ([_partial]).

   The rule: an element is readable iff the node it lives on is readable under the element's own
   peer context, and every service it names is readable under that context; an element that names
   no service (node-level check) needs no service permission; a key by key:read. *)
From Verif Require Import Base.Prelude.
From Verif Require Import Filter.Model.
From Verif Require Import Filter.Loops.
From Verif Require Import Filter.Spec.
From Verif Require Import Filter.Proofs.
From Verif Require Import Filter.Switch.

Section Ideal.
  Variable az : authz.

  Definition may_node (peer n : string) : bool := node_read az peer n.
  Definition may_service (peer s : string) : bool := str_empty s || service_read az peer s.

  Definition ideal_check (c : hcheck) := may_node (h_peer c) (h_node c) && may_service (h_peer c) (h_svc c).
  Definition ideal_snode (n : snode) := may_node (sn_peer n) (sn_node n) && may_service (sn_peer n) (sn_svc n).
  Definition ideal_csn (c : csn) := may_node (c_peer c) (c_node c) && may_service (c_peer c) (c_svc c).
  Definition ideal_nsvc_on (nodename : string) (s : nsvc) := may_node (ns_peer s) nodename && may_service (ns_peer s) (ns_name s).
  Definition ideal_check_on (nodename : string) (c : hcheck) := may_node (h_peer c) nodename && may_service (h_peer c) (h_svc c).
  Definition ideal_svcname (s : svcname) := may_service EmptyString (sv_name s).
  (* a gateway mapping names two services: the gateway and the linked service *)
  Definition ideal_gwsvc (g : gwsvc) := may_service EmptyString (gs_gateway g) && may_service EmptyString (gs_service g).
  Definition ideal_svcinfo (s : svcinfo) :=
    may_service EmptyString (si_gateway s) && may_service EmptyString (si_service s)
    && match si_node s with None => true | Some (n, p) => may_node p n end.
  Definition ideal_txn (r : txnres) : bool :=
    match r with
    | TKV _ k => key_read az k
    | TNode _ n p => may_node p n
    | TSvc _ s p => may_service p s
    | TCheck _ n s p => may_node p n && may_service p s
    | TNone _ => true
    end.

  (* ---- kinds on which the filters use exactly the rule ---- *)
  Lemma check_is_ideal c : readable_check az c = ideal_check c. Proof. reflexivity. Qed.
  Lemma snode_is_ideal n : readable_snode az n = ideal_snode n. Proof. reflexivity. Qed.
  Lemma nsvc_on_is_ideal n s : readable_nsvc_on az n s = ideal_nsvc_on n s. Proof. reflexivity. Qed.
  Lemma check_on_is_ideal n c : readable_check_on az n c = ideal_check_on n c. Proof. reflexivity. Qed.
  Lemma svcinfo_is_ideal s : readable_svcinfo az s = ideal_svcinfo s. Proof. reflexivity. Qed.

  (* ---- deviation "empty-service-name": CheckServiceNode, ServiceName lists, txn services ask
          ServiceRead("") instead of skipping the question (the filter is STRICTER) ---- *)
  Lemma csn_ideal_partial c : str_empty (c_svc c) = false -> readable_csn az c = ideal_csn c.
  Proof. intros H. unfold readable_csn, ideal_csn, may_service. rewrite H. reflexivity. Qed.
  Lemma svcname_ideal_partial s : str_empty (sv_name s) = false -> readable_svcname az s = ideal_svcname s.
  Proof. intros H. unfold readable_svcname, ideal_svcname, may_service. rewrite H. reflexivity. Qed.

  (* ---- deviation "gateway-unchecked": filterGatewayServices asks only for the linked service ---- *)
  Lemma gwsvc_ideal_partial g :
    may_service EmptyString (gs_gateway g) = true -> str_empty (gs_service g) = false ->
    readable_gwsvc az g = ideal_gwsvc g.
  Proof. intros Hg Hs. unfold readable_gwsvc, ideal_gwsvc. rewrite Hg. unfold may_service. rewrite Hs. reflexivity. Qed.

  (* gateway mappings of a service dump: both names (rule, up to an empty service name) *)
  Lemma gwmapping_is_ideal g : str_empty (gs_service g) = false -> readable_gwmapping az g = ideal_gwsvc g.
  Proof.
    intros Hs. unfold readable_gwmapping, ideal_gwsvc, may_service, svc_ok. rewrite Hs. cbn. apply andb_comm.
  Qed.

  (* ---- deviation "service-list-node-context": NodeServiceList authorizes the node once, under
          the node's peer, and does not ask again under each service's own peer ---- *)
  Lemma nsvc_list_ideal_partial (n : node) s :
    readable_node az n = true -> ns_peer s = nd_peer n ->
    readable_nsvc az s = ideal_nsvc_on (nd_name n) s.
  Proof.
    intros Hn Hp. unfold readable_nsvc, ideal_nsvc_on, may_node, svc_ok, may_service. unfold readable_node in Hn.
    rewrite Hp, Hn. reflexivity.
  Qed.

  (* ---- deviation "txn-service-check": a service check in a transaction result needs only
          service:read (health endpoints need node:read as well) ---- *)
  Lemma txn_ideal_partial r :
    match r with
    | TCheck _ n s p => str_empty s = true \/ may_node p n = true
    | TSvc _ s _ => str_empty s = false
    | _ => True
    end -> readable_txn az r = ideal_txn r.
  Proof.
    destruct r; cbn; try reflexivity.
    - intros H. unfold may_service. rewrite H. reflexivity.
    - unfold may_node, may_service. intros [H|H]; rewrite H; [rewrite andb_true_r|]; reflexivity.
  Qed.

  (* the flat filters against the rule *)
  Theorem csns_ideal l :
    forallb (fun c => negb (str_empty (c_svc c))) l = true ->
    filter_csns az l = (filter ideal_csn l, removed ideal_csn l).
  Proof.
    intros H. rewrite filter_csns_exact. unfold removed.
    assert (E : forall c, In c l -> readable_csn az c = ideal_csn c).
    { intros c Hc. apply csn_ideal_partial. rewrite forallb_forall in H. apply negb_true_iff, H, Hc. }
    f_equal; [apply filter_ext_in, E|]. f_equal.
    clear H. induction l as [|c l IH]; cbn; [reflexivity|].
    rewrite E by (left; reflexivity). rewrite IH; [reflexivity|]. intros; apply E; right; assumption.
  Qed.

  Theorem gateway_services_ideal_partial l :
    forallb (fun g => may_service EmptyString (gs_gateway g) && negb (str_empty (gs_service g))) l = true ->
    filter_gateway_services az l = (filter ideal_gwsvc l, removed ideal_gwsvc l).
  Proof.
    intros H. rewrite filter_gateway_services_exact. unfold removed.
    assert (E : forall g, In g l -> readable_gwsvc az g = ideal_gwsvc g).
    { intros g Hg. rewrite forallb_forall in H. specialize (H g Hg). apply andb_true_iff in H as [H1 H2].
      apply gwsvc_ideal_partial; [assumption|apply negb_true_iff; assumption]. }
    f_equal; [apply filter_ext_in, E|]. f_equal.
    clear H. induction l as [|c l IH]; cbn; [reflexivity|].
    rewrite E by (left; reflexivity). rewrite IH; [reflexivity|]. intros; apply E; right; assumption.
  Qed.
End Ideal.

(* ---------------- witnesses ---------------- *)
Definition dev_az : authz :=
  Authz (fun p n => negb (String.eqb n "bad") && String.eqb p "")
        (fun p n => negb (String.eqb n "bad") && negb (String.eqb n "") && String.eqb p "")
        (fun _ => true) (fun n => negb (String.eqb n "bad")) (fun _ => true) (fun _ => true) true false.

(* "gateway-unchecked" — the IndexedGatewayServices branch (Catalog.GatewayServices) relies on its
   endpoint having authorized the one gateway it lists: handed a mapping of a gateway that may not
   be read, the filter returns it.  (The service-dump branch, which lists all gateways, checks the
   gateway itself since 3c2a402: [gwmapping_is_ideal].) *)
Theorem gateway_unchecked_refuted :
  exists az g, readable_gwsvc az g = true /\ ideal_gwsvc az g = false
  /\ filter_response az (RIndexedGatewayServices [g] false) = RIndexedGatewayServices [g] false.
Proof. exists dev_az, (GS 1 "bad" "web"). repeat split. Qed.

Theorem empty_service_name_refuted :
  exists az c, readable_csn az c = false /\ ideal_csn az c = true.
Proof. exists dev_az, (CSN 1 "n1" "" ""). split; reflexivity. Qed.

Theorem service_list_node_context_refuted :
  exists az n s, readable_node az n = true /\ readable_nsvc az s = true /\ ideal_nsvc_on az (nd_name n) s = false.
Proof.
  exists (Authz (fun p _ => String.eqb p "") (fun _ _ => true) (fun _ => true) (fun _ => true) (fun _ => true) (fun _ => true) true true),
         (ND 1 "n1" ""), (NS 2 "web" "web" "peer1"). repeat split.
Qed.

Theorem txn_service_check_refuted :
  exists az r, readable_txn az r = true /\ ideal_txn az r = false.
Proof. exists dev_az, (TCheck 1 "bad" "web" ""). split; reflexivity. Qed.

(* "nil-node-pass-through" — a NodeServiceList without a Node is returned as it is (filter.go
   returns early): services that may not be read pass.  The endpoint leaves Services empty when the
   node does not exist, which is the exact condition under which nothing passes. *)
Theorem nil_node_passthrough_refuted :
  exists az s, may_service az (ns_peer s) (ns_name s) = false
  /\ filter_response az (RIndexedNodeServiceList None [s] false) = RIndexedNodeServiceList None [s] false.
Proof. exists dev_az, (NS 1 "bad" "bad" ""). split; reflexivity. Qed.

Theorem nil_node_passthrough_partial az f :
  filter_response az (RIndexedNodeServiceList None [] f) = RIndexedNodeServiceList None [] false.
Proof. reflexivity. Qed.

(* "intention-match-all-or-nothing" — the entries of an intention MATCH REQUEST are kept or dropped
   together: one unreadable name drops readable ones too (by design: the request is refused). *)
Theorem intention_match_all_or_nothing_refuted :
  exists az l i n, In (i, n) l /\ intention_read az n = true
  /\ filter_response az (RIntentionQueryMatch (Some l)) = RIntentionQueryMatch None.
Proof. exists dev_az, [(1%N, "web"%string); (2%N, "bad"%string)], 1%N, "web"%string. repeat split. left. reflexivity. Qed.

Theorem intention_match_partial az l :
  forallb (fun e => str_empty (snd e) || intention_read az (snd e)) l = true ->
  filter_response az (RIntentionQueryMatch (Some l)) = RIntentionQueryMatch (Some l).
Proof. intros H. rewrite switch_exact by exact I. cbn. rewrite H. reflexivity. Qed.

(* "unnamed-queries-invisible" — without acl:write an unnamed, untemplated prepared query is never
   listed, whatever query rules the token has, and its removal is not flagged (by design). *)
Theorem unnamed_query_invisible az q f :
  acl_write az = false -> query_named q = false ->
  filter_response az (RIndexedPreparedQueries [q] f) = RIndexedPreparedQueries [] false.
Proof.
  intros Hw Hn. rewrite switch_exact by exact I. cbn. unfold readable_query. rewrite Hw, Hn. reflexivity.
Qed.
