(* C09 — model of token resolution in agent/consul/acl.go, as far as expiry is concerned:
   ACLToken.IsExpired (agent/structs/acl.go), ACLResolver.resolveIdentityFromToken,
   fetchAndCacheIdentityFromToken, resolveTokenToIdentityAndPolicies (the retry loop with the
   expiry test after EVERY way an identity can be obtained) and the part of ResolveToken that
   turns its result into an authorizer.

   Everything the resolver does not compute itself is an input: what the backend answers,
   whether the cached entry is younger than ACLTokenTTL, what the ACL.TokenRead RPC answers,
   how policy resolution for the identity ends, and the clock — per attempt of the retry loop.
   No proofs in this file. *)
From Verif Require Import Base.Prelude.

(* What matters of a structs.ACLToken as an identity: its accessor, ExpirationTime (None: nil
   pointer; Some 0: the zero time.Time; otherwise nanoseconds on the harness clock) and Local. *)
Record ident := Ident { id_accessor : N; id_exp : option N; id_local : bool }.

(* ACLToken.HasExpirationTime / IsExpired.  The zero time.Time is 0. *)
Definition has_expiration (t : ident) : bool :=
  match id_exp t with Some e => negb (N.eqb e 0) | None => false end.
Definition is_expired (t : ident) (as_of : N) : bool :=
  if N.eqb as_of 0 || negb (has_expiration t) then false
  else match id_exp t with Some e => N.ltb e as_of | None => false end.   (* ExpirationTime.Before(asOf) *)

Inductive down_policy := DownAllow | DownDeny | DownExtend | DownAsync.
Definition extends_cache (d : down_policy) : bool :=
  match d with DownExtend | DownAsync => true | _ => false end.

(* backend.ResolveIdentityFromToken(token) = (done, identity, err) *)
Inductive bk_err := BkOk | BkNotFound | BkOther.
Inductive bk_out := BkNotDone | BkDone (i : option ident) (e : bk_err).

(* the ACL.TokenRead RPC: a token and whether resp.SourceDatacenter is ours; a nil token;
   an ACL-not-found error; any other error *)
Inductive rpc_out := RpcToken (i : ident) (same_dc : bool) | RpcNoToken | RpcNotFound | RpcFail.

(* how resolvePoliciesForIdentity ends: fine; a policyOrRoleTokenError with ErrNotFound (the
   token was deleted meanwhile) or ErrPermissionDenied (retry the whole resolution); an
   ACLRemoteError; any other error *)
Inductive pol_out := PolOk | PolTokenNotFound | PolTokenDenied | PolRemote | PolOther.

Record attempt := Attempt {
  a_bk : bk_out;
  a_fresh : bool;          (* cacheEntry.Age() <= ACLTokenTTL, if there is an entry *)
  a_rpc : rpc_out;
  a_pol : pol_out;
  a_now : N                (* time.Now() at the expiry test *)
}.

Inductive ierr := INone | INotFound | IRemote | IOther.

(* fetchAndCacheIdentityFromToken(token, cached): result and the cache entry afterwards *)
Definition fetch_and_cache (cached : option ident) (rpc : rpc_out) (down : down_policy)
  : (option ident * ierr) * option ident :=
  match rpc with
  | RpcNoToken => ((None, INotFound), None)
  | RpcToken i same =>
      if id_local i && negb same then ((None, IRemote), None)        (* permission denied, wrapped as remote error *)
      else ((Some i, INone), Some i)
  | RpcNotFound => ((None, INotFound), None)
  | RpcFail =>
      match cached with
      | Some c => if extends_cache down then ((Some c, INone), Some c)  (* extend the cache *)
                  else ((None, IRemote), None)
      | None => ((None, IRemote), None)
      end
  end.

(* resolveIdentityFromToken *)
Definition resolve_identity (bk : bk_out) (cache : option ident) (fresh : bool) (rpc : rpc_out)
           (down : down_policy) : (option ident * ierr) * option ident :=
  match bk with
  | BkDone i e =>
      ((i, match e with BkOk => INone | BkNotFound => INotFound | BkOther => IOther end), cache)
  | BkNotDone =>
      match cache with
      | Some c =>
          if fresh then ((Some c, INone), cache)                      (* cache hit *)
          else
            let '(res, cache') := fetch_and_cache (Some c) rpc down in
            match down with
            | DownAsync => ((Some c, INone), cache')                  (* do not wait: the stale identity *)
            | _ => (res, cache')
            end
      | None => fetch_and_cache None rpc down
      end
  end.

Inductive rerr := ENotFound | EDenied | EOther.
Inductive outcome :=
| OManageAll                (* ACLs disabled *)
| ORootDenied               (* the secret is "allow" / "deny" / "manage" *)
| OLocal                    (* agent recovery token or server management token *)
| OGranted (i : ident)      (* authorizer compiled from the identity's policies *)
| ODown                     (* the down-policy authorizer with a missing identity *)
| OErr (e : rerr).

(* resolveTokenToIdentityAndPolicies + the error handling of ResolveToken.
   [fuel] = tokenPolicyResolutionMaxRetries - attempts already made. *)
Fixpoint resolve_loop (env : nat -> attempt) (down : down_policy) (fuel i : nat)
         (cache : option ident) (last : option rerr) : outcome * option ident :=
  match fuel with
  | O => (OErr (match last with Some e => e | None => ENotFound end), cache)
  | S fuel' =>
    let a := env i in
    let '((idn, err), cache1) := resolve_identity (a_bk a) cache (a_fresh a) (a_rpc a) down in
    match err with
    | INotFound => (OErr ENotFound, cache1)
    | IRemote => (ODown, cache1)
    | IOther => (OErr EOther, cache1)
    | INone =>
      match idn with
      | None => (OErr ENotFound, cache1)
      | Some t =>
        if is_expired t (a_now a) then (OErr ENotFound, cache1)
        else
          match a_pol a with
          | PolOk => (OGranted t, cache1)
          | PolTokenNotFound => (OErr ENotFound, None)                (* identity dropped from the cache *)
          | PolTokenDenied => resolve_loop env down fuel' (S i) None (Some EDenied)
          | PolRemote => (ODown, cache1)
          | PolOther => (OErr EOther, cache1)
          end
      end
    end
  end.

Definition max_retries : nat := 5.    (* tokenPolicyResolutionMaxRetries *)

Inductive secret_class := SecRoot | SecLocal | SecPlain.

(* ResolveToken *)
Definition resolve_token (acls_enabled : bool) (cls : secret_class) (env : nat -> attempt)
           (down : down_policy) (cache : option ident) : outcome * option ident :=
  if negb acls_enabled then (OManageAll, cache)
  else match cls with
       | SecRoot => (ORootDenied, cache)
       | SecLocal => (OLocal, cache)
       | SecPlain => resolve_loop env down max_retries 0 cache None
       end.

(* ------------------------------------------------------------------------------------ *)
(* The authorizer of the runs of a blocking query (agent/blockingquery.Query re-runs the   *)
(* endpoint's query function on the same reply each time the watched data changes)         *)
(* ------------------------------------------------------------------------------------ *)

(* a resolver whose clock shows [now] on every attempt *)
Definition env_at (bk : bk_out) (fresh : bool) (rpc : rpc_out) (pol : pol_out) (now : N) : nat -> attempt :=
  fun _ => Attempt bk fresh rpc pol now.

(* what authorizes one run of the query function *)
Inductive run_auth := ByToken (t : ident) | ByOther | RunRefused.

Definition auth_of (o : outcome) : run_auth :=
  match o with
  | OGranted t => ByToken t
  | OErr _ | ORootDenied => RunRefused
  | OManageAll | OLocal | ODown => ByOther
  end.

(* style "held" (Catalog.ListServices, KVS.List, Session.List, ...): the endpoint calls
   ResolveTokenAndDefaultMeta once, before blockingQuery, and the closure keeps the authorizer;
   the runs happen at [times]. *)
Definition blocking_held (first : outcome) (times : list N) : list run_auth :=
  match auth_of first with
  | RunRefused => []                                  (* the endpoint returns the error at once *)
  | a => map (fun _ => a) times
  end.

(* style "reresolve" (Catalog.ListNodes, Internal.NodeDump, ...): the closure calls
   filterACL(token, reply), i.e. ResolveToken, in every run; a refusal ends the query. *)
Fixpoint blocking_reresolve (resolve_at : N -> outcome) (times : list N) : list run_auth :=
  match times with
  | [] => []
  | now :: rest =>
    match auth_of (resolve_at now) with
    | RunRefused => [RunRefused]
    | a => a :: blocking_reresolve resolve_at rest
    end
  end.

(* rpc.go maskResultsFilteredByACLs (run by SetQueryMeta after every run of the function) *)
Definition mask_flag (token_blank resolve_ok anonymous flag : bool) : bool :=
  if token_blank then false
  else if negb resolve_ok then false
  else if anonymous then false
  else flag.
