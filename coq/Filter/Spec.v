(* C09 — what "the token may read this element" means, per element kind, stated directly on
   the authorizer (not on the filter code), and the declarative view of a response used by
   the uniform theorems: every element at every nesting level with its identifier, whether it
   may be read, and whether its removal has to be reported.  Definitions only. *)
From Verif Require Import Base.Prelude.
From Verif Require Import Filter.Model.

Section Spec.
  Variable az : authz.

  (* an element without a service (node-level check) needs no service permission *)
  Definition svc_ok (ctx svc : string) : bool := str_empty svc || service_read az ctx svc.

  Definition readable_check (c : hcheck) : bool :=
    node_read az (h_peer c) (h_node c) && svc_ok (h_peer c) (h_svc c).
  Definition readable_snode (n : snode) : bool :=
    node_read az (sn_peer n) (sn_node n) && svc_ok (sn_peer n) (sn_svc n).
  Definition readable_csn (c : csn) : bool :=
    node_read az (c_peer c) (c_node c) && service_read az (c_peer c) (c_svc c).
  Definition readable_coord (c : coord) : bool := node_read az EmptyString (co_node c).
  Definition readable_session (s : session) : bool := session_read az (se_node s).
  Definition readable_node (n : node) : bool := node_read az (nd_peer n) (nd_name n).
  (* either end; a source that lives in a peer is not a local name *)
  Definition readable_intention (x : intention) : bool :=
    (negb (str_empty (ix_src x)) && str_empty (ix_src_peer x) && intention_read az (ix_src x))
    || (negb (str_empty (ix_dst x)) && intention_read az (ix_dst x)).
  (* a service instance / a check listed under a node *)
  Definition readable_nsvc_on (nodename : string) (s : nsvc) : bool :=
    node_read az (ns_peer s) nodename && svc_ok (ns_peer s) (ns_name s).
  Definition readable_check_on (nodename : string) (c : hcheck) : bool :=
    node_read az (h_peer c) nodename && svc_ok (h_peer c) (h_svc c).
  Definition readable_nsvc (s : nsvc) : bool := svc_ok (ns_peer s) (ns_name s).
  Definition readable_nodeinfo (i : nodeinfo) : bool := node_read az (ni_peer i) (ni_node i).
  Definition readable_svcinfo (s : svcinfo) : bool :=
    svc_ok EmptyString (si_gateway s) && svc_ok EmptyString (si_service s)
    && match si_node s with None => true | Some (n, p) => node_read az p n end.
  Definition readable_svcname (s : svcname) : bool := service_read az EmptyString (sv_name s).
  Definition readable_gwsvc (g : gwsvc) : bool := service_read az EmptyString (gs_service g).
  (* a gateway mapping in a service dump: the gateway's own name must be readable as well *)
  Definition readable_gwmapping (g : gwsvc) : bool :=
    service_read az EmptyString (gs_service g) && svc_ok EmptyString (gs_gateway g).
  (* management (acl:write) sees every query; otherwise only named/templated ones the token may read *)
  Definition query_named (q : pquery) : bool := negb (str_empty (pq_name q)) || pq_templated q.
  Definition readable_query (q : pquery) : bool :=
    acl_write az || (query_named q && query_read az (pq_name q)).
  Definition readable_dirent (d : dirent) : bool := key_read az (de_key d).
  Definition readable_txn (r : txnres) : bool :=
    match r with
    | TKV _ k => key_read az k
    | TNode _ n p => node_read az p n
    | TSvc _ s p => service_read az p s
    | TCheck _ n s p => if str_empty s then node_read az p n else service_read az p s
    | TNone _ => true
    end.

  (* what a readable node of a node dump looks like afterwards *)
  Definition spec_nodeinfo (i : nodeinfo) : nodeinfo :=
    NI (ni_id i) (ni_node i) (ni_peer i)
       (filter (readable_nsvc_on (ni_node i)) (ni_services i))
       (filter (readable_check_on (ni_node i)) (ni_checks i)).
  Definition nodeinfo_intact (i : nodeinfo) : bool :=
    readable_nodeinfo i && forallb (readable_nsvc_on (ni_node i)) (ni_services i)
    && forallb (readable_check_on (ni_node i)) (ni_checks i).

  (* tokens shown to a reader without acl:write have their secret hidden *)
  Definition spec_token (t : acltoken) : acltoken :=
    if acl_write az then t else TK (tk_id t) redacted.
  Definition spec_query (q : pquery) : pquery :=
    if acl_write az then q
    else if str_empty (pq_token q) then q else PQ (pq_id q) (pq_name q) (pq_templated q) redacted.

  Definition somes {A} (l : list (option A)) : list A :=
    flat_map (fun o => match o with Some x => [x] | None => [] end) l.

  (* non-empty filtered groups of a map of lists (datacenters, peers) *)
  Definition spec_groups {A} (p : A -> bool) (m : amap (list A)) : amap (list A) :=
    flat_map (fun kv => match filter p (snd kv) with [] => [] | l => [(fst kv, l)] end) m.

  Definition group_removed {A} (p : A -> bool) (m : amap (list A)) : bool :=
    existsb (fun kv => negb (forallb p (snd kv))) m.

  (* something was removed *)
  Definition removed {A} (p : A -> bool) (l : list A) : bool := negb (forallb p l).

  (* ---------------- the whole type switch, declaratively ----------------
     Keep exactly the readable elements (List.filter: order and multiplicity preserved), set
     the flag exactly when something was removed by THIS run (the flag on entry is never read). *)
  Definition spec_response (r : response) : response :=
    match r with
    | RCheckServiceNodes l => RCheckServiceNodes (filter readable_csn l)
    | RIndexedCheckServiceNodes l _ => RIndexedCheckServiceNodes (filter readable_csn l) (removed readable_csn l)
    | RPreparedQueryExecuteResponse l _ =>
        RPreparedQueryExecuteResponse (filter readable_csn l) (removed readable_csn l)
    | RIndexedServiceTopology u d _ _ =>
        let r := removed readable_csn u || removed readable_csn d in
        RIndexedServiceTopology (filter readable_csn u) (filter readable_csn d) r r
    | RDatacenterIndexedCheckServiceNodes m _ =>
        RDatacenterIndexedCheckServiceNodes (spec_groups readable_csn m) (group_removed readable_csn m)
    | RIndexedCoordinates l _ => RIndexedCoordinates (filter readable_coord l) (removed readable_coord l)
    | RIndexedHealthChecks l _ => RIndexedHealthChecks (filter readable_check l) (removed readable_check l)
    | RIndexedIntentions l _ => RIndexedIntentions (filter readable_intention l) (removed readable_intention l)
    | RIntentionQueryMatch None => RIntentionQueryMatch None
    | RIntentionQueryMatch (Some l) =>
        RIntentionQueryMatch (if forallb (fun e => str_empty (snd e) || intention_read az (snd e)) l
                              then Some l else None)
    | RIndexedNodeDump i d _ =>
        RIndexedNodeDump (map spec_nodeinfo (filter readable_nodeinfo i))
                         (map spec_nodeinfo (filter readable_nodeinfo d))
                         (removed nodeinfo_intact d || removed nodeinfo_intact i)
    | RIndexedServiceDump l _ => RIndexedServiceDump (filter readable_svcinfo l) (removed readable_svcinfo l)
    | RIndexedNodes l _ => RIndexedNodes (filter readable_node l) (removed readable_node l)
    | RIndexedNodeServices None _ => RIndexedNodeServices None false
    | RIndexedNodeServices (Some (n, m)) _ =>
        if readable_node n
        then RIndexedNodeServices (Some (n, filter (fun kv => readable_nsvc_on (nd_name n) (snd kv)) m))
                                  (removed (fun kv => readable_nsvc_on (nd_name n) (snd kv)) m)
        else RIndexedNodeServices None true
    | RIndexedNodeServiceList None l _ => RIndexedNodeServiceList None l false
    | RIndexedNodeServiceList (Some n) l _ =>
        if readable_node n
        then RIndexedNodeServiceList (Some n) (filter readable_nsvc l) (removed readable_nsvc l)
        else RIndexedNodeServiceList None [] true
    | RIndexedServiceNodes l _ => RIndexedServiceNodes (filter readable_snode l) (removed readable_snode l)
    | RIndexedServices m _ =>
        RIndexedServices (filter (fun kv => svc_ok EmptyString (fst kv)) m)
                         (removed (fun kv => svc_ok EmptyString (fst kv)) m)
    | RIndexedSessions l _ => RIndexedSessions (filter readable_session l) (removed readable_session l)
    | RIndexedPreparedQueries l _ =>
        RIndexedPreparedQueries (map spec_query (filter readable_query l))
                                (existsb (fun q => query_named q && negb (readable_query q)) l)
    | RPreparedQuery q => RPreparedQuery (spec_query q)
    | RACLTokens l => RACLTokens (if acl_read az then map (fun t => Some (spec_token t)) (somes l) else [])
    | RACLToken t => RACLToken (match t with Some tk => if acl_read az then Some (spec_token tk) else None | None => None end)
    | RACLTokenListStubs l =>
        RACLTokenListStubs (if acl_read az then map (fun t => Some (spec_token t)) (somes l) else [])
    | RACLTokenListStub t =>
        RACLTokenListStub (match t with Some tk => if acl_read az then Some (spec_token tk) else None | None => None end)
    | RACLPolicies l => RACLPolicies (if acl_read az then map Some (somes l) else [])
    | RACLPolicy p => RACLPolicy (if acl_read az then p else None)
    | RACLRoles l => RACLRoles (if acl_read az then map Some (somes l) else [])
    | RACLRole p => RACLRole (if acl_read az then p else None)
    | RACLBindingRules l => RACLBindingRules (if acl_read az then map Some (somes l) else [])
    | RACLBindingRule p => RACLBindingRule (if acl_read az then p else None)
    | RACLAuthMethods l => RACLAuthMethods (if acl_read az then map Some (somes l) else [])
    | RACLAuthMethod p => RACLAuthMethod (if acl_read az then p else None)
    | RIndexedServiceList l _ => RIndexedServiceList (filter readable_svcname l) (removed readable_svcname l)
    | RIndexedExportedServiceList m _ =>
        RIndexedExportedServiceList (spec_groups readable_svcname m) (group_removed readable_svcname m)
    | RIndexedGatewayServices l _ => RIndexedGatewayServices (filter readable_gwsvc l) (removed readable_gwsvc l)
    | RIndexedNodesWithGateways i n g _ =>
        RIndexedNodesWithGateways (filter readable_csn i) (filter readable_csn n) (filter readable_gwmapping g)
                                  (removed readable_csn n || removed readable_gwmapping g || removed readable_csn i)
    | RDirEntries l => RDirEntries (filter readable_dirent l)
    | RTxnResults l => RTxnResults (filter readable_txn l)
    end.

  (* ---------------- the uniform view ---------------- *)
  Record item := Item { it_id : N; it_readable : bool; it_flagged : bool }.

  Definition items_of {A} (id : A -> N) (p : A -> bool) (l : list A) : list item :=
    map (fun x => Item (id x) (p x) true) l.
  Definition items_unflagged {A} (id : A -> N) (p : A -> bool) (l : list A) : list item :=
    map (fun x => Item (id x) (p x) false) l.

  Definition items_nodeinfo (i : nodeinfo) : list item :=
    Item (ni_id i) (readable_nodeinfo i) true
    :: items_of ns_id (fun s => readable_nodeinfo i && readable_nsvc_on (ni_node i) s) (ni_services i)
    ++ items_of h_id (fun c => readable_nodeinfo i && readable_check_on (ni_node i) c) (ni_checks i).
  Definition ids_nodeinfo (i : nodeinfo) : list N :=
    ni_id i :: map ns_id (ni_services i) ++ map h_id (ni_checks i).

  Definition items (r : response) : list item :=
    match r with
    | RCheckServiceNodes l | RIndexedCheckServiceNodes l _ | RPreparedQueryExecuteResponse l _ =>
        items_of c_id readable_csn l
    | RIndexedServiceTopology u d _ _ => items_of c_id readable_csn u ++ items_of c_id readable_csn d
    | RDatacenterIndexedCheckServiceNodes m _ => flat_map (fun kv => items_of c_id readable_csn (snd kv)) m
    | RIndexedCoordinates l _ => items_of co_id readable_coord l
    | RIndexedHealthChecks l _ => items_of h_id readable_check l
    | RIndexedIntentions l _ => items_of ix_id readable_intention l
    | RIntentionQueryMatch None => []
    | RIntentionQueryMatch (Some l) => items_unflagged fst (fun _ => negb (ixn_match_denied az l)) l
    | RIndexedNodeDump i d _ => flat_map items_nodeinfo d ++ flat_map items_nodeinfo i
    | RIndexedServiceDump l _ => items_of si_id readable_svcinfo l
    | RIndexedNodes l _ => items_of nd_id readable_node l
    | RIndexedNodeServices None _ => []
    | RIndexedNodeServices (Some (n, m)) _ =>
        Item (nd_id n) (readable_node n) true
        :: items_of (fun kv => ns_id (snd kv)) (fun kv => readable_node n && readable_nsvc_on (nd_name n) (snd kv)) m
    | RIndexedNodeServiceList None l _ => items_of ns_id (fun _ => true) l
    | RIndexedNodeServiceList (Some n) l _ =>
        Item (nd_id n) (readable_node n) true
        :: items_of ns_id (fun s => readable_node n && readable_nsvc s) l
    | RIndexedServiceNodes l _ => items_of sn_id readable_snode l
    | RIndexedServices m _ => items_of snd (fun kv => svc_ok EmptyString (fst kv)) m
    | RIndexedSessions l _ => items_of se_id readable_session l
    | RIndexedPreparedQueries l _ => map (fun q => Item (pq_id q) (readable_query q) (query_named q)) l
    | RPreparedQuery q => [Item (pq_id q) true false]
    | RACLTokens l | RACLTokenListStubs l => items_unflagged tk_id (fun _ => acl_read az) (somes l)
    | RACLToken t | RACLTokenListStub t => items_unflagged tk_id (fun _ => acl_read az) (somes [t])
    | RACLPolicies l | RACLRoles l | RACLBindingRules l | RACLAuthMethods l =>
        items_unflagged (fun x => x) (fun _ => acl_read az) (somes l)
    | RACLPolicy p | RACLRole p | RACLBindingRule p | RACLAuthMethod p =>
        items_unflagged (fun x => x) (fun _ => acl_read az) (somes [p])
    | RIndexedServiceList l _ => items_of sv_id readable_svcname l
    | RIndexedExportedServiceList m _ => flat_map (fun kv => items_of sv_id readable_svcname (snd kv)) m
    | RIndexedGatewayServices l _ => items_of gs_id readable_gwsvc l
    | RIndexedNodesWithGateways i n g _ =>
        items_of c_id readable_csn n ++ items_of gs_id readable_gwmapping g ++ items_of c_id readable_csn i
    | RDirEntries l => items_unflagged de_id readable_dirent l
    | RTxnResults l =>
        items_unflagged (fun r => match r with TKV i _ | TNode i _ _ | TSvc i _ _ | TCheck i _ _ _ | TNone i => i end)
                        readable_txn l
    end.
End Spec.

(* identifiers of the elements present in a response, in the same traversal order as [items] *)
Definition txn_id (r : txnres) : N :=
  match r with TKV i _ | TNode i _ _ | TSvc i _ _ | TCheck i _ _ _ | TNone i => i end.

Definition ids (r : response) : list N :=
  match r with
  | RCheckServiceNodes l | RIndexedCheckServiceNodes l _ | RPreparedQueryExecuteResponse l _ => map c_id l
  | RIndexedServiceTopology u d _ _ => map c_id u ++ map c_id d
  | RDatacenterIndexedCheckServiceNodes m _ => flat_map (fun kv => map c_id (snd kv)) m
  | RIndexedCoordinates l _ => map co_id l
  | RIndexedHealthChecks l _ => map h_id l
  | RIndexedIntentions l _ => map ix_id l
  | RIntentionQueryMatch None => []
  | RIntentionQueryMatch (Some l) => map fst l
  | RIndexedNodeDump i d _ => flat_map ids_nodeinfo d ++ flat_map ids_nodeinfo i
  | RIndexedServiceDump l _ => map si_id l
  | RIndexedNodes l _ => map nd_id l
  | RIndexedNodeServices None _ => []
  | RIndexedNodeServices (Some (n, m)) _ => nd_id n :: map (fun kv => ns_id (snd kv)) m
  | RIndexedNodeServiceList None l _ => map ns_id l
  | RIndexedNodeServiceList (Some n) l _ => nd_id n :: map ns_id l
  | RIndexedServiceNodes l _ => map sn_id l
  | RIndexedServices m _ => map snd m
  | RIndexedSessions l _ => map se_id l
  | RIndexedPreparedQueries l _ => map pq_id l
  | RPreparedQuery q => [pq_id q]
  | RACLTokens l | RACLTokenListStubs l => map tk_id (somes l)
  | RACLToken t | RACLTokenListStub t => map tk_id (somes [t])
  | RACLPolicies l | RACLRoles l | RACLBindingRules l | RACLAuthMethods l => somes l
  | RACLPolicy p | RACLRole p | RACLBindingRule p | RACLAuthMethod p => somes [p]
  | RIndexedServiceList l _ => map sv_id l
  | RIndexedExportedServiceList m _ => flat_map (fun kv => map sv_id (snd kv)) m
  | RIndexedGatewayServices l _ => map gs_id l
  | RIndexedNodesWithGateways i n g _ => map c_id n ++ map gs_id g ++ map c_id i
  | RDirEntries l => map de_id l
  | RTxnResults l => map txn_id l
  end.

(* QueryMeta.ResultsFilteredByACLs, for the response types that have it *)
Definition flag_of (r : response) : option bool :=
  match r with
  | RIndexedCheckServiceNodes _ f | RPreparedQueryExecuteResponse _ f | RIndexedServiceTopology _ _ _ f
  | RDatacenterIndexedCheckServiceNodes _ f | RIndexedCoordinates _ f | RIndexedHealthChecks _ f
  | RIndexedIntentions _ f | RIndexedNodeDump _ _ f | RIndexedServiceDump _ f | RIndexedNodes _ f
  | RIndexedNodeServices _ f | RIndexedNodeServiceList _ _ f | RIndexedServiceNodes _ f
  | RIndexedServices _ f | RIndexedSessions _ f | RIndexedPreparedQueries _ f
  | RIndexedServiceList _ f | RIndexedExportedServiceList _ f | RIndexedGatewayServices _ f
  | RIndexedNodesWithGateways _ _ _ f => Some f
  | _ => None
  end.

(* Go maps have unique keys *)
Definition wf (r : response) : Prop :=
  match r with
  | RDatacenterIndexedCheckServiceNodes m _ => NoDup (map fst m)
  | RIndexedNodeServices (Some (_, m)) _ => NoDup (map fst m)
  | RIndexedServices m _ => NoDup (map fst m)
  | RIndexedExportedServiceList m _ => NoDup (map fst m)
  | _ => True
  end.
