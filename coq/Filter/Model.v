(* C09 — model of consul's ACL result filtering.

   Mirrors, function by function, agent/structs/aclfilter/filter.go (the [Filter.Filter]
   type switch and every filterXxx), agent/consul/filter.go (FilterEntries, FilterDirEnt,
   FilterTxnResults), and the helpers they call in agent/structs
   (CheckServiceNode.CanRead, Intention.CanRead, PreparedQuery.GetACLPrefix), for the
   community-edition build (the authorizer context carries only the peer name; enterprise
   metadata stubs leave it untouched).

   The authorizer is an arbitrary record of functions ([authz]); nothing is assumed of it.
   Slices are lists, Go maps are association lists iterated in an explicit visiting order.
   No proofs in this file. *)
From Verif Require Import Base.Prelude.

Definition str_empty (s : string) : bool :=
  match s with EmptyString => true | _ => false end.

(* aclfilter.RedactedToken = "<hidden>" *)
Definition redacted : string := bs [60; 104; 105; 100; 100; 101; 110; 62]%N.

(* ------------------------------------------------------------------------------------ *)
(* The three loop shapes the Go code uses                                                *)
(* ------------------------------------------------------------------------------------ *)
Section Loops.
  Context {A : Type}.

  (* s = append(s[:i], s[i+1:]...) *)
  Definition delete_at (i : nat) (s : list A) : list A := firstn i s ++ skipn (S i) s.

  (* s[i] = x  (an element that is a pointer and was mutated through it) *)
  Definition set_at (i : nat) (x : A) (s : list A) : list A := firstn i s ++ x :: skipn (S i) s.

  (*  var removed bool
      for i := 0; i < len(s); i++ {
          if keep(s[i]) { continue }
          removed = true
          s = append(s[:i], s[i+1:]...)
          i--
      }
      The index walk exactly as written: on deletion the index stays (i-- then i++), otherwise
      it advances; the loop ends when i reaches the CURRENT length.  [fuel] bounds the number
      of iterations (Coq needs a structural argument); [length s] always suffices. *)
  Fixpoint inplace_loop (keep : A -> bool) (fuel i : nat) (s : list A) (removed : bool)
    : list A * bool :=
    match fuel with
    | O => (s, removed)
    | S fuel' =>
      match nth_error s i with
      | None => (s, removed)                                    (* i >= len(s) *)
      | Some x =>
        if keep x then inplace_loop keep fuel' (S i) s removed  (* continue *)
        else inplace_loop keep fuel' i (delete_at i s) true     (* delete, i--, i++ *)
      end
    end.

  Definition inplace_filter (keep : A -> bool) (s : list A) : list A * bool :=
    inplace_loop keep (List.length s) 0 s false.

  (* The same walk where a kept element may also be modified through its pointer and may
     report removals of its own (filterNodeDump):
       visit x = (None, _)       delete s[i], removed = true
       visit x = (Some x', r)    s[i] = x', removed ||= r, advance *)
  Fixpoint inplace_walk (visit : A -> option A * bool) (fuel i : nat) (s : list A) (removed : bool)
    : list A * bool :=
    match fuel with
    | O => (s, removed)
    | S fuel' =>
      match nth_error s i with
      | None => (s, removed)
      | Some x =>
        match visit x with
        | (Some x', r) => inplace_walk visit fuel' (S i) (set_at i x' s) (removed || r)
        | (None, _) => inplace_walk visit fuel' i (delete_at i s) true
        end
      end
    end.

  (*  ret := make(T, 0, len( *in ))
      for _, x := range *in { if !keep(x) { removed = true; continue }; ret = append(ret, x) } *)
  Fixpoint range_loop (keep : A -> bool) (l ret : list A) (removed : bool) : list A * bool :=
    match l with
    | [] => (ret, removed)
    | x :: l' => if keep x then range_loop keep l' (ret ++ [x]) removed
                 else range_loop keep l' ret true
    end.
  Definition range_filter (keep : A -> bool) (l : list A) : list A * bool := range_loop keep l [] false.

  (*  ret := make(T, 0, len( *in ))
      for _, x := range *in { final := x; f(&final); if final != nil { ret = append(ret, final) } } *)
  Fixpoint range_opt_loop (f : A -> option A) (l ret : list A) : list A :=
    match l with
    | [] => ret
    | x :: l' => match f x with
                 | Some y => range_opt_loop f l' (ret ++ [y])
                 | None => range_opt_loop f l' ret
                 end
    end.
  Definition range_opt (f : A -> option A) (l : list A) : list A := range_opt_loop f l [].
End Loops.

(* Go maps: association lists with unique keys; the runtime's iteration order is the explicit
   list [ord] handed to each map loop (any permutation of the entries). *)
Section Maps.
  Context {V : Type}.
  Definition amap := list (string * V).
  Definition map_delete (k : string) (m : amap) : amap :=
    filter (fun kv => negb (String.eqb (fst kv) k)) m.
  (* m[k] = v for a key that is present: replaced in place *)
  Definition map_set (k : string) (v : V) (m : amap) : amap :=
    map (fun kv => if String.eqb (fst kv) k then (k, v) else kv) m.
End Maps.
Arguments amap : clear implicits.

(* ------------------------------------------------------------------------------------ *)
(* agent/consul/filter.go: FilterEntries — span compaction over an index interface       *)
(* ------------------------------------------------------------------------------------ *)
Section Compact.
  Context {A : Type}.
  Variable filtered : A -> bool.             (* Filter(i) on the element currently at index i *)

  Definition filt_at (a : list A) (i : nat) : bool :=
    match nth_error a i with Some x => filtered x | None => false end.

  (* for i < n && p(i) { i++ } *)
  Fixpoint scan (p : nat -> bool) (fuel i n : nat) : nat :=
    match fuel with
    | O => i
    | S f => if (i <? n) && p i then scan p f (S i) n else i
    end.

  (* Move(dst, src, span) = copy(a[dst:dst+span], a[src:src+span])   (memmove) *)
  Definition move (a : list A) (dst src span : nat) : list A :=
    firstn dst a ++ firstn span (skipn src a) ++ skipn (dst + span) a.

  (*  for dst < n {
        for src < n && f.Filter(src) { src++ }
        if src == n { break }
        end := src + 1
        for end < n && !f.Filter(end) { end++ }
        span := end - src
        if span > 0 { f.Move(dst, src, span); dst += span; src += span }
      }
      return dst *)
  Fixpoint compact (fuel : nat) (a : list A) (n dst src : nat) : nat * list A :=
    match fuel with
    | O => (dst, a)
    | S f =>
      if dst <? n then
        let src1 := scan (filt_at a) n src n in
        if src1 =? n then (dst, a)
        else
          let e := scan (fun i => negb (filt_at a i)) n (S src1) n in
          let span := e - src1 in
          if 0 <? span then compact f (move a dst src1 span) n (dst + span) (src1 + span)
          else compact f a n dst src1
      else (dst, a)
    end.

  Definition filter_entries (a : list A) : nat * list A :=
    compact (S (List.length a)) a (List.length a) 0 0.

  (* ent[:FilterEntries(&f)] *)
  Definition filter_slice (a : list A) : list A :=
    let '(k, a') := filter_entries a in firstn k a'.
End Compact.

(* ------------------------------------------------------------------------------------ *)
(* The authorizer and the response elements                                              *)
(* ------------------------------------------------------------------------------------ *)

(* Every acl.Authorizer method the filters call, as "== acl.Allow".  The first argument of
   the node/service methods is the only part of acl.AuthorizerContext the CE build fills:
   the peer name. *)
Record authz := Authz {
  node_read : string -> string -> bool;       (* NodeRead(name, ctx{Peer}) *)
  service_read : string -> string -> bool;    (* ServiceRead(name, ctx{Peer}) *)
  session_read : string -> bool;              (* SessionRead(node, ctx{}) *)
  intention_read : string -> bool;            (* IntentionRead(name, ctx{}) *)
  query_read : string -> bool;                (* PreparedQueryRead(prefix, ctx{}) *)
  key_read : string -> bool;                  (* KeyRead(key, ctx{}) *)
  acl_read : bool;                            (* ACLRead(ctx{}) *)
  acl_write : bool                            (* ACLWrite(ctx{}) *)
}.

(* Every element carries an identifier [*_id] that no filter looks at (the observable). *)
Record hcheck := HC { h_id : N; h_node : string; h_svc : string; h_peer : string }.      (* HealthCheck: Node, ServiceName, PeerName *)
Record snode := SN { sn_id : N; sn_node : string; sn_svc : string; sn_peer : string }.    (* ServiceNode: Node, ServiceName, PeerName *)
Record nsvc := NS { ns_id : N; ns_key : string; ns_name : string; ns_peer : string }.     (* NodeService: ID, Service, PeerName *)
Record node := ND { nd_id : N; nd_name : string; nd_peer : string }.                      (* Node: Node, PeerName *)
(* CheckServiceNode: Node.Node, Service.Service, Service.PeerName.  Node and Service are never nil
   in what the state store hands out (CanRead answers Deny for nil, but the filter's debug log
   line dereferences both, so a nil member cannot pass through the filter at all). *)
Record csn := CSN { c_id : N; c_node : string; c_svc : string; c_peer : string }.
Record coord := CO { co_id : N; co_node : string }.
Record session := SE { se_id : N; se_node : string }.
Record intention := IX { ix_id : N; ix_src : string; ix_src_peer : string; ix_dst : string }.
(* PreparedQuery: Name, Template.Type != "", Token *)
Record pquery := PQ { pq_id : N; pq_name : string; pq_templated : bool; pq_token : string }.
Record acltoken := TK { tk_id : N; tk_secret : string }.                                  (* ACLToken / ACLTokenListStub: SecretID *)
Record svcname := SV { sv_id : N; sv_name : string }.                                     (* ServiceName *)
Record gwsvc := GS { gs_id : N; gs_gateway : string; gs_service : string }.               (* GatewayService: Gateway.Name, Service.Name *)
(* ServiceInfo: GatewayService (never nil), Node nil or (Node.Node, Service.PeerName) *)
Record svcinfo := SI { si_id : N; si_gateway : string; si_service : string; si_node : option (string * string) }.
Record nodeinfo := NI { ni_id : N; ni_node : string; ni_peer : string;
                        ni_services : list nsvc; ni_checks : list hcheck }.               (* NodeInfo *)
Record dirent := DE { de_id : N; de_key : string }.
Inductive txnres :=
| TKV (id : N) (key : string)
| TNode (id : N) (name peer : string)
| TSvc (id : N) (name peer : string)
| TCheck (id : N) (node svc peer : string)
| TNone (id : N).

(* One constructor per case of the Filter.Filter type switch, carrying what the branch reads
   and writes; [f] is QueryMeta.ResultsFilteredByACLs as it is on entry / exit (every branch
   assigns it: what is there on entry is never read). *)
Inductive response :=
| RCheckServiceNodes (l : list csn)
| RIndexedCheckServiceNodes (l : list csn) (f : bool)
| RPreparedQueryExecuteResponse (l : list csn) (f : bool)
| RIndexedServiceTopology (up down : list csn) (fa f : bool)       (* FilteredByACLs, ResultsFilteredByACLs *)
| RDatacenterIndexedCheckServiceNodes (m : amap (list csn)) (f : bool)
| RIndexedCoordinates (l : list coord) (f : bool)
| RIndexedHealthChecks (l : list hcheck) (f : bool)
| RIndexedIntentions (l : list intention) (f : bool)
| RIntentionQueryMatch (entries : option (list (N * string)))      (* Entries: nil or (id, Name) *)
| RIndexedNodeDump (imported dump : list nodeinfo) (f : bool)
| RIndexedServiceDump (l : list svcinfo) (f : bool)
| RIndexedNodes (l : list node) (f : bool)
| RIndexedNodeServices (ns : option (node * amap nsvc)) (f : bool) (* *NodeServices, Services keyed by service ID *)
| RIndexedNodeServiceList (n : option node) (l : list nsvc) (f : bool)
| RIndexedServiceNodes (l : list snode) (f : bool)
| RIndexedServices (m : amap N) (f : bool)                          (* service name -> tags *)
| RIndexedSessions (l : list session) (f : bool)
| RIndexedPreparedQueries (l : list pquery) (f : bool)
| RPreparedQuery (q : pquery)
| RACLTokens (l : list (option acltoken))
| RACLToken (t : option acltoken)
| RACLTokenListStubs (l : list (option acltoken))
| RACLTokenListStub (t : option acltoken)
| RACLPolicies (l : list (option N))
| RACLPolicy (p : option N)
| RACLRoles (l : list (option N))
| RACLRole (p : option N)
| RACLBindingRules (l : list (option N))
| RACLBindingRule (p : option N)
| RACLAuthMethods (l : list (option N))
| RACLAuthMethod (p : option N)
| RIndexedServiceList (l : list svcname) (f : bool)
| RIndexedExportedServiceList (m : amap (list svcname)) (f : bool)  (* peer -> ServiceList *)
| RIndexedGatewayServices (l : list gwsvc) (f : bool)
| RIndexedNodesWithGateways (imported nodes : list csn) (gws : list gwsvc) (f : bool)
(* agent/consul/filter.go *)
| RDirEntries (l : list dirent)
| RTxnResults (l : list txnres).

(* ------------------------------------------------------------------------------------ *)
(* The filters                                                                           *)
(* ------------------------------------------------------------------------------------ *)
Section Filter.
  Variable az : authz.

  Definition local : string := EmptyString.   (* a zero acl.AuthorizerContext *)

  (* allowNode / allowService / allowSession / allowGateway *)
  Definition allow_node (ctx node : string) : bool := node_read az ctx node.
  Definition allow_service (ctx svc : string) : bool :=
    if str_empty svc then true else service_read az ctx svc.
  Definition allow_session (node : string) : bool := session_read az node.
  Definition allow_gateway (gateway service : string) : bool :=
    if negb (allow_service local gateway) then false else allow_service local service.

  (* structs.CheckServiceNode.CanRead *)
  Definition csn_can_read (c : csn) : bool :=
    if negb (node_read az (c_peer c) (c_node c)) then false
    else if negb (service_read az (c_peer c) (c_svc c)) then false
    else true.

  (* structs.Intention.CanRead *)
  Definition ixn_can_read (x : intention) : bool :=
    if (negb (str_empty (ix_src x)) && str_empty (ix_src_peer x)) && intention_read az (ix_src x) then true
    else if negb (str_empty (ix_dst x)) && intention_read az (ix_dst x) then true
    else false.

  Definition keep_check (c : hcheck) : bool :=
    allow_node (h_peer c) (h_node c) && allow_service (h_peer c) (h_svc c).
  Definition filter_health_checks (l : list hcheck) := inplace_filter keep_check l.

  Definition keep_snode (n : snode) : bool :=
    allow_node (sn_peer n) (sn_node n) && allow_service (sn_peer n) (sn_svc n).
  Definition filter_service_nodes (l : list snode) := inplace_filter keep_snode l.

  (* filterServices: for svc := range services { if allowed {continue}; removed = true; delete(services, svc) } *)
  Fixpoint filter_services_loop (ord m : amap N) (removed : bool) : amap N * bool :=
    match ord with
    | [] => (m, removed)
    | (svc, _) :: ord' =>
      if allow_service local svc then filter_services_loop ord' m removed
      else filter_services_loop ord' (map_delete svc m) true
    end.
  Definition filter_services_ord (ord m : amap N) := filter_services_loop ord m false.
  Definition filter_services (m : amap N) := filter_services_ord m m.

  (* filterNodeServices *)
  Fixpoint node_services_loop (nodename : string) (ord m : amap nsvc) (removed : bool) : amap nsvc * bool :=
    match ord with
    | [] => (m, removed)
    | (key, svc) :: ord' =>
      (* the service NAME is authorized; the map key (the service ID) only names the entry to delete *)
      if allow_node (ns_peer svc) nodename && allow_service (ns_peer svc) (ns_name svc)
      then node_services_loop nodename ord' m removed
      else node_services_loop nodename ord' (map_delete key m) true
    end.
  Definition filter_node_services_ord (ord : amap nsvc) (ns : option (node * amap nsvc))
    : option (node * amap nsvc) * bool :=
    match ns with
    | None => (None, false)
    | Some (n, m) =>
      if negb (allow_node (nd_peer n) (nd_name n)) then (None, true)
      else let '(m', r) := node_services_loop (nd_name n) ord m false in (Some (n, m'), r)
    end.
  Definition filter_node_services (ns : option (node * amap nsvc)) :=
    filter_node_services_ord (match ns with Some (_, m) => m | None => [] end) ns.

  (* filterNodeServiceList *)
  Definition keep_nsvc_name (s : nsvc) : bool := allow_service (ns_peer s) (ns_name s).
  Definition filter_node_service_list (n : option node) (l : list nsvc)
    : (option node * list nsvc) * bool :=
    match n with
    | None => ((None, l), false)
    | Some nd =>
      if negb (allow_node (nd_peer nd) (nd_name nd)) then ((None, []), true)   (* *services = NodeServiceList{} *)
      else let '(l', r) := inplace_filter keep_nsvc_name l in ((Some nd, l'), r)
    end.

  (* filterCheckServiceNodes *)
  Definition filter_csns (l : list csn) := inplace_filter csn_can_read l.

  (* filterServiceTopology *)
  Definition filter_topology (up down : list csn) : (list csn * list csn) * bool :=
    let '(up', r1) := filter_csns up in
    let '(down', r2) := filter_csns down in
    ((up', down'), r1 || r2).

  (* filterDatacenterCheckServiceNodes: out is a fresh map filled in visiting order *)
  Fixpoint dc_loop (ord out : amap (list csn)) (removed : bool) : amap (list csn) * bool :=
    match ord with
    | [] => (out, removed)
    | (dc, nodes) :: ord' =>
      let '(nodes', r) := filter_csns nodes in
      let removed' := if r then true else removed in
      if 0 <? List.length nodes' then dc_loop ord' (out ++ [(dc, nodes')]) removed'
      else dc_loop ord' out removed'
    end.
  Definition filter_dc_nodes (m : amap (list csn)) := dc_loop m [] false.

  Definition filter_sessions (l : list session) := inplace_filter (fun s => allow_session (se_node s)) l.
  Definition filter_coordinates (l : list coord) := inplace_filter (fun c => allow_node local (co_node c)) l.
  Definition filter_intentions (l : list intention) := range_filter ixn_can_read l.

  (* filterIntentionMatch: the first entry with a non-empty name that may not be read empties the list *)
  Fixpoint ixn_match_denied (l : list (N * string)) : bool :=
    match l with
    | [] => false
    | (_, name) :: l' =>
      if negb (str_empty name) && negb (intention_read az name) then true else ixn_match_denied l'
    end.
  Definition filter_intention_match (entries : option (list (N * string))) :=
    match entries with
    | None => None
    | Some l => if ixn_match_denied l then None else Some l
    end.

  (* filterNodeDump: the body of the outer loop for one *NodeInfo *)
  Definition keep_dump_service (nodename : string) (s : nsvc) : bool :=
    allow_node (ns_peer s) nodename && allow_service (ns_peer s) (ns_name s).
  Definition keep_dump_check (nodename : string) (c : hcheck) : bool :=
    allow_node (h_peer c) nodename && allow_service (h_peer c) (h_svc c).
  Definition visit_nodeinfo (info : nodeinfo) : option nodeinfo * bool :=
    if negb (allow_node (ni_peer info) (ni_node info)) then (None, true)
    else
      let '(svcs, r1) := inplace_filter (keep_dump_service (ni_node info)) (ni_services info) in
      let '(chks, r2) := inplace_filter (keep_dump_check (ni_node info)) (ni_checks info) in
      (Some (NI (ni_id info) (ni_node info) (ni_peer info) svcs chks), r1 || r2).
  Definition filter_node_dump (l : list nodeinfo) := inplace_walk visit_nodeinfo (List.length l) 0 l false.

  (* filterServiceDump *)
  Definition keep_svcinfo (s : svcinfo) : bool :=
    if allow_gateway (si_gateway s) (si_service s) then
      match si_node s with
      | None => true
      | Some (nodename, peer) => allow_node peer nodename
      end
    else false.
  Definition filter_service_dump (l : list svcinfo) := inplace_filter keep_svcinfo l.

  Definition filter_nodes (l : list node) := inplace_filter (fun n => allow_node (nd_peer n) (nd_name n)) l.

  (* redactPreparedQueryTokens *)
  Definition redact_query (q : pquery) : pquery :=
    if acl_write az then q
    else if negb (str_empty (pq_token q)) then PQ (pq_id q) (pq_name q) (pq_templated q) redacted
    else q.

  (* filterPreparedQueries *)
  Definition pq_has_name (q : pquery) : bool := negb (str_empty (pq_name q)) || pq_templated q.
  Fixpoint pq_loop (l ret : list pquery) (named_removed : bool) : list pquery * bool :=
    match l with
    | [] => (ret, named_removed)
    | q :: l' =>
      if pq_has_name q && negb (query_read az (pq_name q)) then pq_loop l' ret true   (* fallthrough: dropped *)
      else if negb (pq_has_name q) then pq_loop l' ret named_removed                 (* dropped, not flagged *)
      else pq_loop l' (ret ++ [redact_query q]) named_removed
    end.
  Definition filter_prepared_queries (l : list pquery) : list pquery * bool :=
    if acl_write az then (l, false) else pq_loop l [] false.

  (* filterToken / filterTokenStub *)
  Definition filter_token (t : option acltoken) : option acltoken :=
    match t with
    | None => None
    | Some tk =>
      if negb (acl_read az) then None
      else if negb (acl_write az) then Some (TK (tk_id tk) redacted)
      else Some tk
    end.
  (* element of the list after [final := token; f.filterToken(&final)]; nil is not appended *)
  Definition filter_tokens (l : list (option acltoken)) : list (option acltoken) :=
    range_opt (fun t => match filter_token t with Some x => Some (Some x) | None => None end) l.

  (* filterPolicy / filterRole / filterBindingRule / filterAuthMethod *)
  Definition filter_aclobj (p : option N) : option N :=
    match p with
    | None => None
    | Some x => if negb (acl_read az) then None else Some x
    end.
  Definition filter_aclobjs (l : list (option N)) : list (option N) :=
    range_opt (fun p => match filter_aclobj p with Some x => Some (Some x) | None => None end) l.

  (* filterServiceList: ServiceRead is asked directly (an empty name is not special) *)
  Definition keep_svcname (s : svcname) : bool := service_read az local (sv_name s).
  Definition filter_service_list (l : list svcname) := range_filter keep_svcname l.

  (* the IndexedExportedServiceList branch of the type switch *)
  Fixpoint exported_loop (ord m : amap (list svcname)) (flag : bool) : amap (list svcname) * bool :=
    match ord with
    | [] => (m, flag)
    | (peer, svcs) :: ord' =>
      let '(svcs', r) := filter_service_list svcs in
      let flag' := if r then true else flag in
      if List.length svcs' =? 0 then exported_loop ord' (map_delete peer m) flag'
      else exported_loop ord' (map_set peer svcs' m) flag'
    end.

  Definition keep_gwsvc (g : gwsvc) : bool := service_read az local (gs_service g).
  Definition filter_gateway_services (l : list gwsvc) := range_filter keep_gwsvc l.

  (* filterGatewayServicesByGateway (Internal.ServiceDump has authorized no gateway name) *)
  Definition keep_gw_gateway (g : gwsvc) : bool := allow_service local (gs_gateway g).
  Definition filter_gateways_by_gateway (l : list gwsvc) := range_filter keep_gw_gateway l.

  (* agent/consul/filter.go *)
  Definition dirent_filtered (d : dirent) : bool := negb (key_read az (de_key d)).
  Definition filter_dir_ent (l : list dirent) : list dirent := filter_slice dirent_filtered l.
  Definition txn_filtered (r : txnres) : bool :=
    match r with
    | TKV _ k => negb (key_read az k)
    | TNode _ n peer => negb (node_read az peer n)
    | TSvc _ s peer => negb (service_read az peer s)
    | TCheck _ n s peer => if negb (str_empty s) then negb (service_read az peer s)
                           else negb (node_read az peer n)
    | TNone _ => false
    end.
  Definition filter_txn_results (l : list txnres) : list txnres := filter_slice txn_filtered l.

  (* "if f.filterX(...) { v.ResultsFilteredByACLs = true }" after an assignment earlier in the same branch *)
  Definition sticky (old r : bool) : bool := if r then true else old.

  (* Filter.Filter: the type switch *)
  Definition filter_response (r : response) : response :=
    match r with
    | RCheckServiceNodes l => RCheckServiceNodes (fst (filter_csns l))
    | RIndexedCheckServiceNodes l _ => let '(l', r) := filter_csns l in RIndexedCheckServiceNodes l' r
    | RPreparedQueryExecuteResponse l _ => let '(l', r) := filter_csns l in RPreparedQueryExecuteResponse l' r
    | RIndexedServiceTopology up down _ _ =>
        let '((up', down'), r) := filter_topology up down in
        RIndexedServiceTopology up' down' r r
    | RDatacenterIndexedCheckServiceNodes m _ =>
        let '(m', r) := filter_dc_nodes m in RDatacenterIndexedCheckServiceNodes m' r
    | RIndexedCoordinates l _ => let '(l', r) := filter_coordinates l in RIndexedCoordinates l' r
    | RIndexedHealthChecks l _ => let '(l', r) := filter_health_checks l in RIndexedHealthChecks l' r
    | RIndexedIntentions l _ => let '(l', r) := filter_intentions l in RIndexedIntentions l' r
    | RIntentionQueryMatch e => RIntentionQueryMatch (filter_intention_match e)
    | RIndexedNodeDump imported dump _ =>
        let '(dump', r1) := filter_node_dump dump in
        let f1 := r1 in
        let '(imported', r2) := filter_node_dump imported in
        RIndexedNodeDump imported' dump' (sticky f1 r2)
    | RIndexedServiceDump l _ => let '(l', r) := filter_service_dump l in RIndexedServiceDump l' r
    | RIndexedNodes l _ => let '(l', r) := filter_nodes l in RIndexedNodes l' r
    | RIndexedNodeServices ns _ => let '(ns', r) := filter_node_services ns in RIndexedNodeServices ns' r
    | RIndexedNodeServiceList n l _ =>
        let '((n', l'), r) := filter_node_service_list n l in RIndexedNodeServiceList n' l' r
    | RIndexedServiceNodes l _ => let '(l', r) := filter_service_nodes l in RIndexedServiceNodes l' r
    | RIndexedServices m _ => let '(m', r) := filter_services m in RIndexedServices m' r
    | RIndexedSessions l _ => let '(l', r) := filter_sessions l in RIndexedSessions l' r
    | RIndexedPreparedQueries l _ => let '(l', r) := filter_prepared_queries l in RIndexedPreparedQueries l' r
    | RPreparedQuery q => RPreparedQuery (redact_query q)
    | RACLTokens l => RACLTokens (filter_tokens l)
    | RACLToken t => RACLToken (filter_token t)
    | RACLTokenListStubs l => RACLTokenListStubs (filter_tokens l)
    | RACLTokenListStub t => RACLTokenListStub (filter_token t)
    | RACLPolicies l => RACLPolicies (filter_aclobjs l)
    | RACLPolicy p => RACLPolicy (filter_aclobj p)
    | RACLRoles l => RACLRoles (filter_aclobjs l)
    | RACLRole p => RACLRole (filter_aclobj p)
    | RACLBindingRules l => RACLBindingRules (filter_aclobjs l)
    | RACLBindingRule p => RACLBindingRule (filter_aclobj p)
    | RACLAuthMethods l => RACLAuthMethods (filter_aclobjs l)
    | RACLAuthMethod p => RACLAuthMethod (filter_aclobj p)
    | RIndexedServiceList l _ => let '(l', r) := filter_service_list l in RIndexedServiceList l' r
    | RIndexedExportedServiceList m _ =>
        let '(m', f') := exported_loop m m false in RIndexedExportedServiceList m' f'
    | RIndexedGatewayServices l _ => let '(l', r) := filter_gateway_services l in RIndexedGatewayServices l' r
    | RIndexedNodesWithGateways imported nodes gws _ =>
        let '(nodes', r1) := filter_csns nodes in
        let f1 := r1 in
        let '(gws1, r2) := filter_gateway_services gws in
        let f2 := sticky f1 r2 in
        let '(gws', r2') := filter_gateways_by_gateway gws1 in
        let f2' := sticky f2 r2' in
        let '(imported', r3) := filter_csns imported in
        RIndexedNodesWithGateways imported' nodes' gws' (sticky f2' r3)
    | RDirEntries l => RDirEntries (filter_dir_ent l)
    | RTxnResults l => RTxnResults (filter_txn_results l)
    end.
End Filter.
