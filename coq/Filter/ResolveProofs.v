(* C09 — an expired token is never honoured, whatever the cache holds, whatever the backend
   and the primary datacenter answer, for every down policy and on every retry. *)
From Verif Require Import Base.Prelude.
From Verif Require Import Filter.ResolveModel.

Lemma is_expired_spec t now :
  is_expired t now = true <->
  now <> 0%N /\ exists e, id_exp t = Some e /\ e <> 0%N /\ (e < now)%N.
Proof.
  unfold is_expired, has_expiration. destruct (id_exp t) as [e|].
  - destruct (N.eqb now 0) eqn:E0; cbn [orb].
    + apply N.eqb_eq in E0. split; [discriminate|]. intros [H _]. contradiction.
    + apply N.eqb_neq in E0. destruct (N.eqb e 0) eqn:Ee; cbn [negb orb].
      * apply N.eqb_eq in Ee. split; [discriminate|]. intros (_ & e' & He & Hne & _). congruence.
      * apply N.eqb_neq in Ee. rewrite N.ltb_lt. split.
        -- intros H. split; [assumption|]. exists e. auto.
        -- intros (_ & e' & He & _ & Hlt). congruence.
  - rewrite orb_true_r. split; [discriminate|]. intros (_ & e & He & _). discriminate.
Qed.

(* once expired, always expired *)
Lemma is_expired_mono t n1 n2 : is_expired t n1 = true -> (n1 <= n2)%N -> is_expired t n2 = true.
Proof.
  rewrite !is_expired_spec. intros (H0 & e & He & Hne & Hlt) Hle. split; [lia|]. exists e. repeat split; auto. lia.
Qed.

(* a token without expiration never expires *)
Lemma no_expiration_never_expired t now : has_expiration t = false -> is_expired t now = false.
Proof. intros H. unfold is_expired. rewrite H. cbn [negb]. rewrite orb_true_r. reflexivity. Qed.

(* ---- where identities come from ---- *)
Inductive offered (bk : bk_out) (cache : option ident) (rpc : rpc_out) (t : ident) : Prop :=
| from_backend e : bk = BkDone (Some t) e -> offered bk cache rpc t
| from_cache : cache = Some t -> offered bk cache rpc t
| from_rpc s : rpc = RpcToken t s -> offered bk cache rpc t.

Lemma fetch_sources cached rpc down t e c' :
  fetch_and_cache cached rpc down = ((Some t, e), c') ->
  cached = Some t \/ exists s, rpc = RpcToken t s.
Proof.
  unfold fetch_and_cache. destruct rpc as [i s| | |]; try discriminate.
  - destruct (id_local i && negb s); [discriminate|]. intros H. injection H as -> _ _. right. eauto.
  - destruct cached as [c|]; [|discriminate]. destruct (extends_cache down); [|discriminate].
    intros H. injection H as -> _ _. left. reflexivity.
Qed.

Lemma resolve_identity_sources bk cache fresh rpc down t e c' :
  resolve_identity bk cache fresh rpc down = ((Some t, e), c') -> offered bk cache rpc t.
Proof.
  unfold resolve_identity. destruct bk as [|i be].
  - destruct cache as [c|].
    + destruct fresh.
      * intros H. injection H as -> _ _. apply from_cache. reflexivity.
      * destruct (fetch_and_cache (Some c) rpc down) as [[i' e'] c''] eqn:F.
        destruct down; intros H; injection H as -> _ _;
          try (apply fetch_sources in F as [F|[s F]]; [apply from_cache; exact F|eapply from_rpc; exact F]).
        apply from_cache. reflexivity.
    + intros H. apply fetch_sources in H as [H|[s H]]; [discriminate|eapply from_rpc; exact H].
  - intros H. injection H as -> _ _. eapply from_backend. reflexivity.
Qed.

(* ---- the retry loop ---- *)

(* Whatever is granted passed the expiry test of the attempt that granted it. *)
Lemma granted_unexpired env down : forall fuel i cache last t c',
  resolve_loop env down fuel i cache last = (OGranted t, c') ->
  exists k, i <= k < i + fuel /\ is_expired t (a_now (env k)) = false.
Proof.
  induction fuel as [|fuel IH]; intros i cache last t c' H; cbn [resolve_loop] in H; [discriminate|].
  destruct (resolve_identity (a_bk (env i)) cache (a_fresh (env i)) (a_rpc (env i)) down) as [[idn err] cache1].
  destruct err; try discriminate.
  destruct idn as [t0|]; [|discriminate].
  destruct (is_expired t0 (a_now (env i))) eqn:E; [discriminate|].
  destruct (a_pol (env i)); try discriminate.
  - injection H as -> _. exists i. split; [lia|exact E].
  - apply IH in H as (k & Hk & Hx). exists k. split; [lia|exact Hx].
Qed.

(* An identity that is expired at the time of the attempt — wherever it was obtained: backend,
   fresh cache entry, stale entry served asynchronously, extended cache, primary datacenter —
   ends the resolution with "ACL not found". *)
Lemma expired_not_found env down fuel i cache last t c1 :
  resolve_identity (a_bk (env i)) cache (a_fresh (env i)) (a_rpc (env i)) down = ((Some t, INone), c1) ->
  is_expired t (a_now (env i)) = true ->
  resolve_loop env down (S fuel) i cache last = (OErr ENotFound, c1).
Proof. intros H E. cbn [resolve_loop]. rewrite H, E. reflexivity. Qed.

(* If every token any source offers at the first attempt is expired by then, the outcome does
   not depend on any token: not found, an error, or the token-independent down policy. *)
Lemma all_expired_outcome env down fuel cache last :
  (forall t, offered (a_bk (env 0)) cache (a_rpc (env 0)) t -> is_expired t (a_now (env 0)) = true) ->
  match fst (resolve_loop env down (S fuel) 0 cache last) with
  | OErr _ | ODown => True
  | _ => False
  end.
Proof.
  intros Hall. cbn [resolve_loop].
  destruct (resolve_identity (a_bk (env 0)) cache (a_fresh (env 0)) (a_rpc (env 0)) down) as [[idn err] c1] eqn:R.
  destruct err; cbn; auto.
  destruct idn as [t|]; cbn; auto.
  rewrite (Hall t (resolve_identity_sources _ _ _ _ _ _ _ _ R)). cbn. exact I.
Qed.

Theorem resolve_token_granted_unexpired acls cls env down cache t c' :
  resolve_token acls cls env down cache = (OGranted t, c') ->
  exists k, k < max_retries /\ is_expired t (a_now (env k)) = false.
Proof.
  unfold resolve_token. destruct acls; cbn [negb]; [|discriminate].
  destruct cls; try discriminate.
  intros H. apply granted_unexpired in H as (k & Hk & Hx). exists k. split; [lia|exact Hx].
Qed.

(* the named cache states *)
Corollary cached_fresh_expired env down fuel t last :
  a_bk (env 0) = BkNotDone -> a_fresh (env 0) = true -> is_expired t (a_now (env 0)) = true ->
  resolve_loop env down (S fuel) 0 (Some t) last = (OErr ENotFound, Some t).
Proof.
  intros Hb Hf E. eapply expired_not_found; [|exact E]. unfold resolve_identity. rewrite Hb, Hf. reflexivity.
Qed.

Corollary cached_stale_primary_down_expired env fuel t last down :
  a_bk (env 0) = BkNotDone -> a_fresh (env 0) = false -> a_rpc (env 0) = RpcFail -> extends_cache down = true ->
  is_expired t (a_now (env 0)) = true ->
  resolve_loop env down (S fuel) 0 (Some t) last = (OErr ENotFound, Some t).
Proof.
  intros Hb Hf Hr Hd E. eapply expired_not_found; [|exact E].
  unfold resolve_identity, fetch_and_cache. rewrite Hb, Hf, Hr, Hd. destruct down; try discriminate; reflexivity.
Qed.

Corollary uncached_primary_returns_expired env down fuel t s last :
  a_bk (env 0) = BkNotDone -> a_rpc (env 0) = RpcToken t s -> id_local t && negb s = false ->
  is_expired t (a_now (env 0)) = true ->
  resolve_loop env down (S fuel) 0 None last = (OErr ENotFound, Some t).
Proof.
  intros Hb Hr Hl E. eapply expired_not_found; [|exact E].
  unfold resolve_identity, fetch_and_cache. rewrite Hb, Hr, Hl. reflexivity.
Qed.

Corollary store_still_holds_expired env down fuel t cache last :
  a_bk (env 0) = BkDone (Some t) BkOk -> is_expired t (a_now (env 0)) = true ->
  resolve_loop env down (S fuel) 0 cache last = (OErr ENotFound, cache).
Proof.
  intros Hb E. eapply expired_not_found; [|exact E]. unfold resolve_identity. rewrite Hb. reflexivity.
Qed.

(* ---- blocking queries ---- *)

Lemma resolve_at_unexpired acls cls bk fresh rpc pol down cache now t c' :
  resolve_token acls cls (env_at bk fresh rpc pol now) down cache = (OGranted t, c') ->
  is_expired t now = false.
Proof. intros H. apply resolve_token_granted_unexpired in H as (k & _ & Hk). exact Hk. Qed.

(* Endpoints that resolve the token again in every run: a run authorized by the token happens
   while the token is unexpired, for every schedule of runs. *)
Theorem reresolve_runs_unexpired (resolve_at : N -> outcome) :
  (forall now t, resolve_at now = OGranted t -> is_expired t now = false) ->
  forall times k t now,
    nth_error (blocking_reresolve resolve_at times) k = Some (ByToken t) ->
    nth_error times k = Some now ->
    is_expired t now = false.
Proof.
  intros Hres. induction times as [|n0 rest IH]; intros k t now Hk Hn; [destruct k; discriminate|].
  cbn [blocking_reresolve] in Hk.
  destruct (resolve_at n0) as [| | |t0| |e] eqn:R; cbn [auth_of] in Hk.
  - destruct k; cbn in *; [discriminate|]. eapply IH; eassumption.
  - destruct k; [discriminate|]. destruct k; discriminate.
  - destruct k; cbn in *; [discriminate|]. eapply IH; eassumption.
  - destruct k; cbn in *.
    + injection Hk as <-. injection Hn as <-. apply Hres. exact R.
    + eapply IH; eassumption.
  - destruct k; cbn in *; [discriminate|]. eapply IH; eassumption.
  - destruct k; [discriminate|]. destruct k; discriminate.
Qed.

(* Endpoints that keep the authorizer: every run is authorized by the token resolved before the
   loop, also the runs after its expiration ... *)
Theorem held_runs_by_first t times k :
  k < List.length times -> nth_error (blocking_held (OGranted t) times) k = Some (ByToken t).
Proof.
  intros Hk. unfold blocking_held. cbn [auth_of].
  destruct (nth_error times k) as [now|] eqn:E; [|apply nth_error_None in E; lia].
  rewrite nth_error_map, E. reflexivity.
Qed.

Theorem held_after_expiry_refuted :
  exists t now0 times k now,
    is_expired t now0 = false /\ nth_error times k = Some now /\ is_expired t now = true
    /\ nth_error (blocking_held (OGranted t) times) k = Some (ByToken t).
Proof.
  exists (Ident 1 (Some 100%N) false), 50%N, [50%N; 200%N], 1, 200%N. repeat split.
Qed.

(* ... so the property holds for them exactly when no run happens after the expiration *)
Theorem held_partial t times :
  (forall now, In now times -> is_expired t now = false) ->
  forall k now, nth_error (blocking_held (OGranted t) times) k = Some (ByToken t) ->
    nth_error times k = Some now -> is_expired t now = false.
Proof. intros H k now _ Hn. apply H. eapply nth_error_In. exact Hn. Qed.

(* the mask only ever clears the flag, and clears it for blank / unresolvable / anonymous tokens *)
Theorem mask_only_clears blank ok anon flag : mask_flag blank ok anon flag = true -> flag = true.
Proof. unfold mask_flag. destruct blank, ok, anon; cbn; congruence. Qed.
Theorem mask_spec blank ok anon flag :
  mask_flag blank ok anon flag = flag && negb blank && ok && negb anon.
Proof. destruct blank, ok, anon, flag; reflexivity. Qed.
