(* C15 — concrete inputs: non-vacuity of the hypotheses used in Properties/C15.v, and the glue
   lemmas that state the closure theorems with every definition unfolded. *)
From Verif Require Import Base.Prelude.
From Verif Require Import Chain.Model.
From Verif Require Import Chain.Lemmas.
From Verif Require Import Chain.Passes.
From Verif Require Import Chain.Resolve.
From Verif Require Import Chain.Assemble.
From Verif Require Import Chain.Proofs.
From Verif Require Import Chain.Det.
From Verif Require Import Chain.Store.
From Verif Require Import Chain.Complete.
From Verif Require Import Chain.Cycles.
From Verif Require Import Chain.Order.
From Verif Require Import Chain.Final.
From Verif Require Import Chain.Frame.
From Verif Require Import Chain.Validity.
From Verif Require Import Chain.Context.
From Verif Require Import Chain.TargetId.
Local Open Scope string_scope.
Local Open Scope list_scope.

Lemma compile_closed_unfolded : forall es cx svc mo g,
  compile es cx svc mo = Ok g ->
  lookup (g_start g) (g_nodes g) <> None /\
  (forall a nd b, lookup a (g_nodes g) = Some nd -> In b (children nd) -> lookup b (g_nodes g) <> None) /\
  (forall k nd, lookup k (g_nodes g) = Some nd ->
     match k, nd with
     | NRouter _, RouterN _ | NSplitter _, SplitterN _ | NResolver _, ResolverN _ _ => True
     | _, _ => False
     end) /\
  (forall t d fo, lookup (NResolver t) (g_nodes g) = Some (ResolverN d fo) ->
     In t (g_targets g) /\ incl fo (g_targets g)) /\
  (exists r : nid -> nat,
     forall a nd b, lookup a (g_nodes g) = Some nd -> In b (children nd) -> r b < r a).
Proof.
  intros es cx svc mo g H.
  destruct (compile_closed' es cx svc mo g H) as (H1 & H2 & H3 & H4 & (r & H5) & _).
  split; [exact H1|]. split; [intros a nd b Hl Hb; apply (H2 a b); exists nd; auto|].
  split; [exact H3|]. split; [exact H4|]. exists r. intros a nd b Hl Hb. apply (H5 a b). exists nd; auto.
Qed.

Lemma compile_paths : forall es cx svc mo g,
  (forall s l, get_splitter es s = Some l -> l <> []) ->
  compile es cx svc mo = Ok g ->
  forall a, reachN (g_nodes g) (g_start g) a ->
    (exists t, reachN (g_nodes g) a (NResolver t) /\ In t (g_targets g)) /\
    ((forall b, ~ edge (g_nodes g) a b) -> exists t, a = NResolver t /\ In t (g_targets g)).
Proof.
  intros es cx svc mo g Hne H a Ha.
  destruct (compile_closed' es cx svc mo g H) as (H1 & H2 & H3 & H4 & (r & H5) & H6).
  specialize (H6 Hne).
  assert (Hp : lookup a (g_nodes g) <> None) by (eapply reach_present; eauto).
  split.
  - eapply reaches_resolver; eauto.
  - intros Hno. eapply dead_end_is_resolver; eauto.
Qed.

Lemma resolution_follows_walk : forall es cx svc ip R st t st' t',
  AInv es cx svc ip R st -> get_resolver_node es cx st t = Ok (st', t') -> Orbit es cx t t'.
Proof. intros es cx svc ip R st t st' t' HI H. eapply get_resolver_node_spec; eauto. Qed.

(* the loop run with two different visiting orders disagrees on three chained splitters — the reason
   the ids are sorted; the compiler itself gives one result *)
Lemma loop_order_would_matter :
  exists es cx svc o1 o2, compile_ord es cx svc o1 <> compile_ord es cx svc o2.
Proof.
  exists deep_entries, test_ctx, "a", order_parents_first, order_children_first.
  intros H. pose proof flatten_order_would_matter as [H1 H2]. rewrite H in H1. rewrite H1 in H2. discriminate.
Qed.

Definition ex_entries : list entry :=
  [ EProxy "http";
    ERouter "a" [Route "b" "v1"; Route "c" ""];
    ESplitter "c" [Split 5000 "b" ""; Split 5000 "c" "v1"]%N;
    EResolver "b" (Resolver "v1" ["v1"; "v2"] None [("*", Failover "c" "" [] [])] false);
    EResolver "c" (Resolver "" ["v1"] None [] true) ].

(* the hypotheses of the theorems above are met by a non-trivial chain that compiles to a router,
   a splitter and three resolvers *)
Lemma example_compiles :
  NoDup (map ekey ex_entries) /\
  (forall s l, get_splitter ex_entries s = Some l -> l <> []) /\
  exists g, compile ex_entries test_ctx "a" [] = Ok g /\ List.length (g_nodes g) = 5.
Proof.
  split; [|split].
  - cbn. repeat constructor; cbn; intuition discriminate.
  - intros s l. unfold get_splitter. cbn [ex_entries lookup_entry ekey key_eqb ekind_eqb fst snd andb].
    destruct ("c" =? s); [intros H; injection H as <-; discriminate | discriminate].
  - eexists. split; [vm_compute; reflexivity | reflexivity].
Qed.

(* a redirect cycle a -> b -> a : the walk from a's target never ends, and compile reports it *)
Definition cyc_entries : list entry :=
  [ EResolver "a" (Resolver "" [] (Some (Redirect "b" "" "")) [] false);
    EResolver "b" (Resolver "" [] (Some (Redirect "a" "" "")) [] false) ].

Lemma example_cycle :
  cyclic cyc_entries test_ctx (new_target test_ctx "a" "") /\
  compile cyc_entries test_ctx "a" [] = Err ECircularRedirect.
Proof.
  split; [|vm_compute; reflexivity].
  assert (H : forall n, walk cyc_entries test_ctx n (Tgt "a" "" "dc1") <> None /\
                        walk cyc_entries test_ctx n (Tgt "b" "" "dc1") <> None).
  { induction n as [|n [IHa IHb]]; [split; discriminate|]. split; cbn [walk]; [exact IHb | exact IHa]. }
  intros n. apply H.
Qed.

(* splitters chained two deep *)
Definition two_deep : list entry :=
  [ EProxy "http";
    ESplitter "a" [Split 3333 "b" ""; Split 6667 "a" ""]%N;
    ESplitter "b" [Split 5000 "c" ""; Split 5000 "b" "v1"]%N;
    EResolver "b" (Resolver "" ["v1"] None [] false) ].

Lemma two_deep_splits x y : splits_to two_deep test_ctx x y -> x = "a" /\ y = "b".
Proof.
  intros (legs & sp & Hg & Hi & Hc & ->). unfold get_splitter in Hg.
  cbn [two_deep lookup_entry ekey key_eqb ekind_eqb fst snd andb] in Hg.
  destruct ("a" =? x) eqn:Ea.
  - apply String.eqb_eq in Ea; subst x. injection Hg as <-.
    destruct Hi as [<-|[<-|[]]]; vm_compute in Hc; try discriminate. split; reflexivity.
  - destruct ("b" =? x) eqn:Eb; [|discriminate].
    apply String.eqb_eq in Eb; subst x. injection Hg as <-.
    destruct Hi as [<-|[<-|[]]]; vm_compute in Hc; discriminate.
Qed.

Lemma example_two_deep :
  (forall a b c, splits_to two_deep test_ctx a b -> splits_to two_deep test_ctx b c -> False) /\
  exists g, compile two_deep test_ctx "a" [] = Ok g /\ List.length (g_nodes g) = 4.
Proof.
  split.
  - intros a b c H1 H2. apply two_deep_splits in H1 as [-> ->]. apply two_deep_splits in H2 as [H _]. discriminate.
  - eexists. split; [vm_compute; reflexivity | reflexivity].
Qed.

Definition fail_cycle : list entry :=
  [ EResolver "a" (Resolver "" [] None [("*", Failover "b" "" [] [])] false);
    EResolver "b" (Resolver "" [] (Some (Redirect "c" "" "")) [] false);
    EResolver "c" (Resolver "" [] (Some (Redirect "b" "" "")) [] false) ].

Lemma example_failover_cycle :
  Req fail_cycle test_ctx "a" (QFail (Tgt "b" "" "dc1")) /\
  cyclic fail_cycle test_ctx (Tgt "b" "" "dc1") /\
  compile fail_cycle test_ctx "a" [] = Err ECircularRedirect.
Proof.
  split; [|split; [|vm_compute; reflexivity]].
  - apply (req_failover fail_cycle test_ctx "a" (Tgt "a" "" "dc1") (Tgt "a" "" "dc1")).
    + exact (req_root_plain fail_cycle test_ctx "a" eq_refl).
    + apply orbit_final. vm_compute. reflexivity.
    + vm_compute. left. reflexivity.
  - assert (H : forall n, walk fail_cycle test_ctx n (Tgt "b" "" "dc1") <> None /\
                          walk fail_cycle test_ctx n (Tgt "c" "" "dc1") <> None).
    { induction n as [|n [IHb IHc]]; [split; discriminate|]. split; cbn [walk]; [exact IHc | exact IHb]. }
    intros n. apply H.
Qed.

Definition split_cycle : list entry :=
  [ EProxy "http"; ESplitter "a" [Split 10000 "b" ""]%N; ESplitter "b" [Split 10000 "a" ""]%N ].

Lemma example_splitter_cycle :
  Req split_cycle test_ctx "a" (QSplit "a") /\ SplitPath split_cycle test_ctx "a" "a" /\
  compile split_cycle test_ctx "a" [] = Err ECircularReference.
Proof.
  split; [|split; [|vm_compute; reflexivity]].
  - exact (req_root_plain split_cycle test_ctx "a" eq_refl).
  - apply (sp_step _ _ "a" "b" "a"); [|apply sp_one].
    + exists [Split 10000 "b" ""]%N, (Split 10000 "b" "")%N.
      split; [reflexivity|]. split; [left; reflexivity|]. split; vm_compute; reflexivity.
    + exists [Split 10000 "a" ""]%N, (Split 10000 "a" "")%N.
      split; [reflexivity|]. split; [left; reflexivity|]. split; vm_compute; reflexivity.
Qed.


(* the hypothesis of write_preserves_validity holds of [ex_entries], and a write to it is accepted *)
Lemma example_validity :
  failover_wf ex_entries /\
  write ex_entries (WPut (EDefaults "b" "http" false)) =
    (proposed ex_entries (WPut (EDefaults "b" "http" false)), true).
Proof.
  split; [|vm_compute; reflexivity].
  intros n r key f Hg Hin. unfold get_resolver in Hg.
  cbn [ex_entries lookup_entry ekey key_eqb ekind_eqb fst snd andb] in Hg.
  destruct ("b" =? n).
  - injection Hg as <-. cbn [rs_failover] in Hin. destruct Hin as [H|[]]. injection H as _ <-. left. reflexivity.
  - destruct ("c" =? n); [|discriminate]. injection Hg as <-. destruct Hin.
Qed.


(* ------------------------------------------------------------------ evaluation contexts *)

(* chain "a" has a splitter in front of its resolver; the resolver redirects to a subset that does
   not exist.  The guard (dc1, no override) never resolves it and accepts every write; a proxy that
   asks for the chain with OverrideProtocol = tcp gets an error (finding C15-guard-context). *)
Definition ctx_w1 : wop := WPut (EProxy "http").
Definition ctx_w2 : wop := WPut (ESplitter "a" [Split 5000 "b" ""; Split 5000 "c" ""]%N).
Definition ctx_w3 : wop := WPut (EResolver "a" (Resolver "" [] (Some (Redirect "b" "v9" "")) [] false)).
Definition ctx_store : list entry := fst (write (fst (write (fst (write [] ctx_w1)) ctx_w2)) ctx_w3).

Lemma context_dependence :
  Reachable ctx_store /\
  (exists g, compile ctx_store test_ctx "a" [] = Ok g) /\
  compile ctx_store (Ctx "dc1" "tcp") "a" [] = Err EBadSubset.
Proof.
  split; [|split; [eexists; vm_compute; reflexivity | vm_compute; reflexivity]].
  unfold ctx_store.
  eapply reach_write with (op := ctx_w3) (acc := snd (write (fst (write (fst (write [] ctx_w1)) ctx_w2)) ctx_w3));
    [| cbn; intros key f []| apply surjective_pairing].
  eapply reach_write with (op := ctx_w2) (acc := snd (write (fst (write [] ctx_w1)) ctx_w2));
    [| exact I | apply surjective_pairing].
  eapply reach_write with (op := ctx_w1) (acc := snd (write [] ctx_w1)); [constructor | exact I | apply surjective_pairing].
Qed.

Lemma context_independence_partial es cx svc mo g :
  c_dc cx = "dc1" -> disable_adv cx = false ->
  compile es test_ctx svc mo = Ok g ->
  exists g', compile es cx svc mo = Ok g' /\ g_start g' = g_start g /\ g_nodes g' = g_nodes g /\ g_targets g' = g_targets g.
Proof. intros Hdc Hdis. apply compile_ctx_ok; [symmetry; exact Hdc | symmetry; exact Hdis]. Qed.

(* ------------------------------------------------------------------ failover is never followed *)

(* a and b fail over to each other: no cycle arises, because a failover target is only resolved
   (redirects, default subset) and listed; its own failover is not looked at *)
Definition mutual_failover : list entry :=
  [ EResolver "a" (Resolver "" [] None [("*", Failover "b" "" [] [])] false);
    EResolver "b" (Resolver "" [] None [("*", Failover "a" "" [] [])] false) ].

Lemma mutual_failover_compiles :
  exists g, compile mutual_failover test_ctx "a" [] = Ok g /\
            g_nodes g = [(NResolver (Tgt "a" "" "dc1"), ResolverN false [Tgt "b" "" "dc1"])] /\
            g_targets g = [Tgt "a" "" "dc1"; Tgt "b" "" "dc1"].
Proof. eexists. split; [vm_compute; reflexivity|]. split; reflexivity. Qed.

(* the internal invariants used as hypotheses hold of the state every compilation starts from *)
Lemma initial_invariants es cx svc : AInv es cx svc [] [] st0 /\ Final_memo es cx st0.
Proof. split; [apply I_st0 | intros t Ht; discriminate]. Qed.
