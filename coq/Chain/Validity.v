(* C15 — an accepted write breaks no chain: every chain that compiled over the stored entries
   still compiles after EnsureConfigEntry / DeleteConfigEntry accepted the write.  The chains that
   can reach the written name are re-validated by the guard (the walk over the link index is
   complete: link_closure_closed); all other chains read none of the changed entries (Frame). *)
From Verif Require Import Base.Prelude.
From Verif Require Import Chain.Model.
From Verif Require Import Chain.Lemmas.
From Verif Require Import Chain.Passes.
From Verif Require Import Chain.Resolve.
From Verif Require Import Chain.Assemble.
From Verif Require Import Chain.Proofs.
From Verif Require Import Chain.Det.
From Verif Require Import Chain.Store.
From Verif Require Import Chain.Order.
From Verif Require Import Chain.Final.
From Verif Require Import Chain.Frame.
Local Open Scope string_scope.
Local Open Scope list_scope.

(* ------------------------------------------------------------------ the walk over the link index *)

Section Closure.
  Variable store : list entry.

  Definition universe (n : string) : list string := n :: map ename store.

  Lemma linkers_universe n x y : In x (linkers store y) -> In x (universe n).
  Proof.
    unfold linkers. intros H. apply in_map_iff in H as (e & <- & He). apply filter_In in He as [He _].
    right. apply in_map. exact He.
  Qed.

  (* invariant of the walk *)
  Definition walk_inv (n : string) (queue seen : list string) : Prop :=
    NoDup seen /\ incl seen (universe n) /\ incl queue seen /\
    forall x, In x seen -> In x queue \/ incl (linkers store x) seen.

  Lemma link_closure_seen : forall fuel queue seen, incl seen (link_closure fuel store queue seen).
  Proof.
    induction fuel as [|f IH]; intros queue seen; cbn [link_closure]; [apply incl_refl|].
    destruct queue as [|q queue]; [apply incl_refl|].
    eapply incl_tran; [|apply IH]. apply incl_appl, incl_refl.
  Qed.

  Lemma universe_bound n seen : NoDup seen -> incl seen (universe n) -> List.length seen <= S (List.length store).
  Proof.
    intros Hn Hi. apply NoDup_incl_length in Hi; auto. unfold universe in Hi. cbn [List.length] in Hi.
    rewrite map_length in Hi. exact Hi.
  Qed.

  Lemma link_closure_closed n : forall fuel queue seen,
    walk_inv n queue seen ->
    List.length queue + S (List.length store) < fuel + List.length seen ->
    let C := link_closure fuel store queue seen in
    forall x, In x C -> incl (linkers store x) C.
  Proof.
    induction fuel as [|f IH]; intros queue seen (Hnd & Hu & Hq & Hcl) Hlen; cbn [link_closure].
    - pose proof (universe_bound n seen Hnd Hu). cbn [Nat.add] in Hlen. lia.
    - destruct queue as [|q queue].
      + intros x Hx. destruct (Hcl x Hx) as [[]|H]; exact H.
      + set (fresh := dedup String.eqb (filter (fun x => negb (memb String.eqb x seen)) (linkers store q))).
        assert (Hfresh : forall x, In x fresh <-> In x (linkers store q) /\ ~ In x seen).
        { intros x. unfold fresh. rewrite (dedup_In String.eqb String.eqb_eq), filter_In, negb_true_iff.
          rewrite (memb_not_In String.eqb String.eqb_eq). tauto. }
        apply IH.
        * split; [|split; [|split]].
          -- apply NoDup_app_intro'; auto; [apply (dedup_NoDup String.eqb String.eqb_eq)|].
             intros x H1 H2. apply Hfresh in H2 as [_ H2]. contradiction.
          -- intros x Hx. apply in_app_or in Hx as [Hx|Hx]; auto.
             apply Hfresh in Hx as [Hx _]. eapply linkers_universe; eauto.
          -- intros x Hx. apply in_or_app. apply in_app_or in Hx as [Hx|Hx]; auto.
             left. apply Hq. right; auto.
          -- intros x Hx. apply in_app_or in Hx as [Hx|Hx].
             ++ destruct (Hcl x Hx) as [[<-|H]|H].
                ** right. intros y Hy. apply in_or_app.
                   destruct (in_dec string_dec y seen) as [Hs|Hs]; auto. right. apply Hfresh. auto.
                ** left. apply in_or_app; auto.
                ** right. intros y Hy. apply in_or_app. left; auto.
             ++ left. apply in_or_app; auto.
        * rewrite !app_length. cbn [List.length] in Hlen. lia.
  Qed.

  Lemma affected_closed kind n :
    kind <> KProxy ->
    let C := affected store (kind, n) in
    In n C /\ forall x, In x C -> incl (linkers store x) C.
  Proof.
    intros Hk. unfold affected. cbn [fst snd]. destruct kind; try congruence;
      (split; [apply link_closure_seen; left; reflexivity|];
       apply (link_closure_closed n);
       [split; [constructor; [intros [] | constructor] |
         split; [intros x [<-|[]]; left; reflexivity |
         split; [apply incl_refl | intros x [<-|[]]; left; left; reflexivity]]]
       | cbn [List.length]; lia]).
  Qed.
End Closure.

(* ------------------------------------------------------------------ lookups after a write *)

Lemma lookup_entry_app l1 l2 k :
  lookup_entry (l1 ++ l2) k = match lookup_entry l1 k with Some e => Some e | None => lookup_entry l2 k end.
Proof.
  induction l1 as [|e l1 IH]; cbn [app lookup_entry]; [reflexivity|]. destruct (key_eqb (ekey e) k); auto.
Qed.

Lemma lookup_remove_key store k k' :
  lookup_entry (remove_key store k) k' = if key_eqb k k' then None else lookup_entry store k'.
Proof.
  induction store as [|e s IH]; cbn [remove_key lookup_entry]; [destruct (key_eqb k k'); reflexivity|].
  destruct (key_eqb (ekey e) k) eqn:E1.
  - apply key_eqb_eq in E1. rewrite IH, E1. destruct (key_eqb k k'); reflexivity.
  - cbn [lookup_entry]. rewrite IH. destruct (key_eqb (ekey e) k') eqn:E2; [|reflexivity].
    apply key_eqb_eq in E2. subst k'. destruct (key_eqb k (ekey e)) eqn:E3; [|reflexivity].
    apply key_eqb_eq in E3. subst k. rewrite key_eqb_refl in E1. discriminate.
Qed.

Lemma lookup_proposed store op k' :
  k' <> op_key op -> lookup_entry (proposed store op) k' = lookup_entry store k'.
Proof.
  intros Hne. assert (Hf : key_eqb (op_key op) k' = false).
  { destruct (key_eqb (op_key op) k') eqn:E; [apply key_eqb_eq in E; congruence | reflexivity]. }
  destruct op as [e|k]; cbn [proposed op_key] in *.
  - unfold put_entry. rewrite lookup_entry_app, lookup_remove_key, Hf.
    destruct (lookup_entry store k'); [reflexivity|]. cbn [lookup_entry]. rewrite Hf. reflexivity.
  - rewrite lookup_remove_key, Hf. reflexivity.
Qed.

(* ------------------------------------------------------------------ names a chain can read *)

Definition failover_wf (store : list entry) : Prop :=
  forall n r key f, get_resolver store n = Some r -> In (key, f) (rs_failover r) -> fo_dcs f = [] \/ fo_targets f = [].

Lemma get_router_In es n l : get_router es n = Some l -> In (ERouter n l) es.
Proof.
  unfold get_router. destruct (lookup_entry es (KRouter, n)) as [e|] eqn:E; [|discriminate].
  apply lookup_entry_In in E as [Hi Hk]. destruct e; try discriminate.
  intros H; injection H as ->. cbn [ekey] in Hk. injection Hk as ->. exact Hi.
Qed.

Lemma get_splitter_In' es n l : get_splitter es n = Some l -> In (ESplitter n l) es.
Proof.
  unfold get_splitter. destruct (lookup_entry es (KSplitter, n)) as [e|] eqn:E; [|discriminate].
  apply lookup_entry_In in E as [Hi Hk]. destruct e; try discriminate.
  intros H; injection H as ->. cbn [ekey] in Hk. injection Hk as ->. exact Hi.
Qed.

Lemma linkers_intro store e m : In e store -> is_graph_kind e = true -> In m (related e) -> In (ename e) (linkers store m).
Proof.
  intros Hi Hg Hm. unfold linkers. apply in_map. apply filter_In. split; auto.
  rewrite Hg. cbn [andb]. apply (memb_In String.eqb String.eqb_eq). exact Hm.
Qed.

Lemma assoc_In_str {B} k (v : B) l : assoc String.eqb k l = Some v -> In (k, v) l.
Proof. apply (assoc_In String.eqb String.eqb_eq). Qed.

(* a failover target is a target of the same service or of a service the resolver entry lists *)
Lemma failover_targets_related cx n r t ft :
  t_svc t = n ->
  (forall key f, In (key, f) (rs_failover r) -> fo_dcs f = [] \/ fo_targets f = []) ->
  In ft (failover_targets cx r t) -> t_svc ft = n \/ In (t_svc ft) (related (EResolver n r)).
Proof.
  intros Hn Hwf. unfold failover_targets. destruct (rs_failover r) as [|p fos'] eqn:Efo; [intros []|].
  rewrite <- Efo in *.
  destruct (match assoc String.eqb (t_sub t) (rs_failover r) with Some f => Some f | None => assoc String.eqb "*" (rs_failover r) end)
    as [f|] eqn:Ea; [|intros []].
  assert (Hin : exists key, In (key, f) (rs_failover r)).
  { destruct (assoc String.eqb (t_sub t) (rs_failover r)) as [f0|] eqn:E1.
    - injection Ea as ->. eexists. eapply assoc_In_str; eauto.
    - eexists. eapply assoc_In_str; eauto. }
  destruct Hin as (key & Hin). specialize (Hwf key f Hin).
  intros Hft. apply filter_In in Hft as [Hft _].
  assert (Hrel : forall s, s <> "" ->
             (fo_targets f = [] /\ s = fo_svc f) \/ (exists x, In x (fo_targets f) /\ s = ft_svc x) ->
             In s (related (EResolver n r))).
  { intros s Hs Hc. cbn [related]. apply in_or_app. right. apply in_flat_map. exists (key, f). split; auto. cbn [snd].
    assert (Hd : default_if_empty s n = s) by (unfold default_if_empty; apply String.eqb_neq in Hs; rewrite Hs; reflexivity).
    destruct Hc as [[Ht ->]|(x & Hx & ->)].
    - rewrite Ht. left. exact Hd.
    - destruct (fo_targets f) as [|y ys] eqn:Et; [destruct Hx|]. rewrite <- Hd. apply in_map with (f := fun x => default_if_empty (ft_svc x) n). exact Hx. }
  assert (Hsvc : forall s sub dc, ft = rewrite_target cx t s sub dc ->
             (fo_targets f = [] /\ s = fo_svc f) \/ (exists x, In x (fo_targets f) /\ s = ft_svc x) ->
             t_svc ft = n \/ In (t_svc ft) (related (EResolver n r))).
  { intros s sub dc -> Hc. destruct (rewrite_target_svc cx t s sub dc) as [-> | [Hne ->]]; [left; exact Hn|].
    right. apply Hrel; auto. }
  destruct (fo_dcs f) as [|d ds] eqn:Ed.
  - destruct (fo_targets f) as [|x xs] eqn:Et.
    + destruct Hft as [<-|[]]. eapply Hsvc; [reflexivity|]. left. auto.
    + apply in_map_iff in Hft as (y & <- & Hy). eapply Hsvc; [reflexivity|]. right. exists y. auto.
  - destruct Hwf as [Hw|Hw]; [discriminate|].
    apply in_map_iff in Hft as (y & <- & Hy). eapply Hsvc; [reflexivity|]. left. auto.
Qed.

(* ------------------------------------------------------------------ a chain without graph entries *)

Lemma plain_resolve es x f : get_resolver es x = None ->
  resolve_loop es test_ctx f st0 [] (new_target test_ctx x "") =
  Ok (set_proto st0 (norm_proto (raw_protocol es x)), LFinal (new_target test_ctx x "") default_resolver).
Proof.
  intros Hv.
  assert (Hs : step test_ctx (resolver_of es x) (new_target test_ctx x "") = SFinal).
  { unfold resolver_of. rewrite Hv. reflexivity. }
  assert (Hr : resolver_of es x = default_resolver) by (unfold resolver_of; rewrite Hv; reflexivity).
  destruct f; cbn [resolve_loop]; unfold mem_resolver; cbn [st0 s_resolvers assoc new_target t_svc];
    unfold record_protocol; cbn [st0 s_proto String.eqb memb]; cbn [new_target] in Hs; rewrite Hs, Hr; reflexivity.
Qed.

Lemma plain_chain_compiles es x mo :
  get_router es x = None -> get_splitter es x = None -> get_resolver es x = None ->
  exists g, compile es test_ctx x mo = Ok g.
Proof.
  intros Hr Hs Hv.
  set (t := new_target test_ctx x "").
  set (st1 := set_proto st0 (norm_proto (raw_protocol es x))).
  set (stf := record_resolver (retain st1 t) t (RNode true [])).
  assert (Hg : get_resolver_node es test_ctx st0 t = Ok (stf, t)).
  { unfold get_resolver_node. unfold t at 1. rewrite (plain_resolve es x _ Hv). fold t st1.
    assert (He : external_check es default_resolver t = None).
    { unfold external_check. destruct (get_defaults es (t_svc t)) as [[? [|]]|]; reflexivity. }
    rewrite He. reflexivity. }
  assert (Ha : assemble es test_ctx x = Ok (stf, NResolver t, None)).
  { unfold assemble. change (disable_adv test_ctx) with false. cbn iota. rewrite Hr.
    unfold get_split_or_resolve. fold t. change (t_svc t) with x.
    assert (Hsp : get_splitter_node es test_ctx (splitter_fuel es) st0 x = Ok (st0, None)).
    { unfold splitter_fuel. cbn [get_splitter_node]. change (mem_splitter st0 x) with false. cbn iota.
      change (disable_adv test_ctx) with false. cbn iota. rewrite Hs. reflexivity. }
    rewrite Hsp, Hg. reflexivity. }
  unfold compile, compile_ord. rewrite Ha.
  destruct (passes_spec es test_ctx x _ _ _ (go_order mo (to_nodes x stf None)) Ha) as [Hd|(Hd & ns1 & ns2 & r & Hf & Hrm & _)];
    cbn zeta in *.
  - exfalso. revert Hd. unfold to_nodes, stf, record_resolver, retain, st1, set_proto.
    cbn [s_splitters s_resolvers st0 upsert map app fst snd rn_default rn_failover].
    unfold detect_fuel. cbn [List.length detect memb assoc]. rewrite nid_eqb_refl.
    cbn [children first_bad]. discriminate.
  - rewrite Hd, Hf, Hrm. change (s_adv stf) with false. rewrite andb_false_r. eexists. reflexivity.
Qed.

(* ------------------------------------------------------------------ preserved validity *)

Theorem write_preserves_validity store op store' mo :
  failover_wf store ->
  write store op = (store', true) ->
  forall x, (exists g, compile store test_ctx x mo = Ok g) -> exists g, compile store' test_ctx x mo = Ok g.
Proof.
  intros Hwf Hw x Hx.
  destruct (write_guard _ _ _ _ Hw) as (Hacc & _ & Hst). destruct (Hst eq_refl) as [->|[_ ->]]; [|exact Hx].
  destruct (proj1 Hacc eq_refl) as [Hnv|Hall].
  { (* deleting an absent entry: the store is unchanged up to the (absent) key *)
    destruct op as [e|k]; [destruct Hnv|]. cbn [no_validation] in Hnv.
    assert (Hsame : compile (proposed store (WDelete k)) test_ctx x mo = compile store test_ctx x mo).
    { unfold compile. rewrite (assemble_ext (proposed store (WDelete k)) store); cycle 1.
      - intros k'. cbn [proposed]. rewrite lookup_remove_key. destruct (key_eqb k k') eqn:E; [|reflexivity].
        apply key_eqb_eq in E. subst. auto.
      - cbn [proposed]. clear - Hnv. induction store as [|e s IH]; [reflexivity|]. cbn [remove_key lookup_entry] in *.
        destruct (key_eqb (ekey e) k); [discriminate|]. cbn [List.length]. f_equal. apply IH. exact Hnv.
      - destruct (assemble store test_ctx x) as [[[st start] router]|e]; [|reflexivity].
        apply compile_ext.
        + intros k'. cbn [proposed]. rewrite lookup_remove_key. destruct (key_eqb k k') eqn:E; [|reflexivity].
          apply key_eqb_eq in E. subst. auto.
        + cbn [proposed]. clear - Hnv. induction store as [|e s IH]; [reflexivity|]. cbn [remove_key lookup_entry] in *.
          destruct (key_eqb (ekey e) k); [discriminate|]. cbn [List.length]. f_equal. apply IH. exact Hnv. }
    rewrite Hsame. exact Hx. }
  (* a validated write *)
  assert (Hmo : forall s, In s (affected store (op_key op)) -> exists g, compile (proposed store op) test_ctx s mo = Ok g).
  { intros s Hs. destruct (Hall s Hs) as (g & Hg). rewrite (compile_map_order _ _ _ mo []). eauto. }
  destruct (op_key op) as [kind n] eqn:Ek.
  destruct (ekind_eqb kind KProxy) eqn:Ekp.
  - (* proxy-defaults: every chain with a graph entry is re-validated, the others always compile *)
    apply ekind_eqb_eq in Ekp. subst kind.
    destruct (in_dec string_dec x (affected store (KProxy, n))) as [Hi|Hn]; [apply Hmo; exact Hi|].
    unfold affected in Hn. cbn [fst] in Hn.
    assert (Hnone : forall K, K <> KProxy -> K <> KDefaults -> lookup_entry store (K, x) = None).
    { intros K H1 H2. destruct (lookup_entry store (K, x)) as [e|] eqn:E; [|reflexivity]. exfalso.
      apply lookup_entry_In in E as [Hi Hk]. apply Hn. apply in_map_iff. exists e. split.
      - unfold ename. rewrite Hk. reflexivity.
      - apply filter_In. split; auto. destruct e; cbn [ekey] in Hk; injection Hk as <- _; try reflexivity; congruence. }
    assert (Hprop : forall K, K <> KProxy -> lookup_entry (proposed store op) (K, x) = lookup_entry store (K, x)).
    { intros K HK. apply lookup_proposed. rewrite Ek. intros E; injection E as E _. congruence. }
    apply plain_chain_compiles.
    + unfold get_router. rewrite Hprop, Hnone by discriminate. reflexivity.
    + unfold get_splitter. rewrite Hprop, Hnone by discriminate. reflexivity.
    + unfold get_resolver. rewrite Hprop, Hnone by discriminate. reflexivity.
  - (* any other kind *)
    assert (Hkp : kind <> KProxy) by (intros ->; discriminate).
    destruct (affected_closed store kind n Hkp) as [HnC Hcl]. set (C := affected store (kind, n)) in *.
    destruct (in_dec string_dec x C) as [Hi|Hn]; [apply Hmo; exact Hi|].
    rewrite (compile_frame store (proposed store op) test_ctx (fun y => ~ In y C)); auto.
    + intros y Hy. unfold get_router. rewrite lookup_proposed; [reflexivity|]. rewrite Ek. intros E; injection E as _ <-. auto.
    + intros y Hy. unfold get_splitter. rewrite lookup_proposed; [reflexivity|]. rewrite Ek. intros E; injection E as _ <-. auto.
    + intros y Hy. unfold get_resolver. rewrite lookup_proposed; [reflexivity|]. rewrite Ek. intros E; injection E as _ <-. auto.
    + intros y Hy. unfold get_defaults. rewrite lookup_proposed; [reflexivity|]. rewrite Ek. intros E; injection E as _ <-. auto.
    + unfold get_proxy. rewrite lookup_proposed; [reflexivity|]. rewrite Ek. intros E; injection E as <- _. auto.
    + intros y routes r Hy Hg Hr Hin. apply Hy. apply (Hcl _ Hin).
      apply (linkers_intro store (ERouter y routes)); [apply get_router_In; auto | reflexivity|].
      cbn [related]. right. apply in_map with (f := fun r => default_if_empty (rt_svc r) y). exact Hr.
    + intros y legs sp Hy Hg Hs Hin. apply Hy. apply (Hcl _ Hin).
      apply (linkers_intro store (ESplitter y legs)); [apply get_splitter_In'; auto | reflexivity|].
      cbn [related]. apply in_map with (f := fun s => default_if_empty (sp_svc s) y). exact Hs.
    + intros y r rd Hy Hg Hrd Hin. apply Hy. apply (Hcl _ Hin).
      apply (linkers_intro store (EResolver y r)); [apply get_resolver_In; auto | reflexivity|].
      cbn [related]. rewrite Hrd. apply in_or_app. left. left. reflexivity.
    + intros r t ft Hy Hg Hft Hin.
      destruct (failover_targets_related test_ctx (t_svc t) r t ft eq_refl (fun key f => Hwf _ _ key f Hg) Hft) as [He|Hrel].
      * apply Hy. rewrite <- He. exact Hin.
      * apply Hy. apply (Hcl _ Hin). apply (linkers_intro store (EResolver (t_svc t) r)); [apply get_resolver_In; auto | reflexivity | exact Hrel].
Qed.

(* ------------------------------------------------------------------ every reachable store is valid *)

(* what ServiceResolverConfigEntry.Validate guarantees of a written entry, as far as the link index
   needs it: no failover section with both Datacenters and Targets *)
Definition entry_wf (e : entry) : Prop :=
  match e with
  | EResolver _ r => forall key f, In (key, f) (rs_failover r) -> fo_dcs f = [] \/ fo_targets f = []
  | _ => True
  end.

Definition op_wf (op : wop) : Prop := match op with WPut e => entry_wf e | WDelete _ => True end.

(* the stores that arise from the empty store by EnsureConfigEntry / DeleteConfigEntry calls (accepted
   or not) with entries an endpoint can emit *)
Inductive Reachable : list entry -> Prop :=
| reach_empty : Reachable []
| reach_write store op store' acc : Reachable store -> op_wf op -> write store op = (store', acc) -> Reachable store'.

Lemma lookup_put_same store e : lookup_entry (put_entry store e) (ekey e) = Some e.
Proof.
  unfold put_entry. rewrite lookup_entry_app, lookup_remove_key, key_eqb_refl. cbn [lookup_entry].
  rewrite key_eqb_refl. reflexivity.
Qed.

Lemma failover_wf_proposed store op : failover_wf store -> op_wf op -> failover_wf (proposed store op).
Proof.
  intros Hwf Hop n r key f Hg Hin. unfold get_resolver in Hg.
  destruct (key_eqb (op_key op) (KResolver, n)) eqn:E.
  - apply key_eqb_eq in E. destruct op as [e|k]; cbn [op_key proposed] in *.
    + rewrite <- E, lookup_put_same in Hg. destruct e; try discriminate. injection Hg as ->.
      cbn [entry_wf op_wf] in Hop. eapply Hop; eauto.
    + subst k. rewrite lookup_remove_key, key_eqb_refl in Hg. discriminate.
  - rewrite lookup_proposed in Hg.
    + eapply (Hwf n r key f); eauto.
    + intros H. rewrite H, key_eqb_refl in E. discriminate.
Qed.

(* the history-level invariant: in every reachable store every chain compiles (and the link index
   lists every service a chain can read) *)
Theorem reachable_valid store :
  Reachable store -> failover_wf store /\ forall x mo, exists g, compile store test_ctx x mo = Ok g.
Proof.
  induction 1 as [|store op store' acc Hr [IHw IHv] Hop Hw].
  - split; [intros n r key f Hg; discriminate|]. intros x mo. apply plain_chain_compiles; reflexivity.
  - destruct acc.
    + split.
      * destruct (write_guard _ _ _ _ Hw) as (_ & _ & Hst). destruct (Hst eq_refl) as [->|[_ ->]]; auto.
        apply failover_wf_proposed; auto.
      * intros x mo. eapply write_preserves_validity; eauto.
    + destruct (write_guard _ _ _ _ Hw) as (_ & Hst & _). rewrite (Hst eq_refl). auto.
Qed.
