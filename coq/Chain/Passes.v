(* C15 — the passes over c.nodes: detectCircularReferences, flattenAdjacentSplitterNodes,
   removeUnusedNodes.  Everything here is about an arbitrary node table. *)
From Verif Require Import Base.Prelude.
From Verif Require Import Chain.Model.
From Verif Require Import Chain.Lemmas.
Local Open Scope string_scope.
Local Open Scope list_scope.

Notation lookup := (assoc nid_eqb).

Definition edge (ns : nodes) (a b : nid) : Prop :=
  exists nd, lookup a ns = Some nd /\ In b (children nd).

Inductive reachN (ns : nodes) : nid -> nid -> Prop :=
| reach_refl a : reachN ns a a
| reach_step a b c : edge ns a b -> reachN ns b c -> reachN ns a c.

Definition closed (ns : nodes) : Prop := forall a b, edge ns a b -> lookup b ns <> None.

(* a rank that strictly decreases along every edge: the table is acyclic and every walk is
   shorter than the rank of its first node *)
Definition Ranked (r : nid -> nat) (ns : nodes) : Prop := forall a b, edge ns a b -> r b < r a.

Lemma reachN_trans ns a b c : reachN ns a b -> reachN ns b c -> reachN ns a c.
Proof. induction 1; auto. intros. econstructor; eauto. Qed.

Lemma reachN_edge ns a b : edge ns a b -> reachN ns a b.
Proof. intros. econstructor; eauto. constructor. Qed.

Lemma Ranked_reach r ns a b : Ranked r ns -> reachN ns a b -> r b <= r a.
Proof. intros HR H. induction H; [lia|]. apply HR in H. lia. Qed.

Lemma Ranked_acyclic r ns a b : Ranked r ns -> edge ns a b -> reachN ns b a -> False.
Proof. intros HR He Hr. apply HR in He. apply (Ranked_reach r) in Hr; auto. lia. Qed.

(* ------------------------------------------------------------------ detect *)

Lemma first_bad_ok f l : first_bad f l = DOk <-> forall c, In c l -> f c = DOk.
Proof.
  induction l as [|c l IH]; cbn [first_bad In]; [tauto|].
  destruct (f c) eqn:E; rewrite ?IH; split; try discriminate; intros H.
  - intros x [<-|Hx]; auto.
  - intros x Hx; apply H; auto.
  - specialize (H c (or_introl eq_refl)). congruence.
  - specialize (H c (or_introl eq_refl)). congruence.
  - specialize (H c (or_introl eq_refl)). congruence.
Qed.

Lemma first_bad_bad f l r : first_bad f l = r -> r <> DOk -> exists c, In c l /\ f c = r.
Proof.
  induction l as [|c l IH]; cbn [first_bad]; [congruence|].
  destruct (f c) eqn:E; intros H Hr.
  - destruct (IH H Hr) as (x & Hx & Hfx). exists x; split; [right|]; auto.
  - exists c; split; [left|]; congruence.
  - exists c; split; [left|]; congruence.
  - exists c; split; [left|]; congruence.
Qed.

Fixpoint height (f : nat) (ns : nodes) (n : nid) : nat :=
  match lookup n ns with
  | None => 0
  | Some nd =>
    match f with
    | O => 0
    | S f' => match children nd with [] => 0 | cs => S (list_max (map (height f' ns) cs)) end
    end
  end.

Lemma height_le f ns n : height f ns n <= f.
Proof.
  revert n; induction f as [|f IH]; intros n; cbn [height]; destruct (lookup n ns) as [nd|]; try lia.
  destruct (children nd) as [|c cs]; [lia|].
  apply le_n_S. apply list_max_le. apply Forall_forall. intros x Hx.
  apply in_map_iff in Hx as (y & <- & _). apply IH.
Qed.

Lemma list_max_map_ext {A} (f g : A -> nat) l : (forall x, In x l -> f x = g x) -> list_max (map f l) = list_max (map g l).
Proof. intros H. f_equal. apply map_ext_in. exact H. Qed.

Lemma list_max_In_le {A} (f : A -> nat) l x : In x l -> f x <= list_max (map f l).
Proof.
  intros H. assert (Hm : list_max (map f l) <= list_max (map f l)) by lia.
  apply list_max_le in Hm. rewrite Forall_forall in Hm. apply Hm. apply in_map. exact H.
Qed.

(* where detect answers DOk the height no longer depends on the fuel *)
Lemma detect_height_stable ns : forall f vis n,
  detect f ns vis n = DOk -> forall f', f <= f' -> height f' ns n = height f ns n.
Proof.
  induction f as [|f IH]; intros vis n H f' Hf'.
  - cbn [detect] in H. destruct (memb nid_eqb n vis); [discriminate|].
    destruct f'; cbn [height]; destruct (lookup n ns) as [nd|]; try reflexivity.
    destruct (children nd); [reflexivity | discriminate].
  - cbn [detect] in H. destruct (memb nid_eqb n vis); [discriminate|].
    destruct f' as [|f']; [lia|]. cbn [height].
    destruct (lookup n ns) as [nd|]; [|reflexivity].
    destruct (children nd) as [|c cs] eqn:Ec; [reflexivity|].
    rewrite first_bad_ok in H. f_equal. apply list_max_map_ext.
    intros x Hx. eapply IH; [apply H; exact Hx | lia].
Qed.

(* every node reached from a node on which detect said DOk was itself visited with answer DOk *)
Lemma detect_desc ns : forall f vis n, detect f ns vis n = DOk ->
  forall m, reachN ns n m -> exists fm vm, fm <= f /\ detect fm ns vm m = DOk.
Proof.
  induction f as [|f IH]; intros vis n H m Hr.
  - destruct Hr as [a | a b c (nd & Hl & Hc) Hr]; [exists 0, vis; auto|].
    cbn [detect] in H. destruct (memb nid_eqb a vis); [discriminate|]. rewrite Hl in H.
    destruct (children nd); [destruct Hc | discriminate].
  - destruct Hr as [a | a b c (nd & Hl & Hc) Hr]; [exists (S f), vis; auto|].
    cbn [detect] in H. destruct (memb nid_eqb a vis); [discriminate|]. rewrite Hl in H.
    rewrite first_bad_ok in H. specialize (H b Hc).
    destruct (IH _ _ H c Hr) as (fm & vm & Hle & Hd). exists fm, vm. split; [lia | exact Hd].
Qed.

(* soundness: DOk at the start node yields a rank on everything reachable from it *)
Lemma detect_ranked ns F vis start : detect F ns vis start = DOk ->
  forall a b, reachN ns start a -> edge ns a b -> height F ns b < height F ns a.
Proof.
  intros H a b Hr (nd & Hl & Hc).
  destruct (detect_desc ns F vis start H a Hr) as (fa & va & Hle & Hd).
  assert (Hsa := detect_height_stable ns fa va a Hd F Hle).
  destruct fa as [|fa].
  - cbn [detect] in Hd. destruct (memb nid_eqb a va); [discriminate|]. rewrite Hl in Hd.
    destruct (children nd); [destruct Hc | discriminate].
  - cbn [detect] in Hd. destruct (memb nid_eqb a va); [discriminate|]. rewrite Hl in Hd.
    rewrite first_bad_ok in Hd. specialize (Hd b Hc).
    assert (Hsb := detect_height_stable ns fa (a :: va) b Hd F ltac:(lia)).
    rewrite Hsa, Hsb. cbn [height]. rewrite Hl.
    destruct (children nd) as [|c cs] eqn:Ec; [destruct Hc|].
    apply le_n_S. rewrite <- Ec in *. apply (list_max_In_le (height fa ns)). exact Hc.
Qed.

(* the depth bound: the current path has no repetition and lies inside the table *)
Lemma detect_no_fuel ns : forall f vis n,
  NoDup vis -> incl vis (map fst ns) -> List.length ns <= List.length vis + f ->
  detect f ns vis n <> DFuel.
Proof.
  induction f as [|f IH]; intros vis n Hnd Hin Hlen.
  - cbn [detect]. destruct (memb nid_eqb n vis) eqn:Em; [discriminate|].
    destruct (lookup n ns) as [nd|] eqn:El; [|discriminate].
    destruct (children nd); [discriminate|]. exfalso.
    apply (memb_not_In nid_eqb nid_eqb_eq) in Em.
    assert (Hn : NoDup (n :: vis)) by (constructor; auto).
    assert (Hi : incl (n :: vis) (map fst ns)).
    { intros x [<-|Hx]; [eapply assoc_Some_key; eauto using nid_eqb_eq | auto]. }
    apply NoDup_incl_length in Hi; auto. cbn [List.length] in Hi. rewrite map_length in Hi. lia.
  - cbn [detect]. destruct (memb nid_eqb n vis) eqn:Em; [discriminate|].
    destruct (lookup n ns) as [nd|] eqn:El; [|discriminate].
    intros Hb. apply first_bad_bad in Hb as (c & Hc & Hd); [|discriminate].
    apply (memb_not_In nid_eqb nid_eqb_eq) in Em.
    apply (IH (n :: vis) c); auto.
    + constructor; auto.
    + intros x [<-|Hx]; [eapply assoc_Some_key; eauto using nid_eqb_eq | auto].
    + cbn [List.length]. lia.
Qed.

Lemma detect_no_missing ns : closed ns -> forall f vis n,
  lookup n ns <> None -> detect f ns vis n <> DMissing.
Proof.
  intros Hc. induction f as [|f IH]; intros vis n Hn; cbn [detect];
    destruct (memb nid_eqb n vis); try discriminate;
    destruct (lookup n ns) as [nd|] eqn:El; try congruence.
  - destruct (children nd); discriminate.
  - intros Hb. apply first_bad_bad in Hb as (c & Hcc & Hd); [|discriminate].
    apply (IH (n :: vis) c); auto. apply (Hc n c). exists nd; auto.
Qed.

Lemma ranked_from (r : nid -> nat) ns s :
  (forall x y, reachN ns s x -> edge ns x y -> r y < r x) ->
  forall x y, reachN ns s x -> reachN ns x y -> r y <= r x.
Proof.
  intros HR x y Hx Hxy. induction Hxy as [|x x' y He Hr IH]; [lia|].
  assert (reachN ns s x') by (eapply reachN_trans; [exact Hx | apply reachN_edge; exact He]).
  specialize (HR x x' Hx He). specialize (IH H). lia.
Qed.

(* completeness: DOk is impossible when a cycle is reachable; with the two lemmas above the
   answer is then DCycle *)
Lemma detect_cycle ns F vis start a b :
  reachN ns start a -> edge ns a b -> reachN ns b a -> detect F ns vis start <> DOk.
Proof.
  intros Hr He Hb H.
  assert (HR : forall x y, reachN ns start x -> edge ns x y -> height F ns y < height F ns x)
    by (intros; eapply detect_ranked; eauto).
  assert (H1 := HR a b Hr He).
  assert (H2 : reachN ns start b) by (eapply reachN_trans; [exact Hr | apply reachN_edge; exact He]).
  assert (H3 := ranked_from _ ns start HR b a H2 Hb). lia.
Qed.

(* ------------------------------------------------------------------ flatten *)

Definition is_splitter (ns : nodes) (k : nid) : bool :=
  match lookup k ns with Some (SplitterN _) => true | _ => false end.

Lemma lookup_upsert k k' (nd : node) ns : lookup k' (upsert nid_eqb k nd ns) = if nid_eqb k' k then Some nd else lookup k' ns.
Proof. apply assoc_upsert. exact nid_eqb_eq. Qed.

Lemma is_splitter_upsert ns k edges edges' x :
  lookup k ns = Some (SplitterN edges) ->
  is_splitter (upsert nid_eqb k (SplitterN edges') ns) x = is_splitter ns x.
Proof.
  intros Hl. unfold is_splitter. rewrite lookup_upsert. destruct (nid_eqb x k) eqn:E; [|reflexivity].
  apply nid_eqb_eq in E; subst. rewrite Hl. reflexivity.
Qed.

Lemma inline1_spec ns e :
  (exists inner, lookup (snd e) ns = Some (SplitterN inner) /\
                 inline1 ns e = (map (fun e2 => (wmul (fst e) (fst e2), snd e2)) inner, true))
  \/ (is_splitter ns (snd e) = false /\ inline1 ns e = ([e], false)).
Proof.
  unfold inline1, is_splitter. destruct (lookup (snd e) ns) as [[l|l|d fo]|]; eauto.
Qed.

(* where the edges of an inlined list come from *)
Lemma inline_In ns l e' : In e' (fst (inline ns l)) ->
  (In e' l /\ is_splitter ns (snd e') = false)
  \/ (exists e inner e2, In e l /\ lookup (snd e) ns = Some (SplitterN inner) /\ In e2 inner /\
                         e' = (wmul (fst e) (fst e2), snd e2)).
Proof.
  induction l as [|e l IH]; cbn [inline]; [intros []|].
  destruct (inline1 ns e) as [a c1] eqn:E1. destruct (inline ns l) as [b c2] eqn:E2. cbn [fst] in *.
  intros Hi. apply in_app_or in Hi as [Hi|Hi].
  - destruct (inline1_spec ns e) as [(inner & Hl & Hs)|(Hn & Hs)]; rewrite Hs in E1; injection E1 as <- <-.
    + apply in_map_iff in Hi as (e2 & <- & He2). right. exists e, inner, e2. cbn [In]; auto.
    + destruct Hi as [<-|[]]. left. cbn [In]; auto.
  - destruct (IH Hi) as [[H1 H2]|(e0 & inner & e2 & H1 & H2 & H3 & H4)].
    + left; cbn [In]; auto.
    + right. exists e0, inner, e2. cbn [In]; auto.
Qed.

Lemma inline_unchanged ns l : snd (inline ns l) = false -> fst (inline ns l) = l /\ forall e, In e l -> is_splitter ns (snd e) = false.
Proof.
  induction l as [|e l IH]; cbn [inline]; [intros _; split; [reflexivity | intros ? []]|].
  destruct (inline1 ns e) as [a c1] eqn:E1. destruct (inline ns l) as [b c2] eqn:E2. cbn [fst snd] in *.
  intros H. apply orb_false_iff in H as [-> ->]. destruct (IH eq_refl) as [-> Hall].
  destruct (inline1_spec ns e) as [(inner & Hl & Hs)|(Hn & Hs)]; rewrite Hs in E1; [discriminate|].
  injection E1 as <-. split; [reflexivity|]. intros x [<-|Hx]; auto.
Qed.

Lemma inline_changed ns l : snd (inline ns l) = true -> exists e, In e l /\ is_splitter ns (snd e) = true.
Proof.
  induction l as [|e l IH]; cbn [inline]; [discriminate|].
  destruct (inline1 ns e) as [a c1] eqn:E1. destruct (inline ns l) as [b c2] eqn:E2. cbn [fst snd] in *.
  intros H. apply orb_true_iff in H as [->| ->].
  - destruct (inline1_spec ns e) as [(inner & Hl & Hs)|(Hn & Hs)]; rewrite Hs in E1; [|discriminate].
    exists e; split; [left; reflexivity|]. unfold is_splitter. rewrite Hl. reflexivity.
  - destruct (IH eq_refl) as (x & Hx & Hs). exists x; split; [right|]; auto.
Qed.

Lemma inline_nonempty ns l :
  l <> [] -> (forall k e, lookup k ns = Some (SplitterN e) -> e <> []) -> fst (inline ns l) <> [].
Proof.
  destruct l as [|e l]; [congruence|]. intros _ Hne. cbn [inline].
  destruct (inline1 ns e) as [a c1] eqn:E1. destruct (inline ns l) as [b c2]. cbn [fst].
  destruct (inline1_spec ns e) as [(inner & Hl & Hs)|(Hn & Hs)]; rewrite Hs in E1; injection E1 as <- <-.
  - apply Hne in Hl. destruct inner; [congruence | discriminate].
  - discriminate.
Qed.

(* an invariant of the node table preserved by replacing one splitter's edges by their inlining *)
Definition Pres (P : nodes -> Prop) : Prop :=
  forall ns k edges, P ns -> lookup k ns = Some (SplitterN edges) ->
    P (upsert nid_eqb k (SplitterN (fst (inline ns edges))) ns).

Lemma flatten_pass_pres P : Pres P -> forall order ns, P ns -> P (fst (flatten_pass ns order)).
Proof.
  intros HP. induction order as [|k order IH]; intros ns H; cbn [flatten_pass]; [exact H|].
  destruct (lookup k ns) as [[l|edges|d fo]|] eqn:El; auto.
  destruct (inline ns edges) as [edges' ch] eqn:Ei.
  destruct ch; [cbn [fst]; apply IH|auto].
  specialize (HP ns k edges H El). rewrite Ei in HP. exact HP.
Qed.

Lemma flatten_pres P : Pres P -> forall fuel ords ns ns', P ns -> flatten fuel ords ns = Some ns' -> P ns'.
Proof.
  intros HP. induction fuel as [|f IH]; intros ords ns ns' H; cbn [flatten]; [discriminate|].
  destruct (flatten_pass ns (eff_order (hd [] ords) ns)) as [ns1 ch] eqn:Ep.
  assert (H1 : P ns1) by (change ns1 with (fst (ns1, ch)); rewrite <- Ep; apply flatten_pass_pres; auto).
  destruct ch; [apply IH; exact H1 | intros E; injection E as <-; exact H1].
Qed.

Lemma edge_upsert ns k edges edges' a b :
  lookup k ns = Some (SplitterN edges) ->
  edge (upsert nid_eqb k (SplitterN edges') ns) a b ->
  (a <> k /\ edge ns a b) \/ (a = k /\ In b (map snd edges')).
Proof.
  intros Hl (nd & Hn & Hc). rewrite lookup_upsert in Hn. destruct (nid_eqb a k) eqn:E.
  - apply nid_eqb_eq in E; subst. injection Hn as <-. right; auto.
  - apply nid_eqb_neq in E. left; split; auto. exists nd; auto.
Qed.

(* an inlined edge is an old edge or an old two-step walk through a splitter *)
Lemma inline_edge ns k edges b :
  lookup k ns = Some (SplitterN edges) -> In b (map snd (fst (inline ns edges))) ->
  (edge ns k b /\ is_splitter ns b = false) \/ exists s, edge ns k s /\ edge ns s b /\ is_splitter ns s = true.
Proof.
  intros Hl Hb. apply in_map_iff in Hb as (e' & <- & He').
  apply inline_In in He' as [[H1 H2]|(e & inner & e2 & H1 & H2 & H3 & ->)].
  - left. split; auto. exists (SplitterN edges); split; auto. cbn [children]. apply in_map; auto.
  - right. exists (snd e). split; [|split].
    + exists (SplitterN edges); split; auto. cbn [children]. apply in_map; auto.
    + exists (SplitterN inner); split; auto. cbn [children snd]. apply in_map; auto.
    + unfold is_splitter. rewrite H2. reflexivity.
Qed.

Lemma Pres_Ranked r : Pres (Ranked r).
Proof.
  intros ns k edges HR Hl a b He. apply (edge_upsert _ _ _ _ _ _ Hl) in He as [[Hn He]|[-> Hb]]; auto.
  apply (inline_edge _ _ _ _ Hl) in Hb as [[H _]|(s & H1 & H2 & _)]; auto.
  apply HR in H1. apply HR in H2. lia.
Qed.

Lemma Pres_closed : Pres closed.
Proof.
  intros ns k edges HC Hl a b He.
  assert (Hb : lookup b ns <> None).
  { apply (edge_upsert _ _ _ _ _ _ Hl) in He as [[Hn He]|[-> Hb]]; [eapply HC; eauto|].
    apply (inline_edge _ _ _ _ Hl) in Hb as [[H _]|(s & H1 & H2 & _)]; eapply HC; eauto. }
  rewrite lookup_upsert. destruct (nid_eqb b k); congruence.
Qed.

Lemma Pres_keys ks : Pres (fun ns => map fst ns = ks).
Proof.
  intros ns k edges H Hl. rewrite upsert_keys_in; auto using nid_eqb_eq.
  eapply assoc_Some_key; eauto using nid_eqb_eq.
Qed.

Definition nonempty_nodes (ns : nodes) : Prop :=
  forall k nd, lookup k ns = Some nd -> match nd with ResolverN _ _ => True | _ => children nd <> [] end.

Lemma nonempty_splitter ns k e : nonempty_nodes ns -> lookup k ns = Some (SplitterN e) -> e <> [].
Proof. intros H Hl. specialize (H k _ Hl). cbn [children] in H. intros ->. apply H. reflexivity. Qed.

Lemma Pres_nonempty : Pres nonempty_nodes.
Proof.
  intros ns k edges H Hl x nd Hx. rewrite lookup_upsert in Hx. destruct (nid_eqb x k); [|eapply H; eauto].
  injection Hx as <-. cbn [children].
  assert (Hne : fst (inline ns edges) <> []).
  { apply inline_nonempty; [eapply nonempty_splitter; eauto|]. intros k0 e He. eapply nonempty_splitter; eauto. }
  destruct (fst (inline ns edges)); [congruence | discriminate].
Qed.

(* nodes that are not splitters are never touched *)
Lemma Pres_others ns0 : Pres (fun ns => forall a, is_splitter ns0 a = false -> lookup a ns = lookup a ns0).
Proof.
  intros ns k edges H Hl. cbn beta. intros a Ha. rewrite lookup_upsert. destruct (nid_eqb a k) eqn:E; auto.
  apply nid_eqb_eq in E; subst. exfalso. specialize (H k Ha). rewrite Hl in H.
  unfold is_splitter in Ha. rewrite <- H in Ha. discriminate.
Qed.

Lemma Pres_is_splitter ns0 : Pres (fun ns => forall a, is_splitter ns a = is_splitter ns0 a).
Proof.
  intros ns k edges H Hl. cbn beta. intros a. rewrite (is_splitter_upsert _ _ _ _ _ Hl). apply H.
Qed.

(* ---- termination of the flatten loop ---- *)

Definition schild (ns : nodes) (a b : nid) : Prop :=
  exists edges, lookup a ns = Some (SplitterN edges) /\ In b (map snd edges) /\ is_splitter ns b = true.

Definition BndAt (r : nid -> nat) (K : nat) (ns : nodes) (a : nid) : Prop := forall b, schild ns a b -> r b < K.

Lemma schild_upsert_other ns k edges edges' a b :
  lookup k ns = Some (SplitterN edges) -> a <> k ->
  (schild (upsert nid_eqb k (SplitterN edges') ns) a b <-> schild ns a b).
Proof.
  intros Hl Hn. unfold schild. rewrite (is_splitter_upsert _ _ _ _ _ Hl), lookup_upsert.
  apply nid_eqb_neq in Hn. rewrite Hn. tauto.
Qed.

Lemma pass_bnd r K : forall order ns,
  Ranked r ns -> (forall a, BndAt r (S K) ns a) -> (forall a, In a order \/ BndAt r K ns a) ->
  forall a, BndAt r K (fst (flatten_pass ns order)) a.
Proof.
  induction order as [|k order IH]; intros ns HR HS HK; cbn [flatten_pass].
  - intros a. destruct (HK a) as [[]|H]; exact H.
  - assert (Hskip : (forall b, ~ schild ns k b) -> forall a, BndAt r K (fst (flatten_pass ns order)) a).
    { intros Hno. apply IH; auto. intros a. destruct (HK a) as [[<-|H]|H]; auto.
      right. intros b Hb. destruct (Hno b Hb). }
    destruct (lookup k ns) as [[l|edges|d fo]|] eqn:El;
      try (apply Hskip; intros b (e & He & _); congruence).
    destruct (inline ns edges) as [edges' ch] eqn:Ei. destruct ch.
    + cbn [fst]. assert (Ee : edges' = fst (inline ns edges)) by (rewrite Ei; reflexivity).
      apply IH.
      * subst edges'. apply Pres_Ranked; auto.
      * intros a. destruct (nid_eqb a k) eqn:E.
        -- apply nid_eqb_eq in E; subst a. intros b (e & He & Hb & Hs).
           rewrite lookup_upsert, nid_eqb_refl in He. injection He as <-.
           rewrite (is_splitter_upsert _ _ _ _ _ El) in Hs. subst edges'.
           apply (inline_edge _ _ _ _ El) in Hb as [[_ Hb]|(s & H1 & H2 & H3)]; [congruence|].
           ++ assert (r s < S K).
              { apply (HS k). exists edges. destruct H1 as (nd & Hn & Hc). rewrite El in Hn. injection Hn as <-. auto. }
              apply HR in H2. lia.
        -- apply nid_eqb_neq in E. intros b Hb. apply (schild_upsert_other _ _ _ _ _ _ El E) in Hb. apply (HS a); auto.
      * intros a. destruct (nid_eqb a k) eqn:E.
        -- apply nid_eqb_eq in E; subst a. right. intros b (e & He & Hb & Hs).
           rewrite lookup_upsert, nid_eqb_refl in He. injection He as <-.
           rewrite (is_splitter_upsert _ _ _ _ _ El) in Hs. subst edges'.
           apply (inline_edge _ _ _ _ El) in Hb as [[_ Hb]|(s & H1 & H2 & H3)]; [congruence|].
           ++ assert (r s < S K).
              { apply (HS k). exists edges. destruct H1 as (nd & Hn & Hc). rewrite El in Hn. injection Hn as <-. auto. }
              apply HR in H2. lia.
        -- apply nid_eqb_neq in E. destruct (HK a) as [[->|H]|H]; [congruence | auto |].
           right. intros b Hb. apply (schild_upsert_other _ _ _ _ _ _ El E) in Hb. apply H; auto.
    + apply Hskip. intros b (e & He & Hb & Hs). rewrite El in He. injection He as <-.
      assert (Hu : snd (inline ns edges) = false) by (rewrite Ei; reflexivity).
      apply inline_unchanged in Hu as [_ Hall]. apply in_map_iff in Hb as (x & <- & Hx).
      rewrite (Hall x Hx) in Hs. discriminate.
Qed.

Lemma pass_no_schild : forall order ns, (forall a b, ~ schild ns a b) -> snd (flatten_pass ns order) = false.
Proof.
  induction order as [|k order IH]; intros ns Hno; cbn [flatten_pass]; [reflexivity|].
  destruct (lookup k ns) as [[l|edges|d fo]|] eqn:El; auto.
  destruct (inline ns edges) as [edges' ch] eqn:Ei. destruct ch; [|auto].
  exfalso. assert (Hc : snd (inline ns edges) = true) by (rewrite Ei; reflexivity).
  apply inline_changed in Hc as (e & He & Hs). apply (Hno k (snd e)). exists edges. split; auto. split; auto.
  apply in_map; auto.
Qed.

Lemma eff_order_covers ord ns k : In k (map fst ns) -> In k (eff_order ord ns).
Proof.
  intros Hk. unfold eff_order. apply in_or_app.
  set (o := dedup nid_eqb (filter (fun k0 => memb nid_eqb k0 (map fst ns)) ord)).
  destruct (memb nid_eqb k o) eqn:E.
  - left. apply (memb_In nid_eqb nid_eqb_eq). exact E.
  - right. apply filter_In. split; auto. rewrite E. reflexivity.
Qed.

(* the flatten loop needs at most one pass per rank level, plus the pass that changes nothing *)
Lemma flatten_terminates r : forall K ords ns,
  Ranked r ns -> (forall a, BndAt r K ns a) -> flatten (S K) ords ns <> None.
Proof.
  induction K as [|K IH]; intros ords ns HR HB; cbn [flatten].
  - destruct (flatten_pass ns (eff_order (hd [] ords) ns)) as [ns1 ch] eqn:Ep.
    assert (Hc : snd (flatten_pass ns (eff_order (hd [] ords) ns)) = false).
    { apply pass_no_schild. intros a b Hs. specialize (HB a b Hs). lia. }
    rewrite Ep in Hc. cbn [snd] in Hc. subst ch. discriminate.
  - destruct (flatten_pass ns (eff_order (hd [] ords) ns)) as [ns1 ch] eqn:Ep.
    destruct ch; [|discriminate].
    assert (E1 : ns1 = fst (flatten_pass ns (eff_order (hd [] ords) ns))) by (rewrite Ep; reflexivity).
    apply IH.
    + subst ns1. apply flatten_pass_pres; auto using Pres_Ranked.
    + subst ns1. apply pass_bnd; [exact HR | exact HB |].
      intros a. destruct (lookup a ns) as [nd|] eqn:El.
      * left. apply eff_order_covers. eapply assoc_Some_key; eauto using nid_eqb_eq.
      * right. intros b (e & He & _). congruence.
Qed.

(* ------------------------------------------------------------------ removeUnusedNodes *)

Fixpoint pot (ns : nodes) (visited : list nid) : nat :=
  match ns with
  | [] => 0
  | (k, nd) :: ns' => (if memb nid_eqb k visited then 0 else 1 + List.length (children nd)) + pot ns' visited
  end.

Lemma pot_mono ns n visited : pot ns (n :: visited) <= pot ns visited.
Proof.
  induction ns as [|[k nd] ns IH]; cbn [pot memb]; [lia|].
  destruct (nid_eqb k n); cbn [orb]; destruct (memb nid_eqb k visited); lia.
Qed.

Lemma pot_visit ns n nd visited :
  lookup n ns = Some nd -> memb nid_eqb n visited = false ->
  pot ns (n :: visited) + 1 + List.length (children nd) <= pot ns visited.
Proof.
  induction ns as [|[k nd0] ns IH]; cbn [assoc pot memb]; [discriminate|].
  intros Hl Hm. destruct (nid_eqb n k) eqn:E.
  - injection Hl as ->. apply nid_eqb_eq in E; subst k. rewrite nid_eqb_refl, Hm. cbn [orb].
    pose proof (pot_mono ns n visited). lia.
  - assert (E' : nid_eqb k n = false).
    { apply nid_eqb_neq. apply nid_eqb_neq in E. congruence. }
    rewrite E'. cbn [orb]. specialize (IH Hl Hm). destruct (memb nid_eqb k visited); lia.
Qed.

Lemma reach_fuel_pot ns : reach_fuel ns = 2 + pot ns [].
Proof.
  unfold reach_fuel. f_equal. induction ns as [|[k nd] ns IH]; cbn [fold_right pot memb snd]; [reflexivity|].
  rewrite IH. lia.
Qed.

Lemma reach_no_fuel ns : forall fuel todo visited,
  List.length todo + pot ns visited < fuel -> reach fuel ns todo visited <> Err EOutOfFuel.
Proof.
  induction fuel as [|f IH]; intros todo visited Hlt; [lia|]. cbn [reach].
  destruct todo as [|n todo]; [discriminate|].
  destruct (memb nid_eqb n visited) eqn:Em.
  - apply IH. cbn [List.length] in Hlt. lia.
  - destruct (lookup n ns) as [nd|] eqn:El; [|discriminate].
    apply IH. pose proof (pot_visit ns n nd visited El Em). rewrite app_length. cbn [List.length] in Hlt. lia.
Qed.

(* what the work list computes: a set of present nodes containing the start and closed under edges *)
Lemma reach_spec ns : closed ns -> forall fuel todo visited vs,
  (forall v, In v visited -> lookup v ns <> None /\ forall c, edge ns v c -> In c visited \/ In c todo) ->
  (forall t, In t todo -> lookup t ns <> None) ->
  reach fuel ns todo visited = Ok vs ->
  incl visited vs /\ incl todo vs /\ forall v, In v vs -> lookup v ns <> None /\ forall c, edge ns v c -> In c vs.
Proof.
  intros HC. induction fuel as [|f IH]; intros todo visited vs Hv Ht; cbn [reach]; [discriminate|].
  destruct todo as [|n todo].
  - intros E; injection E as <-. split; [apply incl_refl|]. split; [intros ? []|].
    intros v Hi. destruct (Hv v Hi) as [H1 H2]. split; auto. intros c Hc. destruct (H2 c Hc) as [H|[]]; auto.
  - destruct (memb nid_eqb n visited) eqn:Em.
    + intros E. apply (memb_In nid_eqb nid_eqb_eq) in Em.
      destruct (IH todo visited vs) as (I1 & I2 & I3); auto.
      * intros v Hi. destruct (Hv v Hi) as [H1 H2]. split; auto. intros c Hc.
        destruct (H2 c Hc) as [H|[<-|H]]; auto.
      * intros t Hi. apply Ht. right; auto.
      * split; auto. split; auto. intros x [<-|Hx]; auto.
    + destruct (lookup n ns) as [nd|] eqn:El; [|discriminate]. intros E.
      destruct (IH (children nd ++ todo) (n :: visited) vs) as (I1 & I2 & I3); auto.
      * intros v [<-|Hi].
        -- split; [congruence|]. intros c (nd' & Hl' & Hc). rewrite El in Hl'. injection Hl' as <-.
           right. apply in_or_app; auto.
        -- destruct (Hv v Hi) as [H1 H2]. split; auto. intros c Hc.
           destruct (H2 c Hc) as [H|[<-|H]]; [left; right; auto | left; left; auto | right; apply in_or_app; auto].
      * intros t Hi. apply in_app_or in Hi as [Hi|Hi]; [|apply Ht; right; auto].
        apply (HC n t). exists nd; auto.
      * split; [intros x Hx; apply I1; right; auto|]. split; auto.
        intros x [<-|Hx]; [apply I1; left; auto | apply I2; apply in_or_app; auto].
Qed.

Lemma reach_no_internal ns : closed ns -> forall fuel todo visited,
  (forall t, In t todo -> lookup t ns <> None) -> reach fuel ns todo visited <> Err EInternal.
Proof.
  intros HC. induction fuel as [|f IH]; intros todo visited Ht; cbn [reach]; [discriminate|].
  destruct todo as [|n todo]; [discriminate|].
  destruct (memb nid_eqb n visited).
  - apply IH. intros t Hi; apply Ht; right; auto.
  - destruct (lookup n ns) as [nd|] eqn:El.
    + apply IH. intros t Hi. apply in_app_or in Hi as [Hi|Hi]; [|apply Ht; right; auto].
      apply (HC n t). exists nd; auto.
    + exfalso. apply (Ht n); [left; auto | exact El].
Qed.

Lemma assoc_filter_key {B} (f : nid -> bool) k (l : list (nid * B)) :
  assoc nid_eqb k (filter (fun p => f (fst p)) l) = if f k then assoc nid_eqb k l else None.
Proof.
  induction l as [|[k0 v] l IH]; cbn [filter assoc fst]; [destruct (f k); reflexivity|].
  destruct (f k0) eqn:E0; cbn [assoc].
  - destruct (nid_eqb k k0) eqn:E; [|exact IH]. apply nid_eqb_eq in E; subst. rewrite E0. reflexivity.
  - rewrite IH. destruct (nid_eqb k k0) eqn:E; [|reflexivity]. apply nid_eqb_eq in E; subst. rewrite E0. reflexivity.
Qed.

Lemma reach_err ns : forall fuel todo visited e,
  reach fuel ns todo visited = Err e -> e = EOutOfFuel \/ e = EInternal.
Proof.
  induction fuel as [|f IH]; intros todo visited e; cbn [reach]; [intros E; injection E as <-; auto|].
  destruct todo as [|n todo]; [discriminate|]. destruct (memb nid_eqb n visited); [apply IH|].
  destruct (lookup n ns); [apply IH | intros E; injection E as <-; auto].
Qed.

(* removeUnusedNodes on a closed table: succeeds, keeps the start node, the result is closed and a
   sub-table (same node stored under every kept key) *)
Lemma remove_unused_spec ns start :
  closed ns -> lookup start ns <> None ->
  exists ns2, remove_unused ns start = Ok ns2 /\
    lookup start ns2 <> None /\ closed ns2 /\
    (forall k nd, lookup k ns2 = Some nd -> lookup k ns = Some nd).
Proof.
  intros HC Hs. unfold remove_unused.
  destruct (reach (reach_fuel ns) ns [start] []) as [vs|e] eqn:Er.
  - exists (filter (fun p => memb nid_eqb (fst p) vs) ns). split; [reflexivity|].
    assert (Hv0 : forall v, In v (@nil nid) -> lookup v ns <> None /\ forall c, edge ns v c -> In c (@nil nid) \/ In c [start])
      by (intros ? []).
    assert (Ht0 : forall t, In t [start] -> lookup t ns <> None) by (intros t [<-|[]]; exact Hs).
    destruct (reach_spec ns HC _ _ _ _ Hv0 Ht0 Er) as (_ & I2 & I3).
    assert (Hst : memb nid_eqb start vs = true).
    { apply (memb_In nid_eqb nid_eqb_eq). apply I2. left; reflexivity. }
    split; [|split].
    + rewrite (assoc_filter_key (fun k => memb nid_eqb k vs)). rewrite Hst. exact Hs.
    + intros a b (nd & Hl & Hc). rewrite (assoc_filter_key (fun k => memb nid_eqb k vs)) in Hl |- *.
      destruct (memb nid_eqb a vs) eqn:Ea; [|discriminate].
      apply (memb_In nid_eqb nid_eqb_eq) in Ea. destruct (I3 a Ea) as [_ Hcl].
      assert (Hb : In b vs) by (apply Hcl; exists nd; auto).
      destruct (I3 b Hb) as [Hbl _]. apply (memb_In nid_eqb nid_eqb_eq) in Hb. rewrite Hb. exact Hbl.
    + intros k nd Hl. rewrite (assoc_filter_key (fun k => memb nid_eqb k vs)) in Hl.
      destruct (memb nid_eqb k vs); [exact Hl | discriminate].
  - exfalso. destruct (reach_err _ _ _ _ _ Er) as [-> | ->].
    + apply (reach_no_fuel ns (reach_fuel ns) [start] []); auto. rewrite reach_fuel_pot. cbn [List.length pot]. lia.
    + apply (reach_no_internal ns HC (reach_fuel ns) [start] []); auto. intros t [<-|[]]; exact Hs.
Qed.
