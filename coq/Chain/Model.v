(* C15 — model of the discovery-chain compiler (agent/consul/discoverychain/compile.go)
   and of the write-time graph validation (agent/consul/state/config_entry.go).

   Shaped like the Go code: the compiler state carries the protocol recorded so far, the
   "uses advanced routing" flag, the memo tables splitterNodes / resolveNodes (a node is
   recorded BEFORE the recursion below it, exactly as compile.go does), and the retained
   targets.  getResolverNode's RESOLVE_AGAIN loop carries its redirectHistory;
   detectCircularReferences carries the set of nodes on the current path.

   Outside the model (carried as opaque / ignored; the correspondence generator stays
   inside, the direct oracle runs on a wider generator): namespaces and partitions (CE:
   always "default"), cluster peers, sameness groups, mesh-gateway modes, transparent
   proxy, load-balancer and header-modifier payloads, connect/request timeouts (only
   whether a resolver is "default"), the customization hash, envoy extensions, service
   meta, virtual IPs, protocol letter case (generated lower case).  Target IDs are the
   triple (service, subset, datacenter): the Go string ID "subset.service.ns.part.dc" is
   injective on names without dots.

   No proofs in this file. *)
From Verif Require Import Base.Prelude.
Local Open Scope string_scope.
Local Open Scope list_scope.

(* ------------------------------------------------------------------ basic types *)

Inductive cerr :=
| EProtocolMismatch     (* "uses inconsistent protocols" *)
| ECircularRedirect     (* "detected circular resolver redirect" *)
| EBadSubset            (* "does not have a subset named" *)
| EExternalRedirect | EExternalSubsets | EExternalFailover   (* external SNI restrictions *)
| ECircularReference    (* "detected circular reference" *)
| ENoAdvanced           (* "does not permit advanced routing or splitting behavior" *)
| EOutOfFuel            (* model only: a loop bound was exhausted (proved unreachable) *)
| EInternal.            (* model only: a Go nil dereference / "non-retained node" (proved unreachable) *)

Inductive cres (A : Type) := Ok (a : A) | Err (e : cerr).
Arguments Ok {A} a.
Arguments Err {A} e.

Record target := Tgt { t_svc : string; t_sub : string; t_dc : string }.

Definition target_eqb (a b : target) : bool :=
  (t_svc a =? t_svc b) && (t_sub a =? t_sub b) && (t_dc a =? t_dc b).

Inductive nid := NRouter (s : string) | NSplitter (s : string) | NResolver (t : target).

Definition nid_eqb (a b : nid) : bool :=
  match a, b with
  | NRouter x, NRouter y => x =? y
  | NSplitter x, NSplitter y => x =? y
  | NResolver x, NResolver y => target_eqb x y
  | _, _ => false
  end.

Fixpoint memb {A} (eqb : A -> A -> bool) (x : A) (l : list A) : bool :=
  match l with [] => false | y :: l' => eqb x y || memb eqb x l' end.

Fixpoint assoc {A B} (eqb : A -> A -> bool) (k : A) (l : list (A * B)) : option B :=
  match l with
  | [] => None
  | (k', v) :: l' => if eqb k k' then Some v else assoc eqb k l'
  end.

(* replace the binding of k (first occurrence) or append a new one: Go's  m[k] = v *)
Fixpoint upsert {A B} (eqb : A -> A -> bool) (k : A) (v : B) (l : list (A * B)) : list (A * B) :=
  match l with
  | [] => [(k, v)]
  | (k', v') :: l' => if eqb k k' then (k, v) :: l' else (k', v') :: upsert eqb k v l'
  end.

Definition default_if_empty (v d : string) : string := if v =? "" then d else v.

(* ------------------------------------------------------------------ config entries *)

Record route := Route { rt_svc : string; rt_sub : string }.       (* Destination nil = Route "" "" *)
Record split := Split { sp_weight : N; sp_svc : string; sp_sub : string }.   (* weight in 1/100 % *)
Record redirect := Redirect { rd_svc : string; rd_sub : string; rd_dc : string }.
Record ftarget := FT { ft_svc : string; ft_sub : string; ft_dc : string }.
Record failover := Failover { fo_svc : string; fo_sub : string; fo_dcs : list string; fo_targets : list ftarget }.
Record resolver := Resolver {
  rs_default_subset : string;
  rs_subsets : list string;
  rs_redirect : option redirect;
  rs_failover : list (string * failover);       (* keyed by subset name or "*" *)
  rs_other : bool                               (* some timeout / load balancer / locality setting present *)
}.

Inductive entry :=
| ERouter (n : string) (routes : list route)
| ESplitter (n : string) (splits : list split)
| EResolver (n : string) (r : resolver)
| EDefaults (n : string) (protocol : string) (external_sni : bool)
| EProxy (protocol : string).                   (* proxy-defaults "global" *)

Inductive ekind := KRouter | KSplitter | KResolver | KDefaults | KProxy.

Definition ekind_eqb (a b : ekind) : bool :=
  match a, b with
  | KRouter, KRouter | KSplitter, KSplitter | KResolver, KResolver | KDefaults, KDefaults | KProxy, KProxy => true
  | _, _ => false
  end.

Definition ekey (e : entry) : ekind * string :=
  match e with
  | ERouter n _ => (KRouter, n)
  | ESplitter n _ => (KSplitter, n)
  | EResolver n _ => (KResolver, n)
  | EDefaults n _ _ => (KDefaults, n)
  | EProxy _ => (KProxy, "global")
  end.

Definition key_eqb (a b : ekind * string) : bool := ekind_eqb (fst a) (fst b) && (snd a =? snd b).

(* The entry set is a map keyed by (kind, name): every read goes through [lookup_entry]. *)
Fixpoint lookup_entry (es : list entry) (k : ekind * string) : option entry :=
  match es with
  | [] => None
  | e :: es' => if key_eqb (ekey e) k then Some e else lookup_entry es' k
  end.

Definition get_router (es : list entry) (n : string) : option (list route) :=
  match lookup_entry es (KRouter, n) with Some (ERouter _ rs) => Some rs | _ => None end.
Definition get_splitter (es : list entry) (n : string) : option (list split) :=
  match lookup_entry es (KSplitter, n) with Some (ESplitter _ ss) => Some ss | _ => None end.
Definition get_resolver (es : list entry) (n : string) : option resolver :=
  match lookup_entry es (KResolver, n) with Some (EResolver _ r) => Some r | _ => None end.
Definition get_defaults (es : list entry) (n : string) : option (string * bool) :=
  match lookup_entry es (KDefaults, n) with Some (EDefaults _ p x) => Some (p, x) | _ => None end.
Definition get_proxy (es : list entry) : option string :=
  match lookup_entry es (KProxy, "global") with Some (EProxy p) => Some p | _ => None end.

Definition default_resolver : resolver := Resolver "" [] None [] false.

(* c.resolvers[targetID], materialising newDefaultServiceResolver when absent *)
Definition resolver_of (es : list entry) (s : string) : resolver :=
  match get_resolver es s with Some r => r | None => default_resolver end.

Definition is_default_resolver (r : resolver) : bool :=
  (rs_default_subset r =? "") &&
  match rs_subsets r with [] => true | _ => false end &&
  match rs_redirect r with None => true | _ => false end &&
  match rs_failover r with [] => true | _ => false end &&
  negb (rs_other r).

Definition subset_exists (r : resolver) (name : string) : bool :=
  (name =? "") || memb String.eqb name (rs_subsets r).

Definition http_like (p : string) : bool := (p =? "http") || (p =? "http2") || (p =? "grpc").

(* ------------------------------------------------------------------ compile request *)

Record ctx := Ctx { c_dc : string; c_override : string }.   (* EvaluateInDatacenter, OverrideProtocol *)

(* ------------------------------------------------------------------ graph *)

Definition sedge := (N * nid)%type.       (* weight (1/100 %), NextNode *)

Inductive node :=
| RouterN (next : list nid)
| SplitterN (edges : list sedge)
| ResolverN (dflt : bool) (fo : list target).     (* Resolver.Default, Resolver.Failover.Targets; Target = its key *)

Definition children (nd : node) : list nid :=
  match nd with
  | RouterN l => l
  | SplitterN l => map snd l
  | ResolverN _ _ => []
  end.

Definition nodes := list (nid * node).

Record graph := Graph {
  g_start : nid;
  g_nodes : nodes;
  g_targets : list target;
  g_proto : string
}.

(* ------------------------------------------------------------------ compiler state *)

Record rnode := RNode { rn_default : bool; rn_failover : list target }.

Record cstate := CState {
  s_proto : string;                            (* c.protocol, "" = nothing recorded yet *)
  s_adv : bool;                                (* c.usesAdvancedRoutingFeatures *)
  s_splitters : list (string * list sedge);    (* c.splitterNodes *)
  s_resolvers : list (target * rnode);         (* c.resolveNodes *)
  s_retained : list target                     (* c.retainedTargets *)
}.

Definition st0 : cstate := CState "" false [] [] [].

Definition set_proto (st : cstate) (p : string) := CState p (s_adv st) (s_splitters st) (s_resolvers st) (s_retained st).
Definition set_adv (st : cstate) := CState (s_proto st) true (s_splitters st) (s_resolvers st) (s_retained st).
Definition record_splitter (st : cstate) (s : string) (edges : list sedge) :=
  CState (s_proto st) (s_adv st) (upsert String.eqb s edges (s_splitters st)) (s_resolvers st) (s_retained st).
Definition record_resolver (st : cstate) (t : target) (n : rnode) :=
  CState (s_proto st) (s_adv st) (s_splitters st) (upsert target_eqb t n (s_resolvers st)) (s_retained st).
Definition retain (st : cstate) (t : target) :=
  CState (s_proto st) (s_adv st) (s_splitters st) (s_resolvers st)
         (if memb target_eqb t (s_retained st) then s_retained st else s_retained st ++ [t]).

Definition mem_splitter (st : cstate) (s : string) : bool :=
  match assoc String.eqb s (s_splitters st) with Some _ => true | None => false end.
Definition mem_resolver (st : cstate) (t : target) : bool :=
  match assoc target_eqb t (s_resolvers st) with Some _ => true | None => false end.

(* effectiveWeight := w1 * w2 / 100, then NormalizeServiceSplitWeight: in 1/100 % units,
   round(w1*w2/10000) half away from zero (exact arithmetic; Go computes in float32) *)
Definition wmul (w1 w2 : N) : N := ((w1 * w2 + 5000) / 10000)%N.

Inductive stepres := SMoved (t : target) | SBad | SFinal.
Inductive lres := LHit (t : target) | LFinal (t : target) (r : resolver).
Inductive dres := DOk | DCycle | DFuel | DMissing.

Fixpoint dedup {A} (eqb : A -> A -> bool) (l : list A) : list A :=
  match l with
  | [] => []
  | x :: l' => if memb eqb x l' then dedup eqb l' else x :: dedup eqb l'
  end.

Section Compile.
  Variable es : list entry.
  Variable cx : ctx.
  Variable svc : string.            (* CompileRequest.ServiceName *)

  (* loop bounds; see Chain/Proofs*.v for the measures that show they are never exhausted *)
  Definition redirect_fuel : nat := let n := List.length es in (1 + n) * (2 + 2 * n) * (2 + n).
  Definition splitter_fuel : nat := S (List.length es).

  Definition disable_adv : bool := negb (c_override cx =? "") && negb (http_like (c_override cx)).

  (* ---- recordServiceProtocol / recordProtocol ---- *)
  Definition raw_protocol (s : string) : string :=
    match get_defaults es s with
    | Some (p, _) => p
    | None => match get_proxy es with Some p => p | None => "" end
    end.

  Definition norm_proto (p : string) : string := if p =? "" then "tcp" else p.

  Definition record_protocol (st : cstate) (s : string) : cres cstate :=
    let p := norm_proto (raw_protocol s) in
    if s_proto st =? "" then Ok (set_proto st p)
    else if s_proto st =? p then Ok st else Err EProtocolMismatch.

  (* ---- newTarget / rewriteTarget (peer "", namespace and partition fixed) ---- *)
  Definition new_target (s sub : string) : target := Tgt s sub (c_dc cx).

  Definition rewrite_target (t : target) (s sub dc : string) : target :=
    let changed := negb (s =? "") && negb (s =? t_svc t) in
    let s1 := if changed then s else t_svc t in
    let sub1 := if changed then "" else t_sub t in
    let sub2 := if sub =? "" then sub1 else sub in
    let dc2 := if dc =? "" then t_dc t else dc in
    Tgt s1 sub2 (default_if_empty dc2 (c_dc cx)).

  (* one trip through RESOLVE_AGAIN, after the memo / protocol / history checks *)
  Definition step (r : resolver) (t : target) : stepres :=
    let rest :=
      if (t_sub t =? "") && negb (rs_default_subset r =? "")
      then SMoved (rewrite_target t "" (rs_default_subset r) "")
      else if negb (t_sub t =? "") && negb (subset_exists r (t_sub t)) then SBad
      else SFinal in
    match rs_redirect r with
    | Some rd =>
        let t' := rewrite_target t (rd_svc rd) (rd_sub rd) (rd_dc rd) in
        if target_eqb t' t then rest else SMoved t'
    | None => rest
    end.

  (* the RESOLVE_AGAIN loop of getResolverNode with its redirectHistory *)
  Fixpoint resolve_loop (fuel : nat) (st : cstate) (hist : list target) (t : target) : cres (cstate * lres) :=
    if mem_resolver st t then Ok (st, LHit t) else
    match record_protocol st (t_svc t) with
    | Err e => Err e
    | Ok st1 =>
      let r := resolver_of es (t_svc t) in
      if memb target_eqb t hist then Err ECircularRedirect else
      match step r t with
      | SMoved t' =>
          match fuel with
          | O => Err EOutOfFuel
          | S f => resolve_loop f st1 (t :: hist) t'
          end
      | SBad => Err EBadSubset
      | SFinal => Ok (st1, LFinal t r)
      end
    end.

  Definition external_check (r : resolver) (t : target) : option cerr :=
    match get_defaults es (t_svc t) with
    | Some (_, true) =>
        match rs_redirect r with Some _ => Some EExternalRedirect | None =>
        match rs_subsets r with _ :: _ => Some EExternalSubsets | [] =>
        match rs_failover r with _ :: _ => Some EExternalFailover | [] => None end end end
    | _ => None
    end.

  (* getResolverNode(target, recursedForFailover = true): build the node, retain the target,
     neither record the node nor look at its failover *)
  Definition resolve_ff (st : cstate) (t : target) : cres (cstate * target) :=
    match resolve_loop redirect_fuel st [] t with
    | Err e => Err e
    | Ok (st1, LHit t') => Ok (st1, t')
    | Ok (st1, LFinal t' r) =>
        match external_check r t' with
        | Some e => Err e
        | None => Ok (retain st1 t', t')
        end
    end.

  (* which failover section applies, rewritten per datacenter / per target, minus the target itself *)
  Definition failover_targets (r : resolver) (t : target) : list target :=
    match rs_failover r with
    | [] => []
    | fos =>
      match (match assoc String.eqb (t_sub t) fos with Some f => Some f | None => assoc String.eqb "*" fos end) with
      | None => []
      | Some f =>
        let cands :=
          match fo_dcs f, fo_targets f with
          | _ :: _, _ => map (fun dc => rewrite_target t (fo_svc f) (fo_sub f) dc) (fo_dcs f)
          | [], _ :: _ => map (fun x => rewrite_target t (ft_svc x) (ft_sub x) (ft_dc x)) (fo_targets f)
          | [], [] => [rewrite_target t (fo_svc f) (fo_sub f) ""]
          end in
        filter (fun x => negb (target_eqb x t)) cands
      end
    end.

  Fixpoint resolve_failovers (st : cstate) (l : list target) : cres (cstate * list target) :=
    match l with
    | [] => Ok (st, [])
    | ft :: l' =>
      match resolve_ff st ft with
      | Err e => Err e
      | Ok (st1, t') =>
        match resolve_failovers st1 l' with
        | Err e => Err e
        | Ok (st2, ts) => Ok (st2, t' :: ts)
        end
      end
    end.

  (* getResolverNode(target, false) *)
  Definition get_resolver_node (st : cstate) (t : target) : cres (cstate * target) :=
    match resolve_loop redirect_fuel st [] t with
    | Err e => Err e
    | Ok (st1, LHit t') => Ok (st1, t')
    | Ok (st1, LFinal t' r) =>
        match external_check r t' with
        | Some e => Err e
        | None =>
          let st2 := retain st1 t' in
          (* recordNode before the failover recursion *)
          let st3 := record_resolver st2 t' (RNode (is_default_resolver r) []) in
          match resolve_failovers st3 (failover_targets r t') with
          | Err e => Err e
          | Ok (st4, []) => Ok (st4, t')
          | Ok (st4, fts) => Ok (record_resolver st4 t' (RNode (is_default_resolver r) fts), t')
          end
        end
    end.

  (* the loop over splitter.Splits inside getSplitterNode; [rec] is getSplitterNode itself *)
  Fixpoint do_legs (rec : cstate -> string -> cres (cstate * option nid)) (self : string)
           (st : cstate) (l : list split) : cres (cstate * list sedge) :=
    match l with
    | [] => Ok (st, [])
    | sp :: l' =>
      let s := default_if_empty (sp_svc sp) self in
      let eligible := negb (s =? self) && (sp_sub sp =? "") in
      match (if eligible then rec st s else Ok (st, None)) with
      | Err e => Err e
      | Ok (st1, Some id) =>
          match do_legs rec self st1 l' with
          | Err e => Err e
          | Ok (st2, edges) => Ok (st2, (sp_weight sp, id) :: edges)
          end
      | Ok (st1, None) =>
          match get_resolver_node st1 (new_target s (sp_sub sp)) with
          | Err e => Err e
          | Ok (st2, t') =>
            match do_legs rec self st2 l' with
            | Err e => Err e
            | Ok (st3, edges) => Ok (st3, (sp_weight sp, NResolver t') :: edges)
            end
          end
      end
    end.

  (* getSplitterNode: memo, fetch, record an (empty) node, recurse, fill in the splits *)
  Fixpoint get_splitter_node (fuel : nat) (st : cstate) (s : string) : cres (cstate * option nid) :=
    if mem_splitter st s then Ok (st, Some (NSplitter s)) else
    match (if disable_adv then None else get_splitter es s) with
    | None => Ok (st, None)
    | Some splits =>
      match fuel with
      | O => Err EOutOfFuel
      | S f =>
        let st1 := record_splitter st s [] in
        match do_legs (get_splitter_node f) s st1 splits with
        | Err e => Err e
        | Ok (st2, edges) => Ok (set_adv (record_splitter st2 s edges), Some (NSplitter s))
        end
      end
    end.

  Definition get_split_or_resolve (st : cstate) (t : target) : cres (cstate * nid) :=
    match get_splitter_node splitter_fuel st (t_svc t) with
    | Err e => Err e
    | Ok (st1, Some id) => Ok (st1, id)
    | Ok (st1, None) =>
      match get_resolver_node st1 t with
      | Err e => Err e
      | Ok (st2, t') => Ok (st2, NResolver t')
      end
    end.

  Fixpoint do_routes (st : cstate) (l : list route) : cres (cstate * list nid) :=
    match l with
    | [] => Ok (st, [])
    | r :: l' =>
      let s := default_if_empty (rt_svc r) svc in
      match (if rt_sub r =? "" then get_split_or_resolve st (new_target s "")
             else match get_resolver_node st (new_target s (rt_sub r)) with
                  | Err e => Err e
                  | Ok (st1, t') => Ok (st1, NResolver t')
                  end) with
      | Err e => Err e
      | Ok (st1, id) =>
        match do_routes st1 l' with
        | Err e => Err e
        | Ok (st2, ids) => Ok (st2, id :: ids)
        end
      end
    end.

  (* assembleChain: final state, start node, the router node's routes if there is a router *)
  Definition assemble : cres (cstate * nid * option (list nid)) :=
    match (if disable_adv then None else get_router es svc) with
    | None =>
      match get_split_or_resolve st0 (new_target svc "") with
      | Err e => Err e
      | Ok (st, id) => Ok (st, id, None)
      end
    | Some routes =>
      match record_protocol (set_adv st0) svc with
      | Err e => Err e
      | Ok st1 =>
        match do_routes st1 routes with
        | Err e => Err e
        | Ok (st2, ids) =>
          match get_split_or_resolve st2 (new_target svc "") with
          | Err e => Err e
          | Ok (st3, d) => Ok (st3, NRouter svc, Some (ids ++ [d]))
          end
        end
      end
    end.

  (* c.nodes after assembleChain *)
  Definition to_nodes (st : cstate) (router : option (list nid)) : nodes :=
    (match router with Some l => [(NRouter svc, RouterN l)] | None => [] end)
      ++ map (fun p => (NSplitter (fst p), SplitterN (snd p))) (s_splitters st)
      ++ map (fun p => (NResolver (fst p), ResolverN (rn_default (snd p)) (rn_failover (snd p)))) (s_resolvers st).
End Compile.

(* ------------------------------------------------------------------ passes over c.nodes *)

(* detectCircularReferences: depth-first walk from the start node keeping the set of nodes
   on the current path ([vis] = the "visited" map, entries deleted at "_popvisit"); the Go
   code runs this recursion with an explicit stack *)
Fixpoint first_bad (f : nid -> dres) (l : list nid) : dres :=
  match l with
  | [] => DOk
  | c :: l' => match f c with DOk => first_bad f l' | r => r end
  end.

Fixpoint detect (fuel : nat) (ns : nodes) (vis : list nid) (n : nid) : dres :=
  if memb nid_eqb n vis then DCycle else
  match assoc nid_eqb n ns with
  | None => DMissing
  | Some nd =>
    match fuel with
    | O => match children nd with [] => DOk | _ => DFuel end
    | S f => first_bad (detect f ns (n :: vis)) (children nd)
    end
  end.

(* flattenAdjacentSplitterNodes.  c.nodes[split.NextNode] of a missing node would be a nil dereference in
   Go; the model keeps such an edge — unreachable: the table handed to this pass is closed
   (Assemble.assemble_spec), and the pass keeps it closed (Passes.Pres_closed) *)
Definition inline1 (ns : nodes) (e : sedge) : list sedge * bool :=
  match assoc nid_eqb (snd e) ns with
  | Some (SplitterN inner) => (map (fun e2 => (wmul (fst e) (fst e2), snd e2)) inner, true)
  | _ => ([e], false)
  end.

Fixpoint inline (ns : nodes) (l : list sedge) : list sedge * bool :=
  match l with
  | [] => ([], false)
  | e :: l' =>
    let (a, c1) := inline1 ns e in
    let (b, c2) := inline ns l' in
    (a ++ b, c1 || c2)
  end.

(* one "for _, node := range c.nodes" pass, visiting the nodes in [order] *)
Fixpoint flatten_pass (ns : nodes) (order : list nid) : nodes * bool :=
  match order with
  | [] => (ns, false)
  | k :: order' =>
    match assoc nid_eqb k ns with
    | Some (SplitterN edges) =>
      let (edges', ch) := inline ns edges in
      if ch then (fst (flatten_pass (upsert nid_eqb k (SplitterN edges') ns) order'), true)
      else flatten_pass ns order'
    | _ => flatten_pass ns order'
    end
  end.

(* Go iterates the map c.nodes in an unspecified order: the order of pass i is the i-th element
   of [ords] (made into a permutation of the keys), the memo order when [ords] is exhausted *)
Definition eff_order (ord : list nid) (ns : nodes) : list nid :=
  let keys := map fst ns in
  let o := dedup nid_eqb (filter (fun k => memb nid_eqb k keys) ord) in
  o ++ filter (fun k => negb (memb nid_eqb k o)) keys.

Fixpoint flatten (fuel : nat) (ords : list (list nid)) (ns : nodes) : option nodes :=
  match fuel with
  | O => None
  | S f =>
    let (ns', ch) := flatten_pass ns (eff_order (hd [] ords) ns) in
    if ch then flatten f (tl ords) ns' else Some ns'
  end.

(* removeUnusedNodes: work list from the start node *)
Fixpoint reach (fuel : nat) (ns : nodes) (todo visited : list nid) : cres (list nid) :=
  match fuel with
  | O => Err EOutOfFuel
  | S f =>
    match todo with
    | [] => Ok visited
    | n :: todo' =>
      if memb nid_eqb n visited then reach f ns todo' visited else
      match assoc nid_eqb n ns with
      | None => Err EInternal            (* "compilation references non-retained node" *)
      | Some nd => reach f ns (children nd ++ todo') (n :: visited)
      end
    end
  end.

Definition reach_fuel (ns : nodes) : nat :=
  2 + fold_right (fun p acc => 1 + List.length (children (snd p)) + acc) 0 ns.

Definition remove_unused (ns : nodes) (start : nid) : cres nodes :=
  match reach (reach_fuel ns) ns [start] [] with
  | Err e => Err e
  | Ok visited => Ok (filter (fun p => memb nid_eqb (fst p) visited) ns)
  end.

Definition detect_fuel (ns : nodes) : nat := S (List.length ns).
Definition flatten_fuel (ns : nodes) : nat := 3 + List.length ns.

(* compiler.compile, with the orders of the flatten passes given explicitly *)
Definition compile_ord (es : list entry) (cx : ctx) (svc : string) (ords : list (list nid)) : cres graph :=
  match assemble es cx svc with
  | Err e => Err e
  | Ok (st, start, router) =>
    let ns := to_nodes svc st router in
    match detect (detect_fuel ns) ns [] start with
    | DCycle => Err ECircularReference
    | DFuel => Err EOutOfFuel
    | DMissing => Err EInternal
    | DOk =>
      match flatten (flatten_fuel ns) ords ns with
      | None => Err EOutOfFuel
      | Some ns1 =>
        match remove_unused ns1 start with
        | Err e => Err e
        | Ok ns2 =>
          if negb (http_like (s_proto st)) && s_adv st then Err ENoAdvanced else
          let proto := if negb (c_override cx =? "") && negb (c_override cx =? s_proto st)
                       then c_override cx else s_proto st in
          Ok (Graph start ns2 (s_retained st) proto)
        end
      end
    end
  end.

(* flattenAdjacentSplitterNodes as it is since 2e58eb8: the node ids are collected from the map
   c.nodes (in the unspecified order [mo]) and sorted with sort.Strings; every pass visits them in
   that order.  Only splitter nodes are acted on ("continue" for the others), and their ids
   "splitter:" + name + ".default.default" sort like the byte strings name + ".default.default". *)
Fixpoint lex_leb (a b : list N) : bool :=
  match a, b with
  | [], _ => true
  | _ :: _, [] => false
  | x :: a', y :: b' => if N.ltb x y then true else if N.eqb x y then lex_leb a' b' else false
  end.

Definition name_key (s : string) : list N := bytes_of_string (s ++ ".default.default")%string.
Definition name_leb (a b : string) : bool := lex_leb (name_key a) (name_key b).

Fixpoint insert_sorted {A} (leb : A -> A -> bool) (x : A) (l : list A) : list A :=
  match l with
  | [] => [x]
  | y :: l' => if leb x y then x :: l else y :: insert_sorted leb x l'
  end.
Fixpoint isort {A} (leb : A -> A -> bool) (l : list A) : list A :=
  match l with [] => [] | x :: l' => insert_sorted leb x (isort leb l') end.

Definition splitter_names (l : list nid) : list string :=
  flat_map (fun k => match k with NSplitter s => [s] | _ => [] end) l.

Definition sorted_order (mo : list nid) (ns : nodes) : list nid :=
  map NSplitter (isort name_leb (splitter_names (eff_order mo ns))).

Definition go_order (mo : list nid) (ns : nodes) : list (list nid) :=
  repeat (sorted_order mo ns) (flatten_fuel ns).

(* compiler.compile; [mo] is the iteration order of the Go map c.nodes when the ids are collected *)
Definition compile (es : list entry) (cx : ctx) (svc : string) (mo : list nid) : cres graph :=
  match assemble es cx svc with
  | Err e => Err e
  | Ok (st, start, router) => compile_ord es cx svc (go_order mo (to_nodes svc st router))
  end.

(* ------------------------------------------------------------------ write-time validation *)

(* ListRelatedServices of the three graph kinds *)
Definition related (e : entry) : list string :=
  match e with
  | ERouter n routes => n :: map (fun r => default_if_empty (rt_svc r) n) routes
  | ESplitter n splits => map (fun s => default_if_empty (sp_svc s) n) splits
  | EResolver n r =>
      (match rs_redirect r with Some rd => [default_if_empty (rd_svc rd) n] | None => [] end)
        ++ flat_map (fun kf =>
             let f := snd kf in
             match fo_targets f with
             | [] => [default_if_empty (fo_svc f) n]
             | ts => map (fun x => default_if_empty (ft_svc x) n) ts
             end) (rs_failover r)
  | _ => []
  end.

Definition is_graph_kind (e : entry) : bool :=
  match e with ERouter _ _ | ESplitter _ _ | EResolver _ _ => true | _ => false end.

Definition ename (e : entry) : string := snd (ekey e).

(* names of the graph entries that list [n] among their related services: one lookup in the "link" index *)
Definition linkers (store : list entry) (n : string) : list string :=
  map ename (filter (fun e => is_graph_kind e && memb String.eqb n (related e)) store).

(* the breadth-first walk over the link index (since f9df4b1): every chain that can reach the name *)
Fixpoint link_closure (fuel : nat) (store : list entry) (queue seen : list string) : list string :=
  match fuel with
  | O => seen
  | S f =>
    match queue with
    | [] => seen
    | q :: queue' =>
      let fresh := dedup String.eqb (filter (fun x => negb (memb String.eqb x seen)) (linkers store q)) in
      link_closure f store (queue' ++ fresh) (seen ++ fresh)
    end
  end.

(* checkChains of validateProposedConfigEntryInServiceGraph, computed on the stored entries
   BEFORE the write: for proxy-defaults every name with a graph entry; otherwise the written
   name and every chain that reaches it through router / splitter / resolver entries *)
Definition affected (store : list entry) (k : ekind * string) : list string :=
  match fst k with
  | KProxy => map ename (filter is_graph_kind store)
  | _ => link_closure (2 + List.length store) store [snd k] [snd k]
  end.

Fixpoint remove_key (store : list entry) (k : ekind * string) : list entry :=
  match store with
  | [] => []
  | e :: s' => if key_eqb (ekey e) k then remove_key s' k else e :: remove_key s' k
  end.

Definition put_entry (store : list entry) (e : entry) : list entry := remove_key store (ekey e) ++ [e].

Definition test_ctx : ctx := Ctx "dc1" "".

Definition compiles (store : list entry) (s : string) : bool :=
  match compile store test_ctx s [] with Ok _ => true | Err _ => false end.

Inductive wop := WPut (e : entry) | WDelete (k : ekind * string).

Definition proposed (store : list entry) (op : wop) : list entry :=
  match op with WPut e => put_entry store e | WDelete k => remove_key store k end.

Definition op_key (op : wop) : ekind * string := match op with WPut e => ekey e | WDelete k => k end.

(* EnsureConfigEntry / DeleteConfigEntry: (new store, accepted) *)
Definition write (store : list entry) (op : wop) : list entry * bool :=
  match op, lookup_entry store (op_key op) with
  | WDelete _, None => (store, true)                       (* deleting an absent entry: no validation *)
  | _, _ =>
    let store' := proposed store op in
    if forallb (compiles store') (affected store (op_key op)) then (store', true) else (store, false)
  end.
