(* C15 — a frame property of the compiler: the chain of a service reads only the entries of the
   names it can reach.  If two entry sets agree on a set D of names that is closed under "names
   mentioned by the router / splitter / resolver of a name in D", every chain in D compiles to the
   same result over both. *)
From Verif Require Import Base.Prelude.
From Verif Require Import Chain.Model.
From Verif Require Import Chain.Lemmas.
From Verif Require Import Chain.Passes.
From Verif Require Import Chain.Resolve.
From Verif Require Import Chain.Assemble.
Local Open Scope string_scope.
Local Open Scope list_scope.

(* "if neither side ran out of fuel they agree" — the two entry sets may have different sizes,
   hence different loop bounds; both bounds are sufficient (Assemble.assemble_no_fuel) *)
Definition agree {A} (x y : cres A) : Prop := x <> Err EOutOfFuel -> y <> Err EOutOfFuel -> y = x.

Section Frame.
  Variables es es' : list entry.
  Variable cx : ctx.
  Variable D : string -> Prop.
  Hypothesis Hr : forall n, D n -> get_router es n = get_router es' n.
  Hypothesis Hs : forall n, D n -> get_splitter es n = get_splitter es' n.
  Hypothesis Hv : forall n, D n -> get_resolver es n = get_resolver es' n.
  Hypothesis Hd : forall n, D n -> get_defaults es n = get_defaults es' n.
  Hypothesis Hp : get_proxy es = get_proxy es'.
  Hypothesis Cr : forall n routes r, D n -> get_router es n = Some routes -> In r routes -> D (default_if_empty (rt_svc r) n).
  Hypothesis Cs : forall n legs sp, D n -> get_splitter es n = Some legs -> In sp legs -> D (default_if_empty (sp_svc sp) n).
  Hypothesis Cv : forall n r rd, D n -> get_resolver es n = Some r -> rs_redirect r = Some rd -> D (default_if_empty (rd_svc rd) n).
  Hypothesis Cf : forall r t ft, D (t_svc t) -> get_resolver es (t_svc t) = Some r ->
                                 In ft (failover_targets cx r t) -> D (t_svc ft).

  Lemma resolver_of_frame s : D s -> resolver_of es s = resolver_of es' s.
  Proof. intros H. unfold resolver_of. rewrite (Hv s H). reflexivity. Qed.

  Lemma record_protocol_frame st s : D s -> record_protocol es st s = record_protocol es' st s.
  Proof. intros H. unfold record_protocol, raw_protocol. rewrite (Hd s H), Hp. reflexivity. Qed.

  Lemma rewrite_target_svc t s sub dc :
    t_svc (rewrite_target cx t s sub dc) = t_svc t \/ (s <> "" /\ t_svc (rewrite_target cx t s sub dc) = s).
  Proof.
    unfold rewrite_target; cbn [t_svc]. destruct (s =? "") eqn:E; cbn [negb andb]; auto.
    destruct (s =? t_svc t); cbn [negb andb]; auto. right. split; auto. apply String.eqb_neq; exact E.
  Qed.

  Lemma step_D t t' : D (t_svc t) -> step cx (resolver_of es (t_svc t)) t = SMoved t' -> D (t_svc t').
  Proof.
    intros HD. unfold step.
    set (r := resolver_of es (t_svc t)).
    assert (Hrest : forall x,
      (if (t_sub t =? "") && negb (rs_default_subset r =? "")
       then SMoved (rewrite_target cx t "" (rs_default_subset r) "")
       else if negb (t_sub t =? "") && negb (subset_exists r (t_sub t)) then SBad else SFinal) = SMoved x -> D (t_svc x)).
    { intros x. destruct ((t_sub t =? "") && negb (rs_default_subset r =? "")).
      - intros E; injection E as <-. destruct (rewrite_target_svc t "" (rs_default_subset r) "") as [-> | [H _]]; [auto | congruence].
      - destruct (negb (t_sub t =? "") && negb (subset_exists r (t_sub t))); discriminate. }
    destruct (rs_redirect r) as [rd|] eqn:Erd; [|apply Hrest].
    destruct (target_eqb _ t); [apply Hrest|]. intros E; injection E as <-.
    destruct (rewrite_target_svc t (rd_svc rd) (rd_sub rd) (rd_dc rd)) as [-> | [Hne ->]]; auto.
    unfold r, resolver_of in Erd. destruct (get_resolver es (t_svc t)) as [r0|] eqn:Eg; [|discriminate].
    pose proof (Cv _ _ _ HD Eg Erd) as H. unfold default_if_empty in H.
    apply String.eqb_neq in Hne. rewrite Hne in H. exact H.
  Qed.

  Lemma resolve_loop_frame : forall f f' st h t, D (t_svc t) ->
    agree (resolve_loop es cx f st h t) (resolve_loop es' cx f' st h t).
  Proof.
    induction f as [|f IH]; intros [|f'] st h t HD; cbn [resolve_loop];
      rewrite <- (record_protocol_frame st _ HD), <- (resolver_of_frame _ HD);
      destruct (mem_resolver st t); try (intros _ _; reflexivity);
      destruct (record_protocol es st (t_svc t)) as [st1|e]; try (intros _ _; reflexivity);
      destruct (memb target_eqb t h); try (intros _ _; reflexivity);
      destruct (step cx (resolver_of es (t_svc t)) t) as [t1| |] eqn:Es; try (intros _ _; reflexivity).
    - intros H; exfalso; apply H; reflexivity.
    - intros _ H; exfalso; apply H; reflexivity.
    - apply IH. eapply step_D; eauto.
  Qed.

  Lemma resolve_loop_D : forall f st h t st' res, D (t_svc t) ->
    resolve_loop es cx f st h t = Ok (st', res) ->
    D (t_svc (match res with LHit x => x | LFinal x _ => x end)).
  Proof.
    induction f as [|f IH]; intros st h t st' res HD; cbn [resolve_loop];
      (destruct (mem_resolver st t); [intros E; injection E as <- <-; exact HD|]);
      (destruct (record_protocol es st (t_svc t)) as [st1|e]; [|discriminate]);
      (destruct (memb target_eqb t h); [discriminate|]);
      destruct (step cx (resolver_of es (t_svc t)) t) as [t1| |] eqn:Es; try discriminate;
      try (intros E; injection E as <- <-; exact HD).
    intros E. eapply IH; [|exact E]. eapply step_D; eauto.
  Qed.

  Lemma resolve_loop_top st t : D (t_svc t) ->
    resolve_loop es' cx (redirect_fuel es') st [] t = resolve_loop es cx (redirect_fuel es) st [] t.
  Proof.
    intros HD. apply (resolve_loop_frame _ _ _ _ _ HD); apply resolve_loop_terminates.
  Qed.

  Lemma external_check_frame r t : D (t_svc t) -> external_check es r t = external_check es' r t.
  Proof. intros HD. unfold external_check. rewrite (Hd _ HD). reflexivity. Qed.

  Lemma resolve_ff_frame st t : D (t_svc t) -> resolve_ff es' cx st t = resolve_ff es cx st t.
  Proof.
    intros HD. unfold resolve_ff. rewrite (resolve_loop_top st t HD).
    destruct (resolve_loop es cx (redirect_fuel es) st [] t) as [[st1 [x|x r]]|e] eqn:E; try reflexivity.
    pose proof (resolve_loop_D _ _ _ _ _ _ HD E) as HDx. cbn in HDx.
    rewrite (external_check_frame r x HDx). reflexivity.
  Qed.

  Lemma resolve_failovers_frame : forall l st, (forall ft, In ft l -> D (t_svc ft)) ->
    resolve_failovers es' cx st l = resolve_failovers es cx st l.
  Proof.
    induction l as [|ft l IH]; intros st HD; cbn [resolve_failovers]; [reflexivity|].
    rewrite (resolve_ff_frame st ft) by (apply HD; left; auto).
    destruct (resolve_ff es cx st ft) as [[st1 t1]|e]; [|reflexivity].
    rewrite IH by (intros x Hx; apply HD; right; auto). reflexivity.
  Qed.

  Lemma get_resolver_node_frame st t : D (t_svc t) -> get_resolver_node es' cx st t = get_resolver_node es cx st t.
  Proof.
    intros HD. unfold get_resolver_node. rewrite (resolve_loop_top st t HD).
    destruct (resolve_loop es cx (redirect_fuel es) st [] t) as [[st1 [x|x r]]|e] eqn:E; try reflexivity.
    pose proof (resolve_loop_D _ _ _ _ _ _ HD E) as HDx. cbn in HDx.
    rewrite (external_check_frame r x HDx). destruct (external_check es' r x); [reflexivity|].
    rewrite resolve_failovers_frame; [reflexivity|].
    intros ft Hft. apply resolve_loop_spec in E as (_ & _ & Hrr & _). subst r.
    unfold resolver_of in Hft. destruct (get_resolver es (t_svc x)) as [r0|] eqn:Eg.
    - eapply Cf; eauto.
    - cbn in Hft. destruct Hft.
  Qed.

  Definition rec_agree (rec rec' : cstate -> string -> cres (cstate * option nid)) : Prop :=
    forall st s, D s -> agree (rec st s) (rec' st s).

  Lemma do_legs_frame rec rec' self : rec_agree rec rec' -> forall l st,
    (forall sp, In sp l -> D (default_if_empty (sp_svc sp) self)) ->
    agree (do_legs es cx rec self st l) (do_legs es' cx rec' self st l).
  Proof.
    intros Hrec. induction l as [|sp l IH]; intros st HD; cbn [do_legs]; [intros _ _; reflexivity|].
    set (s := default_if_empty (sp_svc sp) self).
    assert (HDs : D s) by (apply HD; left; auto).
    assert (HDl : forall x, In x l -> D (default_if_empty (sp_svc x) self)) by (intros x Hx; apply HD; right; auto).
    intros HL HR.
    assert (E1 : (if negb (s =? self) && (sp_sub sp =? "") then rec' st s else Ok (st, None)) =
                 (if negb (s =? self) && (sp_sub sp =? "") then rec st s else Ok (st, None))).
    { destruct (negb (s =? self) && (sp_sub sp =? "")); [|reflexivity].
      apply (Hrec st s HDs).
      - intros E. apply HL. rewrite E. reflexivity.
      - intros E. apply HR. rewrite E. reflexivity. }
    rewrite E1 in HR |- *.
    destruct (if negb (s =? self) && (sp_sub sp =? "") then rec st s else Ok (st, None)) as [[st1 [id|]]|e]; [| |reflexivity].
    - assert (E2 : do_legs es' cx rec' self st1 l = do_legs es cx rec self st1 l).
      { apply (IH st1 HDl).
        - intros E. apply HL. rewrite E. reflexivity.
        - intros E. apply HR. rewrite E. reflexivity. }
      rewrite E2. reflexivity.
    - rewrite (get_resolver_node_frame st1 (new_target cx s (sp_sub sp))) in HR |- * by exact HDs.
      destruct (get_resolver_node es cx st1 (new_target cx s (sp_sub sp))) as [[st2 t']|e]; [|reflexivity].
      assert (E2 : do_legs es' cx rec' self st2 l = do_legs es cx rec self st2 l).
      { apply (IH st2 HDl).
        - intros E. apply HL. rewrite E. reflexivity.
        - intros E. apply HR. rewrite E. reflexivity. }
      rewrite E2. reflexivity.
  Qed.

  Lemma get_splitter_node_frame : forall f f', rec_agree (get_splitter_node es cx f) (get_splitter_node es' cx f').
  Proof.
    induction f as [|f IH]; intros [|f'] st s HD; cbn [get_splitter_node]; rewrite <- (Hs s HD);
      destruct (mem_splitter st s); try (intros _ _; reflexivity);
      destruct (if disable_adv cx then None else get_splitter es s) as [splits|] eqn:Eg; try (intros _ _; reflexivity).
    - intros H; exfalso; apply H; reflexivity.
    - intros _ H; exfalso; apply H; reflexivity.
    - assert (Eg' : get_splitter es s = Some splits) by (destruct (disable_adv cx); [discriminate | exact Eg]).
      intros HL HR.
      assert (E : do_legs es' cx (get_splitter_node es' cx f') s (record_splitter st s []) splits =
                  do_legs es cx (get_splitter_node es cx f) s (record_splitter st s []) splits).
      { apply (do_legs_frame _ _ s (IH f')).
        - intros sp Hsp. eapply Cs; eauto.
        - intros E. apply HL. rewrite E. reflexivity.
        - intros E. apply HR. rewrite E. reflexivity. }
      rewrite E. reflexivity.
  Qed.

  Lemma get_split_or_resolve_frame st t : D (t_svc t) ->
    agree (get_split_or_resolve es cx st t) (get_split_or_resolve es' cx st t).
  Proof.
    intros HD HL HR. unfold get_split_or_resolve in *.
    assert (E : get_splitter_node es' cx (splitter_fuel es') st (t_svc t) = get_splitter_node es cx (splitter_fuel es) st (t_svc t)).
    { apply (get_splitter_node_frame _ _ st _ HD).
      - intros E. apply HL. rewrite E. reflexivity.
      - intros E. apply HR. rewrite E. reflexivity. }
    rewrite E. destruct (get_splitter_node es cx (splitter_fuel es) st (t_svc t)) as [[st1 [id|]]|e]; try reflexivity.
    rewrite (get_resolver_node_frame st1 t HD). reflexivity.
  Qed.

  Lemma do_routes_frame svc : D svc -> forall l st,
    (forall r, In r l -> D (default_if_empty (rt_svc r) svc)) ->
    agree (do_routes es cx svc st l) (do_routes es' cx svc st l).
  Proof.
    intros HDsvc. induction l as [|r l IH]; intros st HD; cbn [do_routes]; [intros _ _; reflexivity|].
    set (s := default_if_empty (rt_svc r) svc).
    assert (HDs : D s) by (apply HD; left; auto).
    assert (HDl : forall x, In x l -> D (default_if_empty (rt_svc x) svc)) by (intros x Hx; apply HD; right; auto).
    intros HL HR.
    assert (E1 : (if rt_sub r =? "" then get_split_or_resolve es' cx st (new_target cx s "")
                  else match get_resolver_node es' cx st (new_target cx s (rt_sub r)) with
                       | Err e => Err e | Ok (st1, t') => Ok (st1, NResolver t') end) =
                 (if rt_sub r =? "" then get_split_or_resolve es cx st (new_target cx s "")
                  else match get_resolver_node es cx st (new_target cx s (rt_sub r)) with
                       | Err e => Err e | Ok (st1, t') => Ok (st1, NResolver t') end)).
    { destruct (rt_sub r =? "").
      - apply (get_split_or_resolve_frame st (new_target cx s "") HDs).
        + intros E. apply HL. rewrite E. reflexivity.
        + intros E. apply HR. rewrite E. reflexivity.
      - rewrite (get_resolver_node_frame st (new_target cx s (rt_sub r)) HDs). reflexivity. }
    rewrite E1 in HR |- *.
    match goal with |- context [match ?X with Ok _ => _ | Err _ => _ end] => destruct X as [[st1 id]|e] end; [|reflexivity].
    assert (E2 : do_routes es' cx svc st1 l = do_routes es cx svc st1 l).
    { apply (IH st1 HDl).
      - intros E. apply HL. rewrite E. reflexivity.
      - intros E. apply HR. rewrite E. reflexivity. }
    rewrite E2. reflexivity.
  Qed.

  Lemma assemble_frame svc : D svc -> assemble es' cx svc = assemble es cx svc.
  Proof.
    intros HD.
    assert (HA : agree (assemble es cx svc) (assemble es' cx svc)).
    { intros HL HR. unfold assemble in *. rewrite <- (Hr svc HD) in HR |- *.
      destruct (if disable_adv cx then None else get_router es svc) as [routes|] eqn:Er.
      - assert (Er' : get_router es svc = Some routes) by (destruct (disable_adv cx); [discriminate | exact Er]).
        rewrite <- (record_protocol_frame _ svc HD) in HR |- *.
        destruct (record_protocol es (set_adv st0) svc) as [st1|e]; [|reflexivity].
        assert (E1 : do_routes es' cx svc st1 routes = do_routes es cx svc st1 routes).
        { apply (do_routes_frame svc HD).
          - intros r Hi. eapply Cr; eauto.
          - intros E. apply HL. rewrite E. reflexivity.
          - intros E. apply HR. rewrite E. reflexivity. }
        rewrite E1 in HR |- *. destruct (do_routes es cx svc st1 routes) as [[st2 ids]|e]; [|reflexivity].
        assert (E2 : get_split_or_resolve es' cx st2 (new_target cx svc "") = get_split_or_resolve es cx st2 (new_target cx svc "")).
        { apply (get_split_or_resolve_frame st2 (new_target cx svc "") HD).
          - intros E. apply HL. rewrite E. reflexivity.
          - intros E. apply HR. rewrite E. reflexivity. }
        rewrite E2. reflexivity.
      - assert (E2 : get_split_or_resolve es' cx st0 (new_target cx svc "") = get_split_or_resolve es cx st0 (new_target cx svc "")).
        { apply (get_split_or_resolve_frame st0 (new_target cx svc "") HD).
          - intros E. apply HL. rewrite E. reflexivity.
          - intros E. apply HR. rewrite E. reflexivity. }
        rewrite E2. reflexivity. }
    apply HA; apply assemble_no_fuel.
  Qed.

  Theorem compile_frame svc mo : D svc -> compile es' cx svc mo = compile es cx svc mo.
  Proof.
    intros HD. unfold compile, compile_ord. rewrite (assemble_frame svc HD). reflexivity.
  Qed.
End Frame.
