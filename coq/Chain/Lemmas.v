(* C15 — generic facts about the list-based maps of Chain/Model.v *)
From Verif Require Import Base.Prelude.
From Verif Require Import Chain.Model.
Local Open Scope string_scope.
Local Open Scope list_scope.

(* ------------------------------------------------------------------ equality tests *)

Lemma target_eqb_eq a b : target_eqb a b = true <-> a = b.
Proof.
  destruct a as [a1 a2 a3], b as [b1 b2 b3]; unfold target_eqb; cbn [t_svc t_sub t_dc].
  rewrite !andb_true_iff, !String.eqb_eq. split.
  - intros [[-> ->] ->]; reflexivity.
  - intros H; injection H as -> -> ->; auto.
Qed.

Lemma target_eqb_refl a : target_eqb a a = true.
Proof. apply target_eqb_eq; reflexivity. Qed.

Lemma target_eqb_neq a b : target_eqb a b = false <-> a <> b.
Proof.
  split.
  - intros H E. apply target_eqb_eq in E. congruence.
  - intros H. destruct (target_eqb a b) eqn:E; [apply target_eqb_eq in E; contradiction | reflexivity].
Qed.

Lemma nid_eqb_eq a b : nid_eqb a b = true <-> a = b.
Proof.
  destruct a, b; cbn [nid_eqb]; try (split; congruence).
  - rewrite String.eqb_eq. split; congruence.
  - rewrite String.eqb_eq. split; congruence.
  - rewrite target_eqb_eq. split; congruence.
Qed.

Lemma nid_eqb_refl a : nid_eqb a a = true.
Proof. apply nid_eqb_eq; reflexivity. Qed.

Lemma nid_eqb_neq a b : nid_eqb a b = false <-> a <> b.
Proof.
  split.
  - intros H E. apply nid_eqb_eq in E. congruence.
  - intros H. destruct (nid_eqb a b) eqn:E; [apply nid_eqb_eq in E; contradiction | reflexivity].
Qed.

Lemma ekind_eqb_eq a b : ekind_eqb a b = true <-> a = b.
Proof. destruct a, b; cbn; split; congruence. Qed.

Lemma key_eqb_eq a b : key_eqb a b = true <-> a = b.
Proof.
  destruct a as [k n], b as [k' n']; unfold key_eqb; cbn [fst snd].
  rewrite andb_true_iff, ekind_eqb_eq, String.eqb_eq. split.
  - intros [-> ->]; reflexivity.
  - intros H; injection H as -> ->; auto.
Qed.

Lemma key_eqb_refl a : key_eqb a a = true.
Proof. apply key_eqb_eq; reflexivity. Qed.

Lemma string_eqb_neq a b : (a =? b) = false <-> a <> b.
Proof. apply String.eqb_neq. Qed.

(* ------------------------------------------------------------------ memb / assoc / upsert *)

Section Maps.
  Context {A : Type} (eqb : A -> A -> bool).
  Hypothesis eqb_eq : forall a b, eqb a b = true <-> a = b.

  Lemma eqb_refl' a : eqb a a = true.
  Proof. apply eqb_eq; reflexivity. Qed.

  Lemma eqb_false a b : eqb a b = false <-> a <> b.
  Proof.
    split.
    - intros H E. apply eqb_eq in E. congruence.
    - intros H. destruct (eqb a b) eqn:E; [apply eqb_eq in E; contradiction | reflexivity].
  Qed.

  Lemma memb_In x l : memb eqb x l = true <-> In x l.
  Proof.
    induction l as [|y l IH]; cbn [memb In]; [split; [discriminate | tauto]|].
    rewrite orb_true_iff, IH, eqb_eq. split; intros [H|H]; auto.
  Qed.

  Lemma memb_not_In x l : memb eqb x l = false <-> ~ In x l.
  Proof.
    split.
    - intros H HI. apply memb_In in HI. congruence.
    - intros H. destruct (memb eqb x l) eqn:E; [apply memb_In in E; contradiction | reflexivity].
  Qed.

  Context {B : Type}.

  Lemma assoc_In k (v : B) l : assoc eqb k l = Some v -> In (k, v) l.
  Proof.
    induction l as [|[k' v'] l IH]; cbn [assoc]; [discriminate|].
    destruct (eqb k k') eqn:E.
    - intros H; injection H as ->. apply eqb_eq in E; subst. left; reflexivity.
    - intros H; right; auto.
  Qed.

  Lemma assoc_None k (l : list (A * B)) : assoc eqb k l = None <-> ~ In k (map fst l).
  Proof.
    induction l as [|[k' v'] l IH]; cbn [assoc map fst In]; [tauto|].
    destruct (eqb k k') eqn:E.
    - apply eqb_eq in E; subst. split; [discriminate | intros H; exfalso; apply H; auto].
    - apply eqb_false in E. rewrite IH. split; [intros H [H1|H1]; [congruence | auto] | tauto].
  Qed.

  Lemma assoc_Some_key k (v : B) l : assoc eqb k l = Some v -> In k (map fst l).
  Proof. intros H. apply assoc_In in H. apply in_map_iff. exists (k, v); auto. Qed.

  Lemma In_key_assoc k (l : list (A * B)) : In k (map fst l) -> exists v, assoc eqb k l = Some v.
  Proof.
    intros H. destruct (assoc eqb k l) eqn:E; [eauto|]. apply assoc_None in E. contradiction.
  Qed.

  Lemma assoc_upsert k k' (v : B) l :
    assoc eqb k' (upsert eqb k v l) = if eqb k' k then Some v else assoc eqb k' l.
  Proof.
    induction l as [|[k0 v0] l IH]; cbn [upsert assoc].
    - reflexivity.
    - destruct (eqb k k0) eqn:E.
      + apply eqb_eq in E; subst k0. cbn [assoc]. destruct (eqb k' k); reflexivity.
      + cbn [assoc]. destruct (eqb k' k0) eqn:E0.
        * apply eqb_eq in E0; subst k0.
          destruct (eqb k' k) eqn:E1; [|reflexivity].
          apply eqb_eq in E1; subst. rewrite eqb_refl' in E. discriminate.
        * apply IH.
  Qed.

  Lemma assoc_upsert_same k (v : B) l : assoc eqb k (upsert eqb k v l) = Some v.
  Proof. rewrite assoc_upsert, eqb_refl'. reflexivity. Qed.

  Lemma assoc_upsert_other k k' (v : B) l : k' <> k -> assoc eqb k' (upsert eqb k v l) = assoc eqb k' l.
  Proof. intros H. rewrite assoc_upsert. apply eqb_false in H. rewrite H. reflexivity. Qed.

  Lemma upsert_keys_in k (v : B) l : In k (map fst l) -> map fst (upsert eqb k v l) = map fst l.
  Proof.
    induction l as [|[k0 v0] l IH]; cbn [upsert map fst In]; [tauto|].
    intros H. destruct (eqb k k0) eqn:E.
    - apply eqb_eq in E; subst. reflexivity.
    - cbn [map fst]. f_equal. apply IH. destruct H as [H|H]; [subst; rewrite eqb_refl' in E; discriminate | exact H].
  Qed.

  Lemma upsert_keys_notin k (v : B) l : ~ In k (map fst l) -> map fst (upsert eqb k v l) = map fst l ++ [k].
  Proof.
    induction l as [|[k0 v0] l IH]; cbn [upsert map fst In app]; [reflexivity|].
    intros H. destruct (eqb k k0) eqn:E.
    - apply eqb_eq in E; subst. exfalso; apply H; auto.
    - cbn [map fst]. f_equal. apply IH. tauto.
  Qed.

  Lemma upsert_length_le k (v : B) l : List.length (upsert eqb k v l) <= S (List.length l).
  Proof.
    induction l as [|[k0 v0] l IH]; cbn [upsert List.length]; [lia|].
    destruct (eqb k k0); cbn [List.length]; lia.
  Qed.

  (* value stored under a key present in both the original and the updated map *)
  Lemma upsert_In k (v : B) l x : In x (upsert eqb k v l) -> x = (k, v) \/ In x l.
  Proof.
    induction l as [|[k0 v0] l IH]; cbn [upsert In].
    - intros [H|[]]; auto.
    - destruct (eqb k k0); cbn [In]; intros [H|H]; auto. destruct (IH H); auto.
  Qed.
  Lemma upsert_key_In k (v : B) l x : In x (map fst (upsert eqb k v l)) -> x = k \/ In x (map fst l).
  Proof.
    intros H. apply in_map_iff in H as ([k1 v1] & Hk & Hi). cbn [fst] in Hk. subst k1.
    apply upsert_In in Hi as [Hi|Hi].
    - injection Hi as -> _. auto.
    - right. apply in_map_iff. exists (x, v1); auto.
  Qed.

  Lemma upsert_NoDup k (v : B) l : NoDup (map fst l) -> NoDup (map fst (upsert eqb k v l)).
  Proof.
    induction l as [|[k0 v0] l IH]; cbn [upsert map fst]; intros H.
    - constructor; [intros [] | constructor].
    - inversion H as [|? ? Hn Hl]; subst. destruct (eqb k k0) eqn:E.
      + apply eqb_eq in E; subst. cbn [map fst]. constructor; auto.
      + cbn [map fst]. constructor; [|auto].
        intros Hi. apply upsert_key_In in Hi as [Hi|Hi]; [|contradiction].
        subst. rewrite eqb_refl' in E. discriminate.
  Qed.
End Maps.

(* ------------------------------------------------------------------ dedup *)

Section Dedup.
  Context {A : Type} (eqb : A -> A -> bool).
  Hypothesis eqb_eq : forall a b, eqb a b = true <-> a = b.

  Lemma dedup_In x l : In x (dedup eqb l) <-> In x l.
  Proof.
    induction l as [|y l IH]; cbn [dedup In]; [tauto|].
    destruct (memb eqb y l) eqn:E.
    - rewrite IH. split; [auto|]. intros [H|H]; [subst; apply (memb_In eqb eqb_eq); exact E | exact H].
    - cbn [In]. rewrite IH. tauto.
  Qed.

  Lemma dedup_NoDup l : NoDup (dedup eqb l).
  Proof.
    induction l as [|y l IH]; cbn [dedup]; [constructor|].
    destruct (memb eqb y l) eqn:E; [exact IH|].
    constructor; [|exact IH]. rewrite dedup_In. apply (memb_not_In eqb eqb_eq). exact E.
  Qed.

  Lemma dedup_length l : List.length (dedup eqb l) <= List.length l.
  Proof.
    induction l as [|y l IH]; cbn [dedup List.length]; [lia|].
    destruct (memb eqb y l); cbn [List.length]; lia.
  Qed.
End Dedup.

(* ------------------------------------------------------------------ misc list facts *)

Lemma flat_map_length_le {A B} (f : A -> list B) k l :
  (forall x, List.length (f x) <= k) -> List.length (flat_map f l) <= k * List.length l.
Proof.
  intros H. induction l as [|x l IH]; cbn [flat_map List.length]; [lia|].
  rewrite app_length. specialize (H x). lia.
Qed.

Lemma NoDup_incl_length' {A} (l l' : list A) : NoDup l -> incl l l' -> List.length l <= List.length l'.
Proof. apply NoDup_incl_length. Qed.

Lemma NoDup_map_inj {A B} (f : A -> B) l : (forall x y, f x = f y -> x = y) -> NoDup l -> NoDup (map f l).
Proof.
  intros Hf H. induction H as [|x l Hx Hl IH]; cbn [map]; constructor; auto.
  intros Hi. apply in_map_iff in Hi as (y & Hy & Hyl). apply Hf in Hy. subst. contradiction.
Qed.

Lemma forallb_In {A} (f : A -> bool) l x : forallb f l = true -> In x l -> f x = true.
Proof. intros H Hi. rewrite forallb_forall in H. auto. Qed.
