(* C15 — what assembleChain has done when it succeeds, in terms of the entries alone: every
   recorded splitter node has exactly the edges its splits prescribe, every resolver node's
   failover targets were resolved, and therefore every target the entries make the compiler
   request (through routes, splits and failover) has a redirect walk that ends.  A redirect or
   reference cycle reachable from the chain's service makes compile_ord fail. *)
From Verif Require Import Base.Prelude.
From Verif Require Import Chain.Model.
From Verif Require Import Chain.Lemmas.
From Verif Require Import Chain.Passes.
From Verif Require Import Chain.Resolve.
From Verif Require Import Chain.Assemble.
From Verif Require Import Chain.Proofs.
Local Open Scope string_scope.
Local Open Scope list_scope.

Section Complete.
  Variable es : list entry.
  Variable cx : ctx.
  Variable svc : string.

  Notation Orb := (Orbit es cx).

  (* the service has a splitter the compiler will use *)
  Definition has_sp (s : string) : bool :=
    match (if disable_adv cx then None else get_splitter es s) with Some _ => true | None => false end.

  Definition leg_target (self : string) (sp : split) : string := default_if_empty (sp_svc sp) self.
  Definition leg_eligible (self : string) (sp : split) : bool :=
    negb (leg_target self sp =? self) && (sp_sub sp =? "").

  (* the edge getSplitterNode records for one split *)
  Definition leg_edge (self : string) (sp : split) (e : sedge) : Prop :=
    fst e = sp_weight sp /\
    if leg_eligible self sp && has_sp (leg_target self sp)
    then snd e = NSplitter (leg_target self sp)
    else exists t', snd e = NResolver t' /\ Orb (new_target cx (leg_target self sp) (sp_sub sp)) t'.

  Definition Legs (ip : list string) (st : cstate) : Prop :=
    forall s edges, assoc String.eqb s (s_splitters st) = Some edges ->
      has_sp s = true /\
      (In s ip \/ exists legs, get_splitter es s = Some legs /\ Forall2 (leg_edge s) legs edges).

  (* the failover targets of a final target all have a walk that ends *)
  Definition fail_ok (t : target) : Prop :=
    forall ft, In ft (failover_targets cx (resolver_of es (t_svc t)) t) -> exists t', Orb ft t'.

  Definition FailsAll (st : cstate) : Prop := forall t, mem_resolver st t = true -> fail_ok t.

  Definition Extra (ip : list string) (st : cstate) : Prop := Legs ip st /\ FailsAll st.

  Lemma same_graph_Extra ip st st' : same_graph st st' -> Extra ip st -> Extra ip st'.
  Proof.
    intros (H1 & H2 & _) [HL HF]. split.
    - intros s edges Ha. rewrite H1 in Ha. auto.
    - intros t Ht. apply HF. unfold mem_resolver in *. rewrite <- H2. exact Ht.
  Qed.

  Lemma resolve_failovers_orbits : forall l st st' res,
    resolve_failovers es cx st l = Ok (st', res) -> Closed_st es cx st -> Forall2 Orb l res.
  Proof.
    induction l as [|ft l IH]; intros st st' res; cbn [resolve_failovers].
    - intros H _; injection H as <- <-. constructor.
    - destruct (resolve_ff es cx st ft) as [[st1 t1]|e] eqn:E1; [|discriminate].
      destruct (resolve_failovers es cx st1 l) as [[st2 ts]|e] eqn:E2; [|discriminate].
      intros H HC; injection H as <- <-.
      apply resolve_ff_spec in E1 as [G1 P1]. destruct (P1 HC) as [_ Ho].
      constructor; [exact Ho|]. eapply IH; eauto. eapply same_graph_Closed; eauto.
  Qed.

  Lemma Forall2_length' {A B} (R : A -> B -> Prop) l l' : Forall2 R l l' -> List.length l = List.length l'.
  Proof. induction 1; cbn; congruence. Qed.

  Lemma get_resolver_node_extra ip R st t st' t' :
    AInv es cx svc ip R st -> Extra ip st -> get_resolver_node es cx st t = Ok (st', t') -> Extra ip st'.
  Proof.
    intros HI [HL HF] H.
    destruct (get_resolver_node_spec es cx svc ip R _ _ _ _ H HI) as (L & HI' & Hm & Ho & Hs).
    split; [intros s edges Ha; rewrite Hs in Ha; auto|].
    revert H. unfold get_resolver_node.
    destruct (resolve_loop es cx (redirect_fuel es) st [] t) as [[st1 res]|e] eqn:E; [|discriminate].
    apply resolve_loop_spec in E as [Ht Hres].
    assert (HI1 : AInv es cx svc ip R st1) by (eapply same_graph_I; [apply same_tables_graph; eauto | exact HI]).
    destruct res as [x|x r].
    - intros H; injection H as <- <-. intros y Hy. apply HF. rewrite <- (mem_resolver_tables _ _ _ Ht). exact Hy.
    - destruct Hres as (Hmx & Hr & Hox). destruct (external_check es r x); [discriminate|].
      set (st2 := retain st1 x). set (st3 := record_resolver st2 x (RNode (is_default_resolver r) [])).
      assert (HI2 : AInv es cx svc ip R st2) by (eapply same_graph_I; [apply same_graph_retain | exact HI1]).
      assert (Hfin : step cx (resolver_of es (t_svc x)) x = SFinal) by (eapply Orbit_final; eauto).
      assert (HI3 : AInv es cx svc ip (NResolver x :: R) st3).
      { apply I_record_resolver; auto; [apply retain_In | intros ? []]. }
      destruct (resolve_failovers es cx st3 (failover_targets cx r x)) as [[st4 fts]|e] eqn:Ef; [|discriminate].
      pose proof (resolve_failovers_orbits _ _ _ _ Ef (proj1 HI3)) as Hfo.
      apply resolve_failovers_spec in Ef as [G4 _].
      assert (Hkeys : forall y, mem_resolver st4 y = true -> y = x \/ mem_resolver st y = true).
      { intros y Hy. destruct G4 as (_ & G4 & _). unfold mem_resolver in Hy. rewrite G4 in Hy.
        unfold st3, record_resolver in Hy; cbn [s_resolvers] in Hy.
        rewrite (assoc_upsert target_eqb target_eqb_eq) in Hy. destruct (target_eqb y x) eqn:Eq.
        - left. apply target_eqb_eq; auto.
        - right. unfold st2, retain in Hy; cbn [s_resolvers] in Hy. destruct Ht as (_ & Ht & _).
          unfold mem_resolver. rewrite <- Ht. exact Hy. }
      assert (Hx : fail_ok x).
      { intros ft Hft. subst r. clear - Hfo Hft.
        revert Hft. induction Hfo as [|a b l l' Hab _ IH]; [intros []|]. intros [<-|Hi]; eauto. }
      assert (Hfin4 : forall y, mem_resolver st4 y = true -> fail_ok y).
      { intros y Hy. destruct (Hkeys y Hy) as [->|Hy']; auto. }
      destruct fts as [|f0 fts]; intros H; injection H as <- <-; [exact Hfin4|].
      intros y Hy. apply Hfin4. unfold mem_resolver, record_resolver in Hy; cbn [s_resolvers] in Hy.
      rewrite (assoc_upsert target_eqb target_eqb_eq) in Hy. destruct (target_eqb y x) eqn:Eq.
      + apply target_eqb_eq in Eq; subst y. destruct G4 as (_ & G4 & _). unfold mem_resolver. rewrite G4.
        unfold st3, record_resolver; cbn [s_resolvers]. rewrite (assoc_upsert_same target_eqb target_eqb_eq). reflexivity.
      + exact Hy.
  Qed.

  (* ---- getSplitterNode ---- *)

  Definition rec_ok2 (ip : list string) (rec : cstate -> string -> cres (cstate * option nid)) : Prop :=
    forall R st s st' r, AInv es cx svc ip R st -> Extra ip st -> rec st s = Ok (st', r) ->
      Extra ip st' /\
      match r with Some id => id = NSplitter s /\ has_sp s = true | None => has_sp s = false end.

  Lemma do_legs_extra ip rec self : rec_ok es cx svc ip rec -> rec_ok2 ip rec -> forall l R st st' edges,
    AInv es cx svc ip R st -> Extra ip st -> do_legs es cx rec self st l = Ok (st', edges) ->
    Extra ip st' /\ Forall2 (leg_edge self) l edges.
  Proof.
    intros Hrec Hrec2. induction l as [|sp l IH]; intros R st st' edges HI HX; cbn [do_legs].
    - intros H; injection H as <- <-. split; [exact HX | constructor].
    - fold (leg_target self sp).
      destruct (if negb (leg_target self sp =? self) && (sp_sub sp =? "") then rec st (leg_target self sp) else Ok (st, None))
        as [[st1 r]|e] eqn:E1; [|discriminate].
      assert (H1 : AInv es cx svc ip (match r with Some id => id :: R | None => R end) st1 /\ Extra ip st1 /\
                   match r with
                   | Some id => id = NSplitter (leg_target self sp) /\ leg_eligible self sp && has_sp (leg_target self sp) = true
                   | None => leg_eligible self sp && has_sp (leg_target self sp) = false
                   end).
      { unfold leg_eligible. destruct (negb (leg_target self sp =? self) && (sp_sub sp =? "")) eqn:Ee.
        - destruct (Hrec _ _ _ _ _ HI E1) as (_ & A & _). destruct (Hrec2 _ _ _ _ _ HI HX E1) as (B & C).
          split; [exact A|]. split; [exact B|]. destruct r as [id|]; [destruct C as [-> ->]; auto | rewrite C; reflexivity].
        - injection E1 as <- <-. auto. }
      destruct H1 as (HI1 & HX1 & Hr). destruct r as [id|].
      + destruct (do_legs es cx rec self st1 l) as [[st2 edges2]|e] eqn:E2; [|discriminate].
        intros H; injection H as <- <-. destruct (IH _ _ _ _ HI1 HX1 E2) as (HX2 & HF2).
        split; [exact HX2|]. constructor; [|exact HF2]. destruct Hr as [-> Hb].
        split; [reflexivity|]. rewrite Hb. reflexivity.
      + destruct (get_resolver_node es cx st1 (new_target cx (leg_target self sp) (sp_sub sp))) as [[st2 t']|e] eqn:E2; [|discriminate].
        destruct (get_resolver_node_spec es cx svc ip _ _ _ _ _ E2 HI1) as (L2 & HI2 & M2 & Ho & _).
        pose proof (get_resolver_node_extra _ _ _ _ _ _ HI1 HX1 E2) as HX2.
        destruct (do_legs es cx rec self st2 l) as [[st3 edges3]|e] eqn:E3; [|discriminate].
        intros H; injection H as <- <-. destruct (IH _ _ _ _ HI2 HX2 E3) as (HX3 & HF3).
        split; [exact HX3|]. constructor; [|exact HF3].
        split; [reflexivity|]. rewrite Hr. exists t'. auto.
  Qed.

  Lemma AInv_placeholder ip R st s :
    AInv es cx svc ip R st -> mem_splitter st s = false ->
    AInv es cx svc (s :: ip) (NSplitter s :: R) (record_splitter st s []).
  Proof.
    intros ((C1 & C2 & C3) & Hc & Hr) Em.
    assert (L1 : le_state st (record_splitter st s [])) by (apply le_state_record_splitter; exact Em).
    split; [split; [|split]|split].
    - intros x edges0 Ha e He. unfold record_splitter in Ha; cbn [s_splitters] in Ha.
      rewrite (assoc_upsert String.eqb String.eqb_eq) in Ha. destruct (x =? s).
      + injection Ha as <-. destruct He.
      + apply key_in_record_splitter. left. eapply C1; eauto.
    - exact C2.
    - exact C3.
    - intros x edges0 Ha. unfold record_splitter in Ha; cbn [s_splitters] in Ha.
      rewrite (assoc_upsert String.eqb String.eqb_eq) in Ha. destruct (x =? s) eqn:E.
      + apply String.eqb_eq in E; subst. left; left; auto.
      + destruct (Hc _ _ Ha) as [H|H]; [left; right; auto | right; auto].
    - intros k Hk. apply key_in_record_splitter in Hk as [Hk| ->].
      + destruct (Hr k Hk) as (r & Hi & Hp). exists r. split; [right; auto|].
        eapply reachN_mono; [|exact Hp]. intros x y. apply le_state_edge. exact L1.
      + exists (NSplitter s). split; [left; auto | constructor].
  Qed.

  Lemma get_splitter_node_extra : forall fuel ip, rec_ok2 ip (get_splitter_node es cx fuel).
  Proof.
    induction fuel as [|f IH]; intros ip R st s st' r HI [HL HF]; cbn [get_splitter_node].
    - destruct (mem_splitter st s) eqn:Em.
      { intros H; injection H as <- <-. split; [split; auto|]. split; [reflexivity|].
        unfold mem_splitter in Em. destruct (assoc String.eqb s (s_splitters st)) eqn:Ea; [|discriminate].
        apply (HL _ _ Ea). }
      destruct (if disable_adv cx then None else get_splitter es s) eqn:Eg; [discriminate|].
      intros H; injection H as <- <-. split; [split; auto|]. unfold has_sp. rewrite Eg. reflexivity.
    - destruct (mem_splitter st s) eqn:Em.
      { intros H; injection H as <- <-. split; [split; auto|]. split; [reflexivity|].
        unfold mem_splitter in Em. destruct (assoc String.eqb s (s_splitters st)) eqn:Ea; [|discriminate].
        apply (HL _ _ Ea). }
      destruct (if disable_adv cx then None else get_splitter es s) as [splits|] eqn:Eg;
        [|intros H; injection H as <- <-; split; [split; auto|]; unfold has_sp; rewrite Eg; reflexivity].
      assert (Eg' : get_splitter es s = Some splits) by (destruct (disable_adv cx); [discriminate | exact Eg]).
      assert (Hsp : has_sp s = true) by (unfold has_sp; rewrite Eg; reflexivity).
      set (st1 := record_splitter st s []).
      destruct (do_legs es cx (get_splitter_node es cx f) s st1 splits) as [[st2 edges]|e] eqn:El; [|discriminate].
      intros H; injection H as <- <-.
      pose proof (AInv_placeholder ip R st s HI Em) as HI1. fold st1 in HI1.
      assert (HX1 : Extra (s :: ip) st1).
      { split.
        - intros x edges0 Ha. unfold st1, record_splitter in Ha; cbn [s_splitters] in Ha.
          rewrite (assoc_upsert String.eqb String.eqb_eq) in Ha. destruct (x =? s) eqn:E.
          + apply String.eqb_eq in E; subst. split; [exact Hsp | left; left; auto].
          + destruct (HL _ _ Ha) as [A [B|B]]; split; auto. left; right; auto.
        - intros t Ht. apply HF. exact Ht. }
      destruct (do_legs_extra (s :: ip) _ s (get_splitter_node_spec es cx svc f (s :: ip)) (IH (s :: ip)) _ _ _ _ _ HI1 HX1 El)
        as ([HL2 HF2] & Hfa).
      split; [|auto]. split.
      + intros x edges0 Ha. unfold set_adv, record_splitter in Ha; cbn [s_splitters] in Ha.
        rewrite (assoc_upsert String.eqb String.eqb_eq) in Ha. destruct (x =? s) eqn:E.
        * apply String.eqb_eq in E; subst. injection Ha as <-. split; [exact Hsp|]. right. exists splits. auto.
        * destruct (HL2 _ _ Ha) as [A [[B|B]|B]]; split; auto.
          apply String.eqb_neq in E. congruence.
      + intros t Ht. apply HF2. exact Ht.
  Qed.

  (* "getSplitterOrResolverNode(s)": the node handed back for service [s] *)
  Definition sos_id (s : string) (id : nid) : Prop :=
    if has_sp s then id = NSplitter s else exists t', id = NResolver t' /\ Orb (new_target cx s "") t'.

  Lemma get_split_or_resolve_extra ip R st s st' id :
    AInv es cx svc ip R st -> Extra ip st -> get_split_or_resolve es cx st (new_target cx s "") = Ok (st', id) ->
    Extra ip st' /\ sos_id s id.
  Proof.
    intros HI HX. unfold get_split_or_resolve. cbn [new_target t_svc].
    destruct (get_splitter_node es cx (splitter_fuel es) st s) as [[st1 r]|e] eqn:E1; [|discriminate].
    destruct (get_splitter_node_spec es cx svc _ ip R _ _ _ _ HI E1) as (L1 & HI1 & K1).
    destruct (get_splitter_node_extra _ ip R _ _ _ _ HI HX E1) as (HX1 & Hr). destruct r as [id1|].
    - intros H; injection H as <- <-. split; auto. unfold sos_id. destruct Hr as [-> ->]. reflexivity.
    - destruct (get_resolver_node es cx st1 (new_target cx s "")) as [[st2 t']|e] eqn:E2; [|discriminate].
      intros H; injection H as <- <-.
      destruct (get_resolver_node_spec es cx svc ip _ _ _ _ _ E2 HI1) as (_ & _ & _ & Ho & _).
      split; [eapply get_resolver_node_extra; eauto|]. unfold sos_id. rewrite Hr. exists t'. auto.
  Qed.

  Definition route_id (r : route) (id : nid) : Prop :=
    let s := default_if_empty (rt_svc r) svc in
    if rt_sub r =? "" then sos_id s id
    else exists t', id = NResolver t' /\ Orb (new_target cx s (rt_sub r)) t'.

  Lemma do_routes_extra ip : forall l R st st' ids,
    AInv es cx svc ip R st -> Extra ip st -> do_routes es cx svc st l = Ok (st', ids) ->
    Extra ip st' /\ Forall2 route_id l ids.
  Proof.
    induction l as [|r l IH]; intros R st st' ids HI HX; cbn [do_routes].
    - intros H; injection H as <- <-. split; [exact HX | constructor].
    - set (s := default_if_empty (rt_svc r) svc).
      destruct (if rt_sub r =? "" then get_split_or_resolve es cx st (new_target cx s "")
                else match get_resolver_node es cx st (new_target cx s (rt_sub r)) with
                     | Err e => Err e | Ok (st1, t') => Ok (st1, NResolver t') end) as [[st1 id]|e] eqn:E1; [|discriminate].
      assert (H1 : AInv es cx svc ip (id :: R) st1 /\ Extra ip st1 /\ route_id r id).
      { unfold route_id. cbn zeta. fold s. destruct (rt_sub r =? "").
        - destruct (get_split_or_resolve_spec es cx svc ip _ _ _ _ _ HI E1) as (_ & A & _).
          destruct (get_split_or_resolve_extra _ _ _ _ _ _ HI HX E1) as (B & C). auto.
        - destruct (get_resolver_node es cx st (new_target cx s (rt_sub r))) as [[st1' t']|e] eqn:E2; [|discriminate].
          injection E1 as <- <-. destruct (get_resolver_node_spec es cx svc ip _ _ _ _ _ E2 HI) as (_ & A & _ & Ho & _).
          split; [exact A|]. split; [exact (get_resolver_node_extra ip R st _ _ _ HI HX E2)|]. exists t'. auto. }
      destruct H1 as (HI1 & HX1 & Hid).
      destruct (do_routes es cx svc st1 l) as [[st2 ids2]|e] eqn:E2; [|discriminate].
      intros H; injection H as <- <-. destruct (IH _ _ _ _ HI1 HX1 E2) as (HX2 & HF2).
      split; [exact HX2|]. constructor; auto.
  Qed.

  Lemma Extra_st0 : Extra [] st0.
  Proof. split; [intros s edges Ha; discriminate | intros t Ht; discriminate]. Qed.

  (* what the start node and the router's routes are *)
  Definition root_ok (start : nid) (router : option (list nid)) : Prop :=
    match (if disable_adv cx then None else get_router es svc), router with
    | None, None => sos_id svc start
    | Some routes, Some l => exists ids d, l = ids ++ [d] /\ Forall2 route_id routes ids /\ sos_id svc d /\ start = NRouter svc
    | _, _ => False
    end.

  Theorem assemble_extra st start router :
    assemble es cx svc = Ok (st, start, router) -> Legs [] st /\ FailsAll st /\ root_ok start router.
  Proof.
    unfold assemble, root_ok. destruct (if disable_adv cx then None else get_router es svc) as [routes|].
    - destruct (record_protocol es (set_adv st0) svc) as [st1|e] eqn:Ep; [|discriminate].
      assert (Hg : same_graph st0 st1).
      { eapply same_graph_trans; [apply same_graph_set_adv|]. apply same_tables_graph. eapply record_protocol_tables; eauto. }
      assert (HI1 : AInv es cx svc [] [] st1) by (eapply same_graph_I; [exact Hg | apply I_st0]).
      assert (HX1 : Extra [] st1) by (eapply same_graph_Extra; [exact Hg | apply Extra_st0]).
      destruct (do_routes es cx svc st1 routes) as [[st2 ids]|e] eqn:Er; [|discriminate].
      destruct (do_routes_spec es cx svc [] _ _ _ _ _ HI1 Er) as (L2 & HI2 & K2).
      destruct (do_routes_extra [] _ _ _ _ _ HI1 HX1 Er) as (HX2 & HF2).
      destruct (get_split_or_resolve es cx st2 (new_target cx svc "")) as [[st3 d]|e] eqn:Ed; [|discriminate].
      destruct (get_split_or_resolve_extra _ _ _ _ _ _ HI2 HX2 Ed) as ([A B] & C).
      intros H; injection H as <- <- <-. split; [exact A|]. split; [exact B|]. exists ids, d. auto.
    - destruct (get_split_or_resolve es cx st0 (new_target cx svc "")) as [[st1 id]|e] eqn:Ed; [|discriminate].
      destruct (get_split_or_resolve_extra _ _ _ _ _ _ (I_st0 es cx svc) Extra_st0 Ed) as ([A B] & C).
      intros H; injection H as <- <- <-. auto.
  Qed.
End Complete.
