(* C15 — how the compiled chain depends on the evaluation context: only through the datacenter and
   through whether OverrideProtocol disables routers and splitters.  Two contexts that agree on
   both assemble the same chain.  A context that disables advanced routing can fail where the
   guard's context (dc1, no override) succeeds: see Examples.context_dependence. *)
From Verif Require Import Base.Prelude.
From Verif Require Import Chain.Model.
From Verif Require Import Chain.Lemmas.
Local Open Scope string_scope.
Local Open Scope list_scope.

Section Ctx.
  Variable es : list entry.
  Variables cx cx' : ctx.
  Hypothesis Hdc : c_dc cx = c_dc cx'.
  Hypothesis Hdis : disable_adv cx = disable_adv cx'.

  Lemma new_target_ctx s sub : new_target cx s sub = new_target cx' s sub.
  Proof. unfold new_target. rewrite Hdc. reflexivity. Qed.

  Lemma rewrite_target_ctx t s sub dc : rewrite_target cx t s sub dc = rewrite_target cx' t s sub dc.
  Proof. unfold rewrite_target. rewrite Hdc. reflexivity. Qed.

  Lemma step_ctx r t : step cx r t = step cx' r t.
  Proof. unfold step. rewrite !rewrite_target_ctx. destruct (rs_redirect r); [rewrite rewrite_target_ctx|]; reflexivity. Qed.

  Lemma resolve_loop_ctx : forall fuel st hist t, resolve_loop es cx fuel st hist t = resolve_loop es cx' fuel st hist t.
  Proof.
    induction fuel as [|f IH]; intros st hist t; cbn [resolve_loop]; rewrite step_ctx; [reflexivity|].
    destruct (mem_resolver st t); [reflexivity|]. destruct (record_protocol es st (t_svc t)); [|reflexivity].
    destruct (memb target_eqb t hist); [reflexivity|]. destruct (step cx' (resolver_of es (t_svc t)) t); try reflexivity. apply IH.
  Qed.

  Lemma failover_targets_ctx r t : failover_targets cx r t = failover_targets cx' r t.
  Proof.
    unfold failover_targets. destruct (rs_failover r); [reflexivity|].
    destruct (match assoc String.eqb (t_sub t) (p :: l) with Some f => Some f | None => assoc String.eqb "*" (p :: l) end) as [f|]; [|reflexivity].
    f_equal. destruct (fo_dcs f), (fo_targets f); try (apply map_ext; intros; apply rewrite_target_ctx).
    rewrite rewrite_target_ctx. reflexivity.
  Qed.

  Lemma resolve_ff_ctx st t : resolve_ff es cx st t = resolve_ff es cx' st t.
  Proof. unfold resolve_ff. rewrite resolve_loop_ctx. reflexivity. Qed.

  Lemma resolve_failovers_ctx : forall l st, resolve_failovers es cx st l = resolve_failovers es cx' st l.
  Proof.
    induction l as [|ft l IH]; intros st; cbn [resolve_failovers]; [reflexivity|]. rewrite resolve_ff_ctx.
    destruct (resolve_ff es cx' st ft) as [[st1 t1]|e]; [|reflexivity]. rewrite IH. reflexivity.
  Qed.

  Lemma get_resolver_node_ctx st t : get_resolver_node es cx st t = get_resolver_node es cx' st t.
  Proof.
    unfold get_resolver_node. rewrite resolve_loop_ctx.
    destruct (resolve_loop es cx' (redirect_fuel es) st [] t) as [[st1 [x|x r]]|e]; try reflexivity.
    destruct (external_check es r x); [reflexivity|]. rewrite failover_targets_ctx, resolve_failovers_ctx. reflexivity.
  Qed.

  Lemma do_legs_ctx rec rec' self : (forall st s, rec st s = rec' st s) -> forall l st,
    do_legs es cx rec self st l = do_legs es cx' rec' self st l.
  Proof.
    intros Hrec. induction l as [|sp l IH]; intros st; cbn [do_legs]; [reflexivity|]. rewrite Hrec.
    destruct (if negb (default_if_empty (sp_svc sp) self =? self) && (sp_sub sp =? "")
              then rec' st (default_if_empty (sp_svc sp) self) else Ok (st, None)) as [[st1 [id|]]|e]; try reflexivity.
    - rewrite IH. reflexivity.
    - rewrite get_resolver_node_ctx, new_target_ctx.
      destruct (get_resolver_node es cx' st1 (new_target cx' (default_if_empty (sp_svc sp) self) (sp_sub sp))) as [[st2 t']|e]; [|reflexivity].
      rewrite IH. reflexivity.
  Qed.

  Lemma get_splitter_node_ctx : forall fuel st s, get_splitter_node es cx fuel st s = get_splitter_node es cx' fuel st s.
  Proof.
    induction fuel as [|f IH]; intros st s; cbn [get_splitter_node]; rewrite Hdis; [reflexivity|].
    destruct (mem_splitter st s); [reflexivity|].
    destruct (if disable_adv cx' then None else get_splitter es s) as [splits|]; [|reflexivity].
    rewrite (do_legs_ctx _ _ s IH). reflexivity.
  Qed.

  Lemma get_split_or_resolve_ctx st t : get_split_or_resolve es cx st t = get_split_or_resolve es cx' st t.
  Proof.
    unfold get_split_or_resolve. rewrite get_splitter_node_ctx.
    destruct (get_splitter_node es cx' (splitter_fuel es) st (t_svc t)) as [[st1 [id|]]|e]; try reflexivity.
    rewrite get_resolver_node_ctx. reflexivity.
  Qed.

  Lemma do_routes_ctx svc : forall l st, do_routes es cx svc st l = do_routes es cx' svc st l.
  Proof.
    induction l as [|r l IH]; intros st; cbn [do_routes]; [reflexivity|].
    rewrite get_split_or_resolve_ctx, get_resolver_node_ctx, !new_target_ctx.
    destruct (if rt_sub r =? "" then get_split_or_resolve es cx' st (new_target cx' (default_if_empty (rt_svc r) svc) "")
              else match get_resolver_node es cx' st (new_target cx' (default_if_empty (rt_svc r) svc) (rt_sub r)) with
                   | Err e => Err e | Ok (st1, t') => Ok (st1, NResolver t') end) as [[st1 id]|e]; [|reflexivity].
    rewrite IH. reflexivity.
  Qed.

  Lemma assemble_ctx svc : assemble es cx svc = assemble es cx' svc.
  Proof.
    unfold assemble. rewrite Hdis, get_split_or_resolve_ctx, new_target_ctx.
    destruct (if disable_adv cx' then None else get_router es svc) as [routes|]; [|reflexivity].
    destruct (record_protocol es (set_adv st0) svc) as [st1|e]; [|reflexivity].
    rewrite do_routes_ctx. destruct (do_routes es cx' svc st1 routes) as [[st2 ids]|e]; [|reflexivity].
    rewrite get_split_or_resolve_ctx. reflexivity.
  Qed.

  (* the same chain (same start, nodes, targets) compiles; only the reported protocol may differ *)
  Theorem compile_ctx_ok svc mo g :
    compile es cx svc mo = Ok g ->
    exists g', compile es cx' svc mo = Ok g' /\
               g_start g' = g_start g /\ g_nodes g' = g_nodes g /\ g_targets g' = g_targets g.
  Proof.
    unfold compile, compile_ord. rewrite <- assemble_ctx.
    destruct (assemble es cx svc) as [[[st start] router]|e]; [|discriminate].
    destruct (detect _ _ [] start); try discriminate.
    destruct (flatten _ _ _) as [ns1|]; [|discriminate].
    destruct (remove_unused ns1 start) as [ns2|e]; [|discriminate].
    destruct (negb (http_like (s_proto st)) && s_adv st); [discriminate|].
    intros H; injection H as <-. eexists. split; [reflexivity|]. auto.
  Qed.
End Ctx.
