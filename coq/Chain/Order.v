(* C15 — when no splitter that is a leg of a splitter has itself a splitter leg (splitters are
   chained at most two deep), flattenAdjacentSplitterNodes computes the same table whatever the
   order in which it meets the nodes; hence the compiled chain does not depend on the Go map
   iteration order.  (Three chained splitters: see Store.flatten_order_matters.) *)
From Verif Require Import Base.Prelude.
From Verif Require Import Chain.Model.
From Verif Require Import Chain.Lemmas.
From Verif Require Import Chain.Passes.
From Verif Require Import Chain.Resolve.
From Verif Require Import Chain.Assemble.
From Verif Require Import Chain.Proofs.
From Verif Require Import Chain.Complete.
From Verif Require Import Chain.Cycles.
Local Open Scope string_scope.
Local Open Scope list_scope.

(* ------------------------------------------------------------------ flatten on a shallow table *)

Section Shallow.
  Variable ns : nodes.

  Definition shallow : Prop := forall a b, schild ns a b -> forall c, ~ schild ns b c.

  Definition Tn (nd : node) : node :=
    match nd with SplitterN e => SplitterN (fst (inline ns e)) | _ => nd end.

  Definition target_table : nodes := map (fun p => (fst p, Tn (snd p))) ns.

  Definition Rel (p q : nid * node) : Prop := fst q = fst p /\ (snd q = snd p \/ snd q = Tn (snd p)).

  Lemma inline_id (tb : nodes) l : (forall e, In e l -> is_splitter tb (snd e) = false) -> inline tb l = (l, false).
  Proof.
    induction l as [|e l IH]; intros H; cbn [inline]; [reflexivity|].
    rewrite IH by (intros x Hx; apply H; right; auto).
    destruct (inline1_spec tb e) as [(inner & Hl & Hs)|(Hn & Hs)]; rewrite Hs.
    - specialize (H e (or_introl eq_refl)). unfold is_splitter in H. rewrite Hl in H. discriminate.
    - reflexivity.
  Qed.

  Lemma inline_ext (tb : nodes) l :
    (forall e, In e l -> lookup (snd e) tb = lookup (snd e) ns) -> inline tb l = inline ns l.
  Proof.
    induction l as [|e l IH]; intros H; cbn [inline]; [reflexivity|].
    rewrite IH by (intros x Hx; apply H; right; auto).
    unfold inline1. rewrite (H e (or_introl eq_refl)). reflexivity.
  Qed.

  Lemma lookup_Rel cur : Forall2 Rel ns cur -> forall k,
    match lookup k ns with
    | Some nd => lookup k cur = Some nd \/ lookup k cur = Some (Tn nd)
    | None => lookup k cur = None
    end.
  Proof.
    induction 1 as [|[k0 nd0] [k1 nd1] l l' [Hk Hv] _ IH]; intros k; cbn [assoc]; [reflexivity|].
    cbn [fst snd] in Hk, Hv. subst k1. destruct (nid_eqb k k0); [|apply IH].
    destruct Hv as [-> | ->]; auto.
  Qed.

  Lemma Forall2_upsert cur k nd0 v :
    Forall2 Rel ns cur -> lookup k ns = Some nd0 -> (v = nd0 \/ v = Tn nd0) ->
    Forall2 Rel ns (upsert nid_eqb k v cur).
  Proof.
    intros HF. revert k nd0 v. induction HF as [|[k0 n0] [k1 n1] l l' [Hk Hv] HF IH]; intros k nd0 v; cbn [assoc upsert]; [discriminate|].
    cbn [fst snd] in Hk, Hv. subst k1. destruct (nid_eqb k k0) eqn:E.
    - intros H Hvv; injection H as ->. apply nid_eqb_eq in E; subst. constructor; [split; auto | exact HF].
    - intros H Hvv. constructor; [split; auto|]. eapply IH; eauto.
  Qed.

  Hypothesis Hsh : shallow.

  (* a node without splitter legs is its own flattening *)
  Lemma Tn_stable k nd : lookup k ns = Some nd -> (forall c, ~ schild ns k c) -> Tn nd = nd.
  Proof.
    intros Hl Hno. destruct nd as [l|e|d fo]; cbn [Tn]; try reflexivity.
    rewrite inline_id; [reflexivity|]. intros x Hx.
    destruct (is_splitter ns (snd x)) eqn:Es; [|reflexivity].
    exfalso. apply (Hno (snd x)). exists e. split; auto. split; [apply in_map; auto | exact Es].
  Qed.

  (* legs of a splitter are stable: non-splitters, or splitters without splitter legs *)
  Lemma leg_stable k e b nd : lookup k ns = Some (SplitterN e) -> In b (map snd e) -> lookup b ns = Some nd -> Tn nd = nd.
  Proof.
    intros Hk Hb Hl. destruct (is_splitter ns b) eqn:Es.
    - eapply Tn_stable; eauto. apply (Hsh k b). exists e. auto.
    - unfold is_splitter in Es. rewrite Hl in Es. destruct nd; [reflexivity | discriminate | reflexivity].
  Qed.

  Lemma leg_lookup cur k e b :
    Forall2 Rel ns cur -> lookup k ns = Some (SplitterN e) -> In b (map snd e) -> lookup b cur = lookup b ns.
  Proof.
    intros HF Hk Hb. pose proof (lookup_Rel cur HF b) as H.
    destruct (lookup b ns) as [nd|] eqn:El; [|exact H].
    rewrite (leg_stable _ _ _ _ Hk Hb El) in H. destruct H; auto.
  Qed.

  (* the legs of a flattened splitter are not splitters *)
  Lemma flattened_legs k e x : lookup k ns = Some (SplitterN e) -> In x (fst (inline ns e)) -> is_splitter ns (snd x) = false.
  Proof.
    intros Hk Hx. apply inline_In in Hx as [[_ H]|(e0 & inner & e2 & H1 & H2 & H3 & ->)]; [exact H|].
    cbn [snd]. destruct (is_splitter ns (snd e2)) eqn:Es; [|reflexivity]. exfalso.
    apply (Hsh k (snd e0)) with (c := snd e2).
    - exists e. split; auto. split; [apply in_map; auto|]. unfold is_splitter. rewrite H2. reflexivity.
    - exists inner. split; auto. split; [apply in_map; auto | exact Es].
  Qed.

  Lemma is_splitter_Rel cur b : Forall2 Rel ns cur -> is_splitter cur b = is_splitter ns b.
  Proof.
    intros HF. pose proof (lookup_Rel cur HF b) as H. unfold is_splitter.
    destruct (lookup b ns) as [nd|]; [|rewrite H; reflexivity].
    destruct H as [-> | ->]; [reflexivity|]. destruct nd; reflexivity.
  Qed.

  (* one step of a pass keeps the relation and brings the visited node to its flattened form *)
  Lemma pass_Rel : forall order cur,
    Forall2 Rel ns cur ->
    Forall2 Rel ns (fst (flatten_pass cur order)) /\
    (forall k nd, lookup k ns = Some nd ->
        (In k order \/ lookup k cur = Some (Tn nd)) -> lookup k (fst (flatten_pass cur order)) = Some (Tn nd)).
  Proof.
    induction order as [|k order IH]; intros cur HF.
    - cbn [flatten_pass fst]. split; [exact HF|]. intros k nd _ [[]|H]; exact H.
    - (* after visiting k the table [cur1] is related and k is done *)
      assert (Hstep : exists cur1,
                 fst (flatten_pass cur (k :: order)) = fst (flatten_pass cur1 order) /\ Forall2 Rel ns cur1 /\
                 (forall x nd, lookup x ns = Some nd -> lookup x cur = Some (Tn nd) -> lookup x cur1 = Some (Tn nd)) /\
                 (forall nd, lookup k ns = Some nd -> lookup k cur1 = Some (Tn nd))).
      { cbn [flatten_pass]. pose proof (lookup_Rel cur HF k) as Hk.
        destruct (lookup k ns) as [nd0|] eqn:El.
        - destruct nd0 as [l|e0|d fo].
          + exists cur. assert (Hc : lookup k cur = Some (RouterN l)) by (destruct Hk; auto). rewrite Hc.
            split; [reflexivity|]. split; [exact HF|]. split; [auto|]. intros nd H; injection H as <-. reflexivity.
          + destruct Hk as [Hc|Hc]; rewrite Hc.
            * (* not yet flattened: inlining in [cur] is inlining in [ns] *)
              rewrite (inline_ext cur e0) by (intros x Hx; eapply leg_lookup; eauto; apply in_map; auto).
              destruct (inline ns e0) as [e1 ch] eqn:Ei. destruct ch.
              -- exists (upsert nid_eqb k (SplitterN e1) cur). split; [reflexivity|].
                 assert (Ht : SplitterN e1 = Tn (SplitterN e0)) by (cbn [Tn]; rewrite Ei; reflexivity).
                 split; [eapply Forall2_upsert; eauto|]. split.
                 ++ intros x nd Hx Hxc. rewrite lookup_upsert. destruct (nid_eqb x k) eqn:E; auto.
                    apply nid_eqb_eq in E; subst. rewrite El in Hx. injection Hx as <-. congruence.
                 ++ intros nd H; injection H as <-. rewrite lookup_upsert, nid_eqb_refl. congruence.
              -- exists cur. split; [reflexivity|]. split; [exact HF|]. split; [auto|].
                 intros nd H; injection H as <-. cbn [Tn]. rewrite Ei.
                 assert (Hu : snd (inline ns e0) = false) by (rewrite Ei; reflexivity).
                 apply inline_unchanged in Hu as [Hu _]. rewrite Ei in Hu. cbn [fst] in *. subst. exact Hc.
            * (* already flattened: nothing left to inline *)
              cbn [Tn] in Hc |- *. rewrite inline_id.
              -- exists cur. split; [reflexivity|]. split; [exact HF|]. split; [auto|].
                 intros nd H; injection H as <-. exact Hc.
              -- intros x Hx. rewrite (is_splitter_Rel cur (snd x) HF). eapply flattened_legs; eauto.
          + exists cur. assert (Hc : lookup k cur = Some (ResolverN d fo)) by (destruct Hk; auto). rewrite Hc.
            split; [reflexivity|]. split; [exact HF|]. split; [auto|]. intros nd H; injection H as <-. reflexivity.
        - exists cur. rewrite Hk. split; [reflexivity|]. split; [exact HF|]. split; [auto | discriminate]. }
      destruct Hstep as (cur1 & -> & HF1 & Hkeep & Hdone).
      destruct (IH cur1 HF1) as [A B]. split; [exact A|].
      intros x nd Hx [[<-|Hi]|Hc]; apply B; auto.
  Qed.

  Hypothesis Hnd : NoDup (map fst ns).

  Lemma all_done_gen (T : node -> node) : forall (l cur : nodes),
    NoDup (map fst l) ->
    Forall2 (fun p q => fst q = fst p /\ (snd q = snd p \/ snd q = T (snd p))) l cur ->
    (forall k nd, lookup k l = Some nd -> lookup k cur = Some (T nd)) ->
    cur = map (fun p => (fst p, T (snd p))) l.
  Proof.
    intros l cur Hn HF. induction HF as [|[k0 n0] [k1 n1] l l' [Hk Hv] HF IH]; intros Hall; [reflexivity|].
    cbn [fst snd map] in *. subst k1. inversion Hn as [|? ? Hni Hn']; subst.
    assert (Hh := Hall k0 n0). cbn [assoc] in Hh. rewrite nid_eqb_refl in Hh. specialize (Hh eq_refl). injection Hh as ->.
    f_equal. apply IH; auto. intros k nd Hl. specialize (Hall k nd). cbn [assoc] in Hall.
    destruct (nid_eqb k k0) eqn:E; [|auto].
    apply nid_eqb_eq in E; subst. exfalso. apply Hni. eapply assoc_Some_key; eauto using nid_eqb_eq.
  Qed.

  Lemma Rel_all_done cur :
    Forall2 Rel ns cur -> (forall k nd, lookup k ns = Some nd -> lookup k cur = Some (Tn nd)) -> cur = target_table.
  Proof. intros HF Hall. apply (all_done_gen Tn ns cur Hnd HF Hall). Qed.

  Lemma Forall2_Rel_refl : Forall2 Rel ns ns.
  Proof.
    assert (H : forall l : nodes, Forall2 Rel l l) by (induction l as [|p l IH]; constructor; [split; auto | exact IH]).
    apply H.
  Qed.

  Lemma pass_shallow ord : fst (flatten_pass ns (eff_order ord ns)) = target_table.
  Proof.
    destruct (pass_Rel (eff_order ord ns) ns Forall2_Rel_refl) as [A B].
    apply Rel_all_done; auto. intros k nd Hl. apply (B k nd Hl). left. apply eff_order_covers.
    eapply assoc_Some_key; eauto using nid_eqb_eq.
  Qed.

  Lemma lookup_map_T (T : node -> node) (l : nodes) k :
    lookup k (map (fun p => (fst p, T (snd p))) l) = option_map T (lookup k l).
  Proof.
    induction l as [|[k0 n0] l IH]; cbn [map assoc fst snd option_map]; [reflexivity|].
    destruct (nid_eqb k k0); [reflexivity | exact IH].
  Qed.

  Lemma lookup_target_table k : lookup k target_table = option_map Tn (lookup k ns).
  Proof. apply lookup_map_T. Qed.

  Lemma target_table_no_schild a b : ~ schild target_table a b.
  Proof.
    intros (e & Hl & Hb & Hs). rewrite lookup_target_table in Hl. unfold is_splitter in Hs. rewrite lookup_target_table in Hs.
    destruct (lookup a ns) as [nda|] eqn:Ea; [|discriminate]. cbn [option_map] in Hl. injection Hl as Hl.
    destruct nda as [l|e0|d fo]; cbn [Tn] in Hl; try discriminate. injection Hl as <-.
    apply in_map_iff in Hb as (x & <- & Hx). pose proof (flattened_legs _ _ _ Ea Hx) as Hf.
    unfold is_splitter in Hf. destruct (lookup (snd x) ns) as [[?|?|? ?]|]; cbn in Hs; try discriminate.
  Qed.

  (* the flatten loop ends on the same table for every sequence of orders *)
  Lemma flatten_shallow fuel ords : flatten (S (S fuel)) ords ns = Some target_table.
  Proof.
    cbn [flatten]. pose proof (pass_shallow (hd [] ords)) as Hp.
    destruct (flatten_pass ns (eff_order (hd [] ords) ns)) as [ns1 ch]. cbn [fst] in Hp. subst ns1.
    destruct ch; [|reflexivity].
    pose proof (pass_no_schild (eff_order (hd [] (tl ords)) target_table) target_table target_table_no_schild) as Hs.
    pose proof (flatten_pass_false _ _ Hs) as Hf.
    destruct (flatten_pass target_table (eff_order (hd [] (tl ords)) target_table)) as [ns2 ch2].
    cbn [fst snd] in *. subst. reflexivity.
  Qed.
End Shallow.

(* ------------------------------------------------------------------ memo tables have unique keys *)

Definition NDK (st : cstate) : Prop := NoDup (map fst (s_splitters st)) /\ NoDup (map fst (s_resolvers st)).

Section Keys.
  Variable es : list entry.
  Variable cx : ctx.
  Variable svc : string.

  Lemma NDK_tables st st' : s_splitters st' = s_splitters st -> s_resolvers st' = s_resolvers st -> NDK st -> NDK st'.
  Proof. intros H1 H2 [A B]. unfold NDK. rewrite H1, H2. auto. Qed.

  Lemma NDK_record_resolver st t n : NDK st -> NDK (record_resolver st t n).
  Proof. intros [A B]. split; [exact A|]. apply (upsert_NoDup target_eqb target_eqb_eq). exact B. Qed.

  Lemma NDK_record_splitter st s e : NDK st -> NDK (record_splitter st s e).
  Proof. intros [A B]. split; [|exact B]. apply (upsert_NoDup String.eqb String.eqb_eq). exact A. Qed.

  Lemma resolve_failovers_NDK : forall l st st' res, resolve_failovers es cx st l = Ok (st', res) -> NDK st -> NDK st'.
  Proof.
    intros l st st' res H. apply resolve_failovers_spec in H as [(H1 & H2 & _) _]. apply NDK_tables; auto.
  Qed.

  Lemma get_resolver_node_NDK st t st' t' : get_resolver_node es cx st t = Ok (st', t') -> NDK st -> NDK st'.
  Proof.
    unfold get_resolver_node.
    destruct (resolve_loop es cx (redirect_fuel es) st [] t) as [[st1 res]|e] eqn:E; [|discriminate].
    apply resolve_loop_spec in E as [(H1 & H2 & _) _]. intros H Hn.
    assert (Hn1 : NDK st1) by (eapply NDK_tables; eauto).
    destruct res as [x|x r]; [injection H as <- <-; exact Hn1|].
    destruct (external_check es r x); [discriminate|].
    match type of H with context [resolve_failovers es cx ?s ?l] =>
      destruct (resolve_failovers es cx s l) as [[st4 fts]|e] eqn:Ef; [|discriminate];
      assert (Hn4 : NDK st4) by (eapply resolve_failovers_NDK; [exact Ef|]; apply NDK_record_resolver;
                                 eapply NDK_tables; [| |exact Hn1]; reflexivity) end.
    destruct fts; injection H as <- <-; [exact Hn4 | apply NDK_record_resolver; exact Hn4].
  Qed.

  Definition rec_ndk (rec : cstate -> string -> cres (cstate * option nid)) : Prop :=
    forall st s st' r, rec st s = Ok (st', r) -> NDK st -> NDK st'.

  Lemma do_legs_NDK rec self : rec_ndk rec -> forall l st st' edges,
    do_legs es cx rec self st l = Ok (st', edges) -> NDK st -> NDK st'.
  Proof.
    intros Hrec. induction l as [|sp l IH]; intros st st' edges; cbn [do_legs].
    - intros H; injection H as <- <-. auto.
    - set (s := default_if_empty (sp_svc sp) self).
      destruct (if negb (s =? self) && (sp_sub sp =? "") then rec st s else Ok (st, None)) as [[st1 r]|e] eqn:E1; [|discriminate].
      intros H Hn. assert (Hn1 : NDK st1).
      { destruct (negb (s =? self) && (sp_sub sp =? "")); [eapply Hrec; eauto | injection E1 as <- <-; exact Hn]. }
      destruct r as [id|].
      + destruct (do_legs es cx rec self st1 l) as [[st2 e2]|e] eqn:E2; [|discriminate].
        injection H as <- <-. eapply IH; eauto.
      + destruct (get_resolver_node es cx st1 (new_target cx s (sp_sub sp))) as [[st2 t']|e] eqn:E2; [|discriminate].
        destruct (do_legs es cx rec self st2 l) as [[st3 e3]|e] eqn:E3; [|discriminate].
        injection H as <- <-. eapply IH; eauto. eapply get_resolver_node_NDK; eauto.
  Qed.

  Lemma get_splitter_node_NDK : forall fuel, rec_ndk (get_splitter_node es cx fuel).
  Proof.
    induction fuel as [|f IH]; intros st s st' r; cbn [get_splitter_node];
      (destruct (mem_splitter st s); [intros H; injection H as <- <-; auto|]);
      destruct (if disable_adv cx then None else get_splitter es s) as [splits|]; try discriminate;
      try (intros H; injection H as <- <-; auto).
    destruct (do_legs es cx (get_splitter_node es cx f) s (record_splitter st s []) splits) as [[st2 edges]|e] eqn:El; [|discriminate].
    intros H Hn; injection H as <- <-.
    eapply (NDK_tables (record_splitter st2 s edges)); [reflexivity | reflexivity|].
    apply NDK_record_splitter. eapply do_legs_NDK; eauto. apply NDK_record_splitter. exact Hn.
  Qed.

  Lemma get_split_or_resolve_NDK st t st' id : get_split_or_resolve es cx st t = Ok (st', id) -> NDK st -> NDK st'.
  Proof.
    unfold get_split_or_resolve.
    destruct (get_splitter_node es cx (splitter_fuel es) st (t_svc t)) as [[st1 [id1|]]|e] eqn:E1; try discriminate.
    - intros H; injection H as <- <-. eapply get_splitter_node_NDK; eauto.
    - destruct (get_resolver_node es cx st1 t) as [[st2 t']|e] eqn:E2; [|discriminate].
      intros H Hn; injection H as <- <-. eapply get_resolver_node_NDK; eauto. eapply get_splitter_node_NDK; eauto.
  Qed.

  Lemma do_routes_NDK : forall l st st' ids, do_routes es cx svc st l = Ok (st', ids) -> NDK st -> NDK st'.
  Proof.
    induction l as [|r l IH]; intros st st' ids; cbn [do_routes].
    - intros H; injection H as <- <-. auto.
    - set (s := default_if_empty (rt_svc r) svc).
      destruct (if rt_sub r =? "" then get_split_or_resolve es cx st (new_target cx s "")
                else match get_resolver_node es cx st (new_target cx s (rt_sub r)) with
                     | Err e => Err e | Ok (st1, t') => Ok (st1, NResolver t') end) as [[st1 id]|e] eqn:E1; [|discriminate].
      intros H Hn. assert (Hn1 : NDK st1).
      { destruct (rt_sub r =? ""); [eapply get_split_or_resolve_NDK; eauto|].
        destruct (get_resolver_node es cx st (new_target cx s (rt_sub r))) as [[st1' t']|e] eqn:E2; [|discriminate].
        injection E1 as <- <-. eapply get_resolver_node_NDK; eauto. }
      destruct (do_routes es cx svc st1 l) as [[st2 ids2]|e] eqn:E2; [|discriminate].
      injection H as <- <-. eapply IH; eauto.
  Qed.

  Lemma assemble_NDK st start router : assemble es cx svc = Ok (st, start, router) -> NDK st.
  Proof.
    assert (H0 : NDK st0) by (split; constructor).
    unfold assemble. destruct (if disable_adv cx then None else get_router es svc) as [routes|].
    - destruct (record_protocol es (set_adv st0) svc) as [st1|e] eqn:Ep; [|discriminate].
      apply record_protocol_tables in Ep as (H1 & H2 & _).
      destruct (do_routes es cx svc st1 routes) as [[st2 ids]|e] eqn:Er; [|discriminate].
      destruct (get_split_or_resolve es cx st2 (new_target cx svc "")) as [[st3 d]|e] eqn:Ed; [|discriminate].
      intros H; injection H as <- <- <-. eapply get_split_or_resolve_NDK; eauto. eapply do_routes_NDK; eauto.
      eapply NDK_tables; eauto.
    - destruct (get_split_or_resolve es cx st0 (new_target cx svc "")) as [[st1 id]|e] eqn:Ed; [|discriminate].
      intros H; injection H as <- <- <-. eapply get_split_or_resolve_NDK; eauto.
  Qed.

  Lemma NoDup_app_intro' {A} (l l' : list A) :
    NoDup l -> NoDup l' -> (forall x, In x l -> In x l' -> False) -> NoDup (l ++ l').
  Proof.
    induction 1 as [|x l Hx Hl IH]; intros Hl' Hd; cbn [app]; [exact Hl'|].
    constructor.
    - intros Hi. apply in_app_or in Hi as [Hi|Hi]; [contradiction|]. apply (Hd x); [left|]; auto.
    - apply IH; auto. intros y Hy. apply Hd. right; auto.
  Qed.

  Lemma to_nodes_NoDup st router : NDK st -> NoDup (map fst (to_nodes svc st router)).
  Proof.
    intros [A B]. unfold to_nodes. rewrite !map_app, !map_map. cbn [fst].
    assert (HS : NoDup (map (fun p : string * list sedge => NSplitter (fst p)) (s_splitters st))).
    { rewrite <- (map_map fst NSplitter). apply NoDup_map_inj; auto. intros x y H; injection H; auto. }
    assert (HR : NoDup (map (fun p : target * rnode => NResolver (fst p)) (s_resolvers st))).
    { rewrite <- (map_map fst NResolver). apply NoDup_map_inj; auto. intros x y H; injection H; auto. }
    assert (HSR : NoDup (map (fun p : string * list sedge => NSplitter (fst p)) (s_splitters st) ++
                         map (fun p : target * rnode => NResolver (fst p)) (s_resolvers st))).
    { apply NoDup_app_intro'; auto. intros x H1 H2.
      apply in_map_iff in H1 as (? & <- & _). apply in_map_iff in H2 as (? & H2 & _). discriminate. }
    destruct router as [l|]; cbn [map app fst]; [|exact HSR].
    constructor; [|exact HSR]. intros Hi. apply in_app_or in Hi as [Hi|Hi];
      apply in_map_iff in Hi as (? & Hi & _); discriminate.
  Qed.

  (* ---- the compiled chain does not depend on the order when splitters are chained at most two deep ---- *)

  Theorem compile_order_shallow o1 o2 :
    (forall a b c, splits_to es cx a b -> splits_to es cx b c -> False) ->
    compile_ord es cx svc o1 = compile_ord es cx svc o2.
  Proof.
    intros Hno. unfold compile_ord. destruct (assemble es cx svc) as [[[st start] router]|e] eqn:Ea; [|reflexivity].
    destruct (detect _ _ [] start); try reflexivity.
    set (ns := to_nodes svc st router).
    assert (Hsch : forall a b, schild ns a b -> exists x y, a = NSplitter x /\ b = NSplitter y /\ splits_to es cx x y).
    { intros a b (e & Hl & Hb & Hs).
      assert (Hed : edge ns a b) by (exists (SplitterN e); auto).
      unfold ns in Hl. rewrite lookup_to_nodes in Hl. destruct a as [x|x|x].
      - destruct router; [|discriminate]. destruct (x =? svc); discriminate.
      - unfold is_splitter, ns in Hs. rewrite lookup_to_nodes in Hs. destruct b as [y|y|y].
        + destruct router; [|discriminate]. destruct (y =? svc); discriminate.
        + exists x, y. split; auto. split; auto. eapply splitter_edge_from_entries; eauto.
        + destruct (assoc target_eqb y (s_resolvers st)); discriminate.
      - destruct (assoc target_eqb x (s_resolvers st)); discriminate. }
    assert (Hsh : shallow ns).
    { intros a b Hab c Hbc. destruct (Hsch _ _ Hab) as (x & y & -> & -> & H1).
      destruct (Hsch _ _ Hbc) as (y' & z & Hy & -> & H2). injection Hy as <-. eauto. }
    assert (Hnd : NoDup (map fst ns)) by (apply to_nodes_NoDup; eapply assemble_NDK; eauto).
    unfold flatten_fuel. cbn [Nat.add]. rewrite !(flatten_shallow ns Hsh Hnd). reflexivity.
  Qed.
End Keys.
