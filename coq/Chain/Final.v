(* C15 — the compiler as it is at /repo HEAD: flattenAdjacentSplitterNodes visits the sorted node
   ids.  [compile es cx svc mo] is [compile_ord] run with that order, so every theorem proved for
   arbitrary visiting orders carries over; and the result no longer depends on the iteration
   order [mo] of the Go map the ids are collected from. *)
From Verif Require Import Base.Prelude.
From Verif Require Import Chain.Model.
From Verif Require Import Chain.Lemmas.
From Verif Require Import Chain.Passes.
From Verif Require Import Chain.Resolve.
From Verif Require Import Chain.Assemble.
From Verif Require Import Chain.Proofs.
From Verif Require Import Chain.Det.
From Verif Require Import Chain.Complete.
From Verif Require Import Chain.Cycles.
From Verif Require Import Chain.Order.
From Coq Require Import Permutation.
Local Open Scope string_scope.
Local Open Scope list_scope.

(* ------------------------------------------------------------------ transfer *)

Lemma compile_as_ord es cx svc mo : exists ords, compile es cx svc mo = compile_ord es cx svc ords.
Proof.
  unfold compile. destruct (assemble es cx svc) as [[[st start] router]|e] eqn:E.
  - eexists. reflexivity.
  - exists []. unfold compile_ord. rewrite E. reflexivity.
Qed.

Theorem compile_total' es cx svc mo :
  (exists g, compile es cx svc mo = Ok g) \/
  (exists e, compile es cx svc mo = Err e /\ e <> EOutOfFuel /\ e <> EInternal).
Proof. destruct (compile_as_ord es cx svc mo) as (ords & ->). apply compile_total. Qed.

Theorem compile_closed' es cx svc mo g :
  compile es cx svc mo = Ok g ->
  lookup (g_start g) (g_nodes g) <> None /\
  closed (g_nodes g) /\ well_kinded (g_nodes g) /\ targets_ok (g_targets g) (g_nodes g) /\
  (exists r, Ranked r (g_nodes g)) /\
  (splitters_nonempty es -> nonempty_nodes (g_nodes g)).
Proof. destruct (compile_as_ord es cx svc mo) as (ords & ->). apply compile_closed. Qed.

Theorem redirect_cycle_reported' es cx svc mo t :
  Req es cx svc (QTarget t) \/ Req es cx svc (QFail t) -> cyclic es cx t -> exists e, compile es cx svc mo = Err e.
Proof. destruct (compile_as_ord es cx svc mo) as (ords & ->). apply redirect_cycle_reported. Qed.

Theorem reference_cycle_reported' es cx svc mo a :
  Req es cx svc (QSplit a) -> SplitPath es cx a a ->
  (exists e, assemble es cx svc = Err e /\ compile es cx svc mo = Err e) \/
  compile es cx svc mo = Err ECircularReference.
Proof. destruct (compile_as_ord es cx svc mo) as (ords & ->). apply reference_cycle_reported. Qed.

Theorem compile_redirect_cycle' es cx svc mo :
  (disable_adv cx = true \/ (get_router es svc = None /\ get_splitter es svc = None)) ->
  cyclic es cx (new_target cx svc "") ->
  compile es cx svc mo = Err ECircularRedirect \/ compile es cx svc mo = Err EProtocolMismatch.
Proof. destruct (compile_as_ord es cx svc mo) as (ords & ->). apply compile_redirect_cycle. Qed.

Theorem compile_reference_cycle' es cx svc mo st start router a b :
  assemble es cx svc = Ok (st, start, router) ->
  reachN (to_nodes svc st router) start a -> edge (to_nodes svc st router) a b ->
  reachN (to_nodes svc st router) b a ->
  compile es cx svc mo = Err ECircularReference.
Proof. destruct (compile_as_ord es cx svc mo) as (ords & ->). apply compile_reference_cycle. Qed.

Theorem compile_permutation' es es' cx svc mo :
  NoDup (map ekey es) -> Permutation es es' -> compile es cx svc mo = compile es' cx svc mo.
Proof.
  intros Hnd Hp. unfold compile.
  assert (Ha : assemble es cx svc = assemble es' cx svc).
  { apply assemble_ext; [intros k; apply lookup_entry_perm; auto | apply Permutation_length; exact Hp]. }
  rewrite <- Ha. destruct (assemble es cx svc) as [[[st start] router]|e]; [|reflexivity].
  apply compile_permutation; auto.
Qed.

(* ------------------------------------------------------------------ sorting *)

Section Sort.
  Context {A : Type} (leb : A -> A -> bool).
  Hypothesis leb_total : forall x y, leb x y = true \/ leb y x = true.
  Hypothesis leb_trans : forall x y z, leb x y = true -> leb y z = true -> leb x z = true.
  Hypothesis leb_antisym : forall x y, leb x y = true -> leb y x = true -> x = y.

  Inductive sorted : list A -> Prop :=
  | sorted_nil : sorted []
  | sorted_cons x l : (forall y, In y l -> leb x y = true) -> sorted l -> sorted (x :: l).

  Lemma insert_perm x l : Permutation (insert_sorted leb x l) (x :: l).
  Proof.
    induction l as [|y l IH]; cbn [insert_sorted]; [apply Permutation_refl|].
    destruct (leb x y); [apply Permutation_refl|].
    eapply Permutation_trans; [apply perm_skip; exact IH | apply perm_swap].
  Qed.

  Lemma isort_perm l : Permutation (isort leb l) l.
  Proof.
    induction l as [|x l IH]; cbn [isort]; [constructor|].
    eapply Permutation_trans; [apply insert_perm | apply perm_skip; exact IH].
  Qed.

  Lemma insert_sorted_ok x l : sorted l -> sorted (insert_sorted leb x l).
  Proof.
    induction 1 as [|y l Hy Hs IH]; cbn [insert_sorted]; [constructor; [intros ? [] | constructor]|].
    destruct (leb x y) eqn:E.
    - constructor; [|constructor; auto]. intros z [<-|Hz]; auto. eapply leb_trans; eauto.
    - assert (Hyx : leb y x = true) by (destruct (leb_total x y); congruence).
      constructor; auto. intros z Hz.
      apply (Permutation_in _ (insert_perm x l)) in Hz. destruct Hz as [<-|Hz]; auto.
  Qed.

  Lemma isort_sorted l : sorted (isort leb l).
  Proof. induction l as [|x l IH]; cbn [isort]; [constructor | apply insert_sorted_ok; exact IH]. Qed.

  Lemma sorted_unique l1 : forall l2, sorted l1 -> sorted l2 -> Permutation l1 l2 -> l1 = l2.
  Proof.
    induction l1 as [|x l1 IH]; intros l2 H1 H2 Hp.
    - apply Permutation_nil in Hp. congruence.
    - destruct l2 as [|y l2]; [apply Permutation_sym, Permutation_nil in Hp; discriminate|].
      inversion H1 as [|? ? Hx Hs1]; subst. inversion H2 as [|? ? Hy Hs2]; subst.
      assert (x = y).
      { assert (Hxin : In x (y :: l2)) by (eapply Permutation_in; [exact Hp | left; auto]).
        assert (Hyin : In y (x :: l1)) by (eapply Permutation_in; [apply Permutation_sym; exact Hp | left; auto]).
        destruct Hxin as [->|Hxin]; [reflexivity|]. destruct Hyin as [->|Hyin]; [reflexivity|].
        apply leb_antisym; auto. }
      subst y. f_equal. apply IH; auto. eapply Permutation_cons_inv; eauto.
  Qed.

  Lemma isort_of_perm l l' : Permutation l l' -> isort leb l = isort leb l'.
  Proof.
    intros Hp. apply sorted_unique; try apply isort_sorted.
    eapply Permutation_trans; [apply isort_perm|]. eapply Permutation_trans; [exact Hp|].
    apply Permutation_sym, isort_perm.
  Qed.
End Sort.

(* the order on splitter ids *)
Lemma lex_leb_total a : forall b, lex_leb a b = true \/ lex_leb b a = true.
Proof.
  induction a as [|x a IH]; intros [|y b]; cbn [lex_leb]; auto.
  destruct (N.ltb x y) eqn:E1; auto. destruct (N.ltb y x) eqn:E2; auto.
  apply N.ltb_ge in E1, E2. assert (x = y) by lia. subst. rewrite N.eqb_refl. apply IH.
Qed.

Lemma lex_leb_trans a : forall b c, lex_leb a b = true -> lex_leb b c = true -> lex_leb a c = true.
Proof.
  induction a as [|x a IH]; intros [|y b] [|z c]; cbn [lex_leb]; auto; try discriminate.
  destruct (N.ltb x y) eqn:E1.
  - apply N.ltb_lt in E1. destruct (N.ltb y z) eqn:E2.
    + apply N.ltb_lt in E2. intros _ _. assert (H : N.ltb x z = true) by (apply N.ltb_lt; lia). rewrite H. reflexivity.
    + destruct (N.eqb y z) eqn:E3; [|discriminate]. apply N.eqb_eq in E3. subst. intros _ _.
      assert (H : N.ltb x z = true) by (apply N.ltb_lt; lia). rewrite H. reflexivity.
  - destruct (N.eqb x y) eqn:E3; [|discriminate]. apply N.eqb_eq in E3. subst y.
    destruct (N.ltb x z); auto. destruct (N.eqb x z); [|discriminate]. apply IH.
Qed.

Lemma lex_leb_antisym a : forall b, lex_leb a b = true -> lex_leb b a = true -> a = b.
Proof.
  induction a as [|x a IH]; intros [|y b]; cbn [lex_leb]; auto; try discriminate.
  destruct (N.ltb x y) eqn:E1.
  - apply N.ltb_lt in E1. assert (H : N.ltb y x = false) by (apply N.ltb_ge; lia). rewrite H.
    assert (H2 : N.eqb y x = false) by (apply N.eqb_neq; lia). rewrite H2. discriminate.
  - destruct (N.eqb x y) eqn:E3; [|discriminate]. apply N.eqb_eq in E3. subst y.
    rewrite N.ltb_irrefl, N.eqb_refl. intros H1 H2. f_equal. apply IH; auto.
Qed.

Lemma bytes_of_string_app a b : bytes_of_string (a ++ b)%string = bytes_of_string a ++ bytes_of_string b.
Proof. induction a as [|c a IH]; cbn [String.append bytes_of_string app]; [reflexivity | rewrite IH; reflexivity]. Qed.

Lemma bytes_of_string_inj a : forall b, bytes_of_string a = bytes_of_string b -> a = b.
Proof.
  induction a as [|c a IH]; intros [|d b]; cbn [bytes_of_string]; try discriminate; auto.
  intros H. injection H as H1 H2. f_equal; [|apply IH; exact H2].
  rewrite <- (ascii_N_embedding c), <- (ascii_N_embedding d), H1. reflexivity.
Qed.

Lemma name_key_inj a b : name_key a = name_key b -> a = b.
Proof.
  unfold name_key. rewrite !bytes_of_string_app. intros H. apply app_inv_tail in H. apply bytes_of_string_inj; exact H.
Qed.

Lemma name_leb_total x y : name_leb x y = true \/ name_leb y x = true.
Proof. apply lex_leb_total. Qed.
Lemma name_leb_trans x y z : name_leb x y = true -> name_leb y z = true -> name_leb x z = true.
Proof. apply lex_leb_trans. Qed.
Lemma name_leb_antisym x y : name_leb x y = true -> name_leb y x = true -> x = y.
Proof. intros H1 H2. apply name_key_inj. apply lex_leb_antisym; auto. Qed.

(* ------------------------------------------------------------------ the collected ids *)

Lemma eff_order_In ord (ns : nodes) k : In k (eff_order ord ns) <-> In k (map fst ns).
Proof.
  split; [|apply eff_order_covers]. unfold eff_order. intros H. apply in_app_or in H as [H|H].
  - apply (proj1 (dedup_In nid_eqb nid_eqb_eq _ _)) in H. apply filter_In in H as [_ H].
    apply (memb_In nid_eqb nid_eqb_eq). exact H.
  - apply filter_In in H as [H _]. exact H.
Qed.

Lemma NoDup_filter' {A} (f : A -> bool) l : NoDup l -> NoDup (filter f l).
Proof.
  induction 1 as [|x l Hx Hl IH]; cbn [filter]; [constructor|].
  destruct (f x); auto. constructor; auto. intros Hi. apply filter_In in Hi as [Hi _]. contradiction.
Qed.

Lemma eff_order_NoDup ord (ns : nodes) : NoDup (map fst ns) -> NoDup (eff_order ord ns).
Proof.
  intros Hn. unfold eff_order. apply NoDup_app_intro'.
  - apply (dedup_NoDup nid_eqb nid_eqb_eq).
  - apply NoDup_filter'. exact Hn.
  - intros x H1 H2. apply filter_In in H2 as [_ H2]. apply negb_true_iff in H2.
    apply (memb_not_In nid_eqb nid_eqb_eq) in H2. contradiction.
Qed.

Lemma sorted_order_indep mo1 mo2 (ns : nodes) :
  NoDup (map fst ns) -> sorted_order mo1 ns = sorted_order mo2 ns.
Proof.
  intros Hn. unfold sorted_order. f_equal.
  apply (isort_of_perm name_leb name_leb_total name_leb_trans name_leb_antisym).
  unfold splitter_names. apply Permutation_flat_map. apply NoDup_Permutation.
  - apply eff_order_NoDup; auto.
  - apply eff_order_NoDup; auto.
  - intros k. rewrite !eff_order_In. tauto.
Qed.

(* the compiled chain does not depend on the iteration order of the map the ids are collected from *)
Theorem compile_map_order es cx svc mo1 mo2 : compile es cx svc mo1 = compile es cx svc mo2.
Proof.
  unfold compile. destruct (assemble es cx svc) as [[[st start] router]|e] eqn:Ea; [|reflexivity].
  unfold go_order. rewrite (sorted_order_indep mo1 mo2); [reflexivity|].
  apply to_nodes_NoDup. eapply assemble_NDK; eauto.
Qed.
