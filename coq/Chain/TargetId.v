(* C15 — the model identifies a discovery target with the triple (service, subset, datacenter);
   the Go code identifies it with the string structs.ChainID builds from them.  The string is NOT
   injective (finding C15-target-id-collision: service "v1.a" and subset "v1" of service "a" get the
   same id, newTarget then hands back the earlier object); it is injective on names without dots,
   which is exactly the assumption under which the triple model and the code agree. *)
From Verif Require Import Base.Prelude.
From Verif Require Import Chain.Model.
From Verif Require Import Chain.Lemmas.
Local Open Scope string_scope.

(* structs.ChainID for a target without peer in the default namespace and partition *)
Definition chain_id (t : target) : string :=
  (if t_sub t =? "" then "" else t_sub t ++ ".") ++ t_svc t ++ ".default.default." ++ t_dc t.

Fixpoint no_dot (s : string) : bool :=
  match s with
  | EmptyString => true
  | String c s' => negb (Ascii.eqb c ".") && no_dot s'
  end.

Definition dot_free (t : target) : Prop := no_dot (t_svc t) = true /\ no_dot (t_sub t) = true /\ no_dot (t_dc t) = true.

Lemma chain_id_collision :
  Tgt "v1.a" "" "dc1" <> Tgt "a" "v1" "dc1" /\ chain_id (Tgt "v1.a" "" "dc1") = chain_id (Tgt "a" "v1" "dc1").
Proof. split; [discriminate | reflexivity]. Qed.

(* a dot-free prefix is determined by the string up to its first dot *)
Lemma split_first_dot a : forall a' r r',
  no_dot a = true -> no_dot a' = true -> (a ++ String "." r) = (a' ++ String "." r') -> a = a' /\ r = r'.
Proof.
  induction a as [|c a IH]; intros [|c' a'] r r' Ha Ha'; cbn [String.append no_dot] in *.
  - intros H; injection H as ->. auto.
  - intros H; injection H as <- _. apply andb_true_iff in Ha' as [Hc _]. rewrite Ascii.eqb_refl in Hc. discriminate.
  - intros H; injection H as -> _. apply andb_true_iff in Ha as [Hc _]. rewrite Ascii.eqb_refl in Hc. discriminate.
  - apply andb_true_iff in Ha as [_ Ha]. apply andb_true_iff in Ha' as [_ Ha'].
    intros H; injection H as -> H. destruct (IH _ _ _ Ha Ha' H) as [-> ->]. auto.
Qed.

Lemma no_dot_app_dot a r : no_dot (a ++ String "." r) = false.
Proof. induction a as [|c a IH]; cbn [String.append no_dot]; [reflexivity|]. rewrite IH. apply andb_false_r. Qed.

Lemma append_assoc' a b c : ((a ++ b) ++ c)%string = (a ++ (b ++ c))%string.
Proof. induction a as [|x a IH]; cbn [String.append]; [reflexivity | rewrite IH; reflexivity]. Qed.

(* dotted concatenation of components, then a last component *)
Fixpoint join (l : list string) (last : string) : string :=
  match l with nil => last | cons c l' => c ++ String "." (join l' last) end.

Lemma join_inj l : forall l' x x',
  Forall (fun c => no_dot c = true) l -> Forall (fun c => no_dot c = true) l' ->
  no_dot x = true -> no_dot x' = true -> join l x = join l' x' -> l = l' /\ x = x'.
Proof.
  induction l as [|c l IH]; intros [|c' l'] x x' Hl Hl' Hx Hx'; cbn [join].
  - auto.
  - intros H. rewrite H, no_dot_app_dot in Hx. discriminate.
  - intros H. rewrite <- H, no_dot_app_dot in Hx'. discriminate.
  - inversion Hl as [|? ? Hc Hl0]; subst. inversion Hl' as [|? ? Hc' Hl0']; subst. intros H.
    apply split_first_dot in H as [-> H]; auto. destruct (IH _ _ _ Hl0 Hl0' Hx Hx' H) as [-> ->]. auto.
Qed.

Lemma chain_id_join t :
  chain_id t = join ((if t_sub t =? "" then nil else cons (t_sub t) nil) ++ cons (t_svc t) (cons "default" (cons "default" nil)))%list (t_dc t).
Proof.
  unfold chain_id. destruct (t_sub t =? ""); cbn [app join].
  - rewrite ?append_assoc'. reflexivity.
  - rewrite ?append_assoc'. reflexivity.
Qed.

Lemma chain_id_injective t1 t2 : dot_free t1 -> dot_free t2 -> chain_id t1 = chain_id t2 -> t1 = t2.
Proof.
  intros (Hs1 & Hb1 & Hd1) (Hs2 & Hb2 & Hd2). rewrite !chain_id_join. intros H.
  apply join_inj in H; auto.
  - destruct H as [Hl Hd]. destruct t1 as [s1 b1 d1], t2 as [s2 b2 d2]; cbn [t_svc t_sub t_dc] in *. subst d2.
    destruct (b1 =? "") eqn:E1, (b2 =? "") eqn:E2; cbn [app] in Hl; try discriminate.
    + apply String.eqb_eq in E1, E2. subst. injection Hl as ->. reflexivity.
    + injection Hl as -> ->. reflexivity.
  - destruct (t_sub t1 =? ""); cbn [app]; repeat constructor; auto.
  - destruct (t_sub t2 =? ""); cbn [app]; repeat constructor; auto.
Qed.
