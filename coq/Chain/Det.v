(* C15 — the compiler reads the entry set only through the map (kind, name) -> entry and the
   number of entries (its loop bounds): reordering the entry list changes nothing. *)
From Verif Require Import Base.Prelude.
From Verif Require Import Chain.Model.
From Verif Require Import Chain.Lemmas.
From Coq Require Import Permutation.
Local Open Scope string_scope.
Local Open Scope list_scope.

Lemma lookup_entry_None es k : lookup_entry es k = None <-> ~ In k (map ekey es).
Proof.
  induction es as [|e es IH]; cbn [lookup_entry map In]; [tauto|].
  destruct (key_eqb (ekey e) k) eqn:E.
  - apply key_eqb_eq in E. split; [discriminate | intros H; exfalso; apply H; auto].
  - rewrite IH. split; [intros H [H1|H1]; [rewrite H1, key_eqb_refl in E; discriminate | auto] | tauto].
Qed.

Lemma lookup_entry_perm es es' :
  Permutation es es' -> NoDup (map ekey es) -> forall k, lookup_entry es k = lookup_entry es' k.
Proof.
  induction 1 as [|x l l' Hp IH|x y l|l l' l'' Hp1 IH1 Hp2 IH2]; intros Hnd k.
  - reflexivity.
  - cbn [lookup_entry]. destruct (key_eqb (ekey x) k); [reflexivity|]. apply IH. inversion Hnd; auto.
  - cbn [lookup_entry]. destruct (key_eqb (ekey y) k) eqn:Ey, (key_eqb (ekey x) k) eqn:Ex; try reflexivity.
    apply key_eqb_eq in Ey, Ex. cbn [map] in Hnd. inversion Hnd as [|? ? Hn _]; subst.
    exfalso. apply Hn. left. congruence.
  - rewrite IH1; auto. apply IH2. eapply Permutation_NoDup; [|exact Hnd]. apply Permutation_map. exact Hp1.
Qed.

Section Ext.
  Variables es es' : list entry.
  Hypothesis Hlk : forall k, lookup_entry es k = lookup_entry es' k.
  Hypothesis Hlen : List.length es = List.length es'.
  Variable cx : ctx.

  Lemma get_router_ext n : get_router es n = get_router es' n.
  Proof. unfold get_router. rewrite Hlk. reflexivity. Qed.
  Lemma get_splitter_ext n : get_splitter es n = get_splitter es' n.
  Proof. unfold get_splitter. rewrite Hlk. reflexivity. Qed.
  Lemma get_resolver_ext n : get_resolver es n = get_resolver es' n.
  Proof. unfold get_resolver. rewrite Hlk. reflexivity. Qed.
  Lemma get_defaults_ext n : get_defaults es n = get_defaults es' n.
  Proof. unfold get_defaults. rewrite Hlk. reflexivity. Qed.
  Lemma get_proxy_ext : get_proxy es = get_proxy es'.
  Proof. unfold get_proxy. rewrite Hlk. reflexivity. Qed.

  Lemma resolver_of_ext s : resolver_of es s = resolver_of es' s.
  Proof. unfold resolver_of. rewrite get_resolver_ext. reflexivity. Qed.

  Lemma record_protocol_ext st s : record_protocol es st s = record_protocol es' st s.
  Proof. unfold record_protocol, raw_protocol. rewrite get_defaults_ext, get_proxy_ext. reflexivity. Qed.

  Lemma redirect_fuel_ext : redirect_fuel es = redirect_fuel es'.
  Proof. unfold redirect_fuel. rewrite Hlen. reflexivity. Qed.

  Lemma splitter_fuel_ext : splitter_fuel es = splitter_fuel es'.
  Proof. unfold splitter_fuel. rewrite Hlen. reflexivity. Qed.

  Lemma resolve_loop_ext : forall fuel st hist t,
    resolve_loop es cx fuel st hist t = resolve_loop es' cx fuel st hist t.
  Proof.
    induction fuel as [|f IH]; intros st hist t; cbn [resolve_loop];
      rewrite record_protocol_ext, resolver_of_ext; [reflexivity|].
    destruct (mem_resolver st t); [reflexivity|].
    destruct (record_protocol es' st (t_svc t)); [|reflexivity].
    destruct (memb target_eqb t hist); [reflexivity|].
    destruct (step cx (resolver_of es' (t_svc t)) t); try reflexivity. apply IH.
  Qed.

  Lemma external_check_ext r t : external_check es r t = external_check es' r t.
  Proof. unfold external_check. rewrite get_defaults_ext. reflexivity. Qed.

  Lemma resolve_ff_ext st t : resolve_ff es cx st t = resolve_ff es' cx st t.
  Proof.
    unfold resolve_ff. rewrite redirect_fuel_ext, resolve_loop_ext.
    destruct (resolve_loop es' cx (redirect_fuel es') st [] t) as [[st1 [x|x r]]|e]; try reflexivity.
    rewrite external_check_ext. reflexivity.
  Qed.

  Lemma resolve_failovers_ext : forall l st, resolve_failovers es cx st l = resolve_failovers es' cx st l.
  Proof.
    induction l as [|ft l IH]; intros st; cbn [resolve_failovers]; [reflexivity|].
    rewrite resolve_ff_ext. destruct (resolve_ff es' cx st ft) as [[st1 t1]|e]; [|reflexivity].
    rewrite IH. reflexivity.
  Qed.

  Lemma get_resolver_node_ext st t : get_resolver_node es cx st t = get_resolver_node es' cx st t.
  Proof.
    unfold get_resolver_node. rewrite redirect_fuel_ext, resolve_loop_ext.
    destruct (resolve_loop es' cx (redirect_fuel es') st [] t) as [[st1 [x|x r]]|e]; try reflexivity.
    rewrite external_check_ext. destruct (external_check es' r x); [reflexivity|].
    rewrite resolve_failovers_ext. reflexivity.
  Qed.

  Lemma do_legs_ext rec rec' self : (forall st s, rec st s = rec' st s) -> forall l st,
    do_legs es cx rec self st l = do_legs es' cx rec' self st l.
  Proof.
    intros Hrec. induction l as [|sp l IH]; intros st; cbn [do_legs]; [reflexivity|].
    rewrite Hrec.
    destruct (if negb (default_if_empty (sp_svc sp) self =? self) && (sp_sub sp =? "")
              then rec' st (default_if_empty (sp_svc sp) self) else Ok (st, None)) as [[st1 [id|]]|e]; try reflexivity.
    - rewrite IH. reflexivity.
    - rewrite get_resolver_node_ext.
      destruct (get_resolver_node es' cx st1 (new_target cx (default_if_empty (sp_svc sp) self) (sp_sub sp))) as [[st2 t']|e];
        [|reflexivity].
      rewrite IH. reflexivity.
  Qed.

  Lemma get_splitter_node_ext : forall fuel st s,
    get_splitter_node es cx fuel st s = get_splitter_node es' cx fuel st s.
  Proof.
    induction fuel as [|f IH]; intros st s; cbn [get_splitter_node]; rewrite get_splitter_ext; [reflexivity|].
    destruct (mem_splitter st s); [reflexivity|].
    destruct (if disable_adv cx then None else get_splitter es' s) as [splits|]; [|reflexivity].
    rewrite (do_legs_ext _ _ s IH). reflexivity.
  Qed.

  Lemma get_split_or_resolve_ext st t : get_split_or_resolve es cx st t = get_split_or_resolve es' cx st t.
  Proof.
    unfold get_split_or_resolve. rewrite splitter_fuel_ext, get_splitter_node_ext.
    destruct (get_splitter_node es' cx (splitter_fuel es') st (t_svc t)) as [[st1 [id|]]|e]; try reflexivity.
    rewrite get_resolver_node_ext. reflexivity.
  Qed.

  Lemma do_routes_ext svc : forall l st, do_routes es cx svc st l = do_routes es' cx svc st l.
  Proof.
    induction l as [|r l IH]; intros st; cbn [do_routes]; [reflexivity|].
    rewrite get_split_or_resolve_ext, get_resolver_node_ext.
    destruct (if rt_sub r =? "" then get_split_or_resolve es' cx st (new_target cx (default_if_empty (rt_svc r) svc) "")
              else match get_resolver_node es' cx st (new_target cx (default_if_empty (rt_svc r) svc) (rt_sub r)) with
                   | Err e => Err e | Ok (st1, t') => Ok (st1, NResolver t') end) as [[st1 id]|e]; [|reflexivity].
    rewrite IH. reflexivity.
  Qed.

  Lemma assemble_ext svc : assemble es cx svc = assemble es' cx svc.
  Proof.
    unfold assemble. rewrite get_router_ext, record_protocol_ext, get_split_or_resolve_ext.
    destruct (if disable_adv cx then None else get_router es' svc) as [routes|]; [|reflexivity].
    destruct (record_protocol es' (set_adv st0) svc) as [st1|e]; [|reflexivity].
    rewrite do_routes_ext. destruct (do_routes es' cx svc st1 routes) as [[st2 ids]|e]; [|reflexivity].
    rewrite get_split_or_resolve_ext. reflexivity.
  Qed.

  Lemma compile_ext svc ords : compile_ord es cx svc ords = compile_ord es' cx svc ords.
  Proof. unfold compile_ord. rewrite assemble_ext. reflexivity. Qed.
End Ext.

(* the result does not depend on the order in which the entries are listed *)
Theorem compile_permutation es es' cx svc ords :
  NoDup (map ekey es) -> Permutation es es' -> compile_ord es cx svc ords = compile_ord es' cx svc ords.
Proof.
  intros Hnd Hp. apply compile_ext.
  - intros k. apply lookup_entry_perm; auto.
  - apply Permutation_length. exact Hp.
Qed.
