(* C15 — the compiler as a whole: termination (no loop bound exhausted, no Go panic), closure
   of the compiled graph, cycles reported, independence of the order of the entry list. *)
From Verif Require Import Base.Prelude.
From Verif Require Import Chain.Model.
From Verif Require Import Chain.Lemmas.
From Verif Require Import Chain.Passes.
From Verif Require Import Chain.Resolve.
From Verif Require Import Chain.Assemble.
Local Open Scope string_scope.
Local Open Scope list_scope.

(* node kinds agree with key kinds *)
Definition well_kinded (ns : nodes) : Prop :=
  forall k nd, lookup k ns = Some nd ->
    match k, nd with
    | NRouter _, RouterN _ | NSplitter _, SplitterN _ | NResolver _, ResolverN _ _ => True
    | _, _ => False
    end.

Lemma to_nodes_well_kinded svc st r : well_kinded (to_nodes svc st r).
Proof.
  intros k nd Hl. rewrite lookup_to_nodes in Hl. destruct k as [x|x|x].
  - destruct r; [|discriminate]. destruct (x =? svc); [|discriminate]. injection Hl as <-. exact I.
  - destruct (assoc String.eqb x (s_splitters st)); [|discriminate]. injection Hl as <-. exact I.
  - destruct (assoc target_eqb x (s_resolvers st)); [|discriminate]. injection Hl as <-. exact I.
Qed.

Lemma Pres_well_kinded : Pres well_kinded.
Proof.
  intros ns k edges H Hl x nd Hx. rewrite lookup_upsert in Hx. destruct (nid_eqb x k) eqn:E; [|eapply H; eauto].
  apply nid_eqb_eq in E; subst. injection Hx as <-. specialize (H k _ Hl). destruct k; auto.
Qed.

(* resolver nodes carry their targets in the retained set *)
Definition targets_ok (ts : list target) (ns : nodes) : Prop :=
  forall t d fo, lookup (NResolver t) ns = Some (ResolverN d fo) -> In t ts /\ incl fo ts.

Lemma lookup_keys_same (ns ns' : nodes) k : map fst ns' = map fst ns -> lookup k ns <> None -> lookup k ns' <> None.
Proof.
  intros Hk Hl. destruct (lookup k ns) as [nd|] eqn:E; [|congruence].
  apply (assoc_Some_key nid_eqb nid_eqb_eq) in E. rewrite <- Hk in E.
  apply (In_key_assoc nid_eqb nid_eqb_eq) in E as (v & ->). discriminate.
Qed.

Section Compile.
  Variable es : list entry.
  Variable cx : ctx.
  Variable svc : string.

  (* everything the passes establish about the table assembleChain produced *)
  Lemma passes_spec st start router ords :
    assemble es cx svc = Ok (st, start, router) ->
    let ns := to_nodes svc st router in
    detect (detect_fuel ns) ns [] start = DCycle \/
    (detect (detect_fuel ns) ns [] start = DOk /\
     exists ns1 ns2 r,
       flatten (flatten_fuel ns) ords ns = Some ns1 /\ remove_unused ns1 start = Ok ns2 /\
       lookup start ns2 <> None /\ closed ns2 /\ Ranked r ns2 /\ well_kinded ns2 /\
       targets_ok (s_retained st) ns2 /\
       (nonempty_nodes ns -> nonempty_nodes ns2) /\
       (forall k nd, lookup k ns2 = Some nd -> lookup k ns1 = Some nd) /\
       map fst ns1 = map fst ns).
  Proof.
    intros Ha ns. destruct (assemble_spec es cx svc _ _ _ Ha) as (Hcl & Hst & Hreach & (C1 & C2 & C3) & Hcnt & Hrt).
    fold ns in Hcl, Hst, Hreach.
    destruct (detect (detect_fuel ns) ns [] start) eqn:Ed.
    - right. split; [reflexivity|].
      set (F := detect_fuel ns) in *. set (r := height F ns).
      assert (HR : Ranked r ns).
      { intros a b He. unfold r. eapply detect_ranked; [exact Ed | | exact He].
        apply Hreach. destruct He as (nd & Hl & _). congruence. }
      assert (HB : forall a, BndAt r (2 + List.length ns) ns a).
      { intros a b _. unfold r. pose proof (height_le F ns b). unfold F, detect_fuel in *. lia. }
      pose proof (flatten_terminates r _ ords ns HR HB) as Hfl.
      change (S (2 + List.length ns)) with (flatten_fuel ns) in Hfl.
      destruct (flatten (flatten_fuel ns) ords ns) as [ns1|] eqn:Ef; [|congruence].
      assert (HR1 : Ranked r ns1) by (eapply (flatten_pres (Ranked r)); eauto using Pres_Ranked).
      assert (Hcl1 : closed ns1) by (eapply (flatten_pres closed); eauto using Pres_closed).
      assert (Hk1 : map fst ns1 = map fst ns)
        by (eapply (flatten_pres (fun x => map fst x = map fst ns)); eauto using Pres_keys).
      assert (Hwk1 : well_kinded ns1)
        by (eapply (flatten_pres well_kinded); eauto using Pres_well_kinded, to_nodes_well_kinded).
      assert (Hoth : forall a, is_splitter ns a = false -> lookup a ns1 = lookup a ns)
        by (eapply (flatten_pres (fun x => forall a, is_splitter ns a = false -> lookup a x = lookup a ns)); eauto using Pres_others).
      assert (Hst1 : lookup start ns1 <> None) by (eapply lookup_keys_same; eauto).
      destruct (remove_unused_spec ns1 start Hcl1 Hst1) as (ns2 & Er & Hst2 & Hcl2 & Hsub).
      exists ns1, ns2, r. split; [reflexivity|]. split; [exact Er|]. split; [exact Hst2|]. split; [exact Hcl2|].
      split; [|split; [|split; [|split; [|split]]]].
      + intros a b (nd & Hl & Hc). apply HR1. exists nd. split; auto.
      + intros k nd Hl. apply (Hwk1 k nd). auto.
      + intros t d fo Hl. apply Hsub in Hl. rewrite Hoth in Hl.
        * unfold ns in Hl. rewrite lookup_to_nodes in Hl.
          destruct (assoc target_eqb t (s_resolvers st)) as [n|] eqn:E; [|discriminate].
          injection Hl as <- <-. eapply C2; eauto.
        * unfold is_splitter, ns. rewrite lookup_to_nodes.
          destruct (assoc target_eqb t (s_resolvers st)); reflexivity.
      + intros Hne. assert (Hne1 : nonempty_nodes ns1) by (eapply (flatten_pres nonempty_nodes); eauto using Pres_nonempty).
        intros k nd Hl. apply (Hne1 k nd). auto.
      + exact Hsub.
      + exact Hk1.
    - left; reflexivity.
    - exfalso. revert Ed. apply detect_no_fuel; [constructor | intros ? [] |].
      unfold detect_fuel. cbn [List.length]. lia.
    - exfalso. revert Ed. apply detect_no_missing; auto.
  Qed.

  (* ---- which errors can come out of assembleChain ---- *)

  Definition user_err (e : cerr) : Prop :=
    match e with EOutOfFuel | EInternal | ECircularReference | ENoAdvanced => False | _ => True end.

  Lemma resolve_loop_user_err fuel st hist t e :
    resolve_loop es cx fuel st hist t = Err e -> e <> EOutOfFuel -> user_err e.
  Proof.
    intros H Hn. destruct (resolve_loop_err _ _ _ _ _ _ _ H) as [->|[->|[->| ->]]]; cbn; auto.
  Qed.

  Lemma external_check_user_err r x e : external_check es r x = Some e -> user_err e.
  Proof.
    unfold external_check. destruct (get_defaults es (t_svc x)) as [[? [|]]|]; try discriminate.
    destruct (rs_redirect r); [intros E; injection E as <-; exact I|].
    destruct (rs_subsets r); [|intros E; injection E as <-; exact I].
    destruct (rs_failover r); [discriminate | intros E; injection E as <-; exact I].
  Qed.

  Lemma resolve_ff_user_err st t e : resolve_ff es cx st t = Err e -> user_err e.
  Proof.
    intros H. pose proof (resolve_ff_no_fuel es cx st t) as Hn. revert H. unfold resolve_ff in *.
    destruct (resolve_loop es cx (redirect_fuel es) st [] t) as [[st1 [x|x r]]|e1] eqn:E; try discriminate.
    - destruct (external_check es r x) eqn:Ex; [|discriminate]. intros H; injection H as <-.
      eapply external_check_user_err; eauto.
    - intros H; injection H as <-. eapply resolve_loop_user_err; eauto. congruence.
  Qed.

  Lemma resolve_failovers_user_err : forall l st e, resolve_failovers es cx st l = Err e -> user_err e.
  Proof.
    induction l as [|ft l IH]; intros st e; cbn [resolve_failovers]; [discriminate|].
    destruct (resolve_ff es cx st ft) as [[st1 t1]|e1] eqn:E1.
    - destruct (resolve_failovers es cx st1 l) as [[st2 ts]|e2] eqn:E2; [discriminate|].
      intros H; injection H as <-. eapply IH; eauto.
    - intros H; injection H as <-. eapply resolve_ff_user_err; eauto.
  Qed.

  Lemma get_resolver_node_user_err st t e : get_resolver_node es cx st t = Err e -> user_err e.
  Proof.
    pose proof (resolve_loop_terminates es cx st t) as Hn. unfold get_resolver_node.
    destruct (resolve_loop es cx (redirect_fuel es) st [] t) as [[st1 [x|x r]]|e1] eqn:E; try discriminate.
    - destruct (external_check es r x) eqn:Ex; [intros H; injection H as <-; eapply external_check_user_err; eauto|].
      match goal with |- context [resolve_failovers es cx ?s ?l] =>
        destruct (resolve_failovers es cx s l) as [[st4 [|? ?]]|e2] eqn:Ef end; try discriminate.
      intros H; injection H as <-. eapply resolve_failovers_user_err; eauto.
    - intros H; injection H as <-. eapply resolve_loop_user_err; eauto. congruence.
  Qed.

  Definition rec_err (rec : cstate -> string -> cres (cstate * option nid)) : Prop :=
    forall st s e, rec st s = Err e -> user_err e \/ e = EOutOfFuel.

  Lemma do_legs_user_err rec self : rec_err rec -> forall l st e,
    do_legs es cx rec self st l = Err e -> user_err e \/ e = EOutOfFuel.
  Proof.
    intros Hrec. induction l as [|sp l IH]; intros st e; cbn [do_legs]; [discriminate|].
    set (s := default_if_empty (sp_svc sp) self).
    destruct (if negb (s =? self) && (sp_sub sp =? "") then rec st s else Ok (st, None)) as [[st1 [id|]]|e1] eqn:E1.
    - destruct (do_legs es cx rec self st1 l) as [[? ?]|e2] eqn:E2; [discriminate|].
      intros H; injection H as <-. eapply IH; eauto.
    - destruct (get_resolver_node es cx st1 (new_target cx s (sp_sub sp))) as [[st2 t']|e2] eqn:E2.
      + destruct (do_legs es cx rec self st2 l) as [[? ?]|e3] eqn:E3; [discriminate|].
        intros H; injection H as <-. eapply IH; eauto.
      + intros H; injection H as <-. left. eapply get_resolver_node_user_err; eauto.
    - destruct (negb (s =? self) && (sp_sub sp =? "")); [|discriminate].
      intros H; injection H as <-. eapply Hrec; eauto.
  Qed.

  Lemma get_splitter_node_user_err : forall fuel, rec_err (get_splitter_node es cx fuel).
  Proof.
    induction fuel as [|f IH]; intros st s e; cbn [get_splitter_node];
      (destruct (mem_splitter st s); [discriminate|]);
      destruct (if disable_adv cx then None else get_splitter es s) as [splits|]; try discriminate.
    - intros H; injection H as <-. auto.
    - destruct (do_legs es cx (get_splitter_node es cx f) s (record_splitter st s []) splits) as [[? ?]|e1] eqn:E1; [discriminate|].
      intros H; injection H as <-. eapply do_legs_user_err; eauto.
  Qed.

  Lemma get_split_or_resolve_user_err st t e :
    get_split_or_resolve es cx st t = Err e -> user_err e \/ e = EOutOfFuel.
  Proof.
    unfold get_split_or_resolve.
    destruct (get_splitter_node es cx (splitter_fuel es) st (t_svc t)) as [[st1 [id|]]|e1] eqn:E1; [discriminate| |].
    - destruct (get_resolver_node es cx st1 t) as [[? ?]|e2] eqn:E2; [discriminate|].
      intros H; injection H as <-. left. eapply get_resolver_node_user_err; eauto.
    - intros H; injection H as <-. eapply get_splitter_node_user_err; eauto.
  Qed.

  Lemma do_routes_user_err : forall l st e, do_routes es cx svc st l = Err e -> user_err e \/ e = EOutOfFuel.
  Proof.
    induction l as [|r l IH]; intros st e; cbn [do_routes]; [discriminate|].
    set (s := default_if_empty (rt_svc r) svc).
    destruct (if rt_sub r =? "" then get_split_or_resolve es cx st (new_target cx s "")
              else match get_resolver_node es cx st (new_target cx s (rt_sub r)) with
                   | Err e => Err e | Ok (st1, t') => Ok (st1, NResolver t') end) as [[st1 id]|e1] eqn:E1.
    - destruct (do_routes es cx svc st1 l) as [[? ?]|e2] eqn:E2; [discriminate|].
      intros H; injection H as <-. eapply IH; eauto.
    - intros H; injection H as <-. destruct (rt_sub r =? ""); [eapply get_split_or_resolve_user_err; eauto|].
      destruct (get_resolver_node es cx st (new_target cx s (rt_sub r))) as [[? ?]|e2] eqn:E2; [discriminate|].
      injection E1 as <-. left. eapply get_resolver_node_user_err; eauto.
  Qed.

  Lemma assemble_user_err e : assemble es cx svc = Err e -> user_err e.
  Proof.
    intros H. pose proof (assemble_no_fuel es cx svc) as Hn. rewrite H in Hn.
    assert (Hu : user_err e \/ e = EOutOfFuel); [|destruct Hu; [auto | congruence]].
    revert H. unfold assemble. destruct (if disable_adv cx then None else get_router es svc) as [routes|].
    - destruct (record_protocol es (set_adv st0) svc) as [st1|e1] eqn:Ep.
      + destruct (do_routes es cx svc st1 routes) as [[st2 ids]|e2] eqn:Er.
        * destruct (get_split_or_resolve es cx st2 (new_target cx svc "")) as [[? ?]|e3] eqn:Ed; [discriminate|].
          intros H; injection H as <-. eapply get_split_or_resolve_user_err; eauto.
        * intros H; injection H as <-. eapply do_routes_user_err; eauto.
      + intros H; injection H as <-. apply record_protocol_err in Ep. subst. left; exact I.
    - destruct (get_split_or_resolve es cx st0 (new_target cx svc "")) as [[? ?]|e3] eqn:Ed; [discriminate|].
      intros H; injection H as <-. eapply get_split_or_resolve_user_err; eauto.
  Qed.

  (* ---- termination ---- *)

  (* no loop bound of the model is ever exhausted, and no "impossible" lookup fails: on every input
     the compiler returns a graph or one of the errors a user can cause *)
  Theorem compile_total ords :
    (exists g, compile_ord es cx svc ords = Ok g) \/
    (exists e, compile_ord es cx svc ords = Err e /\ e <> EOutOfFuel /\ e <> EInternal).
  Proof.
    unfold compile_ord. destruct (assemble es cx svc) as [[[st start] router]|e] eqn:Ea.
    - destruct (passes_spec _ _ _ ords Ea) as [Hd|(Hd & ns1 & ns2 & r & Hf & Hr & _)]; cbn zeta in *.
      + rewrite Hd. right. eexists; split; [reflexivity|]. split; discriminate.
      + rewrite Hd, Hf, Hr. destruct (negb (http_like (s_proto st)) && s_adv st).
        * right. eexists; split; [reflexivity|]. split; discriminate.
        * left. eexists; reflexivity.
    - right. exists e. split; [reflexivity|]. apply assemble_user_err in Ea. destruct e; cbn in Ea; try contradiction; split; discriminate.
  Qed.

  Theorem compile_terminates ords : compile_ord es cx svc ords <> Err EOutOfFuel.
  Proof. destruct (compile_total ords) as [(g & ->)|(e & -> & H & _)]; congruence. Qed.

  Theorem compile_no_internal ords : compile_ord es cx svc ords <> Err EInternal.
  Proof. destruct (compile_total ords) as [(g & ->)|(e & -> & _ & H)]; congruence. Qed.

  (* ---- closure ---- *)

  Definition splitters_nonempty : Prop := forall s l, get_splitter es s = Some l -> l <> [].

  Theorem compile_closed ords g :
    compile_ord es cx svc ords = Ok g ->
    lookup (g_start g) (g_nodes g) <> None /\
    closed (g_nodes g) /\
    well_kinded (g_nodes g) /\
    targets_ok (g_targets g) (g_nodes g) /\
    (exists r, Ranked r (g_nodes g)) /\
    (splitters_nonempty -> nonempty_nodes (g_nodes g)).
  Proof.
    unfold compile_ord. destruct (assemble es cx svc) as [[[st start] router]|e] eqn:Ea; [|discriminate].
    destruct (passes_spec _ _ _ ords Ea) as [Hd|(Hd & ns1 & ns2 & r & Hf & Hr & H1 & H2 & H3 & H4 & H5 & H6 & _)]; cbn zeta in *.
    - rewrite Hd. discriminate.
    - rewrite Hd, Hf, Hr. destruct (negb (http_like (s_proto st)) && s_adv st); [discriminate|].
      intros E; injection E as <-. cbn [g_start g_nodes g_targets].
      split; [exact H1|]. split; [exact H2|]. split; [exact H4|]. split; [exact H5|]. split; [exists r; exact H3|].
      intros Hne. apply H6.
      destruct (assemble_spec es cx svc _ _ _ Ea) as (_ & _ & _ & _ & Hcnt & Hrt).
      intros k nd Hl. rewrite lookup_to_nodes in Hl. destruct k as [x|x|x].
      + destruct router as [l|]; [|discriminate]. destruct (x =? svc); [|discriminate]. injection Hl as <-.
        cbn [children]. apply Hrt.
      + destruct (assoc String.eqb x (s_splitters st)) as [edges|] eqn:E; [|discriminate]. injection Hl as <-.
        cbn [children]. destruct (Hcnt _ _ E) as [[]|(l & Hg & Hlen)]. apply Hne in Hg.
        destruct edges; [destruct l; [congruence | discriminate] | discriminate].
      + destruct (assoc target_eqb x (s_resolvers st)); [|discriminate]. injection Hl as <-. exact I.
  Qed.

  (* ---- cycles ---- *)

  (* a reference cycle among the assembled router / splitter nodes is reported *)
  Theorem compile_reference_cycle ords st start router a b :
    assemble es cx svc = Ok (st, start, router) ->
    let ns := to_nodes svc st router in
    reachN ns start a -> edge ns a b -> reachN ns b a ->
    compile_ord es cx svc ords = Err ECircularReference.
  Proof.
    intros Ea ns H1 H2 H3. unfold compile_ord. rewrite Ea.
    destruct (passes_spec _ _ _ ords Ea) as [Hd|(Hd & _)]; cbn zeta in *.
    - rewrite Hd. reflexivity.
    - exfalso. exact (detect_cycle _ _ _ _ _ _ H1 H2 H3 Hd).
  Qed.

  (* a redirect cycle starting at the chain's own resolver is reported (when no router or splitter
     sits in front of it) *)
  Theorem compile_redirect_cycle ords :
    (disable_adv cx = true \/ (get_router es svc = None /\ get_splitter es svc = None)) ->
    cyclic es cx (new_target cx svc "") ->
    compile_ord es cx svc ords = Err ECircularRedirect \/ compile_ord es cx svc ords = Err EProtocolMismatch.
  Proof.
    intros Hno Hc.
    assert (Hr : (if disable_adv cx then None else get_router es svc) = None)
      by (destruct Hno as [-> | [-> _]]; [reflexivity | destruct (disable_adv cx); reflexivity]).
    assert (Hs : (if disable_adv cx then None else get_splitter es svc) = None)
      by (destruct Hno as [-> | [_ ->]]; [reflexivity | destruct (disable_adv cx); reflexivity]).
    assert (HF : Final_memo es cx st0) by (intros t Ht; discriminate).
    unfold compile_ord, assemble. rewrite Hr. unfold get_split_or_resolve.
    cbn [t_svc new_target].
    assert (Hg : get_splitter_node es cx (splitter_fuel es) st0 svc = Ok (st0, None)).
    { unfold splitter_fuel. cbn [get_splitter_node]. unfold mem_splitter; cbn [st0 s_splitters assoc]. rewrite Hs. reflexivity. }
    rewrite Hg. unfold get_resolver_node.
    destruct (resolve_loop_cycle es cx st0 (new_target cx svc "") HF Hc) as [-> | ->]; auto.
  Qed.
  (* whether compile_ord fails, and with which error, does not depend on the flatten order *)
  Theorem compile_error_order o1 o2 e : compile_ord es cx svc o1 = Err e -> compile_ord es cx svc o2 = Err e.
  Proof.
    unfold compile_ord. destruct (assemble es cx svc) as [[[st start] router]|e0] eqn:Ea; [|auto].
    destruct (passes_spec _ _ _ o1 Ea) as [Hd|(Hd & a1 & a2 & r1 & Hf1 & Hr1 & _)];
      destruct (passes_spec _ _ _ o2 Ea) as [Hd'|(Hd' & b1 & b2 & r2 & Hf2 & Hr2 & _)]; cbn zeta in *;
      rewrite ?Hd; try (rewrite Hd in Hd'; discriminate); auto.
    rewrite Hf1, Hr1, Hf2, Hr2. destruct (negb (http_like (s_proto st)) && s_adv st); [auto | discriminate].
  Qed.
End Compile.

(* ------------------------------------------------------------------ paths of a closed, ranked table *)

Section Paths.
  Variable ns : nodes.
  Variable ts : list target.
  Variable start : nid.
  Hypothesis Hstart : lookup start ns <> None.
  Hypothesis Hclosed : closed ns.
  Hypothesis Hkind : well_kinded ns.
  Hypothesis Htargets : targets_ok ts ns.
  Hypothesis Hne : nonempty_nodes ns.

  Lemma reach_present_gen s0 a : reachN ns s0 a -> lookup s0 ns <> None -> lookup a ns <> None.
  Proof. induction 1 as [|a b c He Hr IH]; auto. intros H. apply IH. eapply Hclosed; eauto. Qed.

  Lemma reach_present a : reachN ns start a -> lookup a ns <> None.
  Proof. intros H. eapply reach_present_gen; eauto. Qed.

  (* a node from which no edge leaves is a resolver whose target is in the target map *)
  Lemma dead_end_is_resolver a :
    lookup a ns <> None -> (forall b, ~ edge ns a b) -> exists t, a = NResolver t /\ In t ts.
  Proof.
    intros Hp Hno. destruct (lookup a ns) as [nd|] eqn:El; [|congruence].
    pose proof (Hne _ _ El) as Hn. pose proof (Hkind _ _ El) as Hk.
    destruct nd as [l|l|d fo].
    - exfalso. destruct (children (RouterN l)) as [|b ?] eqn:Ec; [congruence|].
      apply (Hno b). exists (RouterN l). rewrite Ec. split; auto. left; auto.
    - exfalso. destruct (children (SplitterN l)) as [|b ?] eqn:Ec; [congruence|].
      apply (Hno b). exists (SplitterN l). rewrite Ec. split; auto. left; auto.
    - destruct a as [x|x|x]; try contradiction. exists x. split; auto. destruct (Htargets _ _ _ El) as [H _]; exact H.
  Qed.

  (* every walk can be continued to a resolver; with the rank (no walk is infinite) this is
     "every path from the start node ends at a resolver that has a target" *)
  Lemma reaches_resolver r : Ranked r ns -> forall a,
    lookup a ns <> None -> exists t, reachN ns a (NResolver t) /\ In t ts.
  Proof.
    intros HR a. remember (r a) as n eqn:En. revert a En.
    induction n as [n IH] using lt_wf_ind. intros a En Hp.
    destruct (lookup a ns) as [nd|] eqn:El; [|congruence].
    pose proof (Hne _ _ El) as Hn. pose proof (Hkind _ _ El) as Hk.
    assert (Hstep : forall b, In b (children nd) -> exists t, reachN ns a (NResolver t) /\ In t ts).
    { intros b Hb. assert (He : edge ns a b) by (exists nd; auto).
      destruct (IH (r b) ltac:(subst; apply HR; exact He) b eq_refl (Hclosed _ _ He)) as (t & Hr & Ht).
      exists t. split; auto. eapply reach_step; eauto. }
    destruct nd as [l|l|d fo].
    - destruct (children (RouterN l)) as [|b ?] eqn:Ec; [congruence|]. apply (Hstep b). left; auto.
    - destruct (children (SplitterN l)) as [|b ?] eqn:Ec; [congruence|]. apply (Hstep b). left; auto.
    - destruct a as [x|x|x]; try contradiction. exists x. split; [constructor|]. destruct (Htargets _ _ _ El) as [H _]; exact H.
  Qed.
End Paths.

(* ------------------------------------------------------------------ flatten order *)

Lemma flatten_pass_false : forall order ns, snd (flatten_pass ns order) = false -> fst (flatten_pass ns order) = ns.
Proof.
  induction order as [|k order IH]; intros ns; cbn [flatten_pass]; [reflexivity|].
  destruct (lookup k ns) as [[l|edges|d fo]|]; auto.
  destruct (inline ns edges) as [edges' ch]. destruct ch; [discriminate | auto].
Qed.

(* without a splitter whose leg is another splitter the flatten loop changes nothing, whatever the order *)
Lemma flatten_no_chain fuel ords ns : (forall a b, ~ schild ns a b) -> flatten (S fuel) ords ns = Some ns.
Proof.
  intros Hno. cbn [flatten].
  pose proof (pass_no_schild (eff_order (hd [] ords) ns) ns Hno) as Hs.
  pose proof (flatten_pass_false _ _ Hs) as Hf.
  destruct (flatten_pass ns (eff_order (hd [] ords) ns)) as [ns1 ch]. cbn [fst snd] in *. subst. reflexivity.
Qed.

Theorem compile_order_no_chain es cx svc ords ords' :
  (forall st start router, assemble es cx svc = Ok (st, start, router) ->
                           forall a b, ~ schild (to_nodes svc st router) a b) ->
  compile_ord es cx svc ords = compile_ord es cx svc ords'.
Proof.
  intros H. unfold compile_ord. destruct (assemble es cx svc) as [[[st start] router]|e] eqn:Ea; [|reflexivity].
  specialize (H _ _ _ eq_refl). destruct (detect _ _ [] start); try reflexivity.
  unfold flatten_fuel. cbn [Nat.add]. rewrite !flatten_no_chain; auto.
Qed.
