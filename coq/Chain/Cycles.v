(* C15 — cycles reachable from the chain's service, stated on the entries:
   [Req] is the set of requests the entries make the compiler issue (splitter nodes and resolver
   targets, through routes, splits and failover).  When assembleChain succeeds every requested
   splitter was built and every requested target's redirect walk ends; hence a redirect cycle
   under a requested target, or a cycle of splits under a requested splitter, makes compile_ord fail. *)
From Verif Require Import Base.Prelude.
From Verif Require Import Chain.Model.
From Verif Require Import Chain.Lemmas.
From Verif Require Import Chain.Passes.
From Verif Require Import Chain.Resolve.
From Verif Require Import Chain.Assemble.
From Verif Require Import Chain.Proofs.
From Verif Require Import Chain.Complete.
Local Open Scope string_scope.
Local Open Scope list_scope.

Inductive req := QSplit (s : string) | QTarget (t : target) | QFail (t : target).

Section Cycles.
  Variable es : list entry.
  Variable cx : ctx.
  Variable svc : string.

  Notation Orb := (Orbit es cx).
  Notation has_sp := (has_sp es cx).
  Notation router_of := (if disable_adv cx then None else get_router es svc).

  (* getSplitterOrResolverNode for service s *)
  Definition sos_req (s : string) : req := if has_sp s then QSplit s else QTarget (new_target cx s "").

  Definition route_req (r : route) : req :=
    let s := default_if_empty (rt_svc r) svc in
    if rt_sub r =? "" then sos_req s else QTarget (new_target cx s (rt_sub r)).

  Definition leg_req (self : string) (sp : split) : req :=
    if leg_eligible self sp && has_sp (leg_target self sp) then QSplit (leg_target self sp)
    else QTarget (new_target cx (leg_target self sp) (sp_sub sp)).

  Inductive Req : req -> Prop :=
  | req_root_plain : router_of = None -> Req (sos_req svc)
  | req_root_route routes r : router_of = Some routes -> In r routes -> Req (route_req r)
  | req_root_default routes : router_of = Some routes -> Req (sos_req svc)
  | req_leg s legs sp : Req (QSplit s) -> get_splitter es s = Some legs -> In sp legs -> Req (leg_req s sp)
  | req_failover t t' ft :
      Req (QTarget t) -> Orb t t' -> In ft (failover_targets cx (resolver_of es (t_svc t')) t') -> Req (QFail ft).

  Definition served (st : cstate) (q : req) : Prop :=
    match q with
    | QSplit s => mem_splitter st s = true
    | QTarget t => exists t', Orb t t' /\ mem_resolver st t' = true
    | QFail t => exists t', Orb t t'
    end.

  Lemma Forall2_In_l {A B} (R : A -> B -> Prop) l l' x : Forall2 R l l' -> In x l -> exists y, In y l' /\ R x y.
  Proof.
    induction 1 as [|a b l l' Hab _ IH]; [intros []|]. intros [<-|Hi].
    - exists b. split; [left|]; auto.
    - destruct (IH Hi) as (y & Hy & Hr). exists y. split; [right|]; auto.
  Qed.

  Lemma key_in_served_sos st s id : key_in st id -> sos_id es cx s id -> served st (sos_req s).
  Proof.
    unfold sos_id, sos_req. destruct (has_sp s).
    - intros Hk ->. exact Hk.
    - intros Hk (t' & -> & Ho). exists t'. split; auto.
  Qed.

  (* everything the entries request has been served when assembleChain returns *)
  Theorem requests_served st start router :
    assemble es cx svc = Ok (st, start, router) -> forall q, Req q -> served st q.
  Proof.
    intros Ha.
    destruct (assemble_spec es cx svc _ _ _ Ha) as (Hcl & Hst & _ & (C1 & C2 & C3) & _ & Hrt).
    destruct (assemble_extra es cx svc _ _ _ Ha) as (HL & HF & Hroot).
    assert (Hkid : forall l id, router = Some l -> In id l -> key_in st id).
    { intros l id -> Hi. apply (key_in_lookup svc).
      assert (He : edge (to_nodes svc st (Some l)) (NRouter svc) id).
      { exists (RouterN l). rewrite lookup_to_nodes, String.eqb_refl. auto. }
      apply Hcl in He. rewrite lookup_to_nodes in He |- *.
      destruct id as [x|x|x]; [|exact He | exact He].
      (* a router node is never an edge target: route ids are splitter or resolver nodes *)
      exfalso. unfold root_ok in Hroot. destruct router_of as [routes|]; [|contradiction].
      destruct Hroot as (ids & d & Hl & Hf & Hd & _). subst l.
      apply in_app_or in Hi as [Hi|[Hi|[]]].
      - clear - Hf Hi. induction Hf as [|r i rs is Hri _ IH]; [destruct Hi|]. destruct Hi as [->|Hi]; auto.
        unfold route_id, sos_id in Hri. cbn zeta in Hri.
        destruct (rt_sub r =? ""); [destruct (Complete.has_sp es cx _); [discriminate|]|];
          destruct Hri as (? & ? & _); discriminate.
      - subst d. unfold sos_id in Hd. destruct (Complete.has_sp es cx svc); [discriminate|].
        destruct Hd as (? & ? & _); discriminate. }
    induction 1 as [Hr | routes r Hr Hi | routes Hr | s legs sp Hq IH Hg Hi | t t' ft Hq IH Ho Hi].
    - unfold root_ok in Hroot. rewrite Hr in Hroot. destruct router as [l|]; [contradiction|].
      eapply key_in_served_sos; eauto.
    - unfold root_ok in Hroot. rewrite Hr in Hroot. destruct router as [l|]; [|contradiction].
      destruct Hroot as (ids & d & Hl & Hf & Hd & _).
      destruct (Forall2_In_l _ _ _ _ Hf Hi) as (id & Hid & Hri).
      assert (Hk : key_in st id) by (eapply Hkid; [reflexivity|]; subst l; apply in_or_app; auto).
      unfold route_id in Hri. unfold route_req. cbn zeta in *. destruct (rt_sub r =? "").
      + eapply key_in_served_sos; eauto.
      + destruct Hri as (t' & -> & Ho). exists t'. split; auto.
    - unfold root_ok in Hroot. rewrite Hr in Hroot. destruct router as [l|]; [|contradiction].
      destruct Hroot as (ids & d & Hl & Hf & Hd & _).
      assert (Hk : key_in st d) by (eapply Hkid; [reflexivity|]; subst l; apply in_or_app; right; left; auto).
      eapply key_in_served_sos; eauto.
    - cbn [served] in IH. unfold mem_splitter in IH.
      destruct (assoc String.eqb s (s_splitters st)) as [edges|] eqn:Ea; [|discriminate].
      destruct (HL _ _ Ea) as [_ [[]|(legs' & Hg' & Hf)]]. rewrite Hg in Hg'. injection Hg' as <-.
      destruct (Forall2_In_l _ _ _ _ Hf Hi) as (e & He & [_ Hle]).
      assert (Hk : key_in st (snd e)) by (eapply C1; eauto).
      unfold leg_req. destruct (leg_eligible s sp && has_sp (leg_target s sp)).
      + rewrite Hle in Hk. exact Hk.
      + destruct Hle as (t' & Hs & Ho). rewrite Hs in Hk. exists t'. split; auto.
    - destruct IH as (t1 & Ho1 & Hm1). assert (t1 = t') by (eapply Orbit_det; eauto). subst t1.
      apply (HF t' Hm1 ft Hi).
  Qed.

  (* ---- redirect cycles ---- *)

  (* a requested target (route, split or failover target) whose redirect walk never ends makes
     compile_ord fail *)
  Theorem redirect_cycle_reported ords t :
    Req (QTarget t) \/ Req (QFail t) -> cyclic es cx t -> exists e, compile_ord es cx svc ords = Err e.
  Proof.
    intros Hq Hc. destruct (compile_ord es cx svc ords) as [g|e] eqn:E; [|eauto]. exfalso.
    unfold compile_ord in E. destruct (assemble es cx svc) as [[[st start] router]|e] eqn:Ea; [|discriminate].
    assert (Ho : exists t', Orb t t').
    { destruct Hq as [Hq|Hq]; apply (requests_served _ _ _ Ea) in Hq; cbn [served] in Hq.
      - destruct Hq as (t' & Ho & _). eauto.
      - exact Hq. }
    destruct Ho as (t' & Ho). eapply Orbit_not_cyclic; eauto.
  Qed.

  (* ---- reference cycles among splitters ---- *)

  Definition splits_to (a b : string) : Prop :=
    exists legs sp, get_splitter es a = Some legs /\ In sp legs /\
                    leg_eligible a sp && has_sp (leg_target a sp) = true /\ b = leg_target a sp.

  Inductive SplitPath : string -> string -> Prop :=
  | sp_one a b : splits_to a b -> SplitPath a b
  | sp_step a b c : splits_to a b -> SplitPath b c -> SplitPath a c.

  Lemma splits_to_req a b : Req (QSplit a) -> splits_to a b -> Req (QSplit b).
  Proof.
    intros Hq (legs & sp & Hg & Hi & Hc & ->). pose proof (req_leg _ _ _ Hq Hg Hi) as H.
    unfold leg_req in H. rewrite Hc in H. exact H.
  Qed.

  Lemma splits_to_edge st start router a b :
    assemble es cx svc = Ok (st, start, router) -> Req (QSplit a) -> splits_to a b ->
    edge (to_nodes svc st router) (NSplitter a) (NSplitter b).
  Proof.
    intros Ha Hq (legs & sp & Hg & Hi & Hc & ->).
    pose proof (requests_served _ _ _ Ha _ Hq) as Hm. cbn [served] in Hm. unfold mem_splitter in Hm.
    destruct (assoc String.eqb a (s_splitters st)) as [edges|] eqn:Ea; [|discriminate].
    destruct (assemble_extra es cx svc _ _ _ Ha) as (HL & _ & _).
    destruct (HL _ _ Ea) as [_ [[]|(legs' & Hg' & Hf)]]. rewrite Hg in Hg'. injection Hg' as <-.
    destruct (Forall2_In_l _ _ _ _ Hf Hi) as (e & He & [_ Hle]). rewrite Hc in Hle.
    exists (SplitterN edges). rewrite lookup_to_nodes, Ea. split; [reflexivity|].
    cbn [children]. rewrite <- Hle. apply in_map. exact He.
  Qed.

  Lemma split_path_reach st start router a b :
    assemble es cx svc = Ok (st, start, router) -> Req (QSplit a) -> SplitPath a b ->
    reachN (to_nodes svc st router) (NSplitter a) (NSplitter b) /\ Req (QSplit b).
  Proof.
    intros Ha Hq Hp. induction Hp as [a b Hab | a b c Hab Hbc IH].
    - split; [apply reachN_edge; eapply splits_to_edge; eauto | eapply splits_to_req; eauto].
    - assert (Hqb : Req (QSplit b)) by (eapply splits_to_req; eauto).
      destruct (IH Hqb) as [Hr Hqc]. split; auto.
      eapply reach_step; [eapply splits_to_edge; eauto | exact Hr].
  Qed.

  (* a requested splitter that splits (through any number of splitters) back to itself makes
     compile_ord fail — with the circular-reference error when the rest of the chain assembles *)
  Theorem reference_cycle_reported ords a :
    Req (QSplit a) -> SplitPath a a ->
    (exists e, assemble es cx svc = Err e /\ compile_ord es cx svc ords = Err e) \/
    compile_ord es cx svc ords = Err ECircularReference.
  Proof.
    intros Hq Hp. destruct (assemble es cx svc) as [[[st start] router]|e] eqn:Ea.
    - right. destruct (assemble_spec es cx svc _ _ _ Ea) as (_ & _ & Hreach & _).
      assert (Hm : lookup (NSplitter a) (to_nodes svc st router) <> None).
      { pose proof (requests_served _ _ _ Ea _ Hq) as Hm. cbn [served] in Hm. unfold mem_splitter in Hm.
        rewrite lookup_to_nodes. destruct (assoc String.eqb a (s_splitters st)); [discriminate | discriminate]. }
      inversion Hp as [x b Hab | x b c Hab Hbc]; subst.
      + (* a splits to itself: impossible, a leg to the splitter's own service is not eligible *)
        destruct Hab as (legs & sp & _ & _ & Hc & He). unfold leg_eligible in Hc. rewrite <- He, String.eqb_refl in Hc.
        discriminate.
      + assert (Hqb : Req (QSplit b)) by (eapply splits_to_req; eauto).
        destruct (split_path_reach _ _ _ _ _ Ea Hqb Hbc) as [Hr _].
        eapply compile_reference_cycle; [exact Ea | apply Hreach; exact Hm | eapply splits_to_edge; eauto | exact Hr].
    - left. exists e. split; [reflexivity|]. unfold compile_ord. rewrite Ea. reflexivity.
  Qed.

  (* every edge between splitter nodes of the assembled table comes from an eligible split *)
  Lemma splitter_edge_from_entries st start router a b :
    assemble es cx svc = Ok (st, start, router) ->
    edge (to_nodes svc st router) (NSplitter a) (NSplitter b) -> splits_to a b.
  Proof.
    intros Ha (nd & Hl & Hb). rewrite lookup_to_nodes in Hl.
    destruct (assoc String.eqb a (s_splitters st)) as [edges|] eqn:Ea; [|discriminate]. injection Hl as <-.
    destruct (assemble_extra es cx svc _ _ _ Ha) as (HL & _ & _).
    destruct (HL _ _ Ea) as [_ [[]|(legs & Hg & Hf)]].
    cbn [children] in Hb. apply in_map_iff in Hb as (e & Hse & He).
    assert (Hex : exists sp, In sp legs /\ leg_edge es cx a sp e).
    { clear - Hf He. induction Hf as [|x y l l' Hxy _ IH]; [destruct He|]. destruct He as [->|He].
      - exists x. split; [left|]; auto.
      - destruct (IH He) as (sp & Hi & Hr). exists sp. split; [right|]; auto. }
    destruct Hex as (sp & Hi & [_ Hle]). exists legs, sp. split; [exact Hg|]. split; [exact Hi|].
    destruct (leg_eligible a sp && has_sp (leg_target a sp)) eqn:Ec.
    - split; [reflexivity|]. rewrite Hse in Hle. congruence.
    - destruct Hle as (t' & Ht & _). congruence.
  Qed.
End Cycles.
