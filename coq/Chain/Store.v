(* C15 — the write-time guard (validateProposedConfigEntryInServiceGraph), and the two inputs on
   which the code used to violate the property (both repaired upstream: 2e58eb8 sorts the node ids
   in flattenAdjacentSplitterNodes, f9df4b1 walks the link index transitively), kept as regression
   witnesses. *)
From Verif Require Import Base.Prelude.
From Verif Require Import Chain.Model.
From Verif Require Import Chain.Lemmas.
From Verif Require Import Chain.Passes.
Local Open Scope string_scope.
Local Open Scope list_scope.

(* ------------------------------------------------------------------ the guard, as implemented *)

Definition no_validation (store : list entry) (op : wop) : Prop :=
  match op with WDelete k => lookup_entry store k = None | WPut _ => False end.

Lemma write_guard store op store' acc :
  write store op = (store', acc) ->
  (acc = true <-> no_validation store op \/
                  forall s, In s (affected store (op_key op)) -> exists g, compile (proposed store op) test_ctx s [] = Ok g) /\
  (acc = false -> store' = store) /\
  (acc = true -> store' = proposed store op \/ (no_validation store op /\ store' = store)).
Proof.
  assert (Hall : forall st', forallb (compiles st') (affected store (op_key op)) = true <->
                 forall s, In s (affected store (op_key op)) -> exists g, compile st' test_ctx s [] = Ok g).
  { intros st'. rewrite forallb_forall. unfold compiles. split; intros H s Hs; specialize (H s Hs).
    - destruct (compile st' test_ctx s []) as [g|e]; [eauto | discriminate].
    - destruct H as (g & ->). reflexivity. }
  assert (Hmain : no_validation store op -> False ->
          True) by auto.
  assert (Hv : (let store1 := proposed store op in
                if forallb (compiles store1) (affected store (op_key op)) then (store1, true) else (store, false)) = (store', acc) ->
               ~ no_validation store op ->
               (acc = true <-> no_validation store op \/
                  forall s, In s (affected store (op_key op)) -> exists g, compile (proposed store op) test_ctx s [] = Ok g) /\
               (acc = false -> store' = store) /\
               (acc = true -> store' = proposed store op \/ (no_validation store op /\ store' = store))).
  { cbn zeta. intros H Hnv. destruct (Hall (proposed store op)) as [Hf Hb].
    destruct (forallb (compiles (proposed store op)) (affected store (op_key op))) eqn:Ef;
      injection H as <- <-.
    - specialize (Hf eq_refl). split; [tauto|]. split; [discriminate | auto].
    - split; [|split; [auto | discriminate]]. split; [discriminate|]. intros [H|H]; [contradiction|].
      specialize (Hb H). discriminate. }
  unfold write. destruct op as [e|k].
  - destruct (lookup_entry store (op_key (WPut e))); intros H; apply Hv; auto.
  - destruct (lookup_entry store (op_key (WDelete k))) eqn:El.
    + intros H; apply Hv; auto. cbn [no_validation op_key] in *. congruence.
    + intros H; injection H as <- <-. cbn [op_key] in El. split; [cbn [no_validation]; tauto|].
      split; [discriminate|]. intros _. right. cbn [no_validation]. auto.
Qed.

(* ------------------------------------------------------------------ regression witnesses *)

Definition E_proxy_http := EProxy "http".

(* three chained splitters a -> b -> c with weights 33.33/66.67, 50/50, 12.5/87.5 *)
Definition deep_entries : list entry :=
  [ E_proxy_http;
    ESplitter "a" [Split 3333 "b" ""; Split 6667 "ax" ""];
    ESplitter "b" [Split 5000 "c" ""; Split 5000 "bx" ""];
    ESplitter "c" [Split 1250 "d" ""; Split 8750 "cx" ""] ]%N.

Definition order_parents_first : list (list nid) := [[NSplitter "a"; NSplitter "b"; NSplitter "c"]].
Definition order_children_first : list (list nid) := [[NSplitter "c"; NSplitter "b"; NSplitter "a"]].

Definition start_edges (r : cres graph) : list sedge :=
  match r with
  | Ok g => match assoc nid_eqb (g_start g) (g_nodes g) with Some (SplitterN e) => e | _ => [] end
  | Err _ => []
  end.

Definition weights (r : cres graph) : list N := map fst (start_edges r).

(* why flattenAdjacentSplitterNodes has to visit the nodes in a fixed order: the loop itself, run
   with two different visiting orders on the same entries, gives different split weights *)
Lemma flatten_order_would_matter :
  weights (compile_ord deep_entries test_ctx "a" order_parents_first) = [208; 1459; 1667; 6667]%N /\
  weights (compile_ord deep_entries test_ctx "a" order_children_first) = [208; 1458; 1667; 6667]%N.
Proof. split; vm_compute; reflexivity. Qed.

(* ... whereas the compiler (sorted ids) gives one result for every map iteration order *)
Lemma deep_chain_fixed :
  weights (compile deep_entries test_ctx "a" [NSplitter "c"; NSplitter "b"; NSplitter "a"]) = [208; 1459; 1667; 6667]%N /\
  weights (compile deep_entries test_ctx "a" []) = [208; 1459; 1667; 6667]%N.
Proof. split; vm_compute; reflexivity. Qed.

(* router a -> splitter b -> c, everything http; then service-defaults c switches to grpc:
   chain "a" reaches c only through b; the write is now refused and the store is unchanged *)
Definition indirect_store : list entry :=
  [ EDefaults "a" "http" false; EDefaults "c" "http" false;
    ESplitter "b" [Split 10000 "c" ""]%N;
    ERouter "a" [Route "b" ""] ].

Definition indirect_op : wop := WPut (EDefaults "c" "grpc" false).

Lemma guard_two_hops_rejected :
  forallb (compiles indirect_store) ["a"; "b"; "c"] = true /\
  affected indirect_store (op_key indirect_op) = ["c"; "b"; "a"] /\
  compile (proposed indirect_store indirect_op) test_ctx "a" [] = Err EProtocolMismatch /\
  write indirect_store indirect_op = (indirect_store, false).
Proof. repeat split; vm_compute; reflexivity. Qed.
