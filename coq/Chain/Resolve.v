(* C15 — the RESOLVE_AGAIN loop of getResolverNode: what it returns, why its redirectHistory
   bounds it, and that a redirect cycle is reported. *)
From Verif Require Import Base.Prelude.
From Verif Require Import Chain.Model.
From Verif Require Import Chain.Lemmas.
Local Open Scope string_scope.
Local Open Scope list_scope.

Section Resolve.
  Variable es : list entry.
  Variable cx : ctx.

  Notation step_at t := (step cx (resolver_of es (t_svc t)) t).

  (* the redirect / default-subset walk from [t] ends at [t'] *)
  Inductive Orbit : target -> target -> Prop :=
  | orbit_final t : step_at t = SFinal -> Orbit t t
  | orbit_moved t t1 t' : step_at t = SMoved t1 -> Orbit t1 t' -> Orbit t t'.

  (* the walk from [t] never stops: neither a final target nor a missing subset is met *)
  Fixpoint walk (n : nat) (t : target) : option target :=
    match n with
    | O => Some t
    | S n' => match step_at t with SMoved t1 => walk n' t1 | _ => None end
    end.

  Definition cyclic (t : target) : Prop := forall n, walk n t <> None.

  Lemma Orbit_not_cyclic t t' : Orbit t t' -> ~ cyclic t.
  Proof.
    induction 1 as [t Hf | t t1 t' Hm Ho IH]; intros Hc.
    - specialize (Hc 1). cbn [walk] in Hc. rewrite Hf in Hc. congruence.
    - apply IH. intros n. specialize (Hc (S n)). cbn [walk] in Hc. rewrite Hm in Hc. exact Hc.
  Qed.

  Lemma Orbit_final t t' : Orbit t t' -> step_at t' = SFinal.
  Proof. induction 1; auto. Qed.

  Lemma Orbit_det t a b : Orbit t a -> Orbit t b -> a = b.
  Proof.
    intros Ha. revert b. induction Ha as [t Hf | t t1 t' Hm Ho IH]; intros b Hb.
    - destruct Hb as [t _ | t t2 b Hm _]; [reflexivity | congruence].
    - destruct Hb as [t Hf | t t2 b Hm2 Hb]; [congruence|]. apply IH. congruence.
  Qed.

  (* ---- the state is only touched in its protocol field ---- *)

  Definition same_tables (st st' : cstate) : Prop :=
    s_splitters st' = s_splitters st /\ s_resolvers st' = s_resolvers st /\
    s_retained st' = s_retained st /\ s_adv st' = s_adv st.

  Lemma same_tables_refl st : same_tables st st.
  Proof. repeat split. Qed.

  Lemma same_tables_trans a b c : same_tables a b -> same_tables b c -> same_tables a c.
  Proof. intros (A1 & A2 & A3 & A4) (B1 & B2 & B3 & B4). repeat split; congruence. Qed.

  Lemma record_protocol_tables st s st' : record_protocol es st s = Ok st' -> same_tables st st'.
  Proof.
    unfold record_protocol. destruct (s_proto st =? ""); [intros E; injection E as <-; repeat split|].
    destruct (s_proto st =? _); [intros E; injection E as <-; repeat split | discriminate].
  Qed.

  Lemma record_protocol_err st s e : record_protocol es st s = Err e -> e = EProtocolMismatch.
  Proof.
    unfold record_protocol. destruct (s_proto st =? ""); [discriminate|].
    destruct (s_proto st =? _); [discriminate | intros E; injection E as <-; reflexivity].
  Qed.

  Lemma mem_resolver_tables st st' t : same_tables st st' -> mem_resolver st' t = mem_resolver st t.
  Proof. intros (_ & H & _). unfold mem_resolver. rewrite H. reflexivity. Qed.

  (* ---- what the loop returns ---- *)

  Definition Final_memo (st : cstate) : Prop := forall t, mem_resolver st t = true -> step_at t = SFinal.

  Lemma resolve_loop_spec : forall fuel st hist t st' res,
    resolve_loop es cx fuel st hist t = Ok (st', res) ->
    same_tables st st' /\
    match res with
    | LHit t' => mem_resolver st t' = true /\ (Final_memo st -> Orbit t t')
    | LFinal t' r => mem_resolver st t' = false /\ r = resolver_of es (t_svc t') /\ Orbit t t'
    end.
  Proof.
    induction fuel as [|f IH]; intros st hist t st' res; cbn [resolve_loop].
    - destruct (mem_resolver st t) eqn:Em.
      { intros E; injection E as <- <-. split; [apply same_tables_refl|]. split; auto.
        intros HF. apply orbit_final. apply HF. exact Em. }
      destruct (record_protocol es st (t_svc t)) as [st1|e] eqn:Ep; [|discriminate].
      destruct (memb target_eqb t hist); [discriminate|].
      destruct (step_at t) eqn:Es; try discriminate.
      intros E; injection E as <- <-. split; [eapply record_protocol_tables; eauto|].
      split; auto. split; auto. apply orbit_final; auto.
    - destruct (mem_resolver st t) eqn:Em.
      { intros E; injection E as <- <-. split; [apply same_tables_refl|]. split; auto.
        intros HF. apply orbit_final. apply HF. exact Em. }
      destruct (record_protocol es st (t_svc t)) as [st1|e] eqn:Ep; [|discriminate].
      assert (Ht := record_protocol_tables _ _ _ Ep).
      destruct (memb target_eqb t hist); [discriminate|].
      destruct (step_at t) as [t1| |] eqn:Es; try discriminate.
      + intros E. destruct (IH _ _ _ _ _ E) as [Ht2 Hres]. split; [eapply same_tables_trans; eauto|].
        destruct res as [t'|t' r].
        * destruct Hres as [Hm Ho]. rewrite (mem_resolver_tables _ _ _ Ht) in Hm. split; auto.
          intros HF. eapply orbit_moved; eauto. apply Ho.
          intros x Hx. apply HF. rewrite <- (mem_resolver_tables _ _ _ Ht). exact Hx.
        * destruct Hres as (Hm & Hr & Ho). rewrite (mem_resolver_tables _ _ _ Ht) in Hm.
          split; auto. split; auto. eapply orbit_moved; eauto.
      + intros E; injection E as <- <-. split; auto. split; auto. split; auto. apply orbit_final; auto.
  Qed.

  Lemma resolve_loop_err : forall fuel st hist t e,
    resolve_loop es cx fuel st hist t = Err e ->
    e = EProtocolMismatch \/ e = ECircularRedirect \/ e = EBadSubset \/ e = EOutOfFuel.
  Proof.
    induction fuel as [|f IH]; intros st hist t e; cbn [resolve_loop];
      (destruct (mem_resolver st t); [discriminate|]);
      (destruct (record_protocol es st (t_svc t)) as [st1|e1] eqn:Ep;
       [|intros E; injection E as <-; left; eapply record_protocol_err; eauto]);
      (destruct (memb target_eqb t hist); [intros E; injection E as <-; auto|]);
      destruct (step_at t); try discriminate; try (intros E; injection E as <-; auto).
    apply IH.
  Qed.

  (* ---- the bound: the history has no repetition and stays inside a finite universe ---- *)

  Definition redirect_svcs : list string :=
    flat_map (fun e => match e with
                       | EResolver _ r => match rs_redirect r with Some rd => [rd_svc rd] | None => [] end
                       | _ => [] end) es.
  Definition redirect_subs : list string :=
    flat_map (fun e => match e with
                       | EResolver _ r =>
                           rs_default_subset r :: match rs_redirect r with Some rd => [rd_sub rd] | None => [] end
                       | _ => [] end) es.
  Definition redirect_dcs : list string :=
    flat_map (fun e => match e with
                       | EResolver _ r => match rs_redirect r with Some rd => [rd_dc rd] | None => [] end
                       | _ => [] end) es.

  Variable t0 : target.
  Definition Usvc := t_svc t0 :: redirect_svcs.
  Definition Usub := "" :: t_sub t0 :: redirect_subs.
  Definition Udc := t_dc t0 :: c_dc cx :: redirect_dcs.
  Definition inU (t : target) : Prop := In (t_svc t) Usvc /\ In (t_sub t) Usub /\ In (t_dc t) Udc.
  Definition Ulen : nat := List.length Usvc * (List.length Usub * List.length Udc).

  Lemma lookup_entry_In k e : lookup_entry es k = Some e -> In e es /\ ekey e = k.
  Proof.
    induction es as [|e0 l IH]; cbn [lookup_entry]; [discriminate|].
    destruct (key_eqb (ekey e0) k) eqn:E.
    - intros H; injection H as ->. apply key_eqb_eq in E. split; [left|]; auto.
    - intros H. destruct (IH H). split; [right|]; auto.
  Qed.

  Lemma get_resolver_In s r : get_resolver es s = Some r -> In (EResolver s r) es.
  Proof.
    unfold get_resolver. destruct (lookup_entry es (KResolver, s)) as [e|] eqn:E; [|discriminate].
    apply lookup_entry_In in E as [Hi Hk]. destruct e; try discriminate.
    intros H; injection H as ->. cbn [ekey] in Hk. injection Hk as ->. exact Hi.
  Qed.

  Lemma resolver_of_cases s :
    resolver_of es s = default_resolver \/ In (EResolver s (resolver_of es s)) es.
  Proof.
    unfold resolver_of. destruct (get_resolver es s) as [r|] eqn:E; auto. right. apply get_resolver_In; auto.
  Qed.

  Lemma step_inU t t' : inU t -> step_at t = SMoved t' -> inU t'.
  Proof.
    intros (H1 & H2 & H3). unfold step.
    set (r := resolver_of es (t_svc t)).
    assert (Hr : r = default_resolver \/ In (EResolver (t_svc t) r) es) by apply resolver_of_cases.
    assert (Hrw : forall s sub dc,
               (s = "" \/ In s Usvc) -> In sub Usub -> (dc = "" \/ In dc Udc) ->
               inU (rewrite_target cx t s sub dc)).
    { intros s sub dc Hs Hsub Hdc. unfold rewrite_target, inU. cbn [t_svc t_sub t_dc]. split; [|split].
      - destruct (s =? "") eqn:E1; cbn [negb andb]; auto.
        destruct (s =? t_svc t); cbn [negb andb]; auto.
        apply String.eqb_neq in E1. destruct Hs; [congruence | auto].
      - destruct (sub =? ""); auto.
        destruct (negb (s =? "") && negb (s =? t_svc t)); auto. left; reflexivity.
      - unfold default_if_empty. destruct (dc =? "") eqn:E1.
        + destruct (t_dc t =? ""); auto. right; left; reflexivity.
        + apply String.eqb_neq in E1. destruct Hdc; [congruence|].
          destruct (dc =? ""); auto. right; left; reflexivity. }
    assert (Hdef : In (rs_default_subset r) Usub).
    { destruct Hr as [-> | Hr]; [left; reflexivity|]. right; right. unfold redirect_subs.
      apply in_flat_map. eexists; split; [exact Hr|]. left; reflexivity. }
    assert (Hrest : forall t',
      (if (t_sub t =? "") && negb (rs_default_subset r =? "")
       then SMoved (rewrite_target cx t "" (rs_default_subset r) "")
       else if negb (t_sub t =? "") && negb (subset_exists r (t_sub t)) then SBad else SFinal) = SMoved t' ->
      inU t').
    { intros x. destruct ((t_sub t =? "") && negb (rs_default_subset r =? "")).
      - intros E; injection E as <-. apply Hrw; auto.
      - destruct (negb (t_sub t =? "") && negb (subset_exists r (t_sub t))); discriminate. }
    destruct (rs_redirect r) as [rd|] eqn:Erd; [|apply Hrest].
    assert (Hin : In (EResolver (t_svc t) r) es).
    { destruct Hr as [Hr|Hr]; auto. rewrite Hr in Erd. discriminate. }
    destruct (target_eqb _ t); [apply Hrest|].
    intros E; injection E as <-. apply Hrw.
    - right. right. unfold redirect_svcs. apply in_flat_map. exists (EResolver (t_svc t) r); split; [exact Hin|]. cbn beta iota. rewrite Erd. left; reflexivity.
    - right. right. unfold redirect_subs. apply in_flat_map. exists (EResolver (t_svc t) r); split; [exact Hin|]. cbn beta iota. rewrite Erd. right; left; reflexivity.
    - right. right. right. unfold redirect_dcs. apply in_flat_map. exists (EResolver (t_svc t) r); split; [exact Hin|]. cbn beta iota. rewrite Erd. left; reflexivity.
  Qed.

  Definition tuple (t : target) := (t_svc t, (t_sub t, t_dc t)).

  Lemma hist_bound hist : NoDup hist -> (forall x, In x hist -> inU x) -> List.length hist <= Ulen.
  Proof.
    intros Hnd Hin. unfold Ulen. rewrite <- !prod_length, <- (map_length tuple hist).
    apply NoDup_incl_length.
    - apply NoDup_map_inj; auto. intros [a b c] [a' b' c']; unfold tuple; cbn. congruence.
    - intros p Hp. apply in_map_iff in Hp as (x & <- & Hx). destruct (Hin x Hx) as (H1 & H2 & H3).
      unfold tuple. apply in_prod; auto. apply in_prod; auto.
  Qed.

  Lemma resolve_loop_no_fuel : forall fuel st hist t,
    NoDup hist -> (forall x, In x hist -> inU x) -> inU t -> Ulen <= List.length hist + fuel ->
    resolve_loop es cx fuel st hist t <> Err EOutOfFuel.
  Proof.
    induction fuel as [|f IH]; intros st hist t Hnd Hin Ht Hlen; cbn [resolve_loop];
      (destruct (mem_resolver st t); [discriminate|]);
      (destruct (record_protocol es st (t_svc t)) as [st1|e1] eqn:Ep;
       [|apply record_protocol_err in Ep; subst; discriminate]);
      destruct (memb target_eqb t hist) eqn:Em; try discriminate;
      destruct (step_at t) as [t1| |] eqn:Es; try discriminate;
      apply (memb_not_In target_eqb target_eqb_eq) in Em;
      assert (Hnd' : NoDup (t :: hist)) by (constructor; auto);
      assert (Hin' : forall x, In x (t :: hist) -> inU x) by (intros x [<-|Hx]; auto).
    - exfalso. pose proof (hist_bound _ Hnd' Hin') as Hb. cbn [List.length] in Hb. lia.
    - apply IH; auto; [eapply step_inU; eauto | cbn [List.length]; lia].
  Qed.

  Lemma Ulen_le : Ulen <= redirect_fuel es.
  Proof.
    unfold Ulen, redirect_fuel, Usvc, Usub, Udc. cbn [List.length].
    assert (A : List.length redirect_svcs <= 1 * List.length es).
    { apply flat_map_length_le. intros [ | |? r| | ]; cbn; try lia. destruct (rs_redirect r); cbn; lia. }
    assert (B : List.length redirect_subs <= 2 * List.length es).
    { apply flat_map_length_le. intros [ | |? r| | ]; cbn; try lia. destruct (rs_redirect r); cbn; lia. }
    assert (C : List.length redirect_dcs <= 1 * List.length es).
    { apply flat_map_length_le. intros [ | |? r| | ]; cbn; try lia. destruct (rs_redirect r); cbn; lia. }
    rewrite Nat.mul_assoc.
    apply Nat.mul_le_mono; [apply Nat.mul_le_mono|]; lia.
  Qed.
End Resolve.

(* the loop as getResolverNode starts it never exhausts its bound *)
Lemma resolve_loop_terminates es cx st t : resolve_loop es cx (redirect_fuel es) st [] t <> Err EOutOfFuel.
Proof.
  apply (resolve_loop_no_fuel es cx t).
  - constructor.
  - intros x [].
  - unfold inU, Usvc, Usub, Udc. cbn [In]. auto.
  - cbn [List.length]. apply Ulen_le.
Qed.

(* a redirect cycle is reported: on a walk that never ends the loop returns the circular-redirect
   error, unless a protocol mismatch along the walk is reported first *)
Lemma resolve_loop_cycle es cx st t :
  Final_memo es cx st -> cyclic es cx t ->
  resolve_loop es cx (redirect_fuel es) st [] t = Err ECircularRedirect \/
  resolve_loop es cx (redirect_fuel es) st [] t = Err EProtocolMismatch.
Proof.
  intros HF Hc. destruct (resolve_loop es cx (redirect_fuel es) st [] t) as [[st' res]|e] eqn:E.
  - exfalso. apply resolve_loop_spec in E as [_ Hres]. destruct res as [t'|t' r].
    + destruct Hres as [_ Ho]. eapply Orbit_not_cyclic; eauto.
    + destruct Hres as (_ & _ & Ho). eapply Orbit_not_cyclic; eauto.
  - pose proof (resolve_loop_terminates es cx st t) as Hnf. rewrite E in Hnf.
    destruct (resolve_loop_err _ _ _ _ _ _ _ E) as [->|[->|[->| ->]]]; auto; [|congruence].
    exfalso.
    (* a missing subset stops the walk *)
    clear Hnf. revert E. generalize (redirect_fuel es) (@nil target). intros fuel. revert st HF t Hc.
    induction fuel as [|f IH]; intros st HF t Hc hist; cbn [resolve_loop];
      (destruct (mem_resolver st t) eqn:Em; [discriminate|]);
      (destruct (record_protocol es st (t_svc t)) as [st1|e1] eqn:Ep;
       [|apply record_protocol_err in Ep; subst; discriminate]);
      (destruct (memb target_eqb t hist); [discriminate|]);
      destruct (step cx (resolver_of es (t_svc t)) t) as [t1| |] eqn:Es; try discriminate;
      try (specialize (Hc 1); cbn [walk] in Hc; rewrite Es in Hc; congruence).
    apply IH.
    + intros x Hx. apply HF. rewrite <- (mem_resolver_tables st st1); [exact Hx|]. eapply record_protocol_tables; eauto.
    + intros n. specialize (Hc (S n)). cbn [walk] in Hc. rewrite Es in Hc. exact Hc.
Qed.
