(* C15 — invariants of assembleChain: the memo tables only grow, every recorded edge points at
   a recorded node, every resolver node has its targets retained, memoised resolver targets are
   final, every recorded node is reachable from the nodes handed back so far, and no loop bound
   is exhausted. *)
From Verif Require Import Base.Prelude.
From Verif Require Import Chain.Model.
From Verif Require Import Chain.Lemmas.
From Verif Require Import Chain.Passes.
From Verif Require Import Chain.Resolve.
Local Open Scope string_scope.
Local Open Scope list_scope.

(* ------------------------------------------------------------------ the node table of a state *)

Lemma assoc_app {A B} (eqb : A -> A -> bool) k (l1 l2 : list (A * B)) :
  assoc eqb k (l1 ++ l2) = match assoc eqb k l1 with Some v => Some v | None => assoc eqb k l2 end.
Proof.
  induction l1 as [|[k0 v0] l1 IH]; cbn [app assoc]; [reflexivity|]. destruct (eqb k k0); auto.
Qed.

Lemma lookup_map_splitters (l : list (string * list sedge)) k :
  lookup k (map (fun p => (NSplitter (fst p), SplitterN (snd p))) l) =
  match k with NSplitter s => option_map SplitterN (assoc String.eqb s l) | _ => None end.
Proof.
  induction l as [|[s0 e0] l IH]; cbn [map assoc fst snd]; [destruct k; reflexivity|].
  destruct k as [x|x|x]; cbn [nid_eqb]; try exact IH.
  destruct (x =? s0); [reflexivity | exact IH].
Qed.

Lemma lookup_map_resolvers (l : list (target * rnode)) k :
  lookup k (map (fun p => (NResolver (fst p), ResolverN (rn_default (snd p)) (rn_failover (snd p)))) l) =
  match k with
  | NResolver t => option_map (fun n => ResolverN (rn_default n) (rn_failover n)) (assoc target_eqb t l)
  | _ => None
  end.
Proof.
  induction l as [|[t0 n0] l IH]; cbn [map assoc fst snd]; [destruct k; reflexivity|].
  destruct k as [x|x|x]; cbn [nid_eqb]; try exact IH.
  destruct (target_eqb x t0); [reflexivity | exact IH].
Qed.

Lemma lookup_to_nodes svc st router k :
  lookup k (to_nodes svc st router) =
  match k with
  | NRouter x => match router with Some l => if x =? svc then Some (RouterN l) else None | None => None end
  | NSplitter s => option_map SplitterN (assoc String.eqb s (s_splitters st))
  | NResolver t => option_map (fun n => ResolverN (rn_default n) (rn_failover n)) (assoc target_eqb t (s_resolvers st))
  end.
Proof.
  unfold to_nodes. rewrite !assoc_app, lookup_map_splitters, lookup_map_resolvers.
  destruct router as [l|]; cbn [assoc]; destruct k as [x|x|x]; cbn [nid_eqb]; try reflexivity.
  - destruct (x =? svc); reflexivity.
  - destruct (option_map SplitterN (assoc String.eqb x (s_splitters st))); reflexivity.
  - destruct (option_map SplitterN (assoc String.eqb x (s_splitters st))); reflexivity.
Qed.

Definition key_in (st : cstate) (k : nid) : Prop :=
  match k with
  | NRouter _ => False
  | NSplitter s => mem_splitter st s = true
  | NResolver t => mem_resolver st t = true
  end.

Lemma key_in_lookup svc st k : key_in st k <-> lookup k (to_nodes svc st None) <> None.
Proof.
  rewrite lookup_to_nodes. destruct k as [x|x|x]; cbn [key_in]; unfold mem_splitter, mem_resolver.
  - tauto.
  - destruct (assoc String.eqb x (s_splitters st)); cbn; split; congruence.
  - destruct (assoc target_eqb x (s_resolvers st)); cbn; split; congruence.
Qed.

(* the edges of a state's table: a recorded splitter and one of its recorded legs *)
Lemma edge_to_nodes svc st a b :
  edge (to_nodes svc st None) a b <->
  exists s edges, a = NSplitter s /\ assoc String.eqb s (s_splitters st) = Some edges /\ In b (map snd edges).
Proof.
  unfold edge. split.
  - intros (nd & Hl & Hc). rewrite lookup_to_nodes in Hl. destruct a as [x|x|x]; [discriminate| |].
    + destruct (assoc String.eqb x (s_splitters st)) as [e|] eqn:E; [|discriminate].
      injection Hl as <-. exists x, e. auto.
    + destruct (assoc target_eqb x (s_resolvers st)); [|discriminate]. injection Hl as <-. destruct Hc.
  - intros (s & edges & -> & Ha & Hb). exists (SplitterN edges). rewrite lookup_to_nodes, Ha. auto.
Qed.

(* ------------------------------------------------------------------ order on states *)

(* what a call may do to the state it is given: add bindings and retained targets, never touch a
   binding that is already there *)
Definition le_state (st st' : cstate) : Prop :=
  (forall s v, assoc String.eqb s (s_splitters st) = Some v -> assoc String.eqb s (s_splitters st') = Some v) /\
  (forall t v, assoc target_eqb t (s_resolvers st) = Some v -> assoc target_eqb t (s_resolvers st') = Some v) /\
  incl (s_retained st) (s_retained st').

Lemma le_state_refl st : le_state st st.
Proof. repeat split; auto. apply incl_refl. Qed.

Lemma le_state_trans a b c : le_state a b -> le_state b c -> le_state a c.
Proof.
  intros (A1 & A2 & A3) (B1 & B2 & B3). repeat split; auto. eapply incl_tran; eauto.
Qed.

Lemma le_state_key_in st st' k : le_state st st' -> key_in st k -> key_in st' k.
Proof.
  intros (H1 & H2 & _). destruct k as [x|x|x]; cbn [key_in]; auto; unfold mem_splitter, mem_resolver.
  - destruct (assoc String.eqb x (s_splitters st)) eqn:E; [|discriminate]. rewrite (H1 _ _ E). auto.
  - destruct (assoc target_eqb x (s_resolvers st)) eqn:E; [|discriminate]. rewrite (H2 _ _ E). auto.
Qed.

Lemma le_state_edge svc st st' a b :
  le_state st st' -> edge (to_nodes svc st None) a b -> edge (to_nodes svc st' None) a b.
Proof.
  intros (H1 & _) He. apply edge_to_nodes in He as (s & edges & -> & Ha & Hb).
  apply edge_to_nodes. exists s, edges. auto.
Qed.

Lemma reachN_mono ns ns' a b :
  (forall x y, edge ns x y -> edge ns' x y) -> reachN ns a b -> reachN ns' a b.
Proof. intros H Hr. induction Hr; [constructor | econstructor; eauto]. Qed.

Lemma same_tables_le st st' : same_tables st st' -> le_state st st'.
Proof.
  intros (H1 & H2 & H3 & _). unfold le_state. rewrite H1, H2, H3. repeat split; auto. apply incl_refl.
Qed.

Lemma le_state_retain st t : le_state st (retain st t).
Proof.
  unfold le_state, retain; cbn [s_splitters s_resolvers s_retained]. repeat split; auto.
  destruct (memb target_eqb t (s_retained st)); [apply incl_refl | apply incl_appl, incl_refl].
Qed.

Lemma retain_In st t : In t (s_retained (retain st t)).
Proof.
  unfold retain; cbn [s_retained]. destruct (memb target_eqb t (s_retained st)) eqn:E.
  - apply (memb_In target_eqb target_eqb_eq). exact E.
  - apply in_or_app. right. left. reflexivity.
Qed.

Lemma le_state_record_resolver st t n : mem_resolver st t = false -> le_state st (record_resolver st t n).
Proof.
  intros Hm. unfold le_state, record_resolver; cbn [s_splitters s_resolvers s_retained].
  repeat split; auto; [|apply incl_refl].
  intros x v Hx. rewrite (assoc_upsert target_eqb target_eqb_eq). destruct (target_eqb x t) eqn:E; auto.
  apply target_eqb_eq in E; subst. unfold mem_resolver in Hm. rewrite Hx in Hm. discriminate.
Qed.

Lemma le_state_record_splitter st s e : mem_splitter st s = false -> le_state st (record_splitter st s e).
Proof.
  intros Hm. unfold le_state, record_splitter; cbn [s_splitters s_resolvers s_retained].
  repeat split; auto; [|apply incl_refl].
  intros x v Hx. rewrite (assoc_upsert String.eqb String.eqb_eq). destruct (x =? s) eqn:E; auto.
  apply String.eqb_eq in E; subst. unfold mem_splitter in Hm. rewrite Hx in Hm. discriminate.
Qed.

Lemma le_state_set_adv st : le_state st (set_adv st).
Proof. unfold le_state, set_adv; cbn. repeat split; auto. apply incl_refl. Qed.

(* ------------------------------------------------------------------ the invariants *)

Section Asm.
  Variable es : list entry.
  Variable cx : ctx.
  Variable svc : string.

  Notation tn st := (to_nodes svc st None).

  Definition Closed_st (st : cstate) : Prop :=
    (forall s edges, assoc String.eqb s (s_splitters st) = Some edges -> forall e, In e edges -> key_in st (snd e)) /\
    (forall t n, assoc target_eqb t (s_resolvers st) = Some n ->
                 In t (s_retained st) /\ incl (rn_failover n) (s_retained st)) /\
    Final_memo es cx st.

  (* a splitter node that is not in progress has one edge per split of its entry *)
  Definition Counted (ip : list string) (st : cstate) : Prop :=
    forall s edges, assoc String.eqb s (s_splitters st) = Some edges ->
      In s ip \/ exists l, get_splitter es s = Some l /\ List.length edges = List.length l.

  Definition RootReach (R : list nid) (st : cstate) : Prop :=
    forall k, key_in st k -> exists r, In r R /\ reachN (tn st) r k.

  Definition AInv (ip : list string) (R : list nid) (st : cstate) : Prop :=
    Closed_st st /\ Counted ip st /\ RootReach R st.

  Lemma RootReach_mono R R' st : incl R R' -> RootReach R st -> RootReach R' st.
  Proof. intros Hi H k Hk. destruct (H k Hk) as (r & Hr & Hp). exists r; auto. Qed.

  Lemma I_mono ip R R' st : incl R R' -> AInv ip R st -> AInv ip R' st.
  Proof. intros Hi (A & B & C). split; [exact A|]. split; [exact B|]. eapply RootReach_mono; eauto. Qed.

  (* states that differ only in protocol / retained targets / the advanced-routing flag *)
  Definition same_graph (st st' : cstate) : Prop :=
    s_splitters st' = s_splitters st /\ s_resolvers st' = s_resolvers st /\ incl (s_retained st) (s_retained st').

  Lemma same_graph_refl st : same_graph st st.
  Proof. split; [reflexivity|]. split; [reflexivity | apply incl_refl]. Qed.

  Lemma same_graph_trans a b c : same_graph a b -> same_graph b c -> same_graph a c.
  Proof.
    intros (A1 & A2 & A3) (B1 & B2 & B3). split; [congruence|]. split; [congruence|]. eapply incl_tran; eauto.
  Qed.

  Lemma same_tables_graph st st' : same_tables st st' -> same_graph st st'.
  Proof. intros (H1 & H2 & H3 & _). split; [auto|]. split; [auto|]. rewrite H3. apply incl_refl. Qed.

  Lemma same_graph_retain st t : same_graph st (retain st t).
  Proof. split; [reflexivity|]. split; [reflexivity|]. apply (le_state_retain st t). Qed.

  Lemma same_graph_set_adv st : same_graph st (set_adv st).
  Proof. split; [reflexivity|]. split; [reflexivity|]. apply incl_refl. Qed.

  Lemma same_graph_le st st' : same_graph st st' -> le_state st st'.
  Proof. intros (H1 & H2 & H3). unfold le_state. rewrite H1, H2. auto. Qed.

  Lemma same_graph_nodes st st' r : same_graph st st' -> to_nodes svc st' r = to_nodes svc st r.
  Proof. intros (H1 & H2 & _). unfold to_nodes. rewrite H1, H2. reflexivity. Qed.

  Lemma same_graph_key_in st st' k : same_graph st st' -> (key_in st' k <-> key_in st k).
  Proof.
    intros (H1 & H2 & _). destruct k; cbn [key_in]; unfold mem_splitter, mem_resolver; rewrite ?H1, ?H2; tauto.
  Qed.

  Lemma same_graph_Closed st st' : same_graph st st' -> Closed_st st -> Closed_st st'.
  Proof.
    intros Hs (C1 & C2 & C3). pose proof Hs as (H1 & H2 & H3). split; [|split].
    - intros s edges Ha e He. rewrite H1 in Ha. apply (same_graph_key_in _ _ _ Hs). eapply C1; eauto.
    - intros t n Ha. rewrite H2 in Ha. destruct (C2 _ _ Ha) as [A B]. split; [auto | eapply incl_tran; eauto].
    - intros t Ht. apply C3. unfold mem_resolver in *. rewrite <- H2. exact Ht.
  Qed.

  Lemma same_graph_I ip R st st' : same_graph st st' -> AInv ip R st -> AInv ip R st'.
  Proof.
    intros Hs (Hcl & Hc & Hr). pose proof Hs as (H1 & H2 & H3). split; [|split].
    - eapply same_graph_Closed; eauto.
    - intros s edges Ha. rewrite H1 in Ha. eauto.
    - intros k Hk. apply (same_graph_key_in _ _ _ Hs) in Hk. destruct (Hr k Hk) as (r & Hi & Hp).
      exists r; split; auto. rewrite (same_graph_nodes _ _ _ Hs). exact Hp.
  Qed.

  (* ---- getResolverNode ---- *)

  Lemma resolve_ff_spec st t st' t' :
    resolve_ff es cx st t = Ok (st', t') ->
    same_graph st st' /\ (Closed_st st -> In t' (s_retained st') /\ Orbit es cx t t').
  Proof.
    unfold resolve_ff. destruct (resolve_loop es cx (redirect_fuel es) st [] t) as [[st1 res]|e] eqn:E; [|discriminate].
    apply resolve_loop_spec in E as [Ht Hres]. destruct res as [x|x r].
    - intros H; injection H as <- <-. split; [apply same_tables_graph; auto|].
      intros (_ & C2 & C3). destruct Hres as [Hm Ho]. split; [|auto].
      unfold mem_resolver in Hm. destruct (assoc target_eqb x (s_resolvers st)) eqn:Ea; [|discriminate].
      destruct (C2 _ _ Ea) as [Hi _]. destruct Ht as (_ & _ & -> & _). exact Hi.
    - destruct (external_check es r x); [discriminate|]. intros H; injection H as <- <-.
      split; [eapply same_graph_trans; [apply same_tables_graph; eauto | apply same_graph_retain]|].
      intros _. split; [apply retain_In | tauto].
  Qed.

  Lemma resolve_failovers_spec : forall l st st' res,
    resolve_failovers es cx st l = Ok (st', res) ->
    same_graph st st' /\ (Closed_st st -> incl res (s_retained st')).
  Proof.
    induction l as [|ft l IH]; intros st st' res; cbn [resolve_failovers].
    - intros H; injection H as <- <-. split; [apply same_graph_refl | intros _ ? []].
    - destruct (resolve_ff es cx st ft) as [[st1 t1]|e] eqn:E1; [|discriminate].
      destruct (resolve_failovers es cx st1 l) as [[st2 ts]|e] eqn:E2; [|discriminate].
      intros H; injection H as <- <-.
      apply resolve_ff_spec in E1 as [G1 P1]. apply IH in E2 as [G2 P2].
      split; [eapply same_graph_trans; eauto|]. intros HC.
      destruct (P1 HC) as [Hi _]. specialize (P2 (same_graph_Closed _ _ G1 HC)).
      intros x [<-|Hx]; [|auto]. destruct G2 as (_ & _ & G2). auto.
  Qed.

  Lemma key_in_record_resolver st t n k : key_in (record_resolver st t n) k <-> key_in st k \/ k = NResolver t.
  Proof.
    destruct k as [x|x|x]; cbn [key_in]; unfold mem_splitter, mem_resolver, record_resolver; cbn [s_splitters s_resolvers].
    - split; [tauto | intros [[]|H]; discriminate].
    - split; [tauto | intros [H|H]; [auto | discriminate]].
    - rewrite (assoc_upsert target_eqb target_eqb_eq). destruct (target_eqb x t) eqn:E.
      + apply target_eqb_eq in E; subst. split; auto.
      + apply target_eqb_neq in E. split; [tauto | intros [H|H]; [auto | congruence]].
  Qed.

  Lemma key_in_record_splitter st s e k : key_in (record_splitter st s e) k <-> key_in st k \/ k = NSplitter s.
  Proof.
    destruct k as [x|x|x]; cbn [key_in]; unfold mem_splitter, mem_resolver, record_splitter; cbn [s_splitters s_resolvers].
    - split; [tauto | intros [[]|H]; discriminate].
    - rewrite (assoc_upsert String.eqb String.eqb_eq). destruct (x =? s) eqn:E.
      + apply String.eqb_eq in E; subst. split; auto.
      + apply String.eqb_neq in E. split; [tauto | intros [H|H]; [auto | congruence]].
    - split; [tauto | intros [H|H]; [auto | discriminate]].
  Qed.

  Lemma reach_same_splitters st st' a b :
    s_splitters st' = s_splitters st -> reachN (tn st) a b -> reachN (tn st') a b.
  Proof.
    intros Hs. apply reachN_mono. intros x y He. apply edge_to_nodes in He as (s & edges & -> & Ha & Hb).
    apply edge_to_nodes. exists s, edges. rewrite Hs. auto.
  Qed.

  Lemma I_record_resolver ip R st t n :
    AInv ip R st -> step cx (resolver_of es (t_svc t)) t = SFinal ->
    In t (s_retained st) -> incl (rn_failover n) (s_retained st) ->
    AInv ip (NResolver t :: R) (record_resolver st t n).
  Proof.
    intros ((C1 & C2 & C3) & Hc & Hr) Hf Ht Hn. split; [split; [|split]|split].
    - intros s edges Ha e He. apply key_in_record_resolver. left. eapply C1; eauto.
    - intros x m Ha. unfold record_resolver in Ha; cbn [s_resolvers s_retained] in *.
      rewrite (assoc_upsert target_eqb target_eqb_eq) in Ha. destruct (target_eqb x t) eqn:E.
      + apply target_eqb_eq in E; subst. injection Ha as <-. auto.
      + eapply C2; eauto.
    - intros x Hx. assert (Hk : key_in (record_resolver st t n) (NResolver x)) by exact Hx.
      apply key_in_record_resolver in Hk as [Hk|Hk]; [apply C3; exact Hk | congruence].
    - exact Hc.
    - intros k Hk. apply key_in_record_resolver in Hk as [Hk| ->].
      + destruct (Hr k Hk) as (r & Hi & Hp). exists r. split; [right; auto|].
        eapply reach_same_splitters; [|exact Hp]. reflexivity.
      + exists (NResolver t). split; [left; auto | constructor].
  Qed.

  Lemma get_resolver_node_spec ip R st t st' t' :
    get_resolver_node es cx st t = Ok (st', t') -> AInv ip R st ->
    le_state st st' /\ AInv ip (NResolver t' :: R) st' /\ mem_resolver st' t' = true /\
    Orbit es cx t t' /\ s_splitters st' = s_splitters st.
  Proof.
    unfold get_resolver_node.
    destruct (resolve_loop es cx (redirect_fuel es) st [] t) as [[st1 res]|e] eqn:E; [|discriminate].
    apply resolve_loop_spec in E as [Ht Hres]. intros H HI.
    assert (HI1 : AInv ip R st1) by (eapply same_graph_I; [apply same_tables_graph; eauto | exact HI]).
    destruct res as [x|x r].
    - injection H as <- <-. destruct Hres as [Hm Ho]. split; [apply same_tables_le; auto|].
      split; [eapply I_mono; [|exact HI1]; intros ? ?; right; auto|].
      split; [rewrite (mem_resolver_tables _ _ _ Ht); exact Hm|].
      split; [apply Ho; apply HI | apply Ht].
    - destruct Hres as (Hm & Hr & Ho). destruct (external_check es r x); [discriminate|].
      set (st2 := retain st1 x) in *.
      set (st3 := record_resolver st2 x (RNode (is_default_resolver r) [])) in *.
      assert (HI2 : AInv ip R st2) by (eapply same_graph_I; [apply same_graph_retain | exact HI1]).
      assert (Hfin : step cx (resolver_of es (t_svc x)) x = SFinal) by (eapply Orbit_final; eauto).
      assert (HI3 : AInv ip (NResolver x :: R) st3).
      { apply I_record_resolver; auto; [apply retain_In | intros ? []]. }
      assert (Hm2 : mem_resolver st2 x = false).
      { unfold st2, mem_resolver, retain; cbn [s_resolvers]. destruct Ht as (_ & -> & _). exact Hm. }
      assert (L3 : le_state st st3).
      { eapply le_state_trans; [apply same_tables_le; eauto|].
        eapply le_state_trans; [apply le_state_retain|]. apply le_state_record_resolver. exact Hm2. }
      destruct (resolve_failovers es cx st3 (failover_targets cx r x)) as [[st4 fts]|e] eqn:Ef; [|discriminate].
      apply resolve_failovers_spec in Ef as [G4 P4].
      assert (HI4 : AInv ip (NResolver x :: R) st4) by (eapply same_graph_I; eauto).
      assert (L4 : le_state st st4) by (eapply le_state_trans; [exact L3 | apply same_graph_le; exact G4]).
      assert (Hm4 : mem_resolver st4 x = true).
      { destruct G4 as (_ & G4 & _). unfold mem_resolver. rewrite G4. unfold st3, record_resolver; cbn [s_resolvers].
        rewrite (assoc_upsert_same target_eqb target_eqb_eq). reflexivity. }
      assert (Hs4 : s_splitters st4 = s_splitters st).
      { destruct G4 as (-> & _). unfold st3, st2, record_resolver, retain; cbn [s_splitters]. apply Ht. }
      destruct fts as [|f0 fts].
      + injection H as <- <-. auto.
      + injection H as <- <-. split; [|split; [|split; [|split]]]; auto.
        * destruct L4 as (A1 & A2 & A3). split; [|split]; auto.
          intros t0 v Ha. unfold record_resolver; cbn [s_resolvers].
          rewrite (assoc_upsert_other target_eqb target_eqb_eq); [auto|].
          intros ->. unfold mem_resolver in Hm. rewrite Ha in Hm. discriminate.
        * eapply I_mono; [|apply I_record_resolver; [exact HI4 | exact Hfin | |]].
          -- intros k [<-|Hk]; [left; auto | exact Hk].
          -- destruct G4 as (_ & _ & G4). apply G4. unfold st3, record_resolver; cbn [s_retained]. apply retain_In.
          -- cbn [rn_failover]. apply P4. apply HI3.
        * unfold mem_resolver, record_resolver; cbn [s_resolvers].
          rewrite (assoc_upsert_same target_eqb target_eqb_eq). reflexivity.
  Qed.

  (* ---- getSplitterNode ---- *)

  Definition rec_ok (ip : list string) (rec : cstate -> string -> cres (cstate * option nid)) : Prop :=
    forall R st s st' r, AInv ip R st -> rec st s = Ok (st', r) ->
      le_state st st' /\ AInv ip (match r with Some id => id :: R | None => R end) st' /\
      match r with Some id => key_in st' id | None => True end.

  Lemma do_legs_spec ip rec self : rec_ok ip rec -> forall l R st st' edges,
    AInv ip R st -> do_legs es cx rec self st l = Ok (st', edges) ->
    le_state st st' /\ AInv ip (map snd edges ++ R) st' /\
    (forall e, In e edges -> key_in st' (snd e)) /\ List.length edges = List.length l.
  Proof.
    intros Hrec. induction l as [|sp l IH]; intros R st st' edges HI; cbn [do_legs].
    - intros H; injection H as <- <-. split; [apply le_state_refl|]. split; [exact HI|]. split; [intros ? []|reflexivity].
    - set (s := default_if_empty (sp_svc sp) self).
      destruct (if negb (s =? self) && (sp_sub sp =? "") then rec st s else Ok (st, None)) as [[st1 r]|e] eqn:E1; [|discriminate].
      assert (H1 : le_state st st1 /\ AInv ip (match r with Some id => id :: R | None => R end) st1 /\
                   match r with Some id => key_in st1 id | None => True end).
      { destruct (negb (s =? self) && (sp_sub sp =? "")); [eapply Hrec; eauto|].
        injection E1 as <- <-. split; [apply le_state_refl | auto]. }
      destruct H1 as (L1 & HI1 & K1). destruct r as [id|].
      + destruct (do_legs es cx rec self st1 l) as [[st2 edges2]|e] eqn:E2; [|discriminate].
        intros H; injection H as <- <-.
        destruct (IH _ _ _ _ HI1 E2) as (L2 & HI2 & K2 & Hlen).
        split; [eapply le_state_trans; eauto|]. split; [|split].
        * eapply I_mono; [|exact HI2]. cbn [map snd]. intros k Hk. apply in_app_or in Hk as [Hk|[<-|Hk]].
          -- right. apply in_or_app; auto.
          -- left; auto.
          -- right. apply in_or_app; auto.
        * intros e [<-|He]; [cbn [snd]; eapply le_state_key_in; eauto | auto].
        * cbn [List.length]. lia.
      + destruct (get_resolver_node es cx st1 (new_target cx s (sp_sub sp))) as [[st2 t']|e] eqn:E2; [|discriminate].
        destruct (get_resolver_node_spec ip _ _ _ _ _ E2 HI1) as (L2 & HI2 & M2 & _).
        destruct (do_legs es cx rec self st2 l) as [[st3 edges3]|e] eqn:E3; [|discriminate].
        intros H; injection H as <- <-.
        destruct (IH _ _ _ _ HI2 E3) as (L3 & HI3 & K3 & Hlen).
        split; [eapply le_state_trans; [exact L1|]; eapply le_state_trans; eauto|]. split; [|split].
        * eapply I_mono; [|exact HI3]. cbn [map snd]. intros k Hk. apply in_app_or in Hk as [Hk|[<-|Hk]].
          -- right. apply in_or_app; auto.
          -- left; auto.
          -- right. apply in_or_app; auto.
        * intros e [<-|He]; [cbn [snd]; eapply (le_state_key_in st2); eauto | auto].
        * cbn [List.length]. lia.
  Qed.

  Lemma get_splitter_node_spec : forall fuel ip, rec_ok ip (get_splitter_node es cx fuel).
  Proof.
    induction fuel as [|f IH]; intros ip R st s st' r HI; cbn [get_splitter_node].
    - destruct (mem_splitter st s) eqn:Em.
      { intros H; injection H as <- <-. split; [apply le_state_refl|].
        split; [eapply I_mono; [|exact HI]; intros ? ?; right; auto | exact Em]. }
      destruct (if disable_adv cx then None else get_splitter es s); [discriminate|].
      intros H; injection H as <- <-. split; [apply le_state_refl | auto].
    - destruct (mem_splitter st s) eqn:Em.
      { intros H; injection H as <- <-. split; [apply le_state_refl|].
        split; [eapply I_mono; [|exact HI]; intros ? ?; right; auto | exact Em]. }
      destruct (if disable_adv cx then None else get_splitter es s) as [splits|] eqn:Eg;
        [|intros H; injection H as <- <-; split; [apply le_state_refl | auto]].
      assert (Eg' : get_splitter es s = Some splits) by (destruct (disable_adv cx); [discriminate | exact Eg]).
      set (st1 := record_splitter st s []).
      destruct (do_legs es cx (get_splitter_node es cx f) s st1 splits) as [[st2 edges]|e] eqn:El; [|discriminate].
      intros H; injection H as <- <-.
      destruct HI as ((C1 & C2 & C3) & Hc & Hr).
      assert (L1 : le_state st st1) by (apply le_state_record_splitter; exact Em).
      assert (HI1 : AInv (s :: ip) (NSplitter s :: R) st1).
      { split; [split; [|split]|split].
        - intros x edges0 Ha e He. unfold st1, record_splitter in Ha; cbn [s_splitters] in Ha.
          rewrite (assoc_upsert String.eqb String.eqb_eq) in Ha. destruct (x =? s).
          + injection Ha as <-. destruct He.
          + apply key_in_record_splitter. left. eapply C1; eauto.
        - exact C2.
        - exact C3.
        - intros x edges0 Ha. unfold st1, record_splitter in Ha; cbn [s_splitters] in Ha.
          rewrite (assoc_upsert String.eqb String.eqb_eq) in Ha. destruct (x =? s) eqn:E.
          + apply String.eqb_eq in E; subst. left; left; auto.
          + destruct (Hc _ _ Ha) as [H|H]; [left; right; auto | right; auto].
        - intros k Hk. apply key_in_record_splitter in Hk as [Hk| ->].
          + destruct (Hr k Hk) as (r & Hi & Hp). exists r. split; [right; auto|].
            eapply reachN_mono; [|exact Hp]. intros x y. apply le_state_edge. exact L1.
          + exists (NSplitter s). split; [left; auto | constructor]. }
      destruct (do_legs_spec (s :: ip) _ s (IH (s :: ip)) _ _ _ _ _ HI1 El) as (L2 & ((D1 & D2 & D3) & Dc & Dr) & K2 & Hlen).
      assert (Hs2 : assoc String.eqb s (s_splitters st2) = Some []).
      { destruct L2 as (A & _). apply A. unfold st1, record_splitter; cbn [s_splitters].
        apply (assoc_upsert_same String.eqb String.eqb_eq). }
      set (st3 := record_splitter st2 s edges).
      assert (HI3 : AInv ip (NSplitter s :: R) st3).
      { split; [split; [|split]|split].
        - intros x edges0 Ha e He. apply key_in_record_splitter. left.
          unfold st3, record_splitter in Ha; cbn [s_splitters] in Ha.
          rewrite (assoc_upsert String.eqb String.eqb_eq) in Ha. destruct (x =? s).
          + injection Ha as <-. auto.
          + eapply D1; eauto.
        - exact D2.
        - exact D3.
        - intros x edges0 Ha. unfold st3, record_splitter in Ha; cbn [s_splitters] in Ha.
          rewrite (assoc_upsert String.eqb String.eqb_eq) in Ha. destruct (x =? s) eqn:E.
          + apply String.eqb_eq in E; subst. injection Ha as <-. right. exists splits. auto.
          + destruct (Dc _ _ Ha) as [[H|H]|H]; [|left; auto | right; auto].
            apply String.eqb_neq in E. congruence.
        - assert (Hlift : forall a b, reachN (tn st2) a b -> reachN (tn st3) a b).
          { intros a b. apply reachN_mono. intros x y He. apply edge_to_nodes in He as (s0 & e0 & -> & Ha & Hb).
            apply edge_to_nodes. exists s0. unfold st3, record_splitter; cbn [s_splitters].
            rewrite (assoc_upsert String.eqb String.eqb_eq). destruct (s0 =? s) eqn:E.
            - apply String.eqb_eq in E; subst. rewrite Hs2 in Ha. injection Ha as <-. destruct Hb.
            - exists e0. auto. }
          intros k Hk. apply key_in_record_splitter in Hk.
          assert (Hk2 : key_in st2 k).
          { destruct Hk as [Hk| ->]; auto. cbn [key_in]. unfold mem_splitter. rewrite Hs2. reflexivity. }
          destruct (Dr k Hk2) as (r & Hi & Hp). apply Hlift in Hp.
          apply in_app_or in Hi as [Hi|Hi].
          + exists (NSplitter s). split; [left; auto|]. eapply reach_step; [|exact Hp].
            apply edge_to_nodes. exists s, edges. split; auto. split; auto.
            unfold st3, record_splitter; cbn [s_splitters]. apply (assoc_upsert_same String.eqb String.eqb_eq).
          + exists r. auto. }
      split; [|split].
      + apply (le_state_trans st st3); [|apply (le_state_trans st3 (set_adv st3)); [apply le_state_set_adv | apply le_state_refl]].
        pose proof (le_state_trans _ _ _ L1 L2) as (A1 & A2 & A3). split; [|split]; auto.
        intros x v Ha. unfold st3, record_splitter; cbn [s_splitters].
        rewrite (assoc_upsert_other String.eqb String.eqb_eq); [auto|].
        intros ->. unfold mem_splitter in Em. rewrite Ha in Em. discriminate.
      + eapply same_graph_I; [apply same_graph_set_adv | exact HI3].
      + apply (same_graph_key_in st3); [apply same_graph_set_adv|].
        apply key_in_record_splitter. right; reflexivity.
  Qed.

  Lemma get_split_or_resolve_spec ip R st t st' id :
    AInv ip R st -> get_split_or_resolve es cx st t = Ok (st', id) ->
    le_state st st' /\ AInv ip (id :: R) st' /\ key_in st' id.
  Proof.
    intros HI. unfold get_split_or_resolve.
    destruct (get_splitter_node es cx (splitter_fuel es) st (t_svc t)) as [[st1 r]|e] eqn:E1; [|discriminate].
    destruct (get_splitter_node_spec _ ip R _ _ _ _ HI E1) as (L1 & HI1 & K1). destruct r as [id1|].
    - intros H; injection H as <- <-. auto.
    - destruct (get_resolver_node es cx st1 t) as [[st2 t']|e] eqn:E2; [|discriminate].
      intros H; injection H as <- <-.
      destruct (get_resolver_node_spec ip _ _ _ _ _ E2 HI1) as (L2 & HI2 & M2 & _).
      split; [eapply le_state_trans; eauto | auto].
  Qed.

  Lemma do_routes_spec ip : forall l R st st' ids,
    AInv ip R st -> do_routes es cx svc st l = Ok (st', ids) ->
    le_state st st' /\ AInv ip (ids ++ R) st' /\ (forall id, In id ids -> key_in st' id).
  Proof.
    induction l as [|r l IH]; intros R st st' ids HI; cbn [do_routes].
    - intros H; injection H as <- <-. split; [apply le_state_refl|]. split; [exact HI | intros ? []].
    - set (s := default_if_empty (rt_svc r) svc).
      destruct (if rt_sub r =? "" then get_split_or_resolve es cx st (new_target cx s "")
                else match get_resolver_node es cx st (new_target cx s (rt_sub r)) with
                     | Err e => Err e | Ok (st1, t') => Ok (st1, NResolver t') end) as [[st1 id]|e] eqn:E1; [|discriminate].
      assert (H1 : le_state st st1 /\ AInv ip (id :: R) st1 /\ key_in st1 id).
      { destruct (rt_sub r =? ""); [eapply get_split_or_resolve_spec; eauto|].
        destruct (get_resolver_node es cx st (new_target cx s (rt_sub r))) as [[st1' t']|e] eqn:E2; [|discriminate].
        injection E1 as <- <-. destruct (get_resolver_node_spec ip _ _ _ _ _ E2 HI) as (L2 & HI2 & M2 & _). auto. }
      destruct H1 as (L1 & HI1 & K1).
      destruct (do_routes es cx svc st1 l) as [[st2 ids2]|e] eqn:E2; [|discriminate].
      intros H; injection H as <- <-. destruct (IH _ _ _ _ HI1 E2) as (L2 & HI2 & K2).
      split; [eapply le_state_trans; eauto|]. split.
      + eapply I_mono; [|exact HI2]. intros k Hk. apply in_app_or in Hk as [Hk|[<-|Hk]].
        * right. apply in_or_app; auto.
        * left; auto.
        * right. apply in_or_app; auto.
      + intros x [<-|Hx]; [eapply le_state_key_in; eauto | auto].
  Qed.

  Lemma I_st0 : AInv [] [] st0.
  Proof.
    split; [split; [|split]|split].
    - intros s edges Ha. discriminate.
    - intros t n Ha. discriminate.
    - intros t Ht. discriminate.
    - intros s edges Ha. discriminate.
    - intros k Hk. destruct k; cbn in Hk; [destruct Hk | discriminate | discriminate].
  Qed.

  (* what assembleChain hands to the passes *)
  Theorem assemble_spec st start router :
    assemble es cx svc = Ok (st, start, router) ->
    let ns := to_nodes svc st router in
    closed ns /\ lookup start ns <> None /\ (forall k, lookup k ns <> None -> reachN ns start k) /\
    Closed_st st /\ Counted [] st /\
    match router with
    | Some l => l <> [] /\ start = NRouter svc
    | None => key_in st start
    end.
  Proof.
    unfold assemble.
    assert (Hlift : forall r a b, reachN (tn st) a b -> reachN (to_nodes svc st r) a b).
    { intros r a b. apply reachN_mono. intros x y (nd & Hl & Hc). exists nd. split; auto.
      rewrite lookup_to_nodes in Hl |- *. destruct x; [discriminate | exact Hl | exact Hl]. }
    destruct (if disable_adv cx then None else get_router es svc) as [routes|].
    - destruct (record_protocol es (set_adv st0) svc) as [st1|e] eqn:Ep; [|discriminate].
      assert (HI1 : AInv [] [] st1).
      { eapply same_graph_I; [apply same_tables_graph; eapply record_protocol_tables; eauto|].
        eapply same_graph_I; [apply same_graph_set_adv | apply I_st0]. }
      destruct (do_routes es cx svc st1 routes) as [[st2 ids]|e] eqn:Er; [|discriminate].
      destruct (do_routes_spec [] _ _ _ _ _ HI1 Er) as (L2 & HI2 & K2).
      destruct (get_split_or_resolve es cx st2 (new_target cx svc "")) as [[st3 d]|e] eqn:Ed; [|discriminate].
      destruct (get_split_or_resolve_spec [] _ _ _ _ _ HI2 Ed) as (L3 & ((C1 & C2 & C3) & Hc & Hr) & K3).
      intros H; injection H as <- <- <-. cbn zeta.
      assert (Hids : forall id, In id (ids ++ [d]) -> key_in st3 id).
      { intros id Hi. apply in_app_or in Hi as [Hi|[<-|[]]]; [eapply le_state_key_in; eauto | auto]. }
      split; [|split; [|split; [|split; [|split]]]].
      + intros a b (nd & Hl & Hb). rewrite lookup_to_nodes in Hl.
        assert (Hkb : key_in st3 b).
        { destruct a as [x|x|x].
          - destruct (x =? svc); [|discriminate]. injection Hl as <-. apply Hids. exact Hb.
          - destruct (assoc String.eqb x (s_splitters st3)) as [e0|] eqn:E0; [|discriminate]. injection Hl as <-.
            cbn [children] in Hb. apply in_map_iff in Hb as (e1 & <- & He1). eapply C1; eauto.
          - destruct (assoc target_eqb x (s_resolvers st3)); [|discriminate]. injection Hl as <-. destruct Hb. }
        apply (key_in_lookup svc) in Hkb. rewrite lookup_to_nodes in Hkb |- *. destruct b; [destruct Hkb; reflexivity | exact Hkb | exact Hkb].
      + rewrite lookup_to_nodes, String.eqb_refl. discriminate.
      + intros k Hk. rewrite lookup_to_nodes in Hk. destruct k as [x|x|x].
        * destruct (x =? svc) eqn:E; [|congruence]. apply String.eqb_eq in E; subst. constructor.
        * assert (Hki : key_in st3 (NSplitter x)).
          { apply (key_in_lookup svc). rewrite lookup_to_nodes. exact Hk. }
          destruct (Hr _ Hki) as (r & Hi & Hp). apply (Hlift (Some (ids ++ [d]))) in Hp.
          eapply reach_step; [|exact Hp]. exists (RouterN (ids ++ [d])). rewrite lookup_to_nodes, String.eqb_refl.
          split; auto. cbn [children]. destruct Hi as [<-|Hi]; apply in_or_app; [right; left; auto|].
          rewrite app_nil_r in Hi. left; auto.
        * assert (Hki : key_in st3 (NResolver x)).
          { apply (key_in_lookup svc). rewrite lookup_to_nodes. exact Hk. }
          destruct (Hr _ Hki) as (r & Hi & Hp). apply (Hlift (Some (ids ++ [d]))) in Hp.
          eapply reach_step; [|exact Hp]. exists (RouterN (ids ++ [d])). rewrite lookup_to_nodes, String.eqb_refl.
          split; auto. cbn [children]. destruct Hi as [<-|Hi]; apply in_or_app; [right; left; auto|].
          rewrite app_nil_r in Hi. left; auto.
      + split; [|split]; auto.
      + exact Hc.
      + split; [destruct ids; discriminate | reflexivity].
    - destruct (get_split_or_resolve es cx st0 (new_target cx svc "")) as [[st1 id]|e] eqn:Ed; [|discriminate].
      destruct (get_split_or_resolve_spec [] _ _ _ _ _ I_st0 Ed) as (L1 & ((C1 & C2 & C3) & Hc & Hr) & K1).
      intros H; injection H as <- <- <-. cbn zeta.
      split; [|split; [|split; [|split; [|split]]]].
      + intros a b (nd & Hl & Hb). rewrite lookup_to_nodes in Hl.
        assert (Hkb : key_in st1 b).
        { destruct a as [x|x|x]; [discriminate| |].
          - destruct (assoc String.eqb x (s_splitters st1)) as [e0|] eqn:E0; [|discriminate]. injection Hl as <-.
            cbn [children] in Hb. apply in_map_iff in Hb as (e1 & <- & He1). eapply C1; eauto.
          - destruct (assoc target_eqb x (s_resolvers st1)); [|discriminate]. injection Hl as <-. destruct Hb. }
        apply (key_in_lookup svc). exact Hkb.
      + apply (key_in_lookup svc). exact K1.
      + intros k Hk. apply (key_in_lookup svc) in Hk. destruct (Hr _ Hk) as (r & [<-|[]] & Hp). exact Hp.
      + split; [|split]; auto.
      + exact Hc.
      + exact K1.
  Qed.

  (* ---- no loop bound is exhausted ---- *)

  Lemma resolve_ff_no_fuel st t : resolve_ff es cx st t <> Err EOutOfFuel.
  Proof.
    unfold resolve_ff. pose proof (resolve_loop_terminates es cx st t) as H.
    destruct (resolve_loop es cx (redirect_fuel es) st [] t) as [[st1 [x|x r]]|e]; try discriminate.
    - destruct (external_check es r x) as [e|] eqn:E; [|discriminate].
      unfold external_check in E. destruct (get_defaults es (t_svc x)) as [[? [|]]|]; try discriminate.
      destruct (rs_redirect r); [injection E as <-; discriminate|].
      destruct (rs_subsets r); [|injection E as <-; discriminate].
      destruct (rs_failover r); [discriminate | injection E as <-; discriminate].
    - congruence.
  Qed.

  Lemma external_check_no_fuel r x e : external_check es r x = Some e -> e <> EOutOfFuel.
  Proof.
    unfold external_check. destruct (get_defaults es (t_svc x)) as [[? [|]]|]; try discriminate.
    destruct (rs_redirect r); [intros E; injection E as <-; discriminate|].
    destruct (rs_subsets r); [|intros E; injection E as <-; discriminate].
    destruct (rs_failover r); [discriminate | intros E; injection E as <-; discriminate].
  Qed.

  Lemma resolve_failovers_no_fuel : forall l st, resolve_failovers es cx st l <> Err EOutOfFuel.
  Proof.
    induction l as [|ft l IH]; intros st; cbn [resolve_failovers]; [discriminate|].
    pose proof (resolve_ff_no_fuel st ft) as H.
    destruct (resolve_ff es cx st ft) as [[st1 t1]|e]; [|congruence].
    specialize (IH st1). destruct (resolve_failovers es cx st1 l) as [[st2 ts]|e]; [discriminate | congruence].
  Qed.

  Lemma get_resolver_node_no_fuel st t : get_resolver_node es cx st t <> Err EOutOfFuel.
  Proof.
    unfold get_resolver_node. pose proof (resolve_loop_terminates es cx st t) as H.
    destruct (resolve_loop es cx (redirect_fuel es) st [] t) as [[st1 [x|x r]]|e]; try discriminate; [|congruence].
    destruct (external_check es r x) as [e|] eqn:E; [apply external_check_no_fuel in E; congruence|].
    match goal with |- context [resolve_failovers es cx ?s ?l] =>
      pose proof (resolve_failovers_no_fuel l s) as Hf; destruct (resolve_failovers es cx s l) as [[st4 [|? ?]]|e] end;
      try discriminate. congruence.
  Qed.

  Definition snames : list string :=
    dedup String.eqb (flat_map (fun e => match e with ESplitter n _ => [n] | _ => [] end) es).

  Definition unrec (st : cstate) : list string := filter (fun n => negb (mem_splitter st n)) snames.

  Lemma snames_length : List.length snames <= List.length es.
  Proof.
    unfold snames. eapply Nat.le_trans; [apply dedup_length; apply String.eqb_eq|].
    eapply Nat.le_trans; [apply (flat_map_length_le _ 1)|lia]. intros [ | | | | ]; cbn; lia.
  Qed.

  Lemma get_splitter_In s l : get_splitter es s = Some l -> In s snames.
  Proof.
    unfold get_splitter. destruct (lookup_entry es (KSplitter, s)) as [e|] eqn:E; [|discriminate].
    apply lookup_entry_In in E as [Hi Hk]. destruct e; try discriminate. intros _.
    cbn [ekey] in Hk. injection Hk as ->. unfold snames. apply (dedup_In String.eqb String.eqb_eq).
    apply in_flat_map. eexists; split; [exact Hi|]. left; reflexivity.
  Qed.

  Lemma filter_length_le {A} (f g : A -> bool) l :
    (forall x, f x = true -> g x = true) -> List.length (filter f l) <= List.length (filter g l).
  Proof.
    intros H. induction l as [|x l IH]; cbn [filter]; [lia|].
    destruct (f x) eqn:E; [rewrite (H x E); cbn [List.length]; lia|].
    destruct (g x); cbn [List.length]; lia.
  Qed.

  Lemma filter_length_lt {A} (f g : A -> bool) l x :
    In x l -> g x = true -> f x = false -> (forall y, f y = true -> g y = true) ->
    List.length (filter f l) < List.length (filter g l).
  Proof.
    intros Hi Hg Hf H. induction l as [|y l IH]; [destruct Hi|]. cbn [filter]. destruct Hi as [->|Hi].
    - rewrite Hg, Hf. cbn [List.length]. pose proof (filter_length_le f g l H). lia.
    - specialize (IH Hi). destruct (f y) eqn:E; [rewrite (H y E); cbn [List.length]; lia|].
      destruct (g y); cbn [List.length]; lia.
  Qed.

  Lemma unrec_le st st' : le_state st st' -> List.length (unrec st') <= List.length (unrec st).
  Proof.
    intros (H1 & _). apply filter_length_le. intros x Hx. apply negb_true_iff in Hx. apply negb_true_iff.
    unfold mem_splitter in *. destruct (assoc String.eqb x (s_splitters st)) eqn:E; [|reflexivity].
    rewrite (H1 _ _ E) in Hx. discriminate.
  Qed.

  Lemma unrec_record st s l e :
    get_splitter es s = Some l -> mem_splitter st s = false ->
    List.length (unrec (record_splitter st s e)) < List.length (unrec st).
  Proof.
    intros Hg Hm. apply (filter_length_lt _ _ _ s).
    - eapply get_splitter_In; eauto.
    - rewrite Hm. reflexivity.
    - apply negb_false_iff. unfold mem_splitter, record_splitter; cbn [s_splitters].
      rewrite (assoc_upsert_same String.eqb String.eqb_eq). reflexivity.
    - intros y Hy. apply negb_true_iff in Hy. apply negb_true_iff.
      pose proof (le_state_record_splitter st s e Hm) as (H1 & _).
      unfold mem_splitter in *. destruct (assoc String.eqb y (s_splitters st)) eqn:E; [|reflexivity].
      rewrite (H1 _ _ E) in Hy. discriminate.
  Qed.

  Lemma do_legs_no_fuel ip rec self f :
    rec_ok ip rec ->
    (forall R st s, AInv ip R st -> List.length (unrec st) <= f -> rec st s <> Err EOutOfFuel) ->
    forall l R st, AInv ip R st -> List.length (unrec st) <= f -> do_legs es cx rec self st l <> Err EOutOfFuel.
  Proof.
    intros Hok Hnf. induction l as [|sp l IH]; intros R st HI Hlen; cbn [do_legs]; [discriminate|].
    set (s := default_if_empty (sp_svc sp) self).
    destruct (if negb (s =? self) && (sp_sub sp =? "") then rec st s else Ok (st, None)) as [[st1 r]|e] eqn:E1.
    - assert (H1 : le_state st st1 /\ AInv ip (match r with Some id => id :: R | None => R end) st1).
      { destruct (negb (s =? self) && (sp_sub sp =? "")); [destruct (Hok _ _ _ _ _ HI E1) as (A & B & _); auto|].
        injection E1 as <- <-. split; [apply le_state_refl | auto]. }
      destruct H1 as [L1 HI1]. pose proof (unrec_le _ _ L1) as U1. destruct r as [id|].
      + specialize (IH _ _ HI1 ltac:(lia)). destruct (do_legs es cx rec self st1 l) as [[? ?]|e]; [discriminate | congruence].
      + pose proof (get_resolver_node_no_fuel st1 (new_target cx s (sp_sub sp))) as Hr.
        destruct (get_resolver_node es cx st1 (new_target cx s (sp_sub sp))) as [[st2 t']|e] eqn:E2; [|congruence].
        destruct (get_resolver_node_spec ip _ _ _ _ _ E2 HI1) as (L2 & HI2 & _).
        pose proof (unrec_le _ _ L2) as U2.
        specialize (IH _ _ HI2 ltac:(lia)). destruct (do_legs es cx rec self st2 l) as [[? ?]|e]; [discriminate | congruence].
    - destruct (negb (s =? self) && (sp_sub sp =? "")); [|discriminate].
      intros H; injection H as ->. eapply Hnf; eauto.
  Qed.

  Lemma get_splitter_node_no_fuel : forall fuel ip R st s,
    AInv ip R st -> List.length (unrec st) <= fuel -> get_splitter_node es cx fuel st s <> Err EOutOfFuel.
  Proof.
    induction fuel as [|f IH]; intros ip R st s HI Hlen; cbn [get_splitter_node].
    - destruct (mem_splitter st s) eqn:Em; [discriminate|].
      destruct (if disable_adv cx then None else get_splitter es s) as [splits|] eqn:Eg; [|discriminate].
      assert (Eg' : get_splitter es s = Some splits) by (destruct (disable_adv cx); [discriminate | exact Eg]).
      pose proof (unrec_record st s splits [] Eg' Em). lia.
    - destruct (mem_splitter st s) eqn:Em; [discriminate|].
      destruct (if disable_adv cx then None else get_splitter es s) as [splits|] eqn:Eg; [|discriminate].
      assert (Eg' : get_splitter es s = Some splits) by (destruct (disable_adv cx); [discriminate | exact Eg]).
      pose proof (unrec_record st s splits [] Eg' Em) as Hlt.
      (* the state after recording the empty node, with its invariant *)
      assert (HI1 : AInv (s :: ip) (NSplitter s :: R) (record_splitter st s [])).
      { destruct HI as ((C1 & C2 & C3) & Hc & Hr).
        assert (L1 : le_state st (record_splitter st s [])) by (apply le_state_record_splitter; exact Em).
        split; [split; [|split]|split].
        - intros x edges0 Ha e He. unfold record_splitter in Ha; cbn [s_splitters] in Ha.
          rewrite (assoc_upsert String.eqb String.eqb_eq) in Ha. destruct (x =? s).
          + injection Ha as <-. destruct He.
          + apply key_in_record_splitter. left. eapply C1; eauto.
        - exact C2.
        - exact C3.
        - intros x edges0 Ha. unfold record_splitter in Ha; cbn [s_splitters] in Ha.
          rewrite (assoc_upsert String.eqb String.eqb_eq) in Ha. destruct (x =? s) eqn:E.
          + apply String.eqb_eq in E; subst. left; left; auto.
          + destruct (Hc _ _ Ha) as [H|H]; [left; right; auto | right; auto].
        - intros k Hk. apply key_in_record_splitter in Hk as [Hk| ->].
          + destruct (Hr k Hk) as (r & Hi & Hp). exists r. split; [right; auto|].
            eapply reachN_mono; [|exact Hp]. intros x y. apply le_state_edge. exact L1.
          + exists (NSplitter s). split; [left; auto | constructor]. }
      pose proof (do_legs_no_fuel (s :: ip) (get_splitter_node es cx f) s f (get_splitter_node_spec f (s :: ip))
                   (fun R0 st0 s0 H0 H1 => IH (s :: ip) R0 st0 s0 H0 H1) splits _ _ HI1 ltac:(lia)) as Hd.
      destruct (do_legs es cx (get_splitter_node es cx f) s (record_splitter st s []) splits) as [[? ?]|e]; [discriminate | congruence].
  Qed.

  Lemma unrec_bound st : List.length (unrec st) <= splitter_fuel es.
  Proof.
    unfold unrec, splitter_fuel. pose proof snames_length as H.
    assert (forall (f : string -> bool) l, List.length (filter f l) <= List.length l) as Hf.
    { intros f l. induction l as [|x l IH]; cbn [filter List.length]; [lia|]. destruct (f x); cbn [List.length]; lia. }
    specialize (Hf (fun n => negb (mem_splitter st n)) snames). lia.
  Qed.

  Lemma get_split_or_resolve_no_fuel ip R st t : AInv ip R st -> get_split_or_resolve es cx st t <> Err EOutOfFuel.
  Proof.
    intros HI. unfold get_split_or_resolve.
    pose proof (get_splitter_node_no_fuel (splitter_fuel es) ip R st (t_svc t) HI (unrec_bound st)) as H1.
    destruct (get_splitter_node es cx (splitter_fuel es) st (t_svc t)) as [[st1 [id|]]|e] eqn:E1; [discriminate| |congruence].
    pose proof (get_resolver_node_no_fuel st1 t) as H2.
    destruct (get_resolver_node es cx st1 t) as [[? ?]|e]; [discriminate | congruence].
  Qed.

  Lemma do_routes_no_fuel ip : forall l R st, AInv ip R st -> do_routes es cx svc st l <> Err EOutOfFuel.
  Proof.
    induction l as [|r l IH]; intros R st HI; cbn [do_routes]; [discriminate|].
    set (s := default_if_empty (rt_svc r) svc).
    destruct (if rt_sub r =? "" then get_split_or_resolve es cx st (new_target cx s "")
              else match get_resolver_node es cx st (new_target cx s (rt_sub r)) with
                   | Err e => Err e | Ok (st1, t') => Ok (st1, NResolver t') end) as [[st1 id]|e] eqn:E1.
    - assert (HI1 : AInv ip (id :: R) st1).
      { destruct (rt_sub r =? ""); [eapply get_split_or_resolve_spec; eauto|].
        destruct (get_resolver_node es cx st (new_target cx s (rt_sub r))) as [[st1' t']|e] eqn:E2; [|discriminate].
        injection E1 as <- <-. destruct (get_resolver_node_spec ip _ _ _ _ _ E2 HI) as (L2 & HI2 & M2 & _). auto. }
      specialize (IH _ _ HI1). destruct (do_routes es cx svc st1 l) as [[? ?]|e']; [discriminate | congruence].
    - destruct (rt_sub r =? "").
      + pose proof (get_split_or_resolve_no_fuel ip R st (new_target cx s "") HI). congruence.
      + pose proof (get_resolver_node_no_fuel st (new_target cx s (rt_sub r))) as H2.
        destruct (get_resolver_node es cx st (new_target cx s (rt_sub r))) as [[? ?]|e']; [discriminate | congruence].
  Qed.

  Theorem assemble_no_fuel : assemble es cx svc <> Err EOutOfFuel.
  Proof.
    unfold assemble. destruct (if disable_adv cx then None else get_router es svc) as [routes|].
    - destruct (record_protocol es (set_adv st0) svc) as [st1|e] eqn:Ep;
        [|apply record_protocol_err in Ep; subst; discriminate].
      assert (HI1 : AInv [] [] st1).
      { eapply same_graph_I; [apply same_tables_graph; eapply record_protocol_tables; eauto|].
        eapply same_graph_I; [apply same_graph_set_adv | apply I_st0]. }
      pose proof (do_routes_no_fuel [] routes _ _ HI1) as H1.
      destruct (do_routes es cx svc st1 routes) as [[st2 ids]|e] eqn:Er; [|congruence].
      destruct (do_routes_spec [] _ _ _ _ _ HI1 Er) as (L2 & HI2 & K2).
      pose proof (get_split_or_resolve_no_fuel [] _ st2 (new_target cx svc "") HI2) as H2.
      destruct (get_split_or_resolve es cx st2 (new_target cx svc "")) as [[? ?]|e]; [discriminate | congruence].
    - pose proof (get_split_or_resolve_no_fuel [] [] st0 (new_target cx svc "") I_st0) as H2.
      destruct (get_split_or_resolve es cx st0 (new_target cx svc "")) as [[? ?]|e]; [discriminate | congruence].
  Qed.
End Asm.
