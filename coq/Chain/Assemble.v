(* C15 — invariants of assembleChain: the memo tables only grow, every recorded edge points at
   a recorded node, every resolver node has its targets retained, memoised resolver targets are
   final, every recorded node is reachable from the nodes handed back so far, and no loop bound
   is exhausted. *)
From Verif Require Import Base.Prelude Chain.Model Chain.Lemmas Chain.Passes Chain.Resolve.
Local Open Scope string_scope.
Local Open Scope list_scope.

(* ------------------------------------------------------------------ the node table of a state *)

Lemma assoc_app {A B} (eqb : A -> A -> bool) k (l1 l2 : list (A * B)) :
  assoc eqb k (l1 ++ l2) = match assoc eqb k l1 with Some v => Some v | None => assoc eqb k l2 end.
Proof.
  induction l1 as [|[k0 v0] l1 IH]; cbn [app assoc]; [reflexivity|]. destruct (eqb k k0); auto.
Qed.

Lemma lookup_map_splitters (l : list (string * list sedge)) k :
  lookup k (map (fun p => (NSplitter (fst p), SplitterN (snd p))) l) =
  match k with NSplitter s => option_map SplitterN (assoc String.eqb s l) | _ => None end.
Proof.
  induction l as [|[s0 e0] l IH]; cbn [map assoc fst snd]; [destruct k; reflexivity|].
  destruct k as [x|x|x]; cbn [nid_eqb]; try exact IH.
  destruct (x =? s0); [reflexivity | exact IH].
Qed.

Lemma lookup_map_resolvers (l : list (target * rnode)) k :
  lookup k (map (fun p => (NResolver (fst p), ResolverN (rn_default (snd p)) (rn_failover (snd p)))) l) =
  match k with
  | NResolver t => option_map (fun n => ResolverN (rn_default n) (rn_failover n)) (assoc target_eqb t l)
  | _ => None
  end.
Proof.
  induction l as [|[t0 n0] l IH]; cbn [map assoc fst snd]; [destruct k; reflexivity|].
  destruct k as [x|x|x]; cbn [nid_eqb]; try exact IH.
  destruct (target_eqb x t0); [reflexivity | exact IH].
Qed.

Lemma lookup_to_nodes svc st router k :
  lookup k (to_nodes svc st router) =
  match k with
  | NRouter x => match router with Some l => if x =? svc then Some (RouterN l) else None | None => None end
  | NSplitter s => option_map SplitterN (assoc String.eqb s (s_splitters st))
  | NResolver t => option_map (fun n => ResolverN (rn_default n) (rn_failover n)) (assoc target_eqb t (s_resolvers st))
  end.
Proof.
  unfold to_nodes. rewrite !assoc_app, lookup_map_splitters, lookup_map_resolvers.
  destruct router as [l|]; cbn [assoc]; destruct k as [x|x|x]; cbn [nid_eqb]; try reflexivity.
  - destruct (x =? svc); reflexivity.
  - destruct (option_map SplitterN (assoc String.eqb x (s_splitters st))); reflexivity.
  - destruct (option_map SplitterN (assoc String.eqb x (s_splitters st))); reflexivity.
Qed.

Definition key_in (st : cstate) (k : nid) : Prop :=
  match k with
  | NRouter _ => False
  | NSplitter s => mem_splitter st s = true
  | NResolver t => mem_resolver st t = true
  end.

Lemma key_in_lookup svc st k : key_in st k <-> lookup k (to_nodes svc st None) <> None.
Proof.
  rewrite lookup_to_nodes. destruct k as [x|x|x]; cbn [key_in]; unfold mem_splitter, mem_resolver.
  - tauto.
  - destruct (assoc String.eqb x (s_splitters st)); cbn; split; congruence.
  - destruct (assoc target_eqb x (s_resolvers st)); cbn; split; congruence.
Qed.

(* the edges of a state's table: a recorded splitter and one of its recorded legs *)
Lemma edge_to_nodes svc st a b :
  edge (to_nodes svc st None) a b <->
  exists s edges, a = NSplitter s /\ assoc String.eqb s (s_splitters st) = Some edges /\ In b (map snd edges).
Proof.
  unfold edge. split.
  - intros (nd & Hl & Hc). rewrite lookup_to_nodes in Hl. destruct a as [x|x|x]; [discriminate| |].
    + destruct (assoc String.eqb x (s_splitters st)) as [e|] eqn:E; [|discriminate].
      injection Hl as <-. exists x, e. auto.
    + destruct (assoc target_eqb x (s_resolvers st)); [|discriminate]. injection Hl as <-. destruct Hc.
  - intros (s & edges & -> & Ha & Hb). exists (SplitterN edges). rewrite lookup_to_nodes, Ha. auto.
Qed.

(* ------------------------------------------------------------------ order on states *)

(* what a call may do to the state it is given: add bindings and retained targets, never touch a
   binding that is already there *)
Definition le_state (st st' : cstate) : Prop :=
  (forall s v, assoc String.eqb s (s_splitters st) = Some v -> assoc String.eqb s (s_splitters st') = Some v) /\
  (forall t v, assoc target_eqb t (s_resolvers st) = Some v -> assoc target_eqb t (s_resolvers st') = Some v) /\
  incl (s_retained st) (s_retained st').

Lemma le_state_refl st : le_state st st.
Proof. repeat split; auto. apply incl_refl. Qed.

Lemma le_state_trans a b c : le_state a b -> le_state b c -> le_state a c.
Proof.
  intros (A1 & A2 & A3) (B1 & B2 & B3). repeat split; auto. eapply incl_tran; eauto.
Qed.

Lemma le_state_key_in st st' k : le_state st st' -> key_in st k -> key_in st' k.
Proof.
  intros (H1 & H2 & _). destruct k as [x|x|x]; cbn [key_in]; auto; unfold mem_splitter, mem_resolver.
  - destruct (assoc String.eqb x (s_splitters st)) eqn:E; [|discriminate]. rewrite (H1 _ _ E). auto.
  - destruct (assoc target_eqb x (s_resolvers st)) eqn:E; [|discriminate]. rewrite (H2 _ _ E). auto.
Qed.

Lemma le_state_edge svc st st' a b :
  le_state st st' -> edge (to_nodes svc st None) a b -> edge (to_nodes svc st' None) a b.
Proof.
  intros (H1 & _) He. apply edge_to_nodes in He as (s & edges & -> & Ha & Hb).
  apply edge_to_nodes. exists s, edges. auto.
Qed.

Lemma reachN_mono ns ns' a b :
  (forall x y, edge ns x y -> edge ns' x y) -> reachN ns a b -> reachN ns' a b.
Proof. intros H Hr. induction Hr; [constructor | econstructor; eauto]. Qed.

Lemma same_tables_le st st' : same_tables st st' -> le_state st st'.
Proof.
  intros (H1 & H2 & H3 & _). unfold le_state. rewrite H1, H2, H3. repeat split; auto. apply incl_refl.
Qed.

Lemma le_state_retain st t : le_state st (retain st t).
Proof.
  unfold le_state, retain; cbn [s_splitters s_resolvers s_retained]. repeat split; auto.
  destruct (memb target_eqb t (s_retained st)); [apply incl_refl | apply incl_appl, incl_refl].
Qed.

Lemma retain_In st t : In t (s_retained (retain st t)).
Proof.
  unfold retain; cbn [s_retained]. destruct (memb target_eqb t (s_retained st)) eqn:E.
  - apply (memb_In target_eqb target_eqb_eq). exact E.
  - apply in_or_app. right. left. reflexivity.
Qed.

Lemma le_state_record_resolver st t n : mem_resolver st t = false -> le_state st (record_resolver st t n).
Proof.
  intros Hm. unfold le_state, record_resolver; cbn [s_splitters s_resolvers s_retained].
  repeat split; auto; [|apply incl_refl].
  intros x v Hx. rewrite (assoc_upsert target_eqb target_eqb_eq). destruct (target_eqb x t) eqn:E; auto.
  apply target_eqb_eq in E; subst. unfold mem_resolver in Hm. rewrite Hx in Hm. discriminate.
Qed.

Lemma le_state_record_splitter st s e : mem_splitter st s = false -> le_state st (record_splitter st s e).
Proof.
  intros Hm. unfold le_state, record_splitter; cbn [s_splitters s_resolvers s_retained].
  repeat split; auto; [|apply incl_refl].
  intros x v Hx. rewrite (assoc_upsert String.eqb String.eqb_eq). destruct (x =? s) eqn:E; auto.
  apply String.eqb_eq in E; subst. unfold mem_splitter in Hm. rewrite Hx in Hm. discriminate.
Qed.

Lemma le_state_set_adv st : le_state st (set_adv st).
Proof. unfold le_state, set_adv; cbn. repeat split; auto. apply incl_refl. Qed.
